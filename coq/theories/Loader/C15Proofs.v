(* C15 - populate_world_from_dict / World side of a load, and the main
   theorem: the three-pass pipeline satisfies the one-pass specification. *)
From Coq Require Import ZArith List Bool Lia ZifyBool FinFun.
From Desper Require Import Lib.Alist Loader.Value Loader.C15Model Loader.C15Lemmas.
Import ListNotations.
Open Scope Z_scope.

(* ---- lists -------------------------------------------------------------------- *)
Lemma zseq_length s n : length (zseq s n) = n.
Proof. revert s; induction n as [|n IH]; intro s; cbn [zseq length]; [reflexivity|now rewrite IH]. Qed.

Lemma zseq_In x s n : In x (zseq s n) <-> s <= x < s + Z.of_nat n.
Proof.
  revert s; induction n as [|n IH]; intro s; cbn [zseq In].
  - lia.
  - rewrite IH. lia.
Qed.

Lemma zseq_NoDup s n : NoDup (zseq s n).
Proof.
  revert s; induction n as [|n IH]; intro s; cbn [zseq]; constructor.
  - rewrite zseq_In. lia.
  - apply IH.
Qed.

Lemma map_fst_combine {A B} (l : list A) (m : list B) :
  length l = length m -> map fst (combine l m) = l.
Proof.
  revert m; induction l as [|x l IH]; intros [|y m] H; cbn in *; try discriminate; [reflexivity|].
  f_equal. apply IH. lia.
Qed.

Lemma map_snd_combine {A B} (l : list A) (m : list B) :
  length l = length m -> map snd (combine l m) = m.
Proof.
  revert m; induction l as [|x l IH]; intros [|y m] H; cbn in *; try discriminate; [reflexivity|].
  f_equal. apply IH. lia.
Qed.

Lemma flat_map_flat_map {A B C} (f : A -> list B) (g : B -> list C) l :
  flat_map g (flat_map f l) = flat_map (fun x => flat_map g (f x)) l.
Proof.
  induction l as [|x l IH]; cbn [flat_map]; [reflexivity|]. now rewrite flat_map_app, IH.
Qed.

Lemma flat_map_combine_map {A B C D X} (f : A * B -> list X) (g : A * C -> list X)
      (p : D -> B) (q : D -> C) (l : list A) (m : list D) :
  (forall a d, f (a, p d) = g (a, q d)) ->
  flat_map f (combine l (map p m)) = flat_map g (combine l (map q m)).
Proof.
  intro H. revert m; induction l as [|a l IH]; intros [|d m]; cbn [map combine flat_map];
    try reflexivity.
  now rewrite H, IH.
Qed.

Lemma Forall2_length' {A B} (R : A -> B -> Prop) l m : Forall2 R l m -> length l = length m.
Proof. induction 1; cbn; [reflexivity|now f_equal]. Qed.

(* ---- the id generator: len(_entities) + 1 draws suffice ----------------------- *)
Lemma draw_spec fuel : forall n keys,
  vmem (JNum (draw fuel n keys)) keys = false \/
  (forall i, (i < fuel)%nat -> In (JNum (n + Z.of_nat i)) keys).
Proof.
  induction fuel as [|f IH]; intros n keys; cbn [draw].
  - right. intros i Hi. lia.
  - destruct (vmem (JNum n) keys) eqn:M; [|now left].
    destruct (IH (n + 1) keys) as [H|H]; [now left|right].
    intros [|j] Hi.
    + replace (n + Z.of_nat 0) with n by lia. now apply vmem_In.
    + replace (n + Z.of_nat (S j)) with (n + 1 + Z.of_nat j) by lia. apply H. lia.
Qed.

Lemma next_auto_fresh n keys : ~ In (JNum (next_auto n keys)) keys.
Proof.
  unfold next_auto. destruct (draw_spec (S (length keys)) n keys) as [H|H].
  - now apply vmem_notIn.
  - exfalso.
    set (L := map (fun i => JNum (n + Z.of_nat i)) (seq 0 (S (length keys)))).
    assert (ND : NoDup L).
    { apply Injective_map_NoDup; [|apply seq_NoDup].
      intros a b E. injection E. lia. }
    assert (IN : incl L keys).
    { intros x Hx. apply in_map_iff in Hx as [i [<- Hi]]. apply H. apply in_seq in Hi. lia. }
    pose proof (NoDup_incl_length ND IN) as LE. unfold L in LE.
    rewrite map_length, seq_length in LE. lia.
Qed.

(* ---- the entity table ---------------------------------------------------------- *)
Lemma aset_fresh (t i : Z) (row : list (Z * Z)) :
  ~ In t (map fst row) -> aset t i row = row ++ [(t, i)].
Proof.
  induction row as [|[t' i'] row IH]; cbn [aset map fst In app]; intro H; [reflexivity|].
  destruct (t =? t') eqn:E; [apply Z.eqb_eq in E; subst; tauto|].
  f_equal. apply IH. tauto.
Qed.

Lemma tbl_set_fresh eid t i tbl :
  ~ In eid (map fst tbl) -> tbl_set eid t i tbl = tbl ++ [(eid, [(t, i)])].
Proof.
  induction tbl as [|[k row] tbl IH]; cbn [tbl_set map fst In app]; intro H; [reflexivity|].
  destruct (val_eqb eid k) eqn:E; [apply val_eqb_eq in E; subst; tauto|].
  f_equal. apply IH. tauto.
Qed.

Lemma tbl_set_last eid t i tbl row :
  ~ In eid (map fst tbl) ->
  tbl_set eid t i (tbl ++ [(eid, row)]) = tbl ++ [(eid, aset t i row)].
Proof.
  induction tbl as [|[k row'] tbl IH]; cbn [tbl_set map fst In app]; intro H.
  - now rewrite val_eqb_refl.
  - destruct (val_eqb eid k) eqn:E; [apply val_eqb_eq in E; subst; tauto|].
    f_equal. apply IH. tauto.
Qed.

Definition row_of (cs : list (Z * nsent)) : list (Z * Z) :=
  map (fun c => (tserial (snd c), fst c)) cs.

Lemma fold_tbl eid tbl : forall cs row,
  ~ In eid (map fst tbl) ->
  NoDup (map fst row ++ map (fun c => tserial (snd c)) cs) ->
  fold_left (fun t c => tbl_set eid (tserial (snd c)) (fst c) t) cs (tbl ++ [(eid, row)])
  = tbl ++ [(eid, row ++ row_of cs)].
Proof.
  induction cs as [|c cs IH]; intros row Hk Hn; cbn [fold_left row_of map].
  - now rewrite app_nil_r.
  - rewrite (tbl_set_last _ _ _ _ _ Hk).
    assert (Hf : ~ In (tserial (snd c)) (map fst row)).
    { pose proof (NoDup_remove_2 _ _ _ Hn) as Hn2. intro HI. apply Hn2. apply in_or_app. now left. }
    rewrite (aset_fresh _ _ _ Hf). rewrite IH; [|exact Hk|].
    + unfold row_of. now rewrite <- app_assoc.
    + rewrite map_app. cbn [map fst]. rewrite <- app_assoc. cbn [app]. exact Hn.
Qed.

(* ---- constructor calls and processors --------------------------------------------- *)
Lemma construct_ok w ds e :
  s_type ds = TObj e -> callable (n_kind e) = true ->
  construct w ds =
  Some (W (ws_log w ++ [constr_of ds]) (ws_sorted w) (ws_ents w) (ws_next w) (ws_enabled w)
          (ws_queue w) (ws_listen w) (ws_called w) (ws_marks w),
        (Z.of_nat (length (ws_log w)), e)).
Proof. intros H C. unfold construct, constr_of. now rewrite H, C. Qed.

Lemma filter_other (t : Z) (l : list (Z * Z)) :
  ~ In t (map fst l) -> filter (fun p => negb (fst p =? t)) l = l.
Proof.
  induction l as [|[a c] l IH]; cbn [filter map fst In]; intro H; [reflexivity|].
  destruct (a =? t) eqn:E; [apply Z.eqb_eq in E; subst; tauto|].
  cbn [negb]. f_equal. apply IH. tauto.
Qed.

Lemma of_nat_snoc {A} (l : list A) x : Z.of_nat (length (l ++ [x])) = Z.of_nat (length l) + 1.
Proof. rewrite app_length. cbn [length]. lia. Qed.

Lemma pop_procs_spec : forall (ts : list Z) (tps : list dstate),
  Forall2 (fun t ds => s_type ds = TObj (NS (JRef KObj t) CProc)) ts tps ->
  NoDup ts ->
  forall w, (forall t, In t ts -> ~ In t (map fst (ws_sorted w))) ->
  foldM pop_proc w tps =
  Some (W (ws_log w ++ map constr_of tps)
          (ws_sorted w ++ combine ts (zseq (Z.of_nat (length (ws_log w))) (length tps)))
          (ws_ents w) (ws_next w) (ws_enabled w) (ws_queue w) (ws_listen w) (ws_called w)
          (ws_marks w)).
Proof.
  induction 1 as [|t ds ts tps Ht HF IH]; intros ND w Hfresh.
  - destruct w. cbn. now rewrite !app_nil_r.
  - cbn [foldM]. unfold pop_proc. rewrite (construct_ok w ds _ Ht eq_refl).
    cbn [n_kind tserial n_val]. unfold add_processor.
    cbn [ws_log ws_sorted ws_ents ws_next ws_enabled ws_queue ws_listen ws_called ws_marks].
    rewrite (filter_other t (ws_sorted w)) by (apply Hfresh; now left).
    inversion ND as [|? ? Hnin ND']; subst.
    rewrite IH; [| exact ND' |].
    + cbn [ws_log ws_sorted ws_ents ws_next ws_enabled ws_queue ws_listen ws_called ws_marks].
      rewrite of_nat_snoc. cbn [map length zseq combine].
      now rewrite <- !app_assoc.
    + cbn [ws_sorted]. intros t' Hin HI. rewrite map_app in HI. apply in_app_or in HI as [HI|HI].
      * apply (Hfresh t'); [now right|exact HI].
      * cbn in HI. destruct HI as [<-|[]]. contradiction.
Qed.

(* ---- the components of one entity --------------------------------------------------- *)
Definition ent_of (E : env) (d : ddict) : nsent := NS (JRef KObj (class_serial E d)) (kind_of E d).

Definition comp_rel (E : env) (d : ddict) (ds : dstate) : Prop :=
  s_type ds = TObj (ent_of E d) /\ callable (kind_of E d) = true.

Lemma build_comps_spec E : forall ds tds,
  Forall2 (comp_rel E) ds tds ->
  forall w,
  build_comps w tds =
  Some (W (ws_log w ++ map constr_of tds) (ws_sorted w) (ws_ents w) (ws_next w) (ws_enabled w)
          (ws_queue w) (ws_listen w) (ws_called w) (ws_marks w),
        combine (zseq (Z.of_nat (length (ws_log w))) (length ds)) (map (ent_of E) ds)).
Proof.
  induction 1 as [|d t ds tds [Ht Hc] HF IH]; intro w.
  - destruct w. cbn. now rewrite app_nil_r.
  - cbn [build_comps]. rewrite (construct_ok w t _ Ht Hc). rewrite IH.
    cbn [ws_log ws_sorted ws_ents ws_next ws_enabled ws_queue ws_listen ws_called ws_marks].
    rewrite of_nat_snoc. cbn [map length zseq combine]. now rewrite <- app_assoc.
Qed.

Definition cs_of (E : env) (start : Z) (ds : list ddict) : list (Z * nsent) :=
  combine (zseq start (length ds)) (map (ent_of E) ds).

Lemma row_of_cs E start ds : map snd (row_of (cs_of E start ds)) = zseq start (length ds).
Proof.
  unfold row_of, cs_of. rewrite map_map. cbn [snd].
  change (map (fun x : Z * nsent => fst x)) with (@map (Z * nsent) Z fst).
  apply map_fst_combine. now rewrite zseq_length, map_length.
Qed.

Lemma types_of_cs E start ds :
  map (fun c => tserial (snd c)) (cs_of E start ds) = map (class_serial E) ds.
Proof.
  unfold cs_of. revert start; induction ds as [|d ds IH]; intro start; cbn; [reflexivity|].
  f_equal. apply IH.
Qed.

(* the table after create_entity's first loop *)
Lemma table_after E eid tbl start ds :
  ~ In eid (map fst tbl) -> NoDup (map (class_serial E) ds) ->
  fold_left (fun t c => tbl_set eid (tserial (snd c)) (fst c) t) (cs_of E start ds) tbl
  = tbl ++ (if null ds then [] else [(eid, row_of (cs_of E start ds))]).
Proof.
  intros Hk ND. destruct ds as [|d ds].
  - cbn. now rewrite app_nil_r.
  - cbn [null]. unfold cs_of. cbn [length zseq map combine fold_left fst snd].
    rewrite (tbl_set_fresh _ _ _ _ Hk).
    change (combine (zseq (start + 1) (length ds)) (map (ent_of E) ds)) with (cs_of E (start + 1) ds).
    rewrite fold_tbl; [reflexivity|exact Hk|].
    cbn [map fst app]. rewrite types_of_cs. exact ND.
Qed.

(* ---- one entity ------------------------------------------------------------------------ *)
Definition qadd (x : Z * (ckind * val)) : list qev :=
  let '(i, (k, eid)) := x in if has_add k then [QAdd i eid] else [].
Definition lload (x : Z * (ckind * val)) : list Z :=
  let '(i, (k, _)) := x in if has_load k then [i] else [].
Definition addcb (x : Z * (ckind * val)) : list cb :=
  let '(i, (k, eid)) := x in if has_add k then [CB i 0 eid true] else [].
Definition loadcb (x : Z * (ckind * val)) : list cb :=
  let '(i, (k, _)) := x in if has_load k then [CB i 1 JNull true] else [].
Definition table_of (E : env) (start : Z) (ds : list ddict) (eid : val) : list (Z * (ckind * val)) :=
  combine (zseq start (length ds)) (map (fun d => (kind_of E d, eid)) ds).

Lemma queue_of_cs E start ds eid :
  flat_map (fun c : Z * nsent => if has_add (n_kind (snd c)) then [QAdd (fst c) eid] else [])
           (cs_of E start ds)
  = flat_map qadd (table_of E start ds eid).
Proof. unfold cs_of, table_of. apply flat_map_combine_map. reflexivity. Qed.

Lemma called_of_cs E start ds eid :
  flat_map (fun c : Z * nsent => if has_add (n_kind (snd c)) then [CB (fst c) 0 eid true] else [])
           (cs_of E start ds)
  = flat_map addcb (table_of E start ds eid).
Proof. unfold cs_of, table_of. apply flat_map_combine_map. reflexivity. Qed.

Lemma listen_of_cs E start ds eid :
  flat_map (fun c : Z * nsent => if has_load (n_kind (snd c)) then [fst c] else [])
           (cs_of E start ds)
  = flat_map lload (table_of E start ds eid).
Proof. unfold cs_of, table_of. apply flat_map_combine_map. reflexivity. Qed.

(* the state after [lg] more constructor calls, processors [S], entity rows
   [X] whose component instances are those of [table], and marks [M] *)
Definition grown (w : wstate) (lg : list constr) (S : list (Z * Z))
           (X : list (val * list (Z * Z))) (nxt : Z)
           (table : list (Z * (ckind * val))) (M : list (Z * bool)) : wstate :=
  W (ws_log w ++ lg) (ws_sorted w ++ S) (ws_ents w ++ X) nxt (ws_enabled w)
    (if ws_enabled w then ws_queue w else ws_queue w ++ flat_map qadd table)
    (ws_listen w ++ flat_map lload table)
    (if ws_enabled w then ws_called w ++ flat_map addcb table else ws_called w)
    (ws_marks w ++ M).

Lemma grown_grown w lg1 S1 X1 n1 t1 M1 lg2 S2 X2 n2 t2 M2 :
  grown (grown w lg1 S1 X1 n1 t1 M1) lg2 S2 X2 n2 t2 M2
  = grown w (lg1 ++ lg2) (S1 ++ S2) (X1 ++ X2) n2 (t1 ++ t2) (M1 ++ M2).
Proof.
  unfold grown. cbn [ws_log ws_sorted ws_ents ws_next ws_enabled ws_queue ws_listen ws_called ws_marks].
  destruct (ws_enabled w); now rewrite !flat_map_app, <- !app_assoc.
Qed.

Lemma grown_nil w : grown w [] [] [] (ws_next w) [] [] = w.
Proof. destruct w as [a b c d e f g h i]. unfold grown. cbn. rewrite !app_nil_r. now destruct e. Qed.

Lemma grown_procs w lg S :
  grown w lg S [] (ws_next w) [] []
  = W (ws_log w ++ lg) (ws_sorted w ++ S) (ws_ents w) (ws_next w) (ws_enabled w) (ws_queue w)
      (ws_listen w) (ws_called w) (ws_marks w).
Proof. unfold grown. cbn [flat_map]. rewrite !app_nil_r. now destruct (ws_enabled w). Qed.

Lemma create_entity_spec E e es used next w start :
  ids_wf (e :: es) used next = true ->
  map fst (ws_ents w) = used -> ws_next w = next ->
  NoDup (map (class_serial E) (ent_dicts e)) ->
  exists eid next',
    ~ In eid used /\ id_given_ok (e_id e) eid = true /\
    ids_wf es (if null (ent_dicts e) then used else used ++ [eid]) next' = true /\
    create_entity w (cs_of E start (ent_dicts e)) (e_id e) =
    Some (grown w [] [] (if null (ent_dicts e) then []
                         else [(eid, row_of (cs_of E start (ent_dicts e)))])
                next' (table_of E start (ent_dicts e) eid) []).
Proof.
  intros Hwf Hu Hn ND. cbn [ids_wf] in Hwf.
  assert (AUTO : forall oid, (oid = None \/ oid = Some JNull) -> e_id e = oid ->
    ids_wf es (if null (ent_dicts e) then used else used ++ [JNum (next_auto next used)])
           (next_auto next used + 1) = true ->
    exists eid next',
    ~ In eid used /\ id_given_ok (e_id e) eid = true /\
    ids_wf es (if null (ent_dicts e) then used else used ++ [eid]) next' = true /\
    create_entity w (cs_of E start (ent_dicts e)) (e_id e) =
    Some (grown w [] [] (if null (ent_dicts e) then []
                         else [(eid, row_of (cs_of E start (ent_dicts e)))])
                next' (table_of E start (ent_dicts e) eid) [])).
  { intros oid Ho Hid Hrest. exists (JNum (next_auto next used)), (next_auto next used + 1).
    split; [apply next_auto_fresh|]. split; [rewrite Hid; now destruct Ho as [->| ->]|].
    split; [exact Hrest|].
    unfold create_entity, grown. rewrite Hid, Hu, Hn, !app_nil_r.
    assert (Hk : ~ In (JNum (next_auto next used)) (map fst (ws_ents w)))
      by (rewrite Hu; apply next_auto_fresh).
    destruct Ho as [-> | ->]; cbv beta iota zeta;
      now rewrite (table_after E _ _ start _ Hk ND),
        (queue_of_cs E start _ (JNum (next_auto next used))),
        (called_of_cs E start _ (JNum (next_auto next used))),
        (listen_of_cs E start _ (JNum (next_auto next used))). }
  assert (GIVEN : forall v, e_id e = Some v ->
    (match v with JNum _ | JStr _ => True | _ => False end) ->
    vmem v used = false ->
    ids_wf es (if null (ent_dicts e) then used else used ++ [v]) next = true ->
    exists eid next',
    ~ In eid used /\ id_given_ok (e_id e) eid = true /\
    ids_wf es (if null (ent_dicts e) then used else used ++ [eid]) next' = true /\
    create_entity w (cs_of E start (ent_dicts e)) (e_id e) =
    Some (grown w [] [] (if null (ent_dicts e) then []
                         else [(eid, row_of (cs_of E start (ent_dicts e)))])
                next' (table_of E start (ent_dicts e) eid) [])).
  { intros v Hid Hshape Hm Hrest. exists v, next.
    apply vmem_notIn in Hm.
    split; [exact Hm|]. split.
    { rewrite Hid. unfold id_given_ok. destruct v; try contradiction; apply val_eqb_refl. }
    split; [exact Hrest|].
    unfold create_entity, grown. rewrite Hid, Hn, !app_nil_r.
    assert (Hk : ~ In v (map fst (ws_ents w))) by (now rewrite Hu).
    destruct v as [| | z | s | | |]; try contradiction; cbv beta iota zeta.
    - now rewrite (table_after E _ _ start _ Hk ND), (queue_of_cs E start _ (JNum z)),
        (called_of_cs E start _ (JNum z)), (listen_of_cs E start _ (JNum z)).
    - now rewrite (table_after E _ _ start _ Hk ND), (queue_of_cs E start _ (JStr s)),
        (called_of_cs E start _ (JStr s)), (listen_of_cs E start _ (JStr s)). }
  destruct (e_id e) as [[| b | z | s | l | kv | k i]|] eqn:Hid; try discriminate.
  - apply (AUTO (Some JNull)); auto.
  - apply andb_true_iff in Hwf as [H1 H2]. apply negb_true_iff in H1.
    apply (GIVEN (JNum z)); auto.
  - apply andb_true_iff in Hwf as [H1 H2]. apply negb_true_iff in H1.
    apply (GIVEN (JStr s)); auto.
  - apply (AUTO None); auto.
Qed.

(* ---- all entities of one description ------------------------------------------------------ *)
Definition ent_rel (E : env) (e : edict) (te : option val * list dstate) : Prop :=
  fst te = e_id e /\ Forall2 (comp_rel E) (ent_dicts e) (snd te).

Definition obs_ent (p : val * list (Z * Z)) : val * list Z := (fst p, map snd (snd p)).

Lemma NoDup_snoc_val (l : list val) x : NoDup l -> ~ In x l -> NoDup (l ++ [x]).
Proof.
  intros ND Hx. induction ND as [|y l Hy ND IH]; cbn [app].
  - constructor; [tauto|constructor].
  - constructor.
    + intro HI. apply in_app_or in HI as [HI|[HI|[]]]; [contradiction|].
      subst. apply Hx. now left.
    + apply IH. intro HI. apply Hx. now right.
Qed.

Lemma pop_ents_spec E rest : forall es tes,
  Forall2 (ent_rel E) es tes ->
  Forall (fun e => NoDup (map (class_serial E) (ent_dicts e))) es ->
  forall w, ids_wf (es ++ rest) (map fst (ws_ents w)) (ws_next w) = true ->
  NoDup (map fst (ws_ents w)) ->
  exists newents table next',
    foldM pop_ent w tes = Some (grown w (map constr_of (flat_map snd tes)) [] newents next' table []) /\
    NoDup (map fst (ws_ents w ++ newents)) /\
    spec_items E (map IEnt es) (Z.of_nat (length (ws_log w))) (map obs_ent newents) = Some table /\
    ids_wf rest (map fst (ws_ents w ++ newents)) next' = true.
Proof.
  induction 1 as [|e te es tes [Hid Hcs] HF IH]; intros HND w Hwf HK.
  - exists [], [], (ws_next w). cbn [foldM flat_map map]. rewrite grown_nil, app_nil_r. auto.
  - inversion HND as [|? ? ND1 HND']; subst.
    destruct te as [tid tds]. cbn [fst snd] in Hid, Hcs. subst tid.
    cbn [foldM]. unfold pop_ent at 1. cbn [fst snd].
    rewrite (build_comps_spec E _ _ Hcs w). fold (cs_of E (Z.of_nat (length (ws_log w))) (ent_dicts e)).
    set (start := Z.of_nat (length (ws_log w))).
    change (W (ws_log w ++ map constr_of tds) (ws_sorted w) (ws_ents w) (ws_next w) (ws_enabled w)
              (ws_queue w) (ws_listen w) (ws_called w) (ws_marks w))
      with (W (ws_log w ++ map constr_of tds) (ws_sorted w) (ws_ents w) (ws_next w) (ws_enabled w)
              (ws_queue w) (ws_listen w) (ws_called w) (ws_marks w)).
    set (w1 := W (ws_log w ++ map constr_of tds) (ws_sorted w) (ws_ents w) (ws_next w)
                 (ws_enabled w) (ws_queue w) (ws_listen w) (ws_called w) (ws_marks w)).
    cbn [app] in Hwf.
    destruct (create_entity_spec E e (es ++ rest) (map fst (ws_ents w)) (ws_next w) w1 start
                Hwf eq_refl eq_refl ND1) as [eid [next' [Hfresh [Hgiven [Hrest Hce]]]]].
    rewrite Hce.
    set (X := if null (ent_dicts e) then []
              else [(eid, row_of (cs_of E start (ent_dicts e)))]) in *.
    set (T := table_of E start (ent_dicts e) eid) in *.
    assert (G1 : grown w1 [] [] X next' T [] = grown w (map constr_of tds) [] X next' T []).
    { unfold grown, w1. cbn [ws_log ws_sorted ws_ents ws_next ws_enabled ws_queue ws_listen ws_called ws_marks].
      now rewrite app_nil_r. }
    rewrite G1. set (w2 := grown w (map constr_of tds) [] X next' T []).
    assert (Hkeys : map fst (ws_ents w2)
                    = if null (ent_dicts e) then map fst (ws_ents w) else map fst (ws_ents w) ++ [eid]).
    { unfold w2, grown. cbn [ws_ents]. rewrite map_app. unfold X. destruct (null (ent_dicts e)); cbn.
      - now rewrite app_nil_r.
      - reflexivity. }
    assert (HK2 : NoDup (map fst (ws_ents w2))).
    { rewrite Hkeys. destruct (null (ent_dicts e)); [exact HK|]. now apply NoDup_snoc_val. }
    assert (Hwf2 : ids_wf (es ++ rest) (map fst (ws_ents w2)) (ws_next w2) = true).
    { rewrite Hkeys. exact Hrest. }
    destruct (IH HND' w2 Hwf2 HK2) as [newents [table [next'' [Hfold [HND2 [Hspec Hrest2]]]]]].
    exists (X ++ newents), (T ++ table), next''.
    assert (EW : ws_ents w2 = ws_ents w ++ X) by reflexivity.
    rewrite EW, <- app_assoc in HND2, Hrest2.
    split; [|split; [exact HND2|split; [|exact Hrest2]]].
    + rewrite Hfold. unfold w2. rewrite grown_grown. cbn [flat_map snd]. now rewrite map_app.
    + cbn [map spec_items].
      assert (LW : Z.of_nat (length (ws_log w2)) = start + Z.of_nat (length (ent_dicts e))).
      { unfold w2, grown. cbn [ws_log]. rewrite app_length, map_length, <- (Forall2_length' _ _ _ Hcs).
        unfold start. lia. }
      rewrite LW in Hspec.
      unfold X. destruct (ent_dicts e) as [|d ds] eqn:Eds.
      * cbn [null app map]. cbn [length] in Hspec. rewrite Z.add_0_r in Hspec.
        unfold T, table_of. cbn [length zseq map combine app]. exact Hspec.
      * cbn [null app map obs_ent fst snd]. rewrite Hgiven.
        rewrite row_of_cs, zlist_eqb_refl. cbn [andb]. rewrite Hspec. reflexivity.
Qed.

(* ---- every dict of a description ---------------------------------------------------------- *)
Definition tfun (E : env) (h : how) : ddict -> option dstate :=
  match h with HFile ps => transform_dict E ps | HDict => direct_dict E end.

Definition how_ok (E : env) (h : how) : Prop :=
  match h with HFile ps => 0 < c_depth E /\ ptypes ps = 1%nat | HDict => True end.

Definition good (E : env) (h : how) (d : ddict) : Prop :=
  dict_wf E h d = true /\ exists t k, class_of E d = Some (t, k) /\ callable k = true.

Lemma class_of_serial_kind E d t k :
  class_of E d = Some (t, k) -> class_serial E d = t /\ kind_of E d = k.
Proof.
  unfold class_serial, kind_of, class_of. intro H. rewrite H. split; [reflexivity|].
  destruct (slookup (d_type d) (c_ns E)) as [[v k']|]; [|discriminate].
  destruct v as [| | | | | | rk t']; try discriminate. destruct rk; try discriminate.
  now injection H as _ ->.
Qed.

Definition dict_rel (E : env) (h : how) (d : ddict) (ds : dstate) : Prop :=
  comp_rel E d ds /\ check_constr E (h, d) (constr_of ds) = true.

Lemma tfun_spec E h d :
  ns_wf E = true -> how_ok E h -> good E h d -> dict_known E (h, d) = false ->
  match tfun E h d with
  | Some ds => dict_rel E h d ds
  | None => dict_open E (h, d) = true
  end.
Proof.
  intros Hns Hh [Hwf [t [k [Hc Hcall]]]] Hk.
  destruct (class_of_serial_kind E d t k Hc) as [Hs Hkd].
  destruct h as [|ps]; cbn [tfun].
  - destruct (direct_dict_spec E d t k Hc) as [ds [-> [R1 R2]]].
    split; [|exact R2]. unfold comp_rel, ent_of. rewrite Hs, Hkd. now split.
  - destruct Hh as [Hd Hpt].
    pose proof (transform_dict_spec E ps d t k Hd Hns Hpt Hwf Hc Hcall Hk) as HT.
    destruct (transform_dict E ps d) as [ds|]; [|exact HT].
    destruct HT as [R1 R2]. split; [|exact R2]. unfold comp_rel, ent_of. rewrite Hs, Hkd. now split.
Qed.

Lemma tfun_list_spec E h ds :
  ns_wf E = true -> how_ok E h -> Forall (good E h) ds ->
  existsb (dict_known E) (map (pair h) ds) = false ->
  match mapM (tfun E h) ds with
  | Some tds => Forall2 (dict_rel E h) ds tds
  | None => existsb (dict_open E) (map (pair h) ds) = true
  end.
Proof.
  intros Hns Hh HG. induction HG as [|d ds Hg HG IH]; cbn [existsb mapM map]; intro Hk.
  - constructor.
  - apply orb_false_iff in Hk as [Hk1 Hk2].
    pose proof (tfun_spec E h d Hns Hh Hg Hk1) as HT. specialize (IH Hk2).
    destruct (tfun E h d) as [td|]; [|now rewrite HT].
    destruct (mapM (tfun E h) ds) as [tds|]; [|now rewrite IH, orb_true_r].
    constructor; assumption.
Qed.

Definition ent_rel2 (E : env) (h : how) (e : edict) (te : option val * list dstate) : Prop :=
  fst te = e_id e /\ Forall2 (dict_rel E h) (ent_dicts e) (snd te).

Lemma tfun_ents_spec E h es :
  ns_wf E = true -> how_ok E h -> Forall (fun e => Forall (good E h) (ent_dicts e)) es ->
  existsb (dict_known E) (map (pair h) (flat_map ent_dicts es)) = false ->
  match mapM (map_ent (tfun E h)) es with
  | Some tes => Forall2 (ent_rel2 E h) es tes
  | None => existsb (dict_open E) (map (pair h) (flat_map ent_dicts es)) = true
  end.
Proof.
  intros Hns Hh HG. induction HG as [|e es Hg HG IH]; cbn [flat_map mapM]; intro Hk.
  - constructor.
  - rewrite map_app, existsb_app in Hk. apply orb_false_iff in Hk as [Hk1 Hk2].
    pose proof (tfun_list_spec E h (ent_dicts e) Hns Hh Hg Hk1) as HT.
    specialize (IH Hk2). rewrite map_app, existsb_app. unfold map_ent at 1. fold (ent_dicts e).
    destruct (mapM (tfun E h) (ent_dicts e)) as [tds|]; [|now rewrite HT].
    destruct (mapM (map_ent (tfun E h)) es) as [tes|]; [|now rewrite IH, orb_true_r].
    constructor; [|exact IH]. split; [reflexivity|exact HT].
Qed.

Lemma Forall2_comp_rel E h ds tds : Forall2 (dict_rel E h) ds tds -> Forall2 (comp_rel E) ds tds.
Proof. induction 1 as [|? ? ? ? [H _]]; constructor; assumption. Qed.

Lemma Forall2_check E h ds tds :
  Forall2 (dict_rel E h) ds tds ->
  forall2b (check_constr E) (map (pair h) ds) (map constr_of tds) = true.
Proof.
  induction 1 as [|? ? ? ? [_ H]]; cbn [map forall2b]; [reflexivity|]. now rewrite H.
Qed.

Lemma ents_check E h es tes :
  Forall2 (ent_rel2 E h) es tes ->
  forall2b (check_constr E) (map (pair h) (flat_map ent_dicts es))
           (map constr_of (flat_map snd tes)) = true.
Proof.
  induction 1 as [|e te es tes [_ H] _ IH]; cbn [flat_map]; [reflexivity|].
  rewrite !map_app. apply forall2b_app; [now apply Forall2_check|exact IH].
Qed.

Lemma ents_rel E h es tes : Forall2 (ent_rel2 E h) es tes -> Forall2 (ent_rel E) es tes.
Proof.
  induction 1 as [|e te es tes [H1 H2] _ IH]; constructor; [|exact IH].
  split; [exact H1|now apply (Forall2_comp_rel E h)].
Qed.

(* ---- a constructor that raises --------------------------------------------------------------- *)
Lemma raises_constr_of d : raises_constr (constr_of d) = dstate_raises d.
Proof.
  unfold raises_constr, constr_of, dstate_raises, raises_args, is_boom, boom. cbn [k_args].
  destruct (optl (s_args d)) as [|[| | | s | | |] l]; reflexivity.
Qed.

Lemma raises_map l : existsb raises_constr (map constr_of l) = existsb dstate_raises l.
Proof. induction l as [|d l IH]; cbn [map existsb]; [reflexivity|]. now rewrite raises_constr_of, IH. Qed.

Lemma raising_dict_excuses E h d td :
  dict_rel E h d td -> dstate_raises td = true -> dict_open E (h, d) = true.
Proof.
  intros [_ C] R. rewrite <- raises_constr_of in R. unfold check_constr in C.
  destruct (slookup (d_type d) (c_ns E)); [|discriminate].
  apply andb_true_iff in C as [C _]. apply andb_true_iff in C as [_ C].
  unfold raises_constr, raises_args in R. unfold dict_open, dict_raises. cbn [fst snd].
  destruct (k_args (constr_of td)) as [|o l]; [discriminate|].
  destruct (optl (d_args d)) as [|a la]; [discriminate|]. cbn [forall2b existsb] in *.
  apply andb_true_iff in C as [C _]. unfold arg_ok in C. unfold open_arg.
  destruct (expected E h a) as [v| |]; [|reflexivity|discriminate].
  apply val_eqb_eq in C. subst v. rewrite R. now rewrite orb_true_r.
Qed.

Lemma raising_list_excuses E h ds tds :
  Forall2 (dict_rel E h) ds tds -> existsb dstate_raises tds = true ->
  existsb (dict_open E) (map (pair h) ds) = true.
Proof.
  induction 1 as [|d td ds tds R _ IH]; cbn [existsb map]; intro H; [discriminate|].
  apply orb_true_iff in H as [H|H].
  - now rewrite (raising_dict_excuses E h d td R H).
  - now rewrite (IH H), orb_true_r.
Qed.

Lemma raising_ents_excuse E h es tes :
  Forall2 (ent_rel2 E h) es tes -> existsb dstate_raises (flat_map snd tes) = true ->
  existsb (dict_open E) (map (pair h) (flat_map ent_dicts es)) = true.
Proof.
  induction 1 as [|e te es tes [_ R] _ IH]; cbn [flat_map]; intro H; [discriminate|].
  rewrite existsb_app in H. rewrite map_app, existsb_app. apply orb_true_iff in H as [H|H].
  - now rewrite (raising_list_excuses E h _ _ R H).
  - now rewrite (IH H), orb_true_r.
Qed.

(* ---- populate_world_from_dict on any world -------------------------------------------------- *)
Lemma populate_spec E h rest ds tps tes w :
  Forall2 (dict_rel E h) (proc_dicts ds) tps ->
  Forall2 (ent_rel2 E h) (optl (w_ents ds)) tes ->
  (forall d, In d (proc_dicts ds) -> kind_of E d = CProc) ->
  NoDup (map (class_serial E) (proc_dicts ds)) ->
  (forall t, In t (map (class_serial E) (proc_dicts ds)) -> ~ In t (map fst (ws_sorted w))) ->
  Forall (fun e => NoDup (map (class_serial E) (ent_dicts e))) (optl (w_ents ds)) ->
  ids_wf (optl (w_ents ds) ++ rest) (map fst (ws_ents w)) (ws_next w) = true ->
  NoDup (map fst (ws_ents w)) ->
  let lg := map constr_of tps ++ map constr_of (flat_map snd tes) in
  exists X table nxt,
    populate0 w (tps, tes) =
    Some (grown w lg (combine (map (class_serial E) (proc_dicts ds))
                              (zseq (Z.of_nat (length (ws_log w))) (length (proc_dicts ds))))
                X nxt table []) /\
    forall2b (check_constr E) (map (pair h) (all_dicts ds)) lg = true /\
    NoDup (map fst (ws_ents w ++ X)) /\
    spec_items E (IGap (length (proc_dicts ds)) :: map IEnt (optl (w_ents ds)))
               (Z.of_nat (length (ws_log w))) (map obs_ent X) = Some table /\
    ids_wf rest (map fst (ws_ents w ++ X)) nxt = true.
Proof.
  intros TP TE HK ND HF HND Hids HKeys lg. unfold lg. clear lg.
  assert (FP : Forall2 (fun t td => s_type td = TObj (NS (JRef KObj t) CProc))
                       (map (class_serial E) (proc_dicts ds)) tps).
  { clear - TP HK. induction TP as [|d td l tl [[H1 H2] _] _ IH]; cbn [map]; constructor.
    - rewrite H1. unfold ent_of. now rewrite (HK d (or_introl eq_refl)).
    - apply IH. intros x Hx. apply HK. now right. }
  pose proof (Forall2_length' _ _ _ TP) as LP.
  unfold populate0. cbn [fst snd]. rewrite (pop_procs_spec _ _ FP ND w HF).
  rewrite <- grown_procs. rewrite <- LP.
  set (S := combine (map (class_serial E) (proc_dicts ds))
                    (zseq (Z.of_nat (length (ws_log w))) (length (proc_dicts ds)))).
  set (w1 := grown w (map constr_of tps) S [] (ws_next w) [] []).
  assert (E1 : ws_ents w1 = ws_ents w) by (unfold w1, grown; cbn [ws_ents]; apply app_nil_r).
  assert (N1 : ws_next w1 = ws_next w) by reflexivity.
  destruct (pop_ents_spec E rest _ _ (ents_rel E h _ _ TE) HND w1) as
      [X [table [nxt [Hfold [HN2 [Hspec Hrest]]]]]].
  { now rewrite E1, N1. }
  { now rewrite E1. }
  rewrite E1 in HN2, Hrest.
  exists X, table, nxt.
  split; [|split; [|split; [exact HN2|split; [|exact Hrest]]]].
  - rewrite Hfold. unfold w1. rewrite grown_grown. now rewrite !app_nil_r.
  - unfold all_dicts. rewrite map_app.
    apply forall2b_app; [now apply Forall2_check|now apply ents_check].
  - cbn [spec_items].
    assert (LW : Z.of_nat (length (ws_log w1))
                 = Z.of_nat (length (ws_log w)) + Z.of_nat (length (proc_dicts ds))).
    { unfold w1, grown. cbn [ws_log]. rewrite app_length, map_length, <- LP. lia. }
    now rewrite LW in Hspec.
Qed.

(* ---- sequences of steps ------------------------------------------------------------------------ *)
Fixpoint items_size (its : list item) : nat :=
  match its with
  | [] => 0
  | IGap n :: r => n + items_size r
  | IEnt e :: r => length (ent_dicts e) + items_size r
  end.

Lemma items_size_app a b : items_size (a ++ b) = (items_size a + items_size b)%nat.
Proof. induction a as [|[n|e] a IH]; cbn [app items_size]; lia. Qed.

Lemma items_size_ents es : items_size (map IEnt es) = length (flat_map ent_dicts es).
Proof. induction es as [|e es IH]; cbn [map items_size flat_map]; [reflexivity|]. rewrite app_length. lia. Qed.

Lemma items_size_step s : items_size (step_items s) = step_size s.
Proof.
  unfold step_size. destruct s as [|ps ds|ds|k]; cbn [step_items step_dicts items_size length];
    try reflexivity; rewrite map_length; unfold all_dicts; rewrite app_length, items_size_ents;
    reflexivity.
Qed.

Lemma items_size_steps steps :
  items_size (flat_map step_items steps) = length (all_hdicts steps).
Proof.
  unfold all_hdicts. induction steps as [|s r IH]; cbn [flat_map]; [reflexivity|].
  rewrite items_size_app, app_length, items_size_step, IH. reflexivity.
Qed.

Lemma spec_items_app E : forall its1 start obs1 t1 its2 obs2 t2,
  spec_items E its1 start obs1 = Some t1 ->
  spec_items E its2 (start + Z.of_nat (items_size its1)) obs2 = Some t2 ->
  spec_items E (its1 ++ its2) start (obs1 ++ obs2) = Some (t1 ++ t2).
Proof.
  induction its1 as [|[n|e] its1 IH]; intros start obs1 t1 its2 obs2 t2 H1 H2;
    cbn [spec_items app items_size] in *.
  - destruct obs1; [|discriminate]. injection H1 as <-. cbn [app].
    now replace (start + Z.of_nat 0) with start in H2 by lia.
  - apply (IH _ _ _ _ _ _ H1). now replace (start + Z.of_nat n + Z.of_nat (items_size its1))
      with (start + Z.of_nat (n + items_size its1)) by lia.
  - destruct (null (ent_dicts e)) eqn:N.
    + apply (IH _ _ _ _ _ _ H1). destruct (ent_dicts e); [|discriminate]. exact H2.
    + destruct obs1 as [|[id insts] obs1]; [discriminate|]. cbn [app].
      destruct (id_given_ok (e_id e) id && zlist_eqb insts (zseq start (length (ent_dicts e))));
        [|discriminate].
      destruct (spec_items E its1 (start + Z.of_nat (length (ent_dicts e))) obs1) as [t|] eqn:S;
        [|discriminate].
      injection H1 as <-.
      rewrite (IH _ _ _ its2 obs2 t2 S).
      * now rewrite <- app_assoc.
      * now replace (start + Z.of_nat (length (ent_dicts e)) + Z.of_nat (items_size its1))
          with (start + Z.of_nat (length (ent_dicts e) + items_size its1)) by lia.
Qed.

Lemma exp_procs_app s1 s2 start :
  exp_procs (s1 ++ s2) start
  = exp_procs s1 start ++ exp_procs s2 (start + Z.of_nat (length (all_hdicts s1))).
Proof.
  unfold all_hdicts. revert start; induction s1 as [|s r IH]; intro start; cbn [app exp_procs flat_map].
  - cbn [length]. now replace (start + Z.of_nat 0) with start by lia.
  - rewrite IH, <- app_assoc, app_length. unfold step_size. do 3 f_equal. lia.
Qed.

(* what running [steps] from w has added when it ends in w' *)
Definition extends (E : env) (steps : list step) (rest : list edict) (w w' : wstate) : Prop :=
  exists lg S X nxt table,
    w' = grown w lg S X nxt table (exp_marks steps) /\
    forall2b (check_constr E) (all_hdicts steps) lg = true /\
    existsb raises_constr lg = false /\
    map snd S = exp_procs steps (Z.of_nat (length (ws_log w))) /\
    map fst S = flat_map (step_ptypes E) steps /\
    NoDup (map fst (ws_ents w ++ X)) /\
    spec_items E (flat_map step_items steps) (Z.of_nat (length (ws_log w))) (map obs_ent X)
      = Some table /\
    ids_wf rest (map fst (ws_ents w ++ X)) nxt = true.

Lemma extends_app E s1 r1 s2 rest w w1 w2 :
  extends E s1 r1 w w1 -> extends E s2 rest w1 w2 -> extends E (s1 ++ s2) rest w w2.
Proof.
  intros [lg1 [S1 [X1 [n1 [t1 [-> [C1 [B1 [P1 [F1 [N1 [I1 _]]]]]]]]]]]]
         [lg2 [S2 [X2 [n2 [t2 [-> [C2 [B2 [P2 [F2 [N2 [I2 R2]]]]]]]]]]]].
  assert (LL : Z.of_nat (length (ws_log (grown w lg1 S1 X1 n1 t1 (exp_marks s1))))
               = Z.of_nat (length (ws_log w)) + Z.of_nat (length (all_hdicts s1))).
  { unfold grown. cbn [ws_log]. rewrite app_length, <- (forall2b_length _ _ _ C1). lia. }
  assert (EE : ws_ents (grown w lg1 S1 X1 n1 t1 (exp_marks s1)) = ws_ents w ++ X1) by reflexivity.
  rewrite LL in P2, I2. rewrite EE, <- app_assoc in N2, R2.
  exists (lg1 ++ lg2), (S1 ++ S2), (X1 ++ X2), n2, (t1 ++ t2).
  split; [|split; [|split; [|split; [|split; [|split; [exact N2|split; [|exact R2]]]]]]].
  - rewrite grown_grown. unfold exp_marks. now rewrite flat_map_app.
  - unfold all_hdicts. rewrite flat_map_app. now apply forall2b_app.
  - now rewrite existsb_app, B1, B2.
  - now rewrite map_app, exp_procs_app, P1, P2.
  - now rewrite map_app, flat_map_app, F1, F2.
  - rewrite flat_map_app, map_app. apply (spec_items_app E _ _ _ _ _ _ _ I1).
    now rewrite items_size_steps.
Qed.

(* ---- one step ----------------------------------------------------------------------------------- *)
Definition step_how (s : step) : option (how * desc) :=
  match s with
  | SFile ps ds => Some (HFile ps, ds)
  | SDict ds => Some (HDict, ds)
  | _ => None
  end.

(* the domain of one step, as propositions *)
Definition step_ok (E : env) (s : step) : Prop :=
  match step_how s with
  | Some (h, ds) =>
      how_ok E h /\
      Forall (good E h) (proc_dicts ds) /\
      (forall d, In d (proc_dicts ds) -> kind_of E d = CProc) /\
      Forall (fun e => Forall (good E h) (ent_dicts e)) (optl (w_ents ds)) /\
      Forall (fun e => NoDup (map (class_serial E) (ent_dicts e))) (optl (w_ents ds))
  | None => True
  end.

Lemma run_step_populating E s h ds w :
  step_how s = Some (h, ds) ->
  run_step E w s = match map_desc (tfun E h) ds with Some td => populate w td | None => None end.
Proof. destruct s; cbn [step_how]; intros [= <- <-]; reflexivity. Qed.

Lemma step_spec E s rest w :
  ns_wf E = true -> step_ok E s ->
  existsb (dict_known E) (step_dicts s) = false ->
  NoDup (step_ptypes E s) ->
  (forall t, In t (step_ptypes E s) -> ~ In t (map fst (ws_sorted w))) ->
  ids_wf (step_ents s ++ rest) (map fst (ws_ents w)) (ws_next w) = true ->
  NoDup (map fst (ws_ents w)) ->
  match run_step E w s with
  | Some w' => extends E [s] rest w w'
  | None => existsb (dict_open E) (step_dicts s) = true
  end.
Proof.
  intros Hns Hok Hk ND HF Hids HK.
  destruct (step_how s) as [[h ds]|] eqn:SH.
  - (* a populating step *)
    unfold step_ok in Hok. rewrite SH in Hok. destruct Hok as [Hh [GP [KP [GE NE]]]].
    rewrite (run_step_populating E s h ds w SH).
    assert (SD : step_dicts s = map (pair h) (all_dicts ds))
      by (destruct s; cbn [step_how] in SH; try discriminate; injection SH as <- <-; reflexivity).
    assert (SP : step_ptypes E s = map (class_serial E) (proc_dicts ds))
      by (destruct s; cbn [step_how] in SH; try discriminate; injection SH as <- <-; reflexivity).
    assert (SE : step_ents s = optl (w_ents ds))
      by (destruct s; cbn [step_how] in SH; try discriminate; injection SH as <- <-; reflexivity).
    assert (SI : step_items s = IGap (length (proc_dicts ds)) :: map IEnt (optl (w_ents ds)))
      by (destruct s; cbn [step_how] in SH; try discriminate; injection SH as <- <-; reflexivity).
    assert (SZ : step_procs s (Z.of_nat (length (ws_log w)))
                 = zseq (Z.of_nat (length (ws_log w))) (length (proc_dicts ds)))
      by (destruct s; cbn [step_how] in SH; try discriminate; injection SH as <- <-; reflexivity).
    assert (SM : exp_marks [s] = [])
      by (destruct s; cbn [step_how] in SH; try discriminate; reflexivity).
    rewrite SD in *. rewrite SP in *. rewrite SE in *.
    unfold all_dicts in Hk. rewrite map_app, existsb_app in Hk. apply orb_false_iff in Hk as [Hkp Hke].
    pose proof (tfun_list_spec E h (proc_dicts ds) Hns Hh GP Hkp) as TP.
    pose proof (tfun_ents_spec E h (optl (w_ents ds)) Hns Hh GE Hke) as TE.
    unfold map_desc. fold (proc_dicts ds).
    destruct (mapM (tfun E h) (proc_dicts ds)) as [tps|].
    2: { unfold all_dicts. now rewrite map_app, existsb_app, TP. }
    destruct (mapM (map_ent (tfun E h)) (optl (w_ents ds))) as [tes|].
    2: { unfold all_dicts. now rewrite map_app, existsb_app, TE, orb_true_r. }
    unfold populate. cbn [fst snd]. rewrite existsb_app.
    destruct (existsb dstate_raises tps) eqn:RP.
    { cbn [orb]. unfold all_dicts. now rewrite map_app, existsb_app, (raising_list_excuses E h _ _ TP RP). }
    destruct (existsb dstate_raises (flat_map snd tes)) eqn:RE.
    { cbn [orb]. unfold all_dicts. now rewrite map_app, existsb_app, (raising_ents_excuse E h _ _ TE RE), orb_true_r. }
    cbn [orb].
    destruct (populate_spec E h rest ds tps tes w TP TE KP ND HF NE Hids HK)
      as [X [table [nxt [Hpop [Hchk [HN [Hsp Hrest]]]]]]].
    rewrite Hpop.
    exists (map constr_of tps ++ map constr_of (flat_map snd tes)), (combine (map (class_serial E) (proc_dicts ds))
                        (zseq (Z.of_nat (length (ws_log w))) (length (proc_dicts ds)))), X, nxt, table.
    split; [now rewrite SM|]. split.
    { unfold all_hdicts. cbn [flat_map]. now rewrite app_nil_r, SD. }
    split.
    { now rewrite existsb_app, !raises_map, RP, RE. }
    split.
    { rewrite map_snd_combine by (now rewrite map_length, zseq_length).
      cbn [exp_procs]. now rewrite SZ, app_nil_r. }
    split.
    { rewrite map_fst_combine by (now rewrite map_length, zseq_length).
      cbn [flat_map]. now rewrite app_nil_r, SP. }
    split; [exact HN|]. split; [|exact Hrest].
    cbn [flat_map]. now rewrite app_nil_r, SI.
  - (* default processors, marks *)
    destruct s as [|ps ds|ds|k]; cbn [step_how] in SH; try discriminate; cbn [run_step].
    + (* default_processors_transformer *)
      cbn [step_ptypes] in ND, HF. cbn [step_ents app] in Hids.
      exists [], [(-1, -1); (-2, -2)], [], (ws_next w), [].
      split.
      { unfold default_processors, add_processor.
        cbn [ws_log ws_sorted ws_ents ws_next ws_enabled ws_queue ws_listen ws_called ws_marks].
        rewrite (filter_other (-1) (ws_sorted w)) by (apply HF; now left).
        rewrite filter_other.
        - cbn [exp_marks flat_map]. rewrite grown_procs, app_nil_r, <- app_assoc. reflexivity.
        - rewrite map_app. intro HI. apply in_app_or in HI as [HI|HI].
          + apply (HF (-2)); [right; now left|exact HI].
          + cbn in HI. destruct HI as [HI|[]]. discriminate. }
      rewrite app_nil_r. repeat split; try reflexivity; assumption.
    + (* a marking user function *)
      cbn [step_ents app] in Hids.
      exists [], [], [], (ws_next w), [].
      split.
      { cbn [exp_marks flat_map app]. unfold grown. cbn [flat_map]. rewrite !app_nil_r.
        now destruct (ws_enabled w). }
      rewrite app_nil_r. repeat split; try reflexivity; assumption.
Qed.

(* ---- all steps ------------------------------------------------------------------------------------ *)
Lemma NoDup_app_disj {A} (l m : list A) x : NoDup (l ++ m) -> In x m -> ~ In x l.
Proof.
  induction l as [|a l IH]; cbn [app]; intros ND Hm HI; [destruct HI|].
  inversion ND as [|? ? Ha ND']; subst. destruct HI as [->|HI].
  - apply Ha. apply in_or_app. now right.
  - now apply (IH ND' Hm).
Qed.

Lemma NoDup_app_l {A} (l m : list A) : NoDup (l ++ m) -> NoDup l.
Proof.
  induction l as [|a l IH]; cbn [app]; intro ND; [constructor|].
  inversion ND as [|? ? Ha ND']; subst. constructor; [|now apply IH].
  intro HI. apply Ha. apply in_or_app. now left.
Qed.

Lemma NoDup_app_r {A} (l m : list A) : NoDup (l ++ m) -> NoDup m.
Proof.
  induction l as [|a l IH]; cbn [app]; intro ND; [exact ND|].
  inversion ND; subst. now apply IH.
Qed.

Lemma NoDup_app_intro {A} (l m : list A) :
  NoDup l -> NoDup m -> (forall x, In x l -> In x m -> False) -> NoDup (l ++ m).
Proof.
  induction l as [|a l IH]; cbn [app]; intros Hl Hm D; [exact Hm|].
  inversion Hl as [|? ? Ha Hl']; subst. constructor.
  - intro HI. apply in_app_or in HI as [HI|HI]; [contradiction|]. apply (D a); [now left|exact HI].
  - apply IH; [exact Hl'|exact Hm|]. intros x H1 H2. apply (D x); [now right|exact H2].
Qed.

Lemma run_steps_spec E : ns_wf E = true -> forall steps rest w,
  Forall (step_ok E) steps ->
  existsb (dict_known E) (all_hdicts steps) = false ->
  NoDup (flat_map (step_ptypes E) steps) ->
  (forall t, In t (flat_map (step_ptypes E) steps) -> ~ In t (map fst (ws_sorted w))) ->
  ids_wf (flat_map step_ents steps ++ rest) (map fst (ws_ents w)) (ws_next w) = true ->
  NoDup (map fst (ws_ents w)) ->
  match foldM (run_step E) w steps with
  | Some w' => extends E steps rest w w'
  | None => has_open E steps = true
  end.
Proof.
  intros Hns. induction steps as [|s r IH]; intros rest w Hok Hk ND HF Hids HK.
  - cbn [foldM]. exists [], [], [], (ws_next w), [].
    cbn [exp_marks flat_map map]. rewrite grown_nil, app_nil_r. cbn [app] in Hids. auto 10.
  - inversion Hok as [|? ? Hs Hr]; subst.
    unfold all_hdicts in Hk. cbn [flat_map] in Hk, ND, HF, Hids.
    rewrite existsb_app in Hk. apply orb_false_iff in Hk as [Hk1 Hk2].
    rewrite <- app_assoc in Hids.
    pose proof (step_spec E s (flat_map step_ents r ++ rest) w Hns Hs Hk1
                  (NoDup_app_l _ _ ND)
                  (fun t Ht => HF t (in_or_app _ _ _ (or_introl Ht))) Hids HK) as S1.
    cbn [foldM]. unfold has_open, all_hdicts. cbn [flat_map]. rewrite existsb_app.
    destruct (run_step E w s) as [w1|]; [|now rewrite S1].
    pose proof S1 as [lg [S [X [nxt [table [Ew [C1 [B1 [P1 [F1 [N1 [I1 R1]]]]]]]]]]]].
    assert (F1' : map fst (ws_sorted w1) = map fst (ws_sorted w) ++ step_ptypes E s).
    { rewrite Ew. unfold grown. cbn [ws_sorted]. rewrite map_app, F1. cbn [flat_map].
      now rewrite app_nil_r. }
    assert (E1 : ws_ents w1 = ws_ents w ++ X) by (now rewrite Ew).
    assert (X1 : ws_next w1 = nxt) by (now rewrite Ew).
    specialize (IH rest w1 Hr Hk2 (NoDup_app_r _ _ ND)).
    rewrite F1', E1, X1 in IH.
    assert (HF2 : forall t, In t (flat_map (step_ptypes E) r) ->
                            ~ In t (map fst (ws_sorted w) ++ step_ptypes E s)).
    { intros t Ht HI. apply in_app_or in HI as [HI|HI].
      - apply (HF t); [apply in_or_app; now right|exact HI].
      - exact (NoDup_app_disj _ _ t ND Ht HI). }
    specialize (IH HF2 R1 N1).
    destruct (foldM (run_step E) w1 r) as [w2|].
    + exact (extends_app E [s] _ r rest w w1 w2 S1 IH).
    + unfold has_open, all_hdicts in IH. now rewrite IH, orb_true_r.
Qed.

(* ---- the callbacks --------------------------------------------------------------------------------- *)
Lemma expected_split vh x :
  expected_cbs vh x = addcb x ++ (if vh then loadcb x else []).
Proof. destruct x as [i [k eid]]. cbn [expected_cbs addcb loadcb]. now destruct vh. Qed.

Lemma addcb_inst y c : In c (addcb y) -> cb_inst c = fst y.
Proof.
  destruct y as [i [k eid]]. cbn [addcb fst]. destruct (has_add k); cbn [In]; [|tauto].
  intros [<-|[]]. reflexivity.
Qed.

Lemma loadcb_inst y c : In c (loadcb y) -> cb_inst c = fst y.
Proof.
  destruct y as [i [k eid]]. cbn [loadcb fst]. destruct (has_load k); cbn [In]; [|tauto].
  intros [<-|[]]. reflexivity.
Qed.

Lemma spec_items_insts E : forall its start obs table,
  spec_items E its start obs = Some table ->
  NoDup (map fst table) /\ forall i, In i (map fst table) -> start <= i.
Proof.
  induction its as [|[n|e] its IH]; intros start obs table H; cbn [spec_items] in H.
  - destruct obs; [|discriminate]. injection H as <-. split; [constructor|intros i []].
  - destruct (IH _ _ _ H) as [A B]. split; [exact A|]. intros i Hi. specialize (B i Hi). lia.
  - destruct (null (ent_dicts e)); [now apply IH in H|].
    destruct obs as [|[id insts] obs]; [discriminate|].
    destruct (id_given_ok (e_id e) id && zlist_eqb insts (zseq start (length (ent_dicts e))));
      [|discriminate].
    destruct (spec_items E its (start + Z.of_nat (length (ent_dicts e))) obs) as [t|] eqn:S;
      [|discriminate].
    injection H as <-. destruct (IH _ _ _ S) as [A B].
    rewrite map_app, map_fst_combine by (now rewrite zseq_length, map_length).
    split.
    + apply NoDup_app_intro; [apply zseq_NoDup|exact A|].
      intros i Hi Ht. apply zseq_In in Hi. specialize (B i Ht). lia.
    + intros i Hi. apply in_app_or in Hi as [Hi|Hi].
      * apply zseq_In in Hi. lia.
      * specialize (B i Hi). lia.
Qed.

Lemma filter_all (i : Z) (l : list cb) :
  (forall c, In c l -> cb_inst c = i) -> cbs_of i l = l.
Proof.
  unfold cbs_of. induction l as [|c l IH]; cbn [filter]; intro H; [reflexivity|].
  rewrite (H c (or_introl eq_refl)), Z.eqb_refl. f_equal. apply IH. intros c' Hc. apply H. now right.
Qed.

Lemma filter_none (i : Z) (l : list cb) :
  (forall c, In c l -> cb_inst c <> i) -> cbs_of i l = [].
Proof.
  unfold cbs_of. induction l as [|c l IH]; cbn [filter]; intro H; [reflexivity|].
  destruct (cb_inst c =? i) eqn:E.
  - apply Z.eqb_eq in E. exfalso. apply (H c); [now left|exact E].
  - apply IH. intros c' Hc. apply H. now right.
Qed.

Lemma cbs_of_app i l m : cbs_of i (l ++ m) = cbs_of i l ++ cbs_of i m.
Proof. unfold cbs_of. apply filter_app. Qed.

Lemma cbs_of_flat_map (f : Z * (ckind * val) -> list cb) table x :
  (forall y c, In c (f y) -> cb_inst c = fst y) ->
  NoDup (map fst table) -> In x table ->
  cbs_of (fst x) (flat_map f table) = f x.
Proof.
  intros Hf. induction table as [|y t IH]; intros ND HI; [destruct HI|].
  cbn [flat_map map] in *. rewrite cbs_of_app. inversion ND as [|? ? Hy ND']; subst.
  assert (NONE : forall z, ~ In z (map fst t) -> cbs_of z (flat_map f t) = []).
  { intros z Hz. apply filter_none. intros c Hc. apply in_flat_map in Hc as [y' [Hy' Hc]].
    rewrite (Hf _ _ Hc). intro E. apply Hz. rewrite <- E. now apply in_map. }
  destruct HI as [->|HI].
  - rewrite (filter_all _ _ (Hf x)), (NONE _ Hy). apply app_nil_r.
  - rewrite (IH ND' HI).
    rewrite filter_none; [reflexivity|].
    intros c Hc. rewrite (Hf _ _ Hc). intro E. apply Hy. rewrite E. now apply in_map.
Qed.

Lemma cb_eqb_refl c : cb_eqb c c = true.
Proof.
  unfold cb_eqb. now rewrite !Z.eqb_refl, val_eqb_refl, eqb_reflx.
Qed.

Lemma cbs_ok_model vh table :
  NoDup (map fst table) ->
  cbs_ok vh table (flat_map addcb table ++ (if vh then flat_map loadcb table else [])) = true.
Proof.
  intro ND. unfold cbs_ok. apply andb_true_iff. split.
  - apply forallb_forall. intros x Hx.
    rewrite cbs_of_app, (cbs_of_flat_map addcb table x addcb_inst ND Hx), expected_split.
    destruct vh.
    + rewrite (cbs_of_flat_map loadcb table x loadcb_inst ND Hx).
      apply forall2b_refl, cb_eqb_refl.
    + apply forall2b_refl, cb_eqb_refl.
  - apply forallb_forall. intros c Hc. apply existsb_exists.
    apply in_app_or in Hc as [Hc|Hc].
    + apply in_flat_map in Hc as [y [Hy Hc]]. exists y. split; [exact Hy|].
      rewrite (addcb_inst _ _ Hc). apply Z.eqb_refl.
    + destruct vh; [|destruct Hc].
      apply in_flat_map in Hc as [y [Hy Hc]]. exists y. split; [exact Hy|].
      rewrite (loadcb_inst _ _ Hc). apply Z.eqb_refl.
Qed.

Lemma release_queue table (ls : list Z) :
  flat_map (fun q => match q with
                     | QAdd i e => [CB i 0 e true]
                     | QLoad => map (fun i => CB i 1 JNull true) ls
                     end) (flat_map qadd table)
  = flat_map addcb table.
Proof.
  rewrite flat_map_flat_map. apply flat_map_ext. intros [i [k eid]].
  cbn [qadd addcb]. destruct (has_add k); reflexivity.
Qed.

Lemma release_listen table :
  map (fun i => CB i 1 JNull true) (flat_map lload table) = flat_map loadcb table.
Proof.
  induction table as [|[i [k eid]] t IH]; cbn [flat_map map]; [reflexivity|].
  rewrite map_app, IH. cbn [lload loadcb]. destruct (has_load k); reflexivity.
Qed.

(* what the component doubles have received once the world is enabled *)
Lemma cbs_final (vh en : bool) lg S X nxt table M :
  (vh = true -> en = false) ->
  let w' := grown (w_start en) lg S X nxt table M in
  let wf := if vh then dispatch_load w' else w' in
  ws_called wf ++ release wf
  = flat_map addcb table ++ (if vh then flat_map loadcb table else []).
Proof.
  intros Hv. cbv zeta. destruct vh.
  - rewrite (Hv eq_refl). unfold grown, w_start, dispatch_load.
    cbn [ws_log ws_sorted ws_ents ws_next ws_enabled ws_queue ws_listen ws_called ws_marks app].
    destruct (flat_map lload table) as [|i ls] eqn:L; cbn [null].
    + unfold release. cbn [ws_queue ws_listen ws_called app]. rewrite release_queue.
      rewrite <- release_listen, L. cbn [map]. now rewrite app_nil_r.
    + unfold release. cbn [ws_queue ws_listen ws_called app].
      rewrite flat_map_app, release_queue. cbn [flat_map]. rewrite app_nil_r.
      now rewrite <- release_listen, L.
  - unfold grown, w_start, release.
    cbn [ws_log ws_sorted ws_ents ws_next ws_enabled ws_queue ws_listen ws_called ws_marks app].
    destruct en; cbn [flat_map app].
    + reflexivity.
    + now rewrite release_queue, app_nil_r.
Qed.

(* ---- acceptance is equality with the model's prediction ------------------------------------------ *)
Lemma forall2b_eq {A} (f : A -> A -> bool) :
  (forall x y, f x y = true -> x = y) -> forall l m, forall2b f l m = true -> l = m.
Proof.
  intros Hf. induction l as [|x l IH]; intros [|y m] H; cbn [forall2b] in H; try discriminate;
    [reflexivity|].
  apply andb_true_iff in H as [H1 H2]. now rewrite (Hf _ _ H1), (IH _ H2).
Qed.

Lemma kw_eqb_eq a b : kw_eqb a b = true -> a = b.
Proof.
  apply forall2b_eq. intros [k v] [k' v'] H. cbn [fst snd] in H.
  apply andb_true_iff in H as [H1 H2]. apply Z.eqb_eq in H1. apply val_eqb_eq in H2. now subst.
Qed.

Lemma constr_eqb_eq a b : constr_eqb a b = true -> a = b.
Proof.
  destruct a as [t a k], b as [t' a' k']. unfold constr_eqb. cbn [k_type k_args k_kwargs].
  intro H. apply andb_true_iff in H as [H H3]. apply andb_true_iff in H as [H1 H2].
  apply Z.eqb_eq in H1. apply kw_eqb_eq in H3.
  apply (forall2b_eq val_eqb (fun x y => proj1 (val_eqb_eq x y))) in H2. now subst.
Qed.

Lemma cb_eqb_eq a b : cb_eqb a b = true -> a = b.
Proof.
  destruct a as [i k e o], b as [i' k' e' o']. unfold cb_eqb. cbn [cb_inst cb_kind cb_ent cb_ok].
  intro H. apply andb_true_iff in H as [H H4]. apply andb_true_iff in H as [H H3].
  apply andb_true_iff in H as [H1 H2].
  apply Z.eqb_eq in H1, H2. apply val_eqb_eq in H3. apply eqb_prop in H4. now subst.
Qed.

Lemma marks_eqb_eq a b : marks_eqb a b = true -> a = b.
Proof.
  apply forall2b_eq. intros [k v] [k' v'] H. cbn [fst snd] in H.
  apply andb_true_iff in H as [H1 H2]. apply Z.eqb_eq in H1. apply eqb_prop in H2. now subst.
Qed.

Lemma marks_eqb_refl a : marks_eqb a a = true.
Proof. apply forall2b_refl. intros [k v]. cbn [fst snd]. now rewrite Z.eqb_refl, eqb_reflx. Qed.

Lemma outcome_eqb_eq a b : outcome_eqb a b = true -> a = b.
Proof.
  destruct a as [|[c p e en cb m]], b as [|[c' p' e' en' cb' m']]; cbn [outcome_eqb]; try discriminate;
    [reflexivity|].
  unfold wobs_eqb. cbn [o_constr o_procs o_ents o_enabled o_cbs o_marks]. intro H.
  apply andb_true_iff in H as [H H6].
  apply andb_true_iff in H as [H H5]. apply andb_true_iff in H as [H H4].
  apply andb_true_iff in H as [H H3]. apply andb_true_iff in H as [H1 H2].
  apply (forall2b_eq _ constr_eqb_eq) in H1. apply zlist_eqb_eq in H2.
  apply (forall2b_eq _ cb_eqb_eq) in H5. apply eqb_prop in H4. apply marks_eqb_eq in H6.
  assert (e = e').
  { revert H3. apply forall2b_eq. intros [i l] [i' l'] H. cbn [fst snd] in H.
    apply andb_true_iff in H as [Ha Hb]. apply val_eqb_eq in Ha. apply zlist_eqb_eq in Hb.
    now subst. }
  now subst.
Qed.

Lemma dl_log w : ws_log (dispatch_load w) = ws_log w.
Proof. unfold dispatch_load. now destruct (null (ws_listen w)). Qed.
Lemma dl_sorted w : ws_sorted (dispatch_load w) = ws_sorted w.
Proof. unfold dispatch_load. now destruct (null (ws_listen w)). Qed.
Lemma dl_ents w : ws_ents (dispatch_load w) = ws_ents w.
Proof. unfold dispatch_load. now destruct (null (ws_listen w)). Qed.
Lemma dl_enabled w : ws_enabled (dispatch_load w) = ws_enabled w.
Proof. unfold dispatch_load. now destruct (null (ws_listen w)). Qed.
Lemma dl_marks w : ws_marks (dispatch_load w) = ws_marks w.
Proof. unfold dispatch_load. now destruct (null (ws_listen w)). Qed.

(* ---- the domain, taken apart ---------------------------------------------------------------------- *)
Lemma proc_wf_good E h d :
  proc_wf E h d = true -> good E h d /\ kind_of E d = CProc /\ 0 <= class_serial E d.
Proof.
  unfold proc_wf. intro H. apply andb_true_iff in H as [H1 H2].
  destruct (class_of E d) as [[t k]|] eqn:C; [|discriminate].
  destruct k; try discriminate.
  destruct (class_of_serial_kind E d t CProc C) as [<- Hk].
  split; [split; [exact H1|exists (class_serial E d), CProc; now split]|]. split; [exact Hk|lia].
Qed.

Lemma comp_wf_good E h d : comp_wf E h d = true -> good E h d.
Proof.
  unfold comp_wf. intro H. apply andb_true_iff in H as [H1 H2].
  destruct (class_of E d) as [[t k]|] eqn:C; [|discriminate].
  destruct k as [|a l|]; try discriminate.
  split; [exact H1|exists t, (CComp a l); now split].
Qed.

Lemma desc_wf_ok E h ds :
  desc_wf E h ds = true ->
  Forall (good E h) (proc_dicts ds) /\
  (forall d, In d (proc_dicts ds) -> kind_of E d = CProc) /\
  Forall (fun e => Forall (good E h) (ent_dicts e)) (optl (w_ents ds)) /\
  Forall (fun e => NoDup (map (class_serial E) (ent_dicts e))) (optl (w_ents ds)).
Proof.
  unfold desc_wf. intro H. apply andb_true_iff in H as [Hp He].
  rewrite forallb_forall in Hp. rewrite forallb_forall in He.
  split; [|split; [|split]].
  - apply Forall_forall. intros d Hd. now apply proc_wf_good, Hp.
  - intros d Hd. now apply (proc_wf_good E h d (Hp d Hd)).
  - apply Forall_forall. intros e Hin. apply Forall_forall. intros d Hd.
    specialize (He e Hin). unfold ent_wf in He. apply andb_true_iff in He as [Hc _].
    rewrite forallb_forall in Hc. now apply comp_wf_good, Hc.
  - apply Forall_forall. intros e Hin. specialize (He e Hin). unfold ent_wf in He.
    apply andb_true_iff in He as [_ Hn]. now apply znodup_NoDup.
Qed.

Lemma step_wf_ok E s : step_wf E s = true -> step_ok E s.
Proof.
  unfold step_ok. destruct s as [|ps ds|ds|k]; cbn [step_wf step_how]; intro H; try exact I.
  - apply andb_true_iff in H as [H H3]. apply andb_true_iff in H as [H1 H2].
    apply Nat.eqb_eq in H2. split; [split; [lia|exact H2]|]. now apply desc_wf_ok.
  - split; [exact I|]. now apply desc_wf_ok.
Qed.

(* ---- main lemma: the model's own prediction satisfies the property --------------------------------- *)
Lemma via_handle_disabled k : via_handle k = true -> init_enabled k = false.
Proof. destruct k; cbn; congruence. Qed.

Lemma model_holds E k :
  wf_k E k = true -> known_k E k = false -> holds1 E k (model E k) = true.
Proof.
  unfold wf_k, known_k, holds1. intros Hwf Hk.
  apply andb_true_iff in Hwf as [Hwf Hids]. apply andb_true_iff in Hwf as [Hwf Hnd].
  apply andb_true_iff in Hwf as [Hwf Hst]. apply andb_true_iff in Hwf as [Hns _].
  assert (OK : Forall (step_ok E) (steps_of k)).
  { apply Forall_forall. intros s Hs. rewrite forallb_forall in Hst. now apply step_wf_ok, Hst. }
  apply znodup_NoDup in Hnd.
  pose proof (run_steps_spec E Hns (steps_of k) [] (w_start (init_enabled k)) OK Hk Hnd) as R.
  cbn [w_start ws_sorted ws_ents ws_next map] in R. rewrite app_nil_r in R.
  specialize (R (fun t _ HI => HI) Hids (NoDup_nil _)).
  unfold model, load.
  destruct (foldM (run_step E) (w_start (init_enabled k)) (steps_of k)) as [w'|]; [|exact R].
  destruct R as [lg [S [X [nxt [table [-> [C1 [B1 [P1 [_ [N1 [I1 _]]]]]]]]]]]].
  cbn [w_start ws_log ws_ents length app] in P1, N1, I1. change (Z.of_nat 0) with 0 in P1, I1.
  unfold spec_ok, observe. cbn [o_constr o_procs o_ents o_enabled o_cbs o_marks].
  rewrite (cbs_final (via_handle k) (init_enabled k) lg S X nxt table (exp_marks (steps_of k))
             (via_handle_disabled k)).
  set (w' := grown (w_start (init_enabled k)) lg S X nxt table (exp_marks (steps_of k))).
  set (wf := if via_handle k then dispatch_load w' else w').
  assert (Q : ws_log wf = lg /\ ws_sorted wf = S /\ ws_ents wf = X /\
              ws_enabled wf = init_enabled k /\ ws_marks wf = exp_marks (steps_of k)).
  { unfold wf. destruct (via_handle k).
    - rewrite dl_log, dl_sorted, dl_ents, dl_enabled, dl_marks. unfold w'. cbn. auto.
    - unfold w'. cbn. auto. }
  destruct Q as [-> [-> [-> [-> ->]]]].
  rewrite C1, B1, P1, zlist_eqb_refl, eqb_reflx, marks_eqb_refl. cbn [andb negb].
  rewrite map_map. cbn [fst].
  replace (map (fun x : val * list (Z * Z) => fst x) X) with (map fst X) by reflexivity.
  rewrite (proj2 (vnodup_NoDup _) N1).
  change (map (fun p : val * list (Z * Z) => (fst p, map snd (snd p))) X) with (map obs_ent X).
  rewrite I1. cbn [andb].
  apply cbs_ok_model. exact (proj1 (spec_items_insts E _ _ _ _ I1)).
Qed.

Lemma forall2b_impl_in {A B} (f g : A -> B -> bool) (m : list B) :
  (forall x y, In y m -> f x y = true -> g x y = true) ->
  forall l, forall2b f l m = true -> forall2b g l m = true.
Proof.
  induction m as [|y m IH]; intros H [|x l] F; cbn [forall2b] in *; try discriminate;
    [reflexivity|].
  apply andb_true_iff in F as [F1 F2]. rewrite (H x y (or_introl eq_refl) F1). cbn [andb].
  apply IH; [|exact F2]. intros x' y' Hy. apply H. now right.
Qed.

Lemma accepts_holds c : wf_b c = true -> known_b c = false -> accepts c = true -> holds c.
Proof.
  destruct c as [E loads]. unfold wf_b, known_b, accepts, holds, holds_b. cbn [c_env c_loads].
  intros Hwf Hk. rewrite forallb_forall in Hwf.
  apply forall2b_impl_in. intros i [k [j o]] Hin. unfold accepts1, load_ok. cbn [fst snd].
  intro H. apply andb_true_iff in H as [H1 H2]. rewrite H1. cbn [andb].
  apply outcome_eqb_eq in H2. subst o. apply model_holds.
  - exact (Hwf _ Hin).
  - destruct (known_k E k) eqn:K; [|reflexivity].
    assert (existsb (fun r : load_kind * (Z * outcome) => known_k E (fst r)) loads = true).
    { apply existsb_exists. eexists. split; [exact Hin|exact K]. }
    congruence.
Qed.

(* every single load of a case satisfies the specification *)
Lemma forall2b_zseq_nth {B} (f : Z -> B -> bool) : forall (m : list B) s n o,
  forall2b f (zseq s (length m)) m = true -> nth_error m n = Some o ->
  f (s + Z.of_nat n) o = true.
Proof.
  induction m as [|y m IH]; intros s n o F Hn; [destruct n; discriminate|].
  cbn [length zseq forall2b] in F. apply andb_true_iff in F as [F1 F2].
  destruct n as [|n]; cbn [nth_error] in Hn.
  - injection Hn as <-. now replace (s + Z.of_nat 0) with s by lia.
  - replace (s + Z.of_nat (S n)) with (s + 1 + Z.of_nat n) by lia. now apply IH.
Qed.

Lemma holds_every_load c n k i o :
  holds c -> nth_error (c_loads c) n = Some (k, (i, o)) ->
  i = Z.of_nat n /\ holds1 (c_env c) k o = true.
Proof.
  unfold holds, holds_b. intros H Hn.
  pose proof (forall2b_zseq_nth _ _ 0 n (k, (i, o)) H Hn) as L. unfold load_ok in L.
  cbn [fst snd] in L.
  apply andb_true_iff in L as [L1 L2]. apply Z.eqb_eq in L1. split; [lia|exact L2].
Qed.

(* ---- what [holds] says on raw observations ---------------------------------------------------------- *)
Lemma forall2b_nth {A B} (f : A -> B -> bool) : forall l m i a,
  forall2b f l m = true -> nth_error l i = Some a ->
  exists b, nth_error m i = Some b /\ f a b = true.
Proof.
  induction l as [|x l IH]; intros [|y m] i a H Hn; cbn [forall2b] in H; try discriminate.
  - destruct i; discriminate.
  - apply andb_true_iff in H as [H1 H2]. destruct i as [|i]; cbn [nth_error] in *.
    + injection Hn as <-. now exists y.
    + now apply (IH m i a).
Qed.

Lemma holds_spec_ok E k w : holds1 E k (OOk w) = true -> spec_ok E k w = true.
Proof. intro H. exact H. Qed.

Lemma spec_ok_constr E k w :
  spec_ok E k w = true -> forall2b (check_constr E) (all_hdicts (steps_of k)) (o_constr w) = true.
Proof.
  unfold spec_ok. intro S.
  apply andb_true_iff in S as [S _]. apply andb_true_iff in S as [S _].
  apply andb_true_iff in S as [S _]. apply andb_true_iff in S as [S _].
  apply andb_true_iff in S as [S _]. now apply andb_true_iff in S as [S _].
Qed.

Lemma holds_constr E k w j hd :
  holds1 E k (OOk w) = true -> nth_error (all_hdicts (steps_of k)) j = Some hd ->
  exists kc, nth_error (o_constr w) j = Some kc /\ check_constr E hd kc = true.
Proof.
  intros H Hn. pose proof (spec_ok_constr _ _ _ (holds_spec_ok E k w H)) as S.
  exact (forall2b_nth _ _ _ _ _ S Hn).
Qed.

Lemma holds_counts E k w :
  holds1 E k (OOk w) = true -> length (o_constr w) = length (all_hdicts (steps_of k)).
Proof.
  intros H. pose proof (spec_ok_constr _ _ _ (holds_spec_ok E k w H)) as S.
  symmetry. exact (forall2b_length _ _ _ S).
Qed.

Lemma holds_arg E k w j h d i a v :
  holds1 E k (OOk w) = true -> nth_error (all_hdicts (steps_of k)) j = Some (h, d) ->
  nth_error (optl (d_args d)) i = Some a -> expected E h a = Exactly v ->
  exists kc, nth_error (o_constr w) j = Some kc /\ nth_error (k_args kc) i = Some v
            /\ length (k_args kc) = length (optl (d_args d)).
Proof.
  intros H Hd Ha Hs. destruct (holds_constr E k w j (h, d) H Hd) as [kc [Hk C]].
  exists kc. split; [exact Hk|]. unfold check_constr in C.
  destruct (slookup (d_type d) (c_ns E)); [|discriminate].
  apply andb_true_iff in C as [C _]. apply andb_true_iff in C as [_ C].
  destruct (forall2b_nth _ _ _ _ _ C Ha) as [o [Hn Hok]].
  unfold arg_ok in Hok. rewrite Hs in Hok. apply val_eqb_eq in Hok. subst o.
  split; [exact Hn|]. symmetry. exact (forall2b_length _ _ _ C).
Qed.

Lemma holds_kwarg E k w j h d i key a v :
  holds1 E k (OOk w) = true -> nth_error (all_hdicts (steps_of k)) j = Some (h, d) ->
  nth_error (optl (d_kwargs d)) i = Some (key, a) -> expected E h a = Exactly v ->
  exists kc, nth_error (o_constr w) j = Some kc /\ nth_error (k_kwargs kc) i = Some (key, v)
            /\ length (k_kwargs kc) = length (optl (d_kwargs d)).
Proof.
  intros H Hd Ha Hs. destruct (holds_constr E k w j (h, d) H Hd) as [kc [Hk C]].
  exists kc. split; [exact Hk|]. unfold check_constr in C.
  destruct (slookup (d_type d) (c_ns E)); [|discriminate].
  apply andb_true_iff in C as [_ C].
  destruct (forall2b_nth _ _ _ _ _ C Ha) as [[key' o] [Hn Hok]]. cbn [fst snd] in Hok.
  apply andb_true_iff in Hok as [Hkey Hok]. apply Z.eqb_eq in Hkey. subst key'.
  unfold arg_ok in Hok. rewrite Hs in Hok. apply val_eqb_eq in Hok. subst o.
  split; [exact Hn|]. symmetry. exact (forall2b_length _ _ _ C).
Qed.

Lemma holds_world E k w :
  holds1 E k (OOk w) = true ->
  o_procs w = exp_procs (steps_of k) 0 /\
  o_enabled w = init_enabled k /\
  o_marks w = exp_marks (steps_of k) /\
  NoDup (map fst (o_ents w)).
Proof.
  intros H. pose proof (holds_spec_ok E k w H) as S. unfold spec_ok in S.
  apply andb_true_iff in S as [S _]. apply andb_true_iff in S as [S S5].
  apply andb_true_iff in S as [S S4]. apply andb_true_iff in S as [S S3].
  apply andb_true_iff in S as [_ S2].
  split; [now apply zlist_eqb_eq in S2|]. split; [now apply eqb_prop in S3|].
  split; [now apply marks_eqb_eq|]. now apply vnodup_NoDup.
Qed.

Lemma holds_callbacks E k w :
  holds1 E k (OOk w) = true ->
  exists table,
    spec_items E (flat_map step_items (steps_of k)) 0 (o_ents w) = Some table /\
    (forall x, In x table ->
       cbs_of (fst x) (o_cbs w) = expected_cbs (via_handle k) x) /\
    (forall cb0, In cb0 (o_cbs w) -> exists x, In x table /\ fst x = cb_inst cb0).
Proof.
  intros H. pose proof (holds_spec_ok E k w H) as S. unfold spec_ok in S.
  apply andb_true_iff in S as [_ S].
  destruct (spec_items _ _ _ _) as [table|]; [|discriminate]. exists table. split; [reflexivity|].
  unfold cbs_ok in S. apply andb_true_iff in S as [S1 S2].
  rewrite forallb_forall in S1. rewrite forallb_forall in S2. split.
  - intros x Hx. exact (forall2b_eq _ cb_eqb_eq _ _ (S1 x Hx)).
  - intros cb0 Hc. specialize (S2 cb0 Hc). apply existsb_exists in S2 as [x [Hx Eq]].
    exists x. split; [exact Hx|now apply Z.eqb_eq].
Qed.

(* error paths: a loaded world was built by no raising constructor and from
   no reference that names nothing; an aborted load has a cause in its description *)
Lemma holds_no_raise E k w :
  holds1 E k (OOk w) = true -> existsb raises_constr (o_constr w) = false.
Proof.
  intros H. pose proof (holds_spec_ok E k w H) as S. unfold spec_ok in S.
  apply andb_true_iff in S as [S _]. apply andb_true_iff in S as [S _].
  apply andb_true_iff in S as [S _]. apply andb_true_iff in S as [S _].
  apply andb_true_iff in S as [S _].
  apply andb_true_iff in S as [_ S]. now apply negb_true_iff in S.
Qed.

Lemma holds_no_dangling E k w j h d i a :
  holds1 E k (OOk w) = true -> nth_error (all_hdicts (steps_of k)) j = Some (h, d) ->
  nth_error (optl (d_args d)) i = Some a -> expected E h a <> MustFail.
Proof.
  intros H Hd Ha Hm. destruct (holds_constr E k w j (h, d) H Hd) as [kc [Hk C]].
  unfold check_constr in C. destruct (slookup (d_type d) (c_ns E)); [|discriminate].
  apply andb_true_iff in C as [C _]. apply andb_true_iff in C as [_ C].
  destruct (forall2b_nth _ _ _ _ _ C Ha) as [o [_ Hok]]. unfold arg_ok in Hok.
  rewrite Hm in Hok. discriminate.
Qed.

Lemma abort_has_cause E k : holds1 E k OErr = true -> has_open E (steps_of k) = true.
Proof. intro H. exact H. Qed.

(* the three ways of loading, spelled out *)
Lemma file_dicts ds :
  all_hdicts (steps_of (LFile ds)) = map (pair (HFile default_passes)) (all_dicts ds).
Proof. unfold all_hdicts. cbn [steps_of flat_map step_dicts app]. apply app_nil_r. Qed.

Lemma file_expected E a : expected E (HFile default_passes) a = subst_spec E a.
Proof. reflexivity. Qed.

Lemma file_procs ds :
  exp_procs (steps_of (LFile ds)) 0 = -1 :: -2 :: zseq 0 (length (proc_dicts ds)).
Proof. cbn [steps_of exp_procs step_procs app]. now rewrite app_nil_r. Qed.

Lemma dict_expected E a : expected E HDict a = Exactly a.
Proof. reflexivity. Qed.

Lemma custom_expected E ps a :
  ns_wf E = true -> expected E (HFile ps) a = spec_fold E ps (Exactly a).
Proof. exact (expected_fold E ps a). Qed.

(* a file loaded by WorldFromFileHandle: the j-th described dict ... *)
Lemma file_arg E ds w j d i a v :
  holds1 E (LFile ds) (OOk w) = true -> nth_error (all_dicts ds) j = Some d ->
  nth_error (optl (d_args d)) i = Some a -> subst_spec E a = Exactly v ->
  exists kc, nth_error (o_constr w) j = Some kc /\ nth_error (k_args kc) i = Some v
            /\ length (k_args kc) = length (optl (d_args d)).
Proof.
  intros H Hd Ha Hs.
  apply (holds_arg E (LFile ds) w j (HFile default_passes) d i a v H); try assumption.
  rewrite file_dicts. now rewrite nth_error_map, Hd.
Qed.

Lemma file_kwarg E ds w j d i key a v :
  holds1 E (LFile ds) (OOk w) = true -> nth_error (all_dicts ds) j = Some d ->
  nth_error (optl (d_kwargs d)) i = Some (key, a) -> subst_spec E a = Exactly v ->
  exists kc, nth_error (o_constr w) j = Some kc /\ nth_error (k_kwargs kc) i = Some (key, v)
            /\ length (k_kwargs kc) = length (optl (d_kwargs d)).
Proof.
  intros H Hd Ha Hs.
  apply (holds_kwarg E (LFile ds) w j (HFile default_passes) d i key a v H); try assumption.
  rewrite file_dicts. now rewrite nth_error_map, Hd.
Qed.

Lemma file_world E ds w :
  holds1 E (LFile ds) (OOk w) = true ->
  o_procs w = -1 :: -2 :: zseq 0 (length (proc_dicts ds)) /\ o_enabled w = false /\
  NoDup (map fst (o_ents w)).
Proof.
  intros H. destruct (holds_world _ _ w H) as [A [B [_ D]]].
  rewrite file_procs in A. auto.
Qed.

(* the forms, literally *)
Lemma strip_prefix_app m r : strip_prefix m (m ++ r) = Some r.
Proof. induction m as [|a m IH]; cbn [strip_prefix app]; [reflexivity|]. now rewrite Z.eqb_refl. Qed.

Lemma split_last_snoc b l : split_last (b ++ [l]) = Some (b, l).
Proof.
  induction b as [|c b IH]; cbn [split_last app]; [reflexivity|]. now rewrite IH.
Qed.

Definition clean_body (b : str) : Prop :=
  b <> [] /\ forallb (fun x => negb (x =? 125) && negb (x =? 10)) b = true.

Lemma exact_body_literal m b : clean_body b -> exact_body m (m ++ b ++ [125]) = Some b.
Proof.
  intros [Hne Hc]. unfold exact_body. rewrite strip_prefix_app, split_last_snoc, Hc.
  destruct b; [contradiction|reflexivity].
Qed.

Lemma classify_object_literal b : clean_body b -> classify (m_obj ++ b ++ [125]) = FObj b.
Proof. intro H. unfold classify. now rewrite (exact_body_literal m_obj b H). Qed.

Lemma classify_res_literal b : clean_body b -> classify (m_res ++ b ++ [125]) = FRes b.
Proof.
  intro H. unfold classify.
  assert (S : starts_with m_res (m_res ++ b ++ [125]) = true)
    by (unfold starts_with; now rewrite strip_prefix_app).
  now rewrite (not_starts_exact _ _ (res_not_obj _ S)), (exact_body_literal m_res b H).
Qed.

Lemma classify_handle_literal b : clean_body b -> classify (m_handle ++ b ++ [125]) = FHandle b.
Proof.
  intro H. unfold classify.
  assert (S : starts_with m_handle (m_handle ++ b ++ [125]) = true)
    by (unfold starts_with; now rewrite strip_prefix_app).
  now rewrite (not_starts_exact _ _ (handle_not_obj _ S)), (not_starts_exact _ _ (handle_not_res _ S)),
    (exact_body_literal m_handle b H).
Qed.

Lemma classify_plain_literal s :
  starts_with m_obj s = false -> starts_with m_res s = false -> starts_with m_handle s = false ->
  classify s = FPlain.
Proof.
  intros H1 H2 H3. unfold classify.
  now rewrite (not_starts_exact _ _ H1), (not_starts_exact _ _ H2), (not_starts_exact _ _ H3), H1, H2, H3.
Qed.

Lemma form_object E b e :
  clean_body b -> slookup b (c_ns E) = Some e ->
  subst_spec E (JStr (m_obj ++ b ++ [125])) = Exactly (n_val e).
Proof. intros H L. cbn [subst_spec]. rewrite (classify_object_literal b H), L. reflexivity. Qed.

Lemma form_resource E b h r :
  clean_body b -> slookup (dots_to_slashes b) (c_tree E) = Some (NHandle h r) ->
  subst_spec E (JStr (m_res ++ b ++ [125])) = Exactly (JRef KRes r) /\
  subst_spec E (JStr (m_handle ++ b ++ [125])) = Exactly (JRef KHandle h).
Proof.
  intros H L. cbn [subst_spec].
  rewrite (classify_res_literal b H), (classify_handle_literal b H), L. split; reflexivity.
Qed.

Lemma form_plain E s :
  starts_with m_obj s = false -> starts_with m_res s = false ->
  starts_with m_handle s = false -> subst_spec E (JStr s) = Exactly (JStr s).
Proof. intros H1 H2 H3. cbn [subst_spec]. rewrite (classify_plain_literal s H1 H2 H3). reflexivity. Qed.

Lemma form_nonstring E a : (forall s, a <> JStr s) -> subst_spec E a = Exactly a.
Proof. intros H. destruct a; try reflexivity. exfalso. exact (H s eq_refl). Qed.

Lemma match_exact m b : clean_body b -> match_prefix m (m ++ b ++ [125]) = Some b.
Proof. intros H. exact (exact_body_match m _ b (exact_body_literal m b H)). Qed.
