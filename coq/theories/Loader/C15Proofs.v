(* C15 - populate_world_from_dict / World side of a load, and the main
   theorem: the three-pass pipeline satisfies the one-pass specification. *)
From Coq Require Import ZArith List Bool Lia ZifyBool FinFun.
From Desper Require Import Lib.Alist Loader.Value Loader.C15Model Loader.C15Lemmas.
Import ListNotations.
Open Scope Z_scope.

(* ---- lists -------------------------------------------------------------------- *)
Lemma zseq_length s n : length (zseq s n) = n.
Proof. revert s; induction n as [|n IH]; intro s; cbn [zseq length]; [reflexivity|now rewrite IH]. Qed.

Lemma zseq_In x s n : In x (zseq s n) <-> s <= x < s + Z.of_nat n.
Proof.
  revert s; induction n as [|n IH]; intro s; cbn [zseq In].
  - lia.
  - rewrite IH. lia.
Qed.

Lemma zseq_NoDup s n : NoDup (zseq s n).
Proof.
  revert s; induction n as [|n IH]; intro s; cbn [zseq]; constructor.
  - rewrite zseq_In. lia.
  - apply IH.
Qed.

Lemma map_fst_combine {A B} (l : list A) (m : list B) :
  length l = length m -> map fst (combine l m) = l.
Proof.
  revert m; induction l as [|x l IH]; intros [|y m] H; cbn in *; try discriminate; [reflexivity|].
  f_equal. apply IH. lia.
Qed.

Lemma map_snd_combine {A B} (l : list A) (m : list B) :
  length l = length m -> map snd (combine l m) = m.
Proof.
  revert m; induction l as [|x l IH]; intros [|y m] H; cbn in *; try discriminate; [reflexivity|].
  f_equal. apply IH. lia.
Qed.

Lemma flat_map_flat_map {A B C} (f : A -> list B) (g : B -> list C) l :
  flat_map g (flat_map f l) = flat_map (fun x => flat_map g (f x)) l.
Proof.
  induction l as [|x l IH]; cbn [flat_map]; [reflexivity|]. now rewrite flat_map_app, IH.
Qed.

Lemma flat_map_combine_map {A B C D X} (f : A * B -> list X) (g : A * C -> list X)
      (p : D -> B) (q : D -> C) (l : list A) (m : list D) :
  (forall a d, f (a, p d) = g (a, q d)) ->
  flat_map f (combine l (map p m)) = flat_map g (combine l (map q m)).
Proof.
  intro H. revert m; induction l as [|a l IH]; intros [|d m]; cbn [map combine flat_map];
    try reflexivity.
  now rewrite H, IH.
Qed.

Lemma Forall2_length' {A B} (R : A -> B -> Prop) l m : Forall2 R l m -> length l = length m.
Proof. induction 1; cbn; [reflexivity|now f_equal]. Qed.

(* ---- the id generator: len(_entities) + 1 draws suffice ----------------------- *)
Lemma draw_spec fuel : forall n keys,
  vmem (JNum (draw fuel n keys)) keys = false \/
  (forall i, (i < fuel)%nat -> In (JNum (n + Z.of_nat i)) keys).
Proof.
  induction fuel as [|f IH]; intros n keys; cbn [draw].
  - right. intros i Hi. lia.
  - destruct (vmem (JNum n) keys) eqn:M; [|now left].
    destruct (IH (n + 1) keys) as [H|H]; [now left|right].
    intros [|j] Hi.
    + replace (n + Z.of_nat 0) with n by lia. now apply vmem_In.
    + replace (n + Z.of_nat (S j)) with (n + 1 + Z.of_nat j) by lia. apply H. lia.
Qed.

Lemma next_auto_fresh n keys : ~ In (JNum (next_auto n keys)) keys.
Proof.
  unfold next_auto. destruct (draw_spec (S (length keys)) n keys) as [H|H].
  - now apply vmem_notIn.
  - exfalso.
    set (L := map (fun i => JNum (n + Z.of_nat i)) (seq 0 (S (length keys)))).
    assert (ND : NoDup L).
    { apply Injective_map_NoDup; [|apply seq_NoDup].
      intros a b E. injection E. lia. }
    assert (IN : incl L keys).
    { intros x Hx. apply in_map_iff in Hx as [i [<- Hi]]. apply H. apply in_seq in Hi. lia. }
    pose proof (NoDup_incl_length ND IN) as LE. unfold L in LE.
    rewrite map_length, seq_length in LE. lia.
Qed.

(* ---- the entity table ---------------------------------------------------------- *)
Lemma aset_fresh (t i : Z) (row : list (Z * Z)) :
  ~ In t (map fst row) -> aset t i row = row ++ [(t, i)].
Proof.
  induction row as [|[t' i'] row IH]; cbn [aset map fst In app]; intro H; [reflexivity|].
  destruct (t =? t') eqn:E; [apply Z.eqb_eq in E; subst; tauto|].
  f_equal. apply IH. tauto.
Qed.

Lemma tbl_set_fresh eid t i tbl :
  ~ In eid (map fst tbl) -> tbl_set eid t i tbl = tbl ++ [(eid, [(t, i)])].
Proof.
  induction tbl as [|[k row] tbl IH]; cbn [tbl_set map fst In app]; intro H; [reflexivity|].
  destruct (val_eqb eid k) eqn:E; [apply val_eqb_eq in E; subst; tauto|].
  f_equal. apply IH. tauto.
Qed.

Lemma tbl_set_last eid t i tbl row :
  ~ In eid (map fst tbl) ->
  tbl_set eid t i (tbl ++ [(eid, row)]) = tbl ++ [(eid, aset t i row)].
Proof.
  induction tbl as [|[k row'] tbl IH]; cbn [tbl_set map fst In app]; intro H.
  - now rewrite val_eqb_refl.
  - destruct (val_eqb eid k) eqn:E; [apply val_eqb_eq in E; subst; tauto|].
    f_equal. apply IH. tauto.
Qed.

Definition row_of (cs : list (Z * nsent)) : list (Z * Z) :=
  map (fun c => (tserial (snd c), fst c)) cs.

Lemma fold_tbl eid tbl : forall cs row,
  ~ In eid (map fst tbl) ->
  NoDup (map fst row ++ map (fun c => tserial (snd c)) cs) ->
  fold_left (fun t c => tbl_set eid (tserial (snd c)) (fst c) t) cs (tbl ++ [(eid, row)])
  = tbl ++ [(eid, row ++ row_of cs)].
Proof.
  induction cs as [|c cs IH]; intros row Hk Hn; cbn [fold_left row_of map].
  - now rewrite app_nil_r.
  - rewrite (tbl_set_last _ _ _ _ _ Hk).
    assert (Hf : ~ In (tserial (snd c)) (map fst row)).
    { pose proof (NoDup_remove_2 _ _ _ Hn) as Hn2. intro HI. apply Hn2. apply in_or_app. now left. }
    rewrite (aset_fresh _ _ _ Hf). rewrite IH; [|exact Hk|].
    + unfold row_of. now rewrite <- app_assoc.
    + rewrite map_app. cbn [map fst]. rewrite <- app_assoc. cbn [app]. exact Hn.
Qed.

(* ---- constructor calls and processors --------------------------------------------- *)
Lemma construct_ok w ds e :
  s_type ds = TObj e -> callable (n_kind e) = true ->
  construct w ds =
  Some (W (ws_log w ++ [constr_of ds]) (ws_sorted w) (ws_ents w) (ws_next w) (ws_enabled w)
          (ws_queue w) (ws_listen w),
        (Z.of_nat (length (ws_log w)), e)).
Proof. intros H C. unfold construct, constr_of. now rewrite H, C. Qed.

Lemma filter_other (t : Z) (l : list (Z * Z)) :
  ~ In t (map fst l) -> filter (fun p => negb (fst p =? t)) l = l.
Proof.
  induction l as [|[a c] l IH]; cbn [filter map fst In]; intro H; [reflexivity|].
  destruct (a =? t) eqn:E; [apply Z.eqb_eq in E; subst; tauto|].
  cbn [negb]. f_equal. apply IH. tauto.
Qed.

Lemma of_nat_snoc {A} (l : list A) x : Z.of_nat (length (l ++ [x])) = Z.of_nat (length l) + 1.
Proof. rewrite app_length. cbn [length]. lia. Qed.

Lemma pop_procs_spec : forall (ts : list Z) (tps : list dstate),
  Forall2 (fun t ds => s_type ds = TObj (NS (JRef KObj t) CProc)) ts tps ->
  NoDup ts ->
  forall w, (forall t, In t ts -> ~ In t (map fst (ws_sorted w))) ->
  foldM pop_proc w tps =
  Some (W (ws_log w ++ map constr_of tps)
          (ws_sorted w ++ combine ts (zseq (Z.of_nat (length (ws_log w))) (length tps)))
          (ws_ents w) (ws_next w) (ws_enabled w) (ws_queue w) (ws_listen w)).
Proof.
  induction 1 as [|t ds ts tps Ht HF IH]; intros ND w Hfresh.
  - destruct w. cbn. now rewrite !app_nil_r.
  - cbn [foldM]. unfold pop_proc. rewrite (construct_ok w ds _ Ht eq_refl).
    cbn [n_kind tserial n_val]. unfold add_processor.
    cbn [ws_log ws_sorted ws_ents ws_next ws_enabled ws_queue ws_listen].
    rewrite (filter_other t (ws_sorted w)) by (apply Hfresh; now left).
    inversion ND as [|? ? Hnin ND']; subst.
    rewrite IH; [| exact ND' |].
    + cbn [ws_log ws_sorted ws_ents ws_next ws_enabled ws_queue ws_listen].
      rewrite of_nat_snoc. cbn [map length zseq combine].
      now rewrite <- !app_assoc.
    + cbn [ws_sorted]. intros t' Hin HI. rewrite map_app in HI. apply in_app_or in HI as [HI|HI].
      * apply (Hfresh t'); [now right|exact HI].
      * cbn in HI. destruct HI as [<-|[]]. contradiction.
Qed.

(* ---- the components of one entity --------------------------------------------------- *)
Definition ent_of (E : env) (d : ddict) : nsent := NS (JRef KObj (class_serial E d)) (kind_of E d).

Definition comp_rel (E : env) (d : ddict) (ds : dstate) : Prop :=
  s_type ds = TObj (ent_of E d) /\ callable (kind_of E d) = true.

Lemma build_comps_spec E : forall ds tds,
  Forall2 (comp_rel E) ds tds ->
  forall w,
  build_comps w tds =
  Some (W (ws_log w ++ map constr_of tds) (ws_sorted w) (ws_ents w) (ws_next w) (ws_enabled w)
          (ws_queue w) (ws_listen w),
        combine (zseq (Z.of_nat (length (ws_log w))) (length ds)) (map (ent_of E) ds)).
Proof.
  induction 1 as [|d t ds tds [Ht Hc] HF IH]; intro w.
  - destruct w. cbn. now rewrite app_nil_r.
  - cbn [build_comps]. rewrite (construct_ok w t _ Ht Hc). rewrite IH.
    cbn [ws_log ws_sorted ws_ents ws_next ws_enabled ws_queue ws_listen].
    rewrite of_nat_snoc. cbn [map length zseq combine]. now rewrite <- app_assoc.
Qed.

Definition cs_of (E : env) (start : Z) (ds : list ddict) : list (Z * nsent) :=
  combine (zseq start (length ds)) (map (ent_of E) ds).

Lemma row_of_cs E start ds : map snd (row_of (cs_of E start ds)) = zseq start (length ds).
Proof.
  unfold row_of, cs_of. rewrite map_map. cbn [snd].
  change (map (fun x : Z * nsent => fst x)) with (@map (Z * nsent) Z fst).
  apply map_fst_combine. now rewrite zseq_length, map_length.
Qed.

Lemma types_of_cs E start ds :
  map (fun c => tserial (snd c)) (cs_of E start ds) = map (class_serial E) ds.
Proof.
  unfold cs_of. revert start; induction ds as [|d ds IH]; intro start; cbn; [reflexivity|].
  f_equal. apply IH.
Qed.

(* the table after create_entity's first loop *)
Lemma table_after E eid tbl start ds :
  ~ In eid (map fst tbl) -> NoDup (map (class_serial E) ds) ->
  fold_left (fun t c => tbl_set eid (tserial (snd c)) (fst c) t) (cs_of E start ds) tbl
  = tbl ++ (if null ds then [] else [(eid, row_of (cs_of E start ds))]).
Proof.
  intros Hk ND. destruct ds as [|d ds].
  - cbn. now rewrite app_nil_r.
  - cbn [null]. unfold cs_of. cbn [length zseq map combine fold_left fst snd].
    rewrite (tbl_set_fresh _ _ _ _ Hk).
    change (combine (zseq (start + 1) (length ds)) (map (ent_of E) ds)) with (cs_of E (start + 1) ds).
    rewrite fold_tbl; [reflexivity|exact Hk|].
    cbn [map fst app]. rewrite types_of_cs. exact ND.
Qed.

(* ---- one entity ------------------------------------------------------------------------ *)
Definition qadd (x : Z * (ckind * val)) : list qev :=
  let '(i, (k, eid)) := x in if has_add k then [QAdd i eid] else [].
Definition lload (x : Z * (ckind * val)) : list Z :=
  let '(i, (k, _)) := x in if has_load k then [i] else [].
Definition table_of (E : env) (start : Z) (ds : list ddict) (eid : val) : list (Z * (ckind * val)) :=
  combine (zseq start (length ds)) (map (fun d => (kind_of E d, eid)) ds).

Lemma queue_of_cs E start ds eid :
  flat_map (fun c : Z * nsent => if has_add (n_kind (snd c)) then [QAdd (fst c) eid] else [])
           (cs_of E start ds)
  = flat_map qadd (table_of E start ds eid).
Proof. unfold cs_of, table_of. apply flat_map_combine_map. reflexivity. Qed.

Lemma listen_of_cs E start ds eid :
  flat_map (fun c : Z * nsent => if has_load (n_kind (snd c)) then [fst c] else [])
           (cs_of E start ds)
  = flat_map lload (table_of E start ds eid).
Proof. unfold cs_of, table_of. apply flat_map_combine_map. reflexivity. Qed.

Lemma create_entity_spec E e es used next w start :
  ids_wf (e :: es) used next = true ->
  map fst (ws_ents w) = used -> ws_next w = next ->
  NoDup (map (class_serial E) (ent_dicts e)) ->
  exists eid next',
    ~ In eid used /\ id_given_ok (e_id e) eid = true /\
    ids_wf es (if null (ent_dicts e) then used else used ++ [eid]) next' = true /\
    create_entity w (cs_of E start (ent_dicts e)) (e_id e) =
    Some (W (ws_log w) (ws_sorted w)
            (ws_ents w ++ (if null (ent_dicts e) then []
                           else [(eid, row_of (cs_of E start (ent_dicts e)))]))
            next' (ws_enabled w)
            (ws_queue w ++ flat_map qadd (table_of E start (ent_dicts e) eid))
            (ws_listen w ++ flat_map lload (table_of E start (ent_dicts e) eid))).
Proof.
  intros Hwf Hu Hn ND. cbn [ids_wf] in Hwf.
  assert (AUTO : forall oid, (oid = None \/ oid = Some JNull) -> e_id e = oid ->
    ids_wf es (if null (ent_dicts e) then used else used ++ [JNum (next_auto next used)])
           (next_auto next used + 1) = true ->
    exists eid next',
    ~ In eid used /\ id_given_ok (e_id e) eid = true /\
    ids_wf es (if null (ent_dicts e) then used else used ++ [eid]) next' = true /\
    create_entity w (cs_of E start (ent_dicts e)) (e_id e) =
    Some (W (ws_log w) (ws_sorted w)
            (ws_ents w ++ (if null (ent_dicts e) then []
                           else [(eid, row_of (cs_of E start (ent_dicts e)))]))
            next' (ws_enabled w)
            (ws_queue w ++ flat_map qadd (table_of E start (ent_dicts e) eid))
            (ws_listen w ++ flat_map lload (table_of E start (ent_dicts e) eid)))).
  { intros oid Ho Hid Hrest. exists (JNum (next_auto next used)), (next_auto next used + 1).
    split; [apply next_auto_fresh|]. split; [rewrite Hid; now destruct Ho as [->| ->]|].
    split; [exact Hrest|].
    unfold create_entity. rewrite Hid, Hu, Hn.
    assert (Hk : ~ In (JNum (next_auto next used)) (map fst (ws_ents w)))
      by (rewrite Hu; apply next_auto_fresh).
    destruct Ho as [-> | ->]; cbv beta iota zeta;
      now rewrite (table_after E _ _ start _ Hk ND), (queue_of_cs E start _ (JNum (next_auto next used))),
        (listen_of_cs E start _ (JNum (next_auto next used))). }
  assert (GIVEN : forall v, e_id e = Some v ->
    (match v with JNum _ | JStr _ => True | _ => False end) ->
    vmem v used = false ->
    ids_wf es (if null (ent_dicts e) then used else used ++ [v]) next = true ->
    exists eid next',
    ~ In eid used /\ id_given_ok (e_id e) eid = true /\
    ids_wf es (if null (ent_dicts e) then used else used ++ [eid]) next' = true /\
    create_entity w (cs_of E start (ent_dicts e)) (e_id e) =
    Some (W (ws_log w) (ws_sorted w)
            (ws_ents w ++ (if null (ent_dicts e) then []
                           else [(eid, row_of (cs_of E start (ent_dicts e)))]))
            next' (ws_enabled w)
            (ws_queue w ++ flat_map qadd (table_of E start (ent_dicts e) eid))
            (ws_listen w ++ flat_map lload (table_of E start (ent_dicts e) eid)))).
  { intros v Hid Hshape Hm Hrest. exists v, next.
    apply vmem_notIn in Hm.
    split; [exact Hm|]. split.
    { rewrite Hid. unfold id_given_ok. destruct v; try contradiction; apply val_eqb_refl. }
    split; [exact Hrest|].
    unfold create_entity. rewrite Hid, Hn.
    assert (Hk : ~ In v (map fst (ws_ents w))) by (now rewrite Hu).
    destruct v as [| | z | s | | |]; try contradiction; cbv beta iota zeta.
    - now rewrite (table_after E _ _ start _ Hk ND), (queue_of_cs E start _ (JNum z)),
        (listen_of_cs E start _ (JNum z)).
    - now rewrite (table_after E _ _ start _ Hk ND), (queue_of_cs E start _ (JStr s)),
        (listen_of_cs E start _ (JStr s)). }
  destruct (e_id e) as [[| b | z | s | l | kv | k i]|] eqn:Hid; try discriminate.
  - apply (AUTO (Some JNull)); auto.
  - apply andb_true_iff in Hwf as [H1 H2]. apply negb_true_iff in H1.
    apply (GIVEN (JNum z)); auto.
  - apply andb_true_iff in Hwf as [H1 H2]. apply negb_true_iff in H1.
    apply (GIVEN (JStr s)); auto.
  - apply (AUTO None); auto.
Qed.

(* ---- all entities ------------------------------------------------------------------------ *)
Definition ent_rel (E : env) (e : edict) (te : option val * list dstate) : Prop :=
  fst te = e_id e /\ Forall2 (comp_rel E) (ent_dicts e) (snd te).

Definition obs_ent (p : val * list (Z * Z)) : val * list Z := (fst p, map snd (snd p)).

Lemma NoDup_snoc_val (l : list val) x : NoDup l -> ~ In x l -> NoDup (l ++ [x]).
Proof.
  intros ND Hx. induction ND as [|y l Hy ND IH]; cbn [app].
  - constructor; [tauto|constructor].
  - constructor.
    + intro HI. apply in_app_or in HI as [HI|[HI|[]]]; [contradiction|].
      subst. apply Hx. now left.
    + apply IH. intro HI. apply Hx. now right.
Qed.

Lemma pop_ents_spec E : forall es tes,
  Forall2 (ent_rel E) es tes ->
  Forall (fun e => NoDup (map (class_serial E) (ent_dicts e))) es ->
  forall w, ids_wf es (map fst (ws_ents w)) (ws_next w) = true ->
  NoDup (map fst (ws_ents w)) ->
  exists newents table next',
    foldM pop_ent w tes =
    Some (W (ws_log w ++ map constr_of (flat_map snd tes)) (ws_sorted w)
            (ws_ents w ++ newents) next' (ws_enabled w)
            (ws_queue w ++ flat_map qadd table) (ws_listen w ++ flat_map lload table)) /\
    NoDup (map fst (ws_ents w ++ newents)) /\
    spec_ents E es (Z.of_nat (length (ws_log w))) (map obs_ent newents) = Some table.
Proof.
  induction 1 as [|e te es tes [Hid Hcs] HF IH]; intros HND w Hwf HK.
  - exists [], [], (ws_next w). destruct w. cbn. rewrite !app_nil_r. auto.
  - inversion HND as [|? ? ND1 HND']; subst.
    destruct te as [tid tds]. cbn [fst snd] in Hid, Hcs. subst tid.
    cbn [foldM]. unfold pop_ent at 1. cbn [fst snd].
    rewrite (build_comps_spec E _ _ Hcs w). fold (cs_of E (Z.of_nat (length (ws_log w))) (ent_dicts e)).
    set (start := Z.of_nat (length (ws_log w))).
    set (w1 := W (ws_log w ++ map constr_of tds) (ws_sorted w) (ws_ents w) (ws_next w)
                 (ws_enabled w) (ws_queue w) (ws_listen w)).
    destruct (create_entity_spec E e es (map fst (ws_ents w)) (ws_next w) w1 start
                Hwf eq_refl eq_refl ND1) as [eid [next' [Hfresh [Hgiven [Hrest Hce]]]]].
    rewrite Hce. cbn [ws_log ws_sorted ws_ents ws_next ws_enabled ws_queue ws_listen w1].
    set (X := if null (ent_dicts e) then []
              else [(eid, row_of (cs_of E start (ent_dicts e)))]) in *.
    set (w2 := W (ws_log w ++ map constr_of tds) (ws_sorted w) (ws_ents w ++ X) next'
                 (ws_enabled w)
                 (ws_queue w ++ flat_map qadd (table_of E start (ent_dicts e) eid))
                 (ws_listen w ++ flat_map lload (table_of E start (ent_dicts e) eid))).
    assert (Hkeys : map fst (ws_ents w2)
                    = if null (ent_dicts e) then map fst (ws_ents w) else map fst (ws_ents w) ++ [eid]).
    { cbn [ws_ents w2]. rewrite map_app. unfold X. destruct (null (ent_dicts e)); cbn.
      - now rewrite app_nil_r.
      - reflexivity. }
    assert (HK2 : NoDup (map fst (ws_ents w2))).
    { rewrite Hkeys. destruct (null (ent_dicts e)); [exact HK|]. now apply NoDup_snoc_val. }
    assert (Hwf2 : ids_wf es (map fst (ws_ents w2)) (ws_next w2) = true).
    { rewrite Hkeys. exact Hrest. }
    destruct (IH HND' w2 Hwf2 HK2) as [newents [table [next'' [Hfold [HND2 Hspec]]]]].
    exists (X ++ newents), (table_of E start (ent_dicts e) eid ++ table), next''.
    split; [|split].
    + rewrite Hfold. cbn [ws_log ws_sorted ws_ents ws_next ws_enabled ws_queue ws_listen w2].
      cbn [flat_map snd]. rewrite map_app, !flat_map_app, <- !app_assoc. reflexivity.
    + cbn [ws_ents w2] in HND2. now rewrite <- app_assoc in HND2.
    + cbn [spec_ents]. cbn [ws_log w2] in Hspec.
      pose proof (Forall2_length' _ _ _ Hcs) as Hlen.
      rewrite app_length, map_length, <- Hlen, Nat2Z.inj_add in Hspec. fold start in Hspec.
      unfold X. destruct (ent_dicts e) as [|d ds] eqn:Eds.
      * cbn [null app map]. cbn [length] in Hspec. rewrite Z.add_0_r in Hspec.
        rewrite Hspec. reflexivity.
      * cbn [null app map obs_ent fst snd]. rewrite Hgiven.
        rewrite row_of_cs, zlist_eqb_refl. cbn [andb]. rewrite Hspec. reflexivity.
Qed.

(* ---- the callbacks after enabling ---------------------------------------------------------- *)
Definition addcb (x : Z * (ckind * val)) : list cb :=
  let '(i, (k, eid)) := x in if has_add k then [CB i 0 eid true] else [].
Definition loadcb (x : Z * (ckind * val)) : list cb :=
  let '(i, (k, _)) := x in if has_load k then [CB i 1 JNull true] else [].

Lemma expected_split x : expected_cbs x = addcb x ++ loadcb x.
Proof. destruct x as [i [k eid]]. reflexivity. Qed.

Lemma addcb_inst y c : In c (addcb y) -> cb_inst c = fst y.
Proof.
  destruct y as [i [k eid]]. cbn [addcb fst]. destruct (has_add k); cbn [In]; [|tauto].
  intros [<-|[]]. reflexivity.
Qed.

Lemma loadcb_inst y c : In c (loadcb y) -> cb_inst c = fst y.
Proof.
  destruct y as [i [k eid]]. cbn [loadcb fst]. destruct (has_load k); cbn [In]; [|tauto].
  intros [<-|[]]. reflexivity.
Qed.

Lemma zseq_app s n m : zseq s (n + m) = zseq s n ++ zseq (s + Z.of_nat n) m.
Proof.
  revert s; induction n as [|n IH]; intro s; cbn [zseq plus app].
  - now replace (s + Z.of_nat 0) with s by lia.
  - rewrite IH. do 3 f_equal. lia.
Qed.

Lemma spec_ents_fst E : forall es start obs table,
  spec_ents E es start obs = Some table -> map fst table = zseq start (length table).
Proof.
  induction es as [|e es IH]; intros start obs table H; cbn [spec_ents] in H.
  - destruct obs; [|discriminate]. injection H as <-. reflexivity.
  - destruct (null (ent_dicts e)); [now apply IH in H|].
    destruct obs as [|[id insts] obs]; [discriminate|].
    destruct (id_given_ok (e_id e) id && zlist_eqb insts (zseq start (length (ent_dicts e))));
      [|discriminate].
    destruct (spec_ents E es (start + Z.of_nat (length (ent_dicts e))) obs) as [t|] eqn:S;
      [|discriminate].
    injection H as <-. apply IH in S.
    assert (L : length (combine (zseq start (length (ent_dicts e)))
                                (map (fun d => (kind_of E d, id)) (ent_dicts e)))
                = length (ent_dicts e)).
    { rewrite combine_length, zseq_length, map_length. lia. }
    rewrite map_app, app_length, L, zseq_app, S. f_equal.
    apply map_fst_combine. now rewrite zseq_length, map_length.
Qed.

Lemma filter_all (i : Z) (l : list cb) :
  (forall c, In c l -> cb_inst c = i) -> cbs_of i l = l.
Proof.
  unfold cbs_of. induction l as [|c l IH]; cbn [filter]; intro H; [reflexivity|].
  rewrite (H c (or_introl eq_refl)), Z.eqb_refl. f_equal. apply IH. intros c' Hc. apply H. now right.
Qed.

Lemma filter_none (i : Z) (l : list cb) :
  (forall c, In c l -> cb_inst c <> i) -> cbs_of i l = [].
Proof.
  unfold cbs_of. induction l as [|c l IH]; cbn [filter]; intro H; [reflexivity|].
  destruct (cb_inst c =? i) eqn:E.
  - apply Z.eqb_eq in E. exfalso. apply (H c); [now left|exact E].
  - apply IH. intros c' Hc. apply H. now right.
Qed.

Lemma cbs_of_app i l m : cbs_of i (l ++ m) = cbs_of i l ++ cbs_of i m.
Proof. unfold cbs_of. apply filter_app. Qed.

Lemma cbs_of_flat_map (f : Z * (ckind * val) -> list cb) table x :
  (forall y c, In c (f y) -> cb_inst c = fst y) ->
  NoDup (map fst table) -> In x table ->
  cbs_of (fst x) (flat_map f table) = f x.
Proof.
  intros Hf. induction table as [|y t IH]; intros ND HI; [destruct HI|].
  cbn [flat_map map] in *. rewrite cbs_of_app. inversion ND as [|? ? Hy ND']; subst.
  assert (NONE : forall z, ~ In z (map fst t) -> cbs_of z (flat_map f t) = []).
  { intros z Hz. apply filter_none. intros c Hc. apply in_flat_map in Hc as [y' [Hy' Hc]].
    rewrite (Hf _ _ Hc). intro E. apply Hz. rewrite <- E. now apply in_map. }
  destruct HI as [->|HI].
  - rewrite (filter_all _ _ (Hf x)), (NONE _ Hy). apply app_nil_r.
  - rewrite (IH ND' HI).
    rewrite filter_none; [reflexivity|].
    intros c Hc. rewrite (Hf _ _ Hc). intro E. apply Hy. rewrite E. now apply in_map.
Qed.

Lemma cb_eqb_refl c : cb_eqb c c = true.
Proof.
  unfold cb_eqb. now rewrite !Z.eqb_refl, val_eqb_refl, eqb_reflx.
Qed.

Lemma cbs_ok_model table :
  NoDup (map fst table) ->
  cbs_ok table (flat_map addcb table ++ flat_map loadcb table) = true.
Proof.
  intro ND. unfold cbs_ok. apply andb_true_iff. split.
  - apply forallb_forall. intros x Hx.
    rewrite cbs_of_app, (cbs_of_flat_map addcb table x addcb_inst ND Hx),
      (cbs_of_flat_map loadcb table x loadcb_inst ND Hx), expected_split.
    apply forall2b_refl, cb_eqb_refl.
  - apply forallb_forall. intros c Hc. apply existsb_exists.
    apply in_app_or in Hc as [Hc|Hc]; apply in_flat_map in Hc as [y [Hy Hc]]; exists y;
      (split; [exact Hy|]).
    + rewrite (addcb_inst _ _ Hc). apply Z.eqb_refl.
    + rewrite (loadcb_inst _ _ Hc). apply Z.eqb_refl.
Qed.

Lemma release_queue table (ls : list Z) :
  flat_map (fun q => match q with
                     | QAdd i e => [CB i 0 e true]
                     | QLoad => map (fun i => CB i 1 JNull true) ls
                     end) (flat_map qadd table)
  = flat_map addcb table.
Proof.
  rewrite flat_map_flat_map. apply flat_map_ext. intros [i [k eid]].
  cbn [qadd addcb]. destruct (has_add k); reflexivity.
Qed.

Lemma release_listen table :
  map (fun i => CB i 1 JNull true) (flat_map lload table) = flat_map loadcb table.
Proof.
  induction table as [|[i [k eid]] t IH]; cbn [flat_map map]; [reflexivity|].
  rewrite map_app, IH. cbn [lload loadcb]. destruct (has_load k); reflexivity.
Qed.

Lemma release_spec lg so en nx (e : bool) table :
  release (dispatch_load (W lg so en nx e (flat_map qadd table) (flat_map lload table)))
  = flat_map addcb table ++ flat_map loadcb table.
Proof.
  unfold dispatch_load. cbn [ws_listen].
  destruct (flat_map lload table) as [|i ls] eqn:L; cbn [null].
  - unfold release. cbn [ws_queue ws_listen]. rewrite release_queue.
    rewrite <- release_listen, L. cbn [map]. now rewrite app_nil_r.
  - unfold release. cbn [ws_queue ws_listen ws_log ws_sorted ws_ents ws_next ws_enabled].
    rewrite flat_map_app, release_queue. cbn [flat_map]. rewrite app_nil_r.
    now rewrite <- release_listen, L.
Qed.

(* ---- every dict of the description ------------------------------------------------------------ *)
Definition good (E : env) (d : ddict) : Prop :=
  dict_wf E d = true /\ exists t k, class_of E d = Some (t, k) /\ callable k = true.

Lemma class_of_serial_kind E d t k :
  class_of E d = Some (t, k) -> class_serial E d = t /\ kind_of E d = k.
Proof.
  unfold class_serial, kind_of, class_of. intro H. rewrite H. split; [reflexivity|].
  destruct (slookup (d_type d) (c_ns E)) as [[v k']|]; [|discriminate].
  destruct v as [| | | | | | rk t']; try discriminate. destruct rk; try discriminate.
  now injection H as _ ->.
Qed.

Definition dict_rel (E : env) (d : ddict) (ds : dstate) : Prop :=
  comp_rel E d ds /\ check_constr E d (constr_of ds) = true.

Lemma transform_list_spec E ds :
  0 < c_depth E -> ns_wf E = true -> Forall (good E) ds ->
  existsb (dict_known E) ds = false ->
  match mapM (transform_dict E) ds with
  | Some tds => Forall2 (dict_rel E) ds tds
  | None => existsb dict_open ds = true
  end.
Proof.
  intros Hd Hns HG. induction HG as [|d ds [Hwf [t [k [Hc Hcall]]]] HG IH]; cbn [existsb mapM];
    intro Hk.
  - constructor.
  - apply orb_false_iff in Hk as [Hk1 Hk2].
    pose proof (transform_dict_spec E d t k Hd Hns Hwf Hc Hcall Hk1) as HT.
    specialize (IH Hk2).
    destruct (transform_dict E d) as [td|]; [|now rewrite HT].
    destruct (mapM (transform_dict E) ds) as [tds|]; [|now rewrite IH, orb_true_r].
    constructor; [|exact IH].
    destruct HT as [HT1 HT2]. destruct (class_of_serial_kind E d t k Hc) as [<- <-] .
    split; [split|]; assumption.
Qed.

Lemma Forall2_comp_rel E ds tds : Forall2 (dict_rel E) ds tds -> Forall2 (comp_rel E) ds tds.
Proof. induction 1 as [|? ? ? ? [H _]]; constructor; assumption. Qed.

Lemma Forall2_check E ds tds :
  Forall2 (dict_rel E) ds tds -> forall2b (check_constr E) ds (map constr_of tds) = true.
Proof.
  induction 1 as [|? ? ? ? [_ H]]; cbn [map forall2b]; [reflexivity|]. now rewrite H.
Qed.

Definition ent_rel2 (E : env) (e : edict) (te : option val * list dstate) : Prop :=
  fst te = e_id e /\ Forall2 (dict_rel E) (ent_dicts e) (snd te).

Lemma transform_ents_spec E es :
  0 < c_depth E -> ns_wf E = true -> Forall (fun e => Forall (good E) (ent_dicts e)) es ->
  existsb (dict_known E) (flat_map ent_dicts es) = false ->
  match mapM (transform_ent E) es with
  | Some tes => Forall2 (ent_rel2 E) es tes
  | None => existsb dict_open (flat_map ent_dicts es) = true
  end.
Proof.
  intros Hd Hns HG. induction HG as [|e es Hg HG IH]; cbn [flat_map mapM]; intro Hk.
  - constructor.
  - rewrite existsb_app in Hk. apply orb_false_iff in Hk as [Hk1 Hk2].
    pose proof (transform_list_spec E (ent_dicts e) Hd Hns Hg Hk1) as HT.
    specialize (IH Hk2). rewrite existsb_app. unfold transform_ent at 1. fold (ent_dicts e).
    destruct (mapM (transform_dict E) (ent_dicts e)) as [tds|]; [|now rewrite HT].
    destruct (mapM (transform_ent E) es) as [tes|]; [|now rewrite IH, orb_true_r].
    constructor; [|exact IH]. split; [reflexivity|exact HT].
Qed.

Lemma ents_check E es tes :
  Forall2 (ent_rel2 E) es tes ->
  forall2b (check_constr E) (flat_map ent_dicts es) (map constr_of (flat_map snd tes)) = true.
Proof.
  induction 1 as [|e te es tes [_ H] _ IH]; cbn [flat_map]; [reflexivity|].
  rewrite map_app. apply forall2b_app; [now apply Forall2_check|exact IH].
Qed.

Lemma ents_rel E es tes : Forall2 (ent_rel2 E) es tes -> Forall2 (ent_rel E) es tes.
Proof.
  induction 1 as [|e te es tes [H1 H2] _ IH]; constructor; [|exact IH].
  split; [exact H1|now apply Forall2_comp_rel].
Qed.

(* ---- acceptance is equality with the model's prediction ------------------------------------------ *)
Lemma forall2b_eq {A} (f : A -> A -> bool) :
  (forall x y, f x y = true -> x = y) -> forall l m, forall2b f l m = true -> l = m.
Proof.
  intros Hf. induction l as [|x l IH]; intros [|y m] H; cbn [forall2b] in H; try discriminate;
    [reflexivity|].
  apply andb_true_iff in H as [H1 H2]. now rewrite (Hf _ _ H1), (IH _ H2).
Qed.

Lemma kw_eqb_eq a b : kw_eqb a b = true -> a = b.
Proof.
  apply forall2b_eq. intros [k v] [k' v'] H. cbn [fst snd] in H.
  apply andb_true_iff in H as [H1 H2]. apply Z.eqb_eq in H1. apply val_eqb_eq in H2. now subst.
Qed.

Lemma constr_eqb_eq a b : constr_eqb a b = true -> a = b.
Proof.
  destruct a as [t a k], b as [t' a' k']. unfold constr_eqb. cbn [k_type k_args k_kwargs].
  intro H. apply andb_true_iff in H as [H H3]. apply andb_true_iff in H as [H1 H2].
  apply Z.eqb_eq in H1. apply kw_eqb_eq in H3.
  apply (forall2b_eq val_eqb (fun x y => proj1 (val_eqb_eq x y))) in H2. now subst.
Qed.

Lemma cb_eqb_eq a b : cb_eqb a b = true -> a = b.
Proof.
  destruct a as [i k e o], b as [i' k' e' o']. unfold cb_eqb. cbn [cb_inst cb_kind cb_ent cb_ok].
  intro H. apply andb_true_iff in H as [H H4]. apply andb_true_iff in H as [H H3].
  apply andb_true_iff in H as [H1 H2].
  apply Z.eqb_eq in H1, H2. apply val_eqb_eq in H3. apply eqb_prop in H4. now subst.
Qed.

Lemma outcome_eqb_eq a b : outcome_eqb a b = true -> a = b.
Proof.
  destruct a as [|[c p e en cb]], b as [|[c' p' e' en' cb']]; cbn [outcome_eqb]; try discriminate;
    [reflexivity|].
  unfold wobs_eqb. cbn [o_constr o_procs o_ents o_enabled o_cbs]. intro H.
  apply andb_true_iff in H as [H H5]. apply andb_true_iff in H as [H H4].
  apply andb_true_iff in H as [H H3]. apply andb_true_iff in H as [H1 H2].
  apply (forall2b_eq _ constr_eqb_eq) in H1. apply zlist_eqb_eq in H2.
  apply (forall2b_eq _ cb_eqb_eq) in H5. apply eqb_prop in H4.
  assert (e = e').
  { revert H3. apply forall2b_eq. intros [i l] [i' l'] H. cbn [fst snd] in H.
    apply andb_true_iff in H as [Ha Hb]. apply val_eqb_eq in Ha. apply zlist_eqb_eq in Hb.
    now subst. }
  now subst.
Qed.

(* ---- the domain, taken apart ---------------------------------------------------------------------- *)
Lemma proc_wf_good E d :
  proc_wf E d = true ->
  good E d /\ class_of E d = Some (class_serial E d, CProc) /\ 0 <= class_serial E d.
Proof.
  unfold proc_wf. intro H. apply andb_true_iff in H as [H1 H2].
  destruct (class_of E d) as [[t k]|] eqn:C; [|discriminate].
  destruct k; try discriminate.
  destruct (class_of_serial_kind E d t CProc C) as [<- _].
  split; [split; [exact H1|exists (class_serial E d), CProc; now split]|]. split; [reflexivity|lia].
Qed.

Lemma comp_wf_good E d : comp_wf E d = true -> good E d.
Proof.
  unfold comp_wf. intro H. apply andb_true_iff in H as [H1 H2].
  destruct (class_of E d) as [[t k]|] eqn:C; [|discriminate].
  destruct k as [|a l|]; try discriminate.
  split; [exact H1|exists t, (CComp a l); now split].
Qed.

Lemma dl_log w : ws_log (dispatch_load w) = ws_log w.
Proof. unfold dispatch_load. now destruct (null (ws_listen w)). Qed.
Lemma dl_sorted w : ws_sorted (dispatch_load w) = ws_sorted w.
Proof. unfold dispatch_load. now destruct (null (ws_listen w)). Qed.
Lemma dl_ents w : ws_ents (dispatch_load w) = ws_ents w.
Proof. unfold dispatch_load. now destruct (null (ws_listen w)). Qed.
Lemma dl_enabled w : ws_enabled (dispatch_load w) = ws_enabled w.
Proof. unfold dispatch_load. now destruct (null (ws_listen w)). Qed.

(* ---- main lemma: the model's own prediction satisfies the property --------------------------------- *)
Lemma model_holds E ds :
  wf_b (Case E ds (model E ds)) = true -> known_b (Case E ds (model E ds)) = false ->
  holds_b (Case E ds (model E ds)) = true.
Proof.
  unfold wf_b, known_b, holds_b. cbn [c_env c_desc c_obs]. intros Hwf Hk.
  apply andb_true_iff in Hwf as [Hwf Hids]. apply andb_true_iff in Hwf as [Hwf Hents].
  apply andb_true_iff in Hwf as [Hwf Hpnd]. apply andb_true_iff in Hwf as [Hwf Hprocs].
  apply andb_true_iff in Hwf as [Hd Hns]. assert (Hd' : 0 < c_depth E) by lia.
  unfold all_dicts in Hk. rewrite existsb_app in Hk. apply orb_false_iff in Hk as [Hkp Hke].
  rewrite forallb_forall in Hprocs. rewrite forallb_forall in Hents.
  (* processors *)
  assert (GP : Forall (good E) (proc_dicts ds)).
  { apply Forall_forall. intros d Hd0. now apply proc_wf_good, Hprocs. }
  pose proof (transform_list_spec E (proc_dicts ds) Hd' Hns GP Hkp) as TP.
  (* entities *)
  assert (GE : Forall (fun e => Forall (good E) (ent_dicts e)) (optl (w_ents ds))).
  { apply Forall_forall. intros e He. apply Forall_forall. intros d Hd0.
    specialize (Hents e He). unfold ent_wf in Hents. apply andb_true_iff in Hents as [Hc _].
    rewrite forallb_forall in Hc. now apply comp_wf_good, Hc. }
  pose proof (transform_ents_spec E (optl (w_ents ds)) Hd' Hns GE Hke) as TE.
  unfold model, load, transform_desc. fold (proc_dicts ds).
  destruct (mapM (transform_dict E) (proc_dicts ds)) as [tps|].
  2: { unfold has_open, all_dicts. now rewrite existsb_app, TP. }
  destruct (mapM (transform_ent E) (optl (w_ents ds))) as [tes|].
  2: { unfold has_open, all_dicts. now rewrite existsb_app, TE, orb_true_r. }
  (* populate: processors *)
  assert (FP : Forall2 (fun t td => s_type td = TObj (NS (JRef KObj t) CProc))
                       (map (class_serial E) (proc_dicts ds)) tps).
  { clear - TP Hprocs. induction TP as [|d td l tl [[H1 H2] _] _ IH]; cbn [map]; constructor.
    - rewrite H1. unfold ent_of.
      destruct (proc_wf_good E d (Hprocs d (or_introl eq_refl))) as [_ [C _]].
      destruct (class_of_serial_kind E d _ _ C) as [_ ->]. reflexivity.
    - apply IH. intros x Hx. apply Hprocs. now right. }
  apply znodup_NoDup in Hpnd.
  assert (W0 : default_processors w_init = W [] [(-1, -1); (-2, -2)] [] 1 false [] []) by reflexivity.
  rewrite W0.
  rewrite (pop_procs_spec _ _ FP Hpnd).
  2: { cbn [ws_sorted map fst]. intros t Ht. apply in_map_iff in Ht as [d [<- Hd0]].
       destruct (proc_wf_good E d (Hprocs d Hd0)) as [_ [_ Hge]].
       cbn [In]. lia. }
  cbn [ws_log ws_sorted ws_ents ws_next ws_enabled ws_queue ws_listen app length].
  (* populate: entities *)
  assert (HND : Forall (fun e => NoDup (map (class_serial E) (ent_dicts e))) (optl (w_ents ds))).
  { apply Forall_forall. intros e He. specialize (Hents e He). unfold ent_wf in Hents.
    apply andb_true_iff in Hents as [_ Hn]. now apply znodup_NoDup. }
  set (w1 := W (map constr_of tps)
               ((-1, -1) :: (-2, -2) :: combine (map (class_serial E) (proc_dicts ds))
                                                (zseq (Z.of_nat 0) (length tps)))
               [] 1 false [] []).
  destruct (pop_ents_spec E _ _ (ents_rel E _ _ TE) HND w1 Hids (NoDup_nil _))
    as [newents [table [next' [Hfold [HND2 Hspec]]]]].
  rewrite Hfold. cbn [ws_log ws_sorted ws_ents ws_next ws_enabled ws_queue ws_listen w1 app].
  cbn [ws_log w1] in Hspec. cbn [ws_ents w1 app] in HND2.
  pose proof (Forall2_length' _ _ _ TP) as LP.
  unfold spec_ok, observe.
  cbn [o_constr o_procs o_ents o_enabled o_cbs].
  rewrite dl_log, dl_sorted, dl_ents, dl_enabled, release_spec.
  cbn [ws_log ws_sorted ws_ents ws_enabled].
  (* constructor calls *)
  unfold all_dicts. rewrite (forall2b_app _ _ _ _ _ (Forall2_check E _ _ TP) (ents_check E _ _ TE)).
  (* processors *)
  cbn [map snd]. rewrite map_snd_combine by (now rewrite map_length, zseq_length).
  rewrite <- LP. cbn [app Z.of_nat]. rewrite zlist_eqb_refl.
  (* entities *)
  rewrite map_map. cbn [fst negb andb].
  replace (map (fun x : val * list (Z * Z) => fst x) newents) with (map fst newents) by reflexivity.
  rewrite (proj2 (vnodup_NoDup _) HND2).
  rewrite map_length, <- LP in Hspec.
  change (map (fun p : val * list (Z * Z) => (fst p, map snd (snd p))) newents)
    with (map obs_ent newents).
  rewrite Hspec. cbn [andb].
  apply cbs_ok_model. rewrite (spec_ents_fst E _ _ _ _ Hspec). apply zseq_NoDup.
Qed.

Lemma accepts_holds c : wf_b c = true -> known_b c = false -> accepts c = true -> holds c.
Proof.
  destruct c as [E ds obs]. unfold accepts. cbn [c_env c_desc c_obs]. intros Hwf Hk Ha.
  apply outcome_eqb_eq in Ha. subst obs. unfold holds. now apply model_holds.
Qed.

(* ---- what [holds] says on raw observations ---------------------------------------------------------- *)
Lemma forall2b_nth {A B} (f : A -> B -> bool) : forall l m i a,
  forall2b f l m = true -> nth_error l i = Some a ->
  exists b, nth_error m i = Some b /\ f a b = true.
Proof.
  induction l as [|x l IH]; intros [|y m] i a H Hn; cbn [forall2b] in H; try discriminate.
  - destruct i; discriminate.
  - apply andb_true_iff in H as [H1 H2]. destruct i as [|i]; cbn [nth_error] in *.
    + injection Hn as <-. now exists y.
    + now apply (IH m i a).
Qed.

Lemma holds_spec_ok c w : holds c -> c_obs c = OOk w -> spec_ok (c_env c) (c_desc c) w = true.
Proof. intros H Ho. unfold holds, holds_b in H. now rewrite Ho in H. Qed.

Lemma holds_constr c w j d :
  holds c -> c_obs c = OOk w -> nth_error (all_dicts (c_desc c)) j = Some d ->
  exists k, nth_error (o_constr w) j = Some k /\ check_constr (c_env c) d k = true.
Proof.
  intros H Ho Hn. pose proof (holds_spec_ok c w H Ho) as S. unfold spec_ok in S.
  apply andb_true_iff in S as [S _]. apply andb_true_iff in S as [S _].
  apply andb_true_iff in S as [S _]. apply andb_true_iff in S as [S _].
  exact (forall2b_nth _ _ _ _ _ S Hn).
Qed.

Lemma holds_counts c w :
  holds c -> c_obs c = OOk w -> length (o_constr w) = length (all_dicts (c_desc c)).
Proof.
  intros H Ho. pose proof (holds_spec_ok c w H Ho) as S. unfold spec_ok in S.
  apply andb_true_iff in S as [S _]. apply andb_true_iff in S as [S _].
  apply andb_true_iff in S as [S _]. apply andb_true_iff in S as [S _].
  symmetry. exact (forall2b_length _ _ _ S).
Qed.

Lemma holds_arg c w j d i a v :
  holds c -> c_obs c = OOk w -> nth_error (all_dicts (c_desc c)) j = Some d ->
  nth_error (optl (d_args d)) i = Some a -> subst_spec (c_env c) a = Exactly v ->
  exists k, nth_error (o_constr w) j = Some k /\ nth_error (k_args k) i = Some v
            /\ length (k_args k) = length (optl (d_args d)).
Proof.
  intros H Ho Hd Ha Hs. destruct (holds_constr c w j d H Ho Hd) as [k [Hk C]].
  exists k. split; [exact Hk|]. unfold check_constr in C.
  destruct (slookup (d_type d) (c_ns (c_env c))); [|discriminate].
  apply andb_true_iff in C as [C _]. apply andb_true_iff in C as [_ C].
  destruct (forall2b_nth _ _ _ _ _ C Ha) as [o [Hn Hok]].
  unfold arg_ok in Hok. rewrite Hs in Hok. apply val_eqb_eq in Hok. subst o.
  split; [exact Hn|]. symmetry. exact (forall2b_length _ _ _ C).
Qed.

Lemma holds_kwarg c w j d i key a v :
  holds c -> c_obs c = OOk w -> nth_error (all_dicts (c_desc c)) j = Some d ->
  nth_error (optl (d_kwargs d)) i = Some (key, a) -> subst_spec (c_env c) a = Exactly v ->
  exists k, nth_error (o_constr w) j = Some k /\ nth_error (k_kwargs k) i = Some (key, v)
            /\ length (k_kwargs k) = length (optl (d_kwargs d)).
Proof.
  intros H Ho Hd Ha Hs. destruct (holds_constr c w j d H Ho Hd) as [k [Hk C]].
  exists k. split; [exact Hk|]. unfold check_constr in C.
  destruct (slookup (d_type d) (c_ns (c_env c))); [|discriminate].
  apply andb_true_iff in C as [_ C].
  destruct (forall2b_nth _ _ _ _ _ C Ha) as [[key' o] [Hn Hok]]. cbn [fst snd] in Hok.
  apply andb_true_iff in Hok as [Hkey Hok]. apply Z.eqb_eq in Hkey. subst key'.
  unfold arg_ok in Hok. rewrite Hs in Hok. apply val_eqb_eq in Hok. subst o.
  split; [exact Hn|]. symmetry. exact (forall2b_length _ _ _ C).
Qed.

Lemma holds_world c w :
  holds c -> c_obs c = OOk w ->
  o_procs w = -1 :: -2 :: zseq 0 (length (proc_dicts (c_desc c))) /\ o_enabled w = false /\
  NoDup (map fst (o_ents w)).
Proof.
  intros H Ho. pose proof (holds_spec_ok c w H Ho) as S. unfold spec_ok in S.
  apply andb_true_iff in S as [S _]. apply andb_true_iff in S as [S S4].
  apply andb_true_iff in S as [S S3]. apply andb_true_iff in S as [_ S2].
  split; [now apply zlist_eqb_eq in S2|]. split; [now apply negb_true_iff in S3|].
  now apply vnodup_NoDup.
Qed.

Lemma holds_callbacks c w :
  holds c -> c_obs c = OOk w ->
  exists table,
    spec_ents (c_env c) (optl (w_ents (c_desc c)))
              (Z.of_nat (length (proc_dicts (c_desc c)))) (o_ents w) = Some table /\
    (forall x, In x table -> cbs_of (fst x) (o_cbs w) = expected_cbs x) /\
    (forall cb0, In cb0 (o_cbs w) -> exists x, In x table /\ fst x = cb_inst cb0).
Proof.
  intros H Ho. pose proof (holds_spec_ok c w H Ho) as S. unfold spec_ok in S.
  apply andb_true_iff in S as [_ S].
  destruct (spec_ents _ _ _ _) as [table|]; [|discriminate]. exists table. split; [reflexivity|].
  unfold cbs_ok in S. apply andb_true_iff in S as [S1 S2].
  rewrite forallb_forall in S1. rewrite forallb_forall in S2. split.
  - intros x Hx. exact (forall2b_eq _ cb_eqb_eq _ _ (S1 x Hx)).
  - intros cb0 Hc. specialize (S2 cb0 Hc). apply existsb_exists in S2 as [x [Hx E]].
    exists x. split; [exact Hx|now apply Z.eqb_eq].
Qed.

(* the forms, literally *)
Lemma strip_prefix_app m r : strip_prefix m (m ++ r) = Some r.
Proof. induction m as [|a m IH]; cbn [strip_prefix app]; [reflexivity|]. now rewrite Z.eqb_refl. Qed.

Lemma split_last_snoc b l : split_last (b ++ [l]) = Some (b, l).
Proof.
  induction b as [|c b IH]; cbn [split_last app]; [reflexivity|]. now rewrite IH.
Qed.

Definition clean_body (b : str) : Prop :=
  b <> [] /\ forallb (fun x => negb (x =? 125) && negb (x =? 10)) b = true.

Lemma exact_body_literal m b : clean_body b -> exact_body m (m ++ b ++ [125]) = Some b.
Proof.
  intros [Hne Hc]. unfold exact_body. rewrite strip_prefix_app, split_last_snoc, Hc.
  destruct b; [contradiction|reflexivity].
Qed.

Lemma classify_object_literal b : clean_body b -> classify (m_obj ++ b ++ [125]) = FObj b.
Proof. intro H. unfold classify. now rewrite (exact_body_literal m_obj b H). Qed.

Lemma not_starts_exact m s : starts_with m s = false -> exact_body m s = None.
Proof. unfold starts_with, exact_body. now destruct (strip_prefix m s). Qed.

Lemma classify_res_literal b : clean_body b -> classify (m_res ++ b ++ [125]) = FRes b.
Proof.
  intro H. unfold classify.
  assert (S : starts_with m_res (m_res ++ b ++ [125]) = true)
    by (unfold starts_with; now rewrite strip_prefix_app).
  now rewrite (not_starts_exact _ _ (res_not_obj _ S)), (exact_body_literal m_res b H).
Qed.

Lemma classify_handle_literal b : clean_body b -> classify (m_handle ++ b ++ [125]) = FHandle b.
Proof.
  intro H. unfold classify.
  assert (S : starts_with m_handle (m_handle ++ b ++ [125]) = true)
    by (unfold starts_with; now rewrite strip_prefix_app).
  now rewrite (not_starts_exact _ _ (handle_not_obj _ S)), (not_starts_exact _ _ (handle_not_res _ S)),
    (exact_body_literal m_handle b H).
Qed.

Lemma classify_plain_literal s :
  starts_with m_obj s = false -> starts_with m_res s = false -> starts_with m_handle s = false ->
  classify s = FPlain.
Proof.
  intros H1 H2 H3. unfold classify.
  now rewrite (not_starts_exact _ _ H1), (not_starts_exact _ _ H2), (not_starts_exact _ _ H3), H1, H2, H3.
Qed.

Lemma form_object E b e :
  clean_body b -> slookup b (c_ns E) = Some e ->
  subst_spec E (JStr (m_obj ++ b ++ [125])) = Exactly (n_val e).
Proof. intros H L. cbn [subst_spec]. rewrite (classify_object_literal b H), L. reflexivity. Qed.

Lemma form_resource E b h r :
  clean_body b -> slookup (dots_to_slashes b) (c_tree E) = Some (NHandle h r) ->
  subst_spec E (JStr (m_res ++ b ++ [125])) = Exactly (JRef KRes r) /\
  subst_spec E (JStr (m_handle ++ b ++ [125])) = Exactly (JRef KHandle h).
Proof.
  intros H L. cbn [subst_spec].
  rewrite (classify_res_literal b H), (classify_handle_literal b H), L. split; reflexivity.
Qed.

Lemma form_plain E s :
  starts_with m_obj s = false -> starts_with m_res s = false ->
  starts_with m_handle s = false -> subst_spec E (JStr s) = Exactly (JStr s).
Proof. intros H1 H2 H3. cbn [subst_spec]. rewrite (classify_plain_literal s H1 H2 H3). reflexivity. Qed.

Lemma form_nonstring E a : (forall s, a <> JStr s) -> subst_spec E a = Exactly a.
Proof. intros H. destruct a; try reflexivity. exfalso. exact (H s eq_refl). Qed.

Lemma match_exact m b : clean_body b -> match_prefix m (m ++ b ++ [125]) = Some b.
Proof. intros H. exact (exact_body_match m _ b (exact_body_literal m b H)). Qed.
