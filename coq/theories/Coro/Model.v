(* Coroutines (C08, C09): executable model of desper/logic/coroutines.py,
   class CoroutineProcessor, written as an acceptor of observed traces.

   Time is Z in eighths of a unit (the harness feeds dyadic floats only, so
   binary64 arithmetic is exact).  Coroutine bodies are scripts (data): per
   resumption a list of in-body actions (start / kill / state of any
   generator, each logged with its outcome) and then Yield, Return or Raise.  The
   harness instantiates the same scripts as real Python generators.

   Models only: no proofs in this file. *)
From Coq Require Import ZArith List Bool.
From Desper Require Import Lib.Alist.
Import ListNotations.
Open Scope Z_scope.

Definition gid := Z.       (* >= 0: a generator object; < 0: some non-generator *)

Inductive yv := YNone | YNum (z : Z).
Inductive result :=
| RYield (y : yv) | RReturn (v : option Z)
| RRaise (k : Z).          (* an exception of class k leaves the body (SwitchWorld, Quit, ...) *)
Inductive action := AStart (g : gid) | AKill (g : gid) | AState (g : gid).
Definition stp := (list action * result)%type.
Definition scripts := list (gid * list stp).

Inductive outcome :=
| OOk | OState (c : Z) | OValueError | OTypeError | OKeyError | OOther
| ORaised (k : Z).         (* process: the exception of class k raised by a coroutine body *)

(* body of g resumed at script position k, outcomes of its in-body actions *)
Definition entry := (gid * Z * list outcome)%type.

Inductive op :=
| Start (g : gid) | Kill (g : gid) | State (g : gid)
| Value (g : gid)             (* .value of the promise returned by the last successful start(g) *)
| Process (dt : Z).

Inductive obs :=
| ObsR (o : outcome)
| ObsV (v : option Z)
| ObsP (log : list entry) (exc : outcome).   (* exc = OOk: process returned normally *)

Definition trace := list (op * obs).

Record case := mkCase {
  c_scripts : scripts;
  c_trace : trace;
  c_alive : list gid   (* generators still alive after the harness dropped all its own references *)
}.

(* ---- small helpers ------------------------------------------------------ *)
Definition memz (g : Z) (l : list Z) : bool := existsb (Z.eqb g) l.
Definition remz (g : Z) (l : list Z) : list Z := filter (fun x => negb (g =? x)) l.
Definition subz (l m : list Z) : bool := forallb (fun x => memz x m) l.

Definition oz_eqb (a b : option Z) : bool :=
  match a, b with
  | None, None => true
  | Some x, Some y => x =? y
  | _, _ => false
  end.

Definition outcome_eqb (a b : outcome) : bool :=
  match a, b with
  | OOk, OOk | OValueError, OValueError | OTypeError, OTypeError
  | OKeyError, OKeyError | OOther, OOther => true
  | OState x, OState y => x =? y
  | ORaised x, ORaised y => x =? y
  | _, _ => false
  end.

Definition script_of (sc : scripts) (g : gid) : list stp :=
  match alookup g sc with Some s => s | None => [] end.

Definition zget (l : list (Z * Z)) (g : Z) : Z :=
  match alookup g l with Some k => k | None => 0 end.

(* ---- state of the processor (and of the generator objects) ------------- *)
Record wrec := mkW { w_id : Z; w_dl : Z; w_gen : option gid }.   (* _WaitingGenerator *)

Record st := mkSt {
  gens   : list (gid * option Z);   (* _generators: gid -> None | id of its wait record *)
  active : list (option gid);       (* _active_queue, with its None sentinel *)
  waitq  : list wrec;               (* _wait_queue (heap, as a bag) *)
  killq  : list gid;                (* _kill_queue *)
  proms  : list gid;                (* keys of _promises *)
  pv     : list (gid * option Z);   (* .value of the promise created by the last start(g) *)
  timer  : Z;                       (* _timer *)
  nrid   : Z;                       (* next fresh wait-record identity *)
  pcs    : list (gid * Z);          (* generator objects: position in their script *)
  gdone  : list gid                 (* generator objects that are exhausted *)
}.

Definition st0 : st := mkSt [] [None] [] [] [] [] 0 0 [] [].

Definition set_killq s k := mkSt (gens s) (active s) (waitq s) k (proms s) (pv s) (timer s) (nrid s) (pcs s) (gdone s).

(* CoroutineProcessor.state, as the number of the enum *)
Definition mstate (s : st) (g : gid) : Z :=
  match alookup g (gens s) with
  | None => 0
  | Some w => if memz g (killq s) then 0
              else match w with None => 2 | Some _ => 1 end
  end.

Definition do_state (s : st) (g : gid) : outcome :=
  if g <? 0 then OTypeError else OState (mstate s g).

Definition do_kill (s : st) (g : gid) : st * outcome :=
  if g <? 0 then (s, OTypeError) else
  match alookup g (gens s) with
  | None => (s, OValueError)
  | Some _ => if memz g (killq s) then (s, OValueError)
              else (set_killq s (g :: killq s), OOk)
  end.

(* waiting_gen.generator = None *)
Definition tombstone (rid : Z) (q : list wrec) : list wrec :=
  map (fun w => if w_id w =? rid then mkW (w_id w) (w_dl w) None else w) q.

(* the three statements that end start() *)
Definition start_fin (s : st) (g : gid) (act : list (option gid)) (wq : list wrec)
           (kq : list gid) : st :=
  mkSt (aset g None (gens s)) act wq kq
       (if memz g (proms s) then proms s else proms s ++ [g])
       (aset g None (pv s)) (timer s) (nrid s) (pcs s) (gdone s).

Definition do_start (s : st) (g : gid) : st * outcome :=
  if g <? 0 then (s, OTypeError) else
  if negb (mstate s g =? 0) then (s, OValueError) else
  if memz g (killq s) then
    let kq := remz g (killq s) in
    match alookup g (gens s) with
    | None => (set_killq s kq, OKeyError)      (* self._generators[generator] *)
    | Some None => (start_fin s g (active s) (waitq s) kq, OOk)
    | Some (Some rid) =>
        (start_fin s g (active s ++ [Some g]) (tombstone rid (waitq s)) kq, OOk)
    end
  else (start_fin s g (active s ++ [Some g]) (waitq s) (killq s), OOk).

Definition do_action (s : st) (a : action) : st * outcome :=
  match a with
  | AStart g => do_start s g
  | AKill g => do_kill s g
  | AState g => (s, do_state s g)
  end.

(* the body of a coroutine between two yields: every action's outcome is
   compared with the log *)
Fixpoint run_actions (s : st) (acts : list action) (outs : list outcome) : option st :=
  match acts, outs with
  | [], [] => Some s
  | a :: acts, o :: outs =>
      let '(s', o') := do_action s a in
      if outcome_eqb o o' then run_actions s' acts outs else None
  | _, _ => None
  end.

(* ---- process: the wake phase ------------------------------------------- *)
Definition is_due (tm : Z) (w : wrec) : bool := w_dl w <=? tm.

(* a popped record whose coroutine has a pending kill:
   del _generators[g]; _kill_queue.discard(g); del _promises[g].
   The boolean says that one of the two del raised KeyError. *)
Definition drop_waiting (s : st) (g : gid) : st * bool :=
  match alookup g (gens s) with
  | None => (s, true)
  | Some _ =>
      let s1 := mkSt (adel g (gens s)) (active s) (waitq s) (remz g (killq s))
                     (proms s) (pv s) (timer s) (nrid s) (pcs s) (gdone s) in
      if memz g (proms s)
      then (mkSt (gens s1) (active s1) (waitq s1) (killq s1) (remz g (proms s1))
                 (pv s1) (timer s1) (nrid s1) (pcs s1) (gdone s1), false)
      else (s1, true)
  end.

Definition wake_one (s : st) (g : gid) : st :=
  mkSt (aset g None (gens s)) (active s ++ [Some g]) (waitq s) (killq s)
       (proms s) (pv s) (timer s) (nrid s) (pcs s) (gdone s).

Fixpoint drop_all (s : st) (gs : list gid) : st * bool :=
  match gs with
  | [] => (s, false)
  | g :: gs => let '(s', e) := drop_waiting s g in
               if e then (s', true) else drop_all s' gs
  end.

Definition live_gids (q : list wrec) : list gid :=
  flat_map (fun w => match w_gen w with Some g => [g] | None => [] end) q.

(* The popped records come out by increasing deadline.  Heap ties: the order
   among coroutines with the same deadline is an open choice.  [wake] takes
   the order as a parameter [ord] and checks that it is admissible: it lists
   exactly the woken coroutines, by non-decreasing deadline, and those that
   the log of this frame shows come in the order in which the log shows
   them.  [run] tries the admissible readings (almost always there is one). *)
Definition log_gids (log : list entry) : list gid := map (fun e => fst (fst e)) log.

Fixpoint dedup (l : list Z) : list Z :=
  match l with
  | [] => []
  | x :: l => x :: remz x (dedup l)
  end.

Definition dl_of (q : list wrec) (g : gid) : Z :=
  match find (fun w => match w_gen w with Some g' => g =? g' | None => false end) q with
  | Some w => w_dl w
  | None => 0
  end.

Fixpoint nondecr (l : list Z) : bool :=
  match l with
  | x :: ((y :: _) as l') => (x <=? y) && nondecr l'
  | _ => true
  end.

Fixpoint nodupb (l : list Z) : bool :=
  match l with
  | [] => true
  | x :: l => negb (memz x l) && nodupb l
  end.

Fixpoint zlist_eqb (l m : list Z) : bool :=
  match l, m with
  | [], [] => true
  | x :: l, y :: m => (x =? y) && zlist_eqb l m
  | _, _ => false
  end.

(* the woken coroutines that the log of this frame shows, in that order *)
Definition seen_now (log : list entry) (woken : list gid) : list gid :=
  filter (fun g => memz g woken) (dedup (log_gids log)).

Definition valid_order (popped : list wrec) (log : list entry) (woken ord : list gid) : bool :=
  nodupb ord && subz ord woken && subz woken ord
  && nondecr (map (dl_of popped) ord)
  && zlist_eqb (filter (fun g => memz g (seen_now log woken)) ord) (seen_now log woken).

(* stable insertion sort by key *)
Fixpoint insert_by (key : gid -> Z) (x : gid) (l : list gid) : list gid :=
  match l with
  | [] => [x]
  | y :: l' => if key y <? key x then y :: insert_by key x l' else x :: l
  end.
Fixpoint sort_by (key : gid -> Z) (l : list gid) : list gid :=
  match l with
  | [] => []
  | x :: l => insert_by key x (sort_by key l)
  end.

Definition set_timer s t := mkSt (gens s) (active s) (waitq s) (killq s) (proms s) (pv s) t (nrid s) (pcs s) (gdone s).
Definition set_waitq s q := mkSt (gens s) (active s) q (killq s) (proms s) (pv s) (timer s) (nrid s) (pcs s) (gdone s).
Definition set_active s a := mkSt (gens s) a (waitq s) (killq s) (proms s) (pv s) (timer s) (nrid s) (pcs s) (gdone s).

(* if len(wait_queue) > 0: timer += dt; pop every record with deadline <= timer ...;
   if the queue is empty now: timer = 0. *)
Definition woken_of (s : st) (dt : Z) : list wrec * list gid :=
  let popped := filter (is_due (timer s + dt)) (waitq s) in
  (popped, filter (fun g => negb (memz g (killq s))) (live_gids popped)).

Definition wake (ord : list gid) (s : st) (dt : Z) (log : list entry) : option (st * bool) :=
  match waitq s with
  | [] => Some (s, false)
  | _ :: _ =>
      let tm := timer s + dt in
      let popped := filter (is_due tm) (waitq s) in
      let rest := filter (fun w => negb (is_due tm w)) (waitq s) in
      let lg := live_gids popped in
      let killed := filter (fun g => memz g (killq s)) lg in
      let woken := filter (fun g => negb (memz g (killq s))) lg in
      if negb (valid_order popped log woken ord) then None else
      let s1 := set_waitq (set_timer s tm) rest in
      let '(s2, e) := drop_all s1 killed in
      if e then Some (s2, true) else
      let s3 := fold_left wake_one ord s2 in
      Some (match rest with [] => set_timer s3 0 | _ => s3 end, false)
  end.

(* ---- process: the loop over the active queue --------------------------- *)
Definition rotate1 (a : list (option gid)) : list (option gid) :=
  match a with [] => [] | x :: a => a ++ [x] end.

Definition is_pos (y : yv) : option Z :=
  match y with YNum z => if 0 <? z then Some z else None | YNone => None end.

(* after next() raised StopIteration(v):
   gen = popleft(); del _generators[gen]; _kill_queue.discard(gen);
   _promises[gen].value = v; del _promises[gen] *)
Definition finish (s : st) (g : gid) (v : option Z) : st * bool :=
  let act := tl (active s) in
  match alookup g (gens s) with
  | None => (set_active s act, true)
  | Some _ =>
      let gn := adel g (gens s) in
      let kq := remz g (killq s) in
      if memz g (proms s)
      then (mkSt gn act (waitq s) kq (remz g (proms s)) (aset g v (pv s))
                 (timer s) (nrid s) (pcs s) (gdone s), false)
      else (mkSt gn act (waitq s) kq (proms s) (pv s)
                 (timer s) (nrid s) (pcs s) (gdone s), true)
  end.

(* head of the queue has a pending kill:
   del _generators[gen]; discard; popleft; del _promises[gen] *)
Definition drop_active (s : st) (g : gid) : st * bool :=
  match alookup g (gens s) with
  | None => (s, true)
  | Some _ =>
      let s1 := mkSt (adel g (gens s)) (tl (active s)) (waitq s) (remz g (killq s))
                     (proms s) (pv s) (timer s) (nrid s) (pcs s) (gdone s) in
      if memz g (proms s)
      then (mkSt (gens s1) (active s1) (waitq s1) (killq s1) (remz g (proms s1))
                 (pv s1) (timer s1) (nrid s1) (pcs s1) (gdone s1), false)
      else (s1, true)
  end.

(* wait > 0: push a record with deadline wait + timer *)
Definition park (s : st) (g : gid) (z : Z) : st :=
  let rid := nrid s in
  mkSt (aset g (Some rid) (gens s)) (tl (active s))
       (waitq s ++ [mkW rid (z + timer s) (Some g)]) (killq s) (proms s) (pv s)
       (timer s) (rid + 1) (pcs s) (gdone s).

(* while self._active_queue[0] is not None: self._active_queue.rotate(-1) *)
Fixpoint before_sentinel (a : list (option gid)) : list (option gid) :=
  match a with Some x :: r => Some x :: before_sentinel r | _ => [] end.
Fixpoint from_sentinel (a : list (option gid)) : list (option gid) :=
  match a with Some x :: r => from_sentinel r | l => l end.
Definition rot_to_sentinel (a : list (option gid)) : list (option gid) :=
  from_sentinel a ++ before_sentinel a.

(* next() raised something else than StopIteration:
   gen = popleft(); del _generators[gen]; _kill_queue.discard(gen); del _promises[gen];
   rotate until the sentinel is at the head; re-raise.
   The boolean: one of the two del raised KeyError instead. *)
Definition abort (s : st) (g : gid) : st * bool :=
  let act := tl (active s) in
  match alookup g (gens s) with
  | None => (set_active s act, true)
  | Some _ =>
      let gn := adel g (gens s) in
      let kq := remz g (killq s) in
      if memz g (proms s)
      then (mkSt gn (rot_to_sentinel act) (waitq s) kq (remz g (proms s)) (pv s)
                 (timer s) (nrid s) (pcs s) (gdone s), false)
      else (mkSt gn act (waitq s) kq (proms s) (pv s)
                 (timer s) (nrid s) (pcs s) (gdone s), true)
  end.

Definition set_pc (s : st) (g : gid) (k : Z) : st :=
  mkSt (gens s) (active s) (waitq s) (killq s) (proms s) (pv s) (timer s) (nrid s)
       (aset g k (pcs s)) (gdone s).
Definition set_done (s : st) (g : gid) : st :=
  mkSt (gens s) (active s) (waitq s) (killq s) (proms s) (pv s) (timer s) (nrid s)
       (pcs s) (g :: gdone s).

(* while self._active_queue[0] is not None: ...
   One iteration removes the head from the part of the queue in front of the
   sentinel, so [length (active s)] iterations always suffice; running out
   of fuel rejects. *)
Fixpoint loop (sc : scripts) (fuel : nat) (s : st) (log : list entry)
  : option (st * list entry * outcome) :=
  match fuel with
  | O => None
  | S fuel =>
    match active s with
    | [] => None                                   (* IndexError: never *)
    | None :: _ => Some (s, log, OOk)
    | Some g :: _ =>
      if memz g (killq s) then
        let '(s1, e) := drop_active s g in
        if e then Some (s1, log, OKeyError) else loop sc fuel s1 log
      else if memz g (gdone s) then
        (* next() of an exhausted generator: StopIteration(None), no code runs *)
        let '(s1, e) := finish s g None in
        if e then Some (s1, log, OKeyError) else loop sc fuel s1 log
      else
        match log with
        | [] => None
        | (g', k, outs) :: log' =>
          if negb ((g' =? g) && (k =? zget (pcs s) g)) then None else
          match nth_error (script_of sc g) (Z.to_nat k) with
          | None => None
          | Some (acts, res) =>
            match run_actions (set_pc s g (k + 1)) acts outs with
            | None => None
            | Some s1 =>
              match res with
              | RReturn v =>
                  let '(s2, e) := finish (set_done s1 g) g v in
                  if e then Some (s2, log', OKeyError) else loop sc fuel s2 log'
              | RRaise x =>
                  (* the frame is abandoned, the exception propagates *)
                  let '(s2, e) := abort (set_done s1 g) g in
                  Some (s2, log', if e then OKeyError else ORaised x)
              | RYield y =>
                  match is_pos y with
                  | Some z => loop sc fuel (park s1 g z) log'
                  | None => loop sc fuel (set_active s1 (rotate1 (active s1))) log'
                  end
              end
            end
          end
        end
    end
  end.

Definition process (ord : list gid) (sc : scripts) (s : st) (dt : Z) (log : list entry)
  : option (st * list entry * outcome) :=
  match wake ord s dt log with
  | None => None
  | Some (s1, true) => Some (s1, log, OKeyError)
  | Some (s1, false) =>
      let s2 := set_active s1 (rotate1 (active s1)) in
      loop sc (S (length (active s2))) s2 log
  end.

(* ---- the acceptor ------------------------------------------------------- *)
Definition step (ord : list gid) (sc : scripts) (s : st) (o : op) (ob : obs) : option st :=
  match o, ob with
  | Start g, ObsR r => let '(s', r') := do_start s g in
                       if outcome_eqb r r' then Some s' else None
  | Kill g, ObsR r => let '(s', r') := do_kill s g in
                      if outcome_eqb r r' then Some s' else None
  | State g, ObsR r => if outcome_eqb r (do_state s g) then Some s else None
  | Value g, ObsV v =>
      if oz_eqb v (match alookup g (pv s) with Some x => x | None => None end)
      then Some s else None
  | Process dt, ObsP log exc =>
      match process ord sc s dt log with
      | Some (s', [], e) => if outcome_eqb exc e then Some s' else None
      | _ => None
      end
  | _, _ => None
  end.

Definition future (tr : trace) : list entry :=
  flat_map (fun x => match snd x with ObsP log _ => log | _ => [] end) tr.

(* ---- the readings of the open choice that are tried ---------------------- *)
Fixpoint insert_all (x : Z) (l : list Z) : list (list Z) :=
  match l with
  | [] => [[x]]
  | y :: l' => (x :: l) :: map (cons y) (insert_all x l')
  end.
Fixpoint perms (l : list Z) : list (list Z) :=
  match l with
  | [] => [[]]
  | x :: l => flat_map (insert_all x) (perms l)
  end.
Fixpoint dedupl (ls : list (list Z)) : list (list Z) :=
  match ls with
  | [] => []
  | l :: ls => l :: filter (fun m => negb (zlist_eqb l m)) (dedupl ls)
  end.

(* first the likely ones: the coroutines that this frame's log does not show
   (killed before their turn, or the frame was abandoned) in the order in
   which the later logs show them, after - or before - those that it shows;
   then, when few coroutines woke, every arrangement.  Inadmissible ones are
   refused by [wake]. *)
Definition readings (s : st) (o : op) (ob : obs) (fut : list entry) : list (list gid) :=
  match o, ob with
  | Process dt, ObsP log _ =>
      let '(popped, woken) := woken_of s dt in
      let key := dl_of popped in
      let seen := seen_now log woken in
      let rest := filter (fun g => negb (memz g seen)) woken in
      let later := filter (fun g => memz g rest) (dedup (log_gids fut)) in
      let rest_f := later ++ filter (fun g => negb (memz g later)) rest in
      let all := if Nat.leb (length woken) 4 then map (sort_by key) (perms woken) else [] in
      filter (valid_order popped log woken)
             (dedupl (sort_by key (seen ++ rest_f) :: sort_by key (rest_f ++ seen) :: all))
  | _, _ => [[]]
  end.

(* The trace is accepted if one of the readings of the open choices leads to
   acceptance of all the rest. *)
Fixpoint run (sc : scripts) (s : st) (tr : trace) : option st :=
  match tr with
  | [] => Some s
  | (o, ob) :: tr =>
      (fix try (cs : list (list gid)) : option st :=
         match cs with
         | [] => None
         | c :: cs =>
             match (match step c sc s o ob with Some s1 => run sc s1 tr | None => None end) with
             | Some r => Some r
             | None => try cs
             end
         end) (readings s o ob (future tr))
  end.

(* generators referenced from some structure of the processor *)
Definition held (s : st) : list gid :=
  akeys (gens s) ++ flat_map (fun x => match x with Some g => [g] | None => [] end) (active s)
  ++ live_gids (waitq s) ++ killq s ++ proms s.

Definition accepts (c : case) : bool :=
  match run (c_scripts c) st0 (c_trace c) with
  | Some s => subz (c_alive c) (held s)
  | None => false
  end.
