(* What the flag [ok08] of the abstract scheduler means on raw observations:
   "never earlier, never later", "one step per frame".  These lemmas are
   about Coro/Spec.v alone (no model). *)
From Coq Require Import ZArith List Bool Lia ZifyBool.
From Desper Require Import Lib.Alist Coro.Model Coro.Spec Coro.Lemmas Coro.Inv Coro.Actions
     Coro.Loop Coro.Wake.
Import ListNotations.
Open Scope Z_scope.

(* a stretch of the trace that consists of process calls with dt >= 0 *)
Definition frames_only (tr : trace) : bool :=
  forallb (fun x => match x with (Process dt, ObsP _ _) => 0 <=? dt | _ => false end) tr.

Definition total_dt (tr : trace) : Z :=
  fold_right (fun x acc => match fst x with Process dt => dt + acc | _ => acc end) 0 tr.

(* the coroutines whose bodies ran, in order *)
Definition logged (tr : trace) : list gid :=
  flat_map (fun x => match snd x with ObsP log _ => log_gids log | _ => [] end) tr.

(* nobody aims a start or a kill at g: neither between frames nor from a body step that ran *)
Definition targets (g : gid) (a : action) : bool :=
  match a with AStart h | AKill h => h =? g | AState _ => false end.
Definition quiet_entry (sc : scripts) (g : gid) (e : entry) : bool :=
  match nth_error (script_of sc (fst (fst e))) (Z.to_nat (snd (fst e))) with
  | Some (acts, _) => negb (existsb (targets g) acts)
  | None => true
  end.
(* no body that ran in this log raised *)
Definition raises (sc : scripts) (e : entry) : bool :=
  match nth_error (script_of sc (fst (fst e))) (Z.to_nat (snd (fst e))) with
  | Some (_, RRaise _) => true
  | _ => false
  end.
Definition calm (sc : scripts) (log : list entry) : bool :=
  forallb (fun e => negb (raises sc e)) log.

Definition quiet (sc : scripts) (g : gid) (tr : trace) : bool :=
  forallb (fun x => match x with
                    | (Start h, _) | (Kill h, _) => negb (h =? g)
                    | (_, ObsP log _) => forallb (quiet_entry sc g) log
                    | _ => true
                    end) tr.

(* ---- ok08 is sticky --------------------------------------------------------- *)
Lemma ok08_sp_actions acts : forall t outs, ok08 (sp_actions t acts outs) = ok08 t.
Proof.
  induction acts as [|a acts IH]; intros t [|o outs]; cbn [sp_actions]; auto.
  now rewrite IH, ok08_sp_action.
Qed.

Lemma ran_sp_action t a o : t_ran (sp_action t a o) = t_ran t.
Proof. destruct a; unfold sp_action; destruct (is_ok o); reflexivity. Qed.
Lemma ran_sp_actions acts : forall t outs, t_ran (sp_actions t acts outs) = t_ran t.
Proof.
  induction acts as [|a acts IH]; intros t [|o outs]; cbn [sp_actions]; auto.
  now rewrite IH, ran_sp_action.
Qed.
Lemma ran_sp_result t g res : t_ran (sp_result t g res) = g :: t_ran t.
Proof.
  destruct res as [y|v|k]; cbn [sp_result]; [|reflexivity|reflexivity].
  destruct (is_pos y); [destruct (is_act t g)|]; reflexivity.
Qed.

Lemma ok08_sp_exec sc t h k outs :
  ok08 (sp_exec sc t (h, k, outs)) =
  ok08 t && match nth_error (script_of sc h) (Z.to_nat k) with
            | Some _ => chk08 t h | None => false end.
Proof.
  unfold sp_exec. cbv beta iota zeta.
  destruct (nth_error (script_of sc h) (Z.to_nat k)) as [[acts res]|];
    [|sproj; now rewrite !andb_false_r].
  now rewrite ok08_sp_result, ok08_sp_actions.
Qed.

Lemma ok08_exec_mono sc t e : ok08 (sp_exec sc t e) = true -> ok08 t = true.
Proof. destruct e as [[h k] outs]. rewrite ok08_sp_exec. intros H. now apply andb_true_iff in H. Qed.

Lemma ok08_fold_mono sc log : forall t,
  ok08 (fold_left (sp_exec sc) log t) = true -> ok08 t = true.
Proof.
  induction log as [|e log IH]; intros t; cbn [fold_left]; auto.
  intros H. apply IH in H. now apply ok08_exec_mono in H.
Qed.

Lemma ok08_step_mono sc t o ob : ok08 (sp_step sc t o ob) = true -> ok08 t = true.
Proof.
  destruct o, ob; cbn [sp_step]; rewrite ?ok08_sp_action; auto.
  unfold frame_end. sproj. intros H. apply andb_true_iff in H. destruct H as [H _].
  now apply ok08_fold_mono in H.
Qed.

Lemma ok08_run_mono sc tr : forall t, ok08 (sp_run sc t tr) = true -> ok08 t = true.
Proof.
  induction tr as [|[o ob] tr IH]; intros t; cbn [sp_run]; auto.
  intros H. apply IH in H. now apply ok08_step_mono in H.
Qed.

Lemma sp_run_app sc tr1 tr2 t : sp_run sc t (tr1 ++ tr2) = sp_run sc (sp_run sc t tr1) tr2.
Proof. revert t. induction tr1 as [|[o ob] tr1 IH]; intros t; cbn [app sp_run]; auto. Qed.

(* ---- a coroutine that is left alone ---------------------------------------- *)
Lemma quiet_action t a o g :
  targets g a = false ->
  alookup g (t_st (sp_action t a o)) = alookup g (t_st t) /\
  memz g (t_due (sp_action t a o)) = memz g (t_due t).
Proof.
  intros Hq. destruct a as [h|h|h]; unfold sp_action; cbn [targets] in Hq;
    destruct (is_ok o); sproj; auto.
  - rewrite alookup_aset. rewrite Z.eqb_sym in Hq. now rewrite Hq.
  - rewrite alookup_adel, memz_remz. rewrite Z.eqb_sym in Hq. now rewrite Hq.
Qed.

Lemma quiet_actions g acts : forall t outs,
  existsb (targets g) acts = false ->
  alookup g (t_st (sp_actions t acts outs)) = alookup g (t_st t) /\
  memz g (t_due (sp_actions t acts outs)) = memz g (t_due t).
Proof.
  induction acts as [|a acts IH]; intros t [|o outs] Hq; cbn [sp_actions]; auto.
  cbn [existsb] in Hq. apply orb_false_iff in Hq. destruct Hq as [H1 H2].
  destruct (IH (sp_action t a o) outs H2) as [E1 E2].
  destruct (quiet_action t a o g H1) as [E3 E4]. split; congruence.
Qed.

Lemma st_sp_result_other t h res g :
  g <> h -> alookup g (t_st (sp_result t h res)) = alookup g (t_st t) /\
            (match res with RRaise _ => False | _ => True end ->
             t_due (sp_result t h res) = t_due t).
Proof.
  intros N. destruct res as [y|v|k]; cbn [sp_result].
  - destruct (is_pos y); [destruct (is_act t h)|]; sproj; auto.
    now rewrite alookup_aset_neq.
  - sproj. now rewrite alookup_adel_neq.
  - sproj. rewrite alookup_adel_neq by auto. split; [reflexivity|intros []].
Qed.

(* the body of another coroutine ran *)
Lemma quiet_exec sc t h k outs g :
  g <> h -> quiet_entry sc g (h, k, outs) = true ->
  alookup g (t_st (sp_exec sc t (h, k, outs))) = alookup g (t_st t) /\
  (raises sc (h, k, outs) = false ->
   memz g (t_due (sp_exec sc t (h, k, outs))) = memz g (t_due t)).
Proof.
  intros N Hq. unfold quiet_entry, raises in *. cbn [fst snd] in *.
  destruct (nth_error (script_of sc h) (Z.to_nat k)) as [[acts res]|] eqn:Hn.
  - rewrite (sp_exec_unfold _ _ _ _ _ _ _ Hn). apply negb_true_iff in Hq.
    destruct (st_sp_result_other (sp_actions (exec_pre t h k outs acts) acts outs) h res g N)
      as [E1 E2].
    destruct (quiet_actions g acts (exec_pre t h k outs acts) outs Hq) as [E3 E4].
    split.
    + rewrite E1, E3. unfold exec_pre. sproj. reflexivity.
    + intros Hr. rewrite E2 by (destruct res; auto; discriminate).
      rewrite E4. unfold exec_pre. sproj. rewrite memz_remz. apply Z.eqb_neq in N. now rewrite N.
  - unfold sp_exec. cbv beta iota zeta. rewrite Hn. auto.
Qed.

(* a paused coroutine in the log breaks ok08 *)
Lemma paused_not_run sc t h k outs :
  ok08 (sp_exec sc t (h, k, outs)) = true -> is_act t h = true.
Proof.
  rewrite ok08_sp_exec. intros H. apply andb_true_iff in H. destruct H as [_ H].
  destruct (nth_error _ _); [|discriminate]. unfold chk08 in H.
  apply andb_true_iff in H. destruct H as [H _]. apply andb_true_iff in H. destruct H as [H _].
  apply andb_true_iff in H. tauto.
Qed.

Lemma quiet_log sc g log : forall t,
  forallb (quiet_entry sc g) log = true ->
  is_act t g = false ->
  ok08 (fold_left (sp_exec sc) log t) = true ->
  ~ In g (log_gids log) /\
  alookup g (t_st (fold_left (sp_exec sc) log t)) = alookup g (t_st t).
Proof.
  induction log as [|[[h k] outs] log IH]; intros t Hq Hn H8; cbn [fold_left log_gids map] in *.
  - auto.
  - apply andb_true_iff in Hq. destruct Hq as [Hq1 Hq2].
    pose proof (ok08_fold_mono _ _ _ H8) as H8'.
    assert (N : g <> h).
    { intros <-. apply paused_not_run in H8'. congruence. }
    destruct (quiet_exec sc t h k outs g N Hq1) as [E1 E2].
    destruct (IH (sp_exec sc t (h, k, outs)) Hq2) as [I1 I2]; auto.
    { unfold is_act, sp_state in *. now rewrite E1. }
    split; [|congruence]. cbn [fst]. intros [H|H]; auto.
Qed.

(* an owed coroutine that is not in the log is still owed at the end *)
Lemma owed_log sc g log : forall t,
  forallb (quiet_entry sc g) log = true -> calm sc log = true ->
  memz g (t_due t) = true -> ~ In g (log_gids log) ->
  memz g (t_due (fold_left (sp_exec sc) log t)) = true.
Proof.
  induction log as [|[[h k] outs] log IH]; intros t Hq Hc Hd Hn;
    cbn [fold_left log_gids map] in *; auto.
  apply andb_true_iff in Hq. destruct Hq as [Hq1 Hq2]. cbn [fst] in Hn.
  cbn [calm forallb] in Hc. apply andb_true_iff in Hc. destruct Hc as [Hc1 Hc2].
  apply negb_true_iff in Hc1.
  assert (N : g <> h) by (intros <-; apply Hn; now left).
  destruct (quiet_exec sc t h k outs g N Hq1) as [_ E2].
  apply IH; [exact Hq2|exact Hc2|rewrite (E2 Hc1); exact Hd|]. intros H. apply Hn. now right.
Qed.

Lemma total_dt_nonneg tr : frames_only tr = true -> 0 <= total_dt tr.
Proof.
  induction tr as [|[o ob] tr IH]; cbn [frames_only forallb total_dt fold_right fst]; [lia|].
  intros H. apply andb_true_iff in H. destruct H as [H1 H2]. specialize (IH H2).
  fold (total_dt tr). destruct o; try discriminate. destruct ob; try discriminate. lia.
Qed.

Lemma act_keys_intro g l : alookup g l = Some SAct -> In g (act_keys l).
Proof.
  intros H. apply alookup_In in H. unfold act_keys. apply in_flat_map. exists (g, SAct).
  split; auto. now left.
Qed.

Theorem never_earlier :
  forall sc g frames t r,
    alookup g (t_st t) = Some (SPaused r) ->
    frames_only frames = true -> quiet sc g frames = true ->
    total_dt frames < r ->
    ok08 (sp_run sc t frames) = true ->
    ~ In g (logged frames) /\
    alookup g (t_st (sp_run sc t frames)) = Some (SPaused (r - total_dt frames)).
Proof.
  intros sc g frames. induction frames as [|[o ob] frames IH]; intros t r Hst Hf Hq Ht H8.
  - cbn. split; auto. rewrite Hst. do 2 f_equal. lia.
  - cbn [frames_only forallb] in Hf. apply andb_true_iff in Hf. destruct Hf as [Hf1 Hf2].
    destruct o as [| | | |dt]; try discriminate. destruct ob as [| |log exc]; try discriminate.
    cbn [quiet forallb] in Hq. apply andb_true_iff in Hq. destruct Hq as [Hq1 Hq2].
    cbn [total_dt fold_right fst] in *. fold (total_dt frames) in *.
    pose proof (total_dt_nonneg _ Hf2) as Hnn.
    cbn [sp_run] in *. pose proof (ok08_run_mono _ _ _ H8) as H8a.
    cbn [sp_step] in *. unfold frame_end in H8a. sproj.
    apply andb_true_iff in H8a. destruct H8a as [H8a _].
    set (t1 := tick dt (flagwf (0 <=? dt) t)) in *.
    assert (E1 : alookup g (t_st t1) = Some (SPaused (r - dt))).
    { unfold t1, tick. sproj. rewrite alookup_tick, Hst. cbn [option_map tick1].
      assert (r - dt <=? 0 = false) as -> by lia. reflexivity. }
    destruct (quiet_log sc g log t1 Hq1) as [N1 E2]; auto.
    { unfold is_act, sp_state. now rewrite E1. }
    destruct (IH (frame_end (fold_left (sp_exec sc) log t1) exc) (r - dt)) as [N2 E3]; auto.
    { unfold frame_end. sproj. congruence. }
    { lia. }
    split.
    + cbn [logged flat_map snd]. rewrite in_app_iff. intros [H|H]; auto.
    + rewrite E3. do 2 f_equal. lia.
Qed.

Lemma last_frame sc g t dt log exc :
  alookup g (t_st (tick dt (flagwf (0 <=? dt) t))) = Some SAct ->
  forallb (quiet_entry sc g) log = true -> calm sc log = true ->
  ok08 (sp_step sc t (Process dt) (ObsP log exc)) = true ->
  In g (log_gids log).
Proof.
  intros Hst Hq Hc H8. cbn [sp_step] in H8. unfold frame_end in H8. sproj.
  apply andb_true_iff in H8. destruct H8 as [_ H8].
  destruct (in_dec Z.eq_dec g (log_gids log)) as [i|n]; auto. exfalso.
  assert (Hd : memz g (t_due (tick dt (flagwf (0 <=? dt) t))) = true).
  { apply memz_In. unfold tick at 1. sproj. now apply act_keys_intro. }
  pose proof (owed_log sc g log _ Hq Hc Hd n) as H.
  destruct (t_due (fold_left (sp_exec sc) log (tick dt (flagwf (0 <=? dt) t)))); discriminate.
Qed.

Theorem never_later :
  forall sc g frames t r dt log exc,
    alookup g (t_st t) = Some (SPaused r) ->
    frames_only frames = true -> quiet sc g (frames ++ [(Process dt, ObsP log exc)]) = true ->
    calm sc log = true ->
    total_dt frames < r -> r <= total_dt frames + dt ->
    ok08 (sp_run sc t (frames ++ [(Process dt, ObsP log exc)])) = true ->
    In g (log_gids log).
Proof.
  intros sc g frames t r dt log exc Hst Hf Hq Hc Ht Hr H8.
  unfold quiet in Hq. rewrite forallb_app in Hq. apply andb_true_iff in Hq.
  destruct Hq as [Hq1 Hq2]. cbn [forallb] in Hq2. rewrite andb_true_r in Hq2.
  rewrite sp_run_app in H8. cbn [sp_run] in H8.
  pose proof (ok08_step_mono _ _ _ _ H8) as H8a.
  destruct (never_earlier sc g frames t r Hst Hf Hq1 Ht H8a) as [_ E].
  apply (last_frame sc g (sp_run sc t frames) dt log exc); auto.
  unfold tick. sproj. rewrite alookup_tick, E. cbn [option_map tick1].
  assert (r - total_dt frames - dt <=? 0 = true) as -> by lia. reflexivity.
Qed.

Lemma log_nodup sc log : forall t,
  ok08 (fold_left (sp_exec sc) log t) = true ->
  NoDup (log_gids log) /\ forall x, In x (log_gids log) -> ~ In x (t_ran t).
Proof.
  induction log as [|[[h k] outs] log IH]; intros t H8; cbn [fold_left log_gids map fst] in *.
  - split; [constructor|intros x []].
  - destruct (IH _ H8) as [ND Hr]. pose proof (ok08_fold_mono _ _ _ H8) as H8'.
    rewrite ok08_sp_exec in H8'. apply andb_true_iff in H8'. destruct H8' as [_ H8'].
    assert (Eran : t_ran (sp_exec sc t (h, k, outs)) = h :: t_ran t).
    { unfold sp_exec. cbv beta iota zeta.
      destruct (nth_error (script_of sc h) (Z.to_nat k)) as [[acts res]|]; [|discriminate].
      now rewrite ran_sp_result, ran_sp_actions. }
    destruct (nth_error (script_of sc h) (Z.to_nat k)); [|discriminate].
    unfold chk08 in H8'. apply andb_true_iff in H8'. destruct H8' as [H8' _].
    apply andb_true_iff in H8'. destruct H8' as [H8' _].
    apply andb_true_iff in H8'. destruct H8' as [_ Hnr]. apply negb_true_iff, memz_false in Hnr.
    rewrite Eran in Hr. split.
    + constructor; auto. intros H. apply (Hr h H). now left.
    + intros x [<-|Hx]; auto. intros H. apply (Hr x Hx). now right.
Qed.

Theorem one_step_per_frame :
  forall sc g t dt log exc,
    alookup g (t_st t) = Some SAct ->
    quiet sc g [(Process dt, ObsP log exc)] = true -> calm sc log = true ->
    ok08 (sp_step sc t (Process dt) (ObsP log exc)) = true ->
    In g (log_gids log) /\ NoDup (log_gids log).
Proof.
  intros sc g t dt log exc Hst Hq Hc H8. cbn [quiet forallb] in Hq. rewrite andb_true_r in Hq. split.
  - apply (last_frame sc g t dt log exc); auto.
    unfold tick. sproj. now rewrite alookup_tick, Hst.
  - cbn [sp_step] in H8. unfold frame_end in H8. sproj.
    apply andb_true_iff in H8. destruct H8 as [H8 _]. now apply log_nodup in H8.
Qed.
