(* Coroutines (C08, C09): the properties, as a small abstract scheduler that
   is driven by the observations only (it knows the scripts - they are
   inputs - but nothing of the processor's queues, marks or timer).

   Per generator: a status (ACTIVE / PAUSED with the time that remains /
   absent = TERMINATED), the script position, the promise value; per frame:
   who is owed a step ([t_due]), who had one ([t_ran]) and the order in which
   the coroutines that stayed runnable must come ([t_order]).  Three sticky
   flags record whether the C08 clauses, the C09 clauses and the input
   domain have been respected so far.

   Models only: no proofs in this file. *)
From Coq Require Import ZArith List Bool.
From Desper Require Import Lib.Alist.
From Desper Require Export Coro.Model.
Import ListNotations.
Open Scope Z_scope.

Inductive status := SAct | SPaused (r : Z).

(* a killed coroutine may stay referenced until the frame in which it would
   next have run: ZNow = this frame (or, between frames, the coming one is
   ZNext), ZWait r = the frame in which the rest r of its wait runs out *)
Inductive ghost := ZNow | ZNext | ZWait (r : Z).

Record spec := mkSp {
  t_st : list (gid * status);
  t_pc : list (gid * Z);             (* next script position: survives kill / restart *)
  t_val : list (gid * option Z);     (* value of the current promise *)
  t_fin : list gid;                  (* generators that have returned *)
  t_order : list gid;    (* still to come in this frame, in this order: those that stayed runnable *)
  t_norder : list gid;   (* ran (this frame or the last one) and stayed runnable since, in order *)
  t_due : list gid;      (* owed a step in this frame *)
  t_ran : list gid;      (* had their step in this frame *)
  t_ghost : list (gid * ghost);
  t_woke : list (gid * Z);   (* whose wait ran out in the running frame, and by how much *)
  t_risky : list gid;        (* see [risky_start] *)
  t_cur : option gid;        (* the coroutine whose body is running *)
  t_abort : option Z;        (* the exception that left a body and ended the running frame *)
  ok08 : bool; ok09 : bool; okwf : bool
}.

Definition sp0 : spec := mkSp [] [] [] [] [] [] [] [] [] [] [] None None true true true.

Definition flag08 (b : bool) (t : spec) : spec :=
  mkSp (t_st t) (t_pc t) (t_val t) (t_fin t) (t_order t) (t_norder t) (t_due t) (t_ran t)
       (t_ghost t) (t_woke t) (t_risky t) (t_cur t) (t_abort t) (ok08 t && b) (ok09 t) (okwf t).
Definition flag09 (b : bool) (t : spec) : spec :=
  mkSp (t_st t) (t_pc t) (t_val t) (t_fin t) (t_order t) (t_norder t) (t_due t) (t_ran t)
       (t_ghost t) (t_woke t) (t_risky t) (t_cur t) (t_abort t) (ok08 t) (ok09 t && b) (okwf t).
Definition flagwf (b : bool) (t : spec) : spec :=
  mkSp (t_st t) (t_pc t) (t_val t) (t_fin t) (t_order t) (t_norder t) (t_due t) (t_ran t)
       (t_ghost t) (t_woke t) (t_risky t) (t_cur t) (t_abort t) (ok08 t) (ok09 t) (okwf t && b).

Definition sp_state (t : spec) (g : gid) : Z :=
  match alookup g (t_st t) with
  | None => 0 | Some (SPaused _) => 1 | Some SAct => 2
  end.
Definition is_act (t : spec) (g : gid) : bool := sp_state t g =? 2.

(* what start / kill / state must answer *)
Definition exp_action (t : spec) (a : action) : outcome :=
  match a with
  | AStart g => if g <? 0 then OTypeError
                else if sp_state t g =? 0 then OOk else OValueError
  | AKill g => if g <? 0 then OTypeError
               else if sp_state t g =? 0 then OValueError else OOk
  | AState g => if g <? 0 then OTypeError else OState (sp_state t g)
  end.

(* a successful start: ACTIVE, fresh promise, no longer a ghost *)
Definition started (t : spec) (g : gid) : spec :=
  mkSp (aset g SAct (t_st t)) (t_pc t) (aset g None (t_val t)) (t_fin t) (t_order t)
       (t_norder t) (t_due t) (t_ran t) (adel g (t_ghost t)) (t_woke t) (t_risky t) (t_cur t) (t_abort t) (ok08 t) (ok09 t) (okwf t).

(* a successful kill: TERMINATED at once; owed nothing; remembered as a
   ghost until the frame in which it would next have run *)
Definition killed (t : spec) (g : gid) : spec :=
  let gh := match alookup g (t_st t) with
            | Some (SPaused r) => aset g (ZWait r) (t_ghost t)
            | Some SAct => aset g (if memz g (t_due t) then ZNow else ZNext) (t_ghost t)
            | None => t_ghost t
            end in
  mkSp (adel g (t_st t)) (t_pc t) (t_val t) (t_fin t) (remz g (t_order t))
       (remz g (t_norder t)) (remz g (t_due t)) (t_ran t) gh (t_woke t) (t_risky t) (t_cur t) (t_abort t) (ok08 t) (ok09 t) (okwf t).

(* the waits of g and of the running coroutine ran out in this frame, with the same deadline *)
Definition tied_with (cur : option gid) (g : gid) (woke : list (gid * Z)) : bool :=
  match cur, alookup g woke with
  | Some x, Some v => negb (x =? g) &&
                      match alookup x woke with Some v' => v' =? v | None => false end
  | _, _ => false
  end.

Definition add_risk (b : bool) (g : gid) (t : spec) : spec :=
  mkSp (t_st t) (t_pc t) (t_val t) (t_fin t) (t_order t) (t_norder t) (t_due t) (t_ran t)
       (t_ghost t) (t_woke t) (if b then g :: t_risky t else t_risky t) (t_cur t) (t_abort t)
       (ok08 t) (ok09 t) (okwf t).

Definition is_ok (o : outcome) : bool := match o with OOk => true | _ => false end.

(* A successful start of g, issued by the body of a coroutine whose wait ran
   out in the same frame and with the very same deadline as g's, while g has
   not run since (it was killed before its turn).  The order in which the heap
   released the two is open and does not show in the logs, but it decides
   whether g keeps its place.  The acceptor tries both readings; it does not
   try the combinations of two such events, which are therefore outside the
   domain until a frame has been completed. *)
Definition risky_start (t : spec) (g : gid) (o : outcome) : bool :=
  is_ok o && negb (memz g (t_ran t)) && tied_with (t_cur t) g (t_woke t).

Definition sp_action (t : spec) (a : action) (o : outcome) : spec :=
  let t := flag09 (outcome_eqb o (exp_action t a)) t in
  match a with
  | AStart g =>
      (* restarting an exhausted generator is outside the domain: its
         resumption executes no code, so nothing of it can be observed *)
      let t := flagwf (negb (memz g (t_fin t))) t in
      (* also outside: a second [risky_start] before the order of the
         coroutines concerned has shown *)
      let t := flagwf (negb (risky_start t g o && match t_risky t with [] => false | _ => true end)) t in
      let t := add_risk (risky_start t g o) g t in
      if is_ok o then started t g else t
  | AKill g => if is_ok o then killed t g else t
  | AState _ => t
  end.

Fixpoint sp_actions (t : spec) (acts : list action) (outs : list outcome) : spec :=
  match acts, outs with
  | a :: acts, o :: outs => sp_actions (sp_action t a o) acts outs
  | _, _ => t
  end.

Definition no_abort (t : spec) : bool :=
  match t_abort t with None => true | Some _ => false end.
Definition abort_outcome (t : spec) : outcome :=
  match t_abort t with None => OOk | Some k => ORaised k end.

Definition head_ok (g : gid) (order : list gid) : bool :=
  match order with
  | x :: _ => (x =? g) || negb (memz g order)
  | [] => true
  end.

Definition enter (t : spec) (g : gid) (k : Z) : spec :=
  mkSp (t_st t) (aset g (k + 1) (t_pc t)) (t_val t) (t_fin t) (remz g (t_order t))
       (t_norder t) (remz g (t_due t)) (t_ran t) (t_ghost t) (t_woke t) (t_risky t) (Some g) (t_abort t) (ok08 t) (ok09 t) (okwf t).

(* a body raised: the frame is abandoned.  Those that have not run keep their
   turn for the next frame, after those that ran (same relative order as
   before); nobody is owed a step any more in this frame; a killed coroutine
   that was to be dropped in this frame is dropped in the next one.  (The
   coroutines whose wait ran out in this frame and that have not run stay
   in [t_woke]: the order of equal deadlines among them is still open.) *)
Definition gh_next (x : gid * ghost) : gid * ghost :=
  match x with (g, ZNow) => (g, ZNext) | _ => x end.
Definition abandon (k : Z) (t : spec) : spec :=
  mkSp (t_st t) (t_pc t) (t_val t) (t_fin t) [] (t_norder t ++ t_order t) [] (t_ran t)
       (map gh_next (t_ghost t))
       (filter (fun x => negb (memz (fst x) (t_ran t))) (t_woke t)) (t_risky t) None (Some k)
       (ok08 t) (ok09 t) (okwf t).

Definition sp_result (t : spec) (g : gid) (res : result) : spec :=
  let ran := g :: t_ran t in
  match res with
  | RReturn v =>
      mkSp (adel g (t_st t)) (t_pc t) (aset g v (t_val t)) (g :: t_fin t) (t_order t)
           (t_norder t) (t_due t) ran (adel g (t_ghost t)) (t_woke t) (t_risky t) None (t_abort t) (ok08 t) (ok09 t) (okwf t)
  | RRaise k =>
      (* TERMINATED; the promise keeps its value (None); released at once *)
      abandon k
        (mkSp (adel g (t_st t)) (t_pc t) (t_val t) (g :: t_fin t) (t_order t)
              (t_norder t) (t_due t) ran (adel g (t_ghost t)) (t_woke t) (t_risky t) None
              (t_abort t) (ok08 t) (ok09 t) (okwf t))
  | RYield y =>
      match is_pos y with
      | Some z =>
          if is_act t g
          then mkSp (aset g (SPaused z) (t_st t)) (t_pc t) (t_val t) (t_fin t) (t_order t)
                    (t_norder t) (t_due t) ran (t_ghost t) (t_woke t) (t_risky t) None (t_abort t) (ok08 t) (ok09 t) (okwf t)
          else mkSp (t_st t) (t_pc t) (t_val t) (t_fin t) (t_order t) (t_norder t) (t_due t) ran
                    (if amem g (t_ghost t) then aset g (ZWait z) (t_ghost t) else t_ghost t)
                    (t_woke t) (t_risky t) None (t_abort t) (ok08 t) (ok09 t) (okwf t)
      | None =>
          mkSp (t_st t) (t_pc t) (t_val t) (t_fin t) (t_order t)
               (if is_act t g then t_norder t ++ [g] else t_norder t)
               (t_due t) ran (t_ghost t) (t_woke t) (t_risky t) None (t_abort t) (ok08 t) (ok09 t) (okwf t)
      end
  end.

(* one entry of the execution log: the body of g ran from script position k *)
Definition sp_exec (sc : scripts) (t : spec) (e : entry) : spec :=
  let '(g, k, outs) := e in
  (* C08: only a runnable coroutine runs, once per frame, those that stayed
     runnable come in their previous order, and nobody runs in a frame after a
     body raised *)
  let t := flag08 (is_act t g && negb (memz g (t_ran t)) && head_ok g (t_order t)
                   && no_abort t) t in
  (* C09: its code runs only while it is ACTIVE (never after kill or return,
     unless started again), and it carries on from where it stopped *)
  let t := flag09 (is_act t g && (k =? zget (t_pc t) g)) t in
  match nth_error (script_of sc g) (Z.to_nat k) with
  | None => flag08 false (flag09 false t)      (* no such step: cannot be judged *)
  | Some (acts, res) =>
      let t := flag09 (Nat.eqb (length outs) (length acts)) t in
      sp_result (sp_actions (enter t g k) acts outs) g res
  end.

Definition tick_st (dt : Z) (x : gid * status) : gid * status :=
  match x with
  | (g, SPaused r) => (g, if r - dt <=? 0 then SAct else SPaused (r - dt))
  | (g, SAct) => (g, SAct)
  end.
Definition tick_gh (dt : Z) (x : gid * ghost) : gid * ghost :=
  match x with
  | (g, ZNext) => (g, ZNow)
  | (g, ZWait r) => (g, ZWait (r - dt))
  | (g, ZNow) => (g, ZNow)
  end.
Definition act_keys (l : list (gid * status)) : list gid :=
  flat_map (fun x => match x with (g, SAct) => [g] | _ => [] end) l.

(* the waits that run out in this frame, each with the time by which it is
   overdue: equal values = equal deadlines *)
Definition woke_st (dt : Z) (l : list (gid * status)) : list (gid * Z) :=
  flat_map (fun x => match x with
                     | (g, SPaused r) => if r - dt <=? 0 then [(g, r - dt)] else []
                     | _ => [] end) l.
(* start of a frame: time passes for every waiter; those whose wait has run
   out are runnable again; every runnable coroutine is owed a step *)
Definition tick (dt : Z) (t : spec) : spec :=
  let st' := map (tick_st dt) (t_st t) in
  mkSp st' (t_pc t) (t_val t) (t_fin t) (t_norder t) [] (act_keys st') []
       (map (tick_gh dt) (t_ghost t)) (t_woke t ++ woke_st dt (t_st t)) [] None None
       (ok08 t) (ok09 t) (okwf t).

Definition gh_stays (x : gid * ghost) : bool :=
  match x with
  | (_, ZNow) => false
  | (_, ZWait r) => 0 <? r
  | (_, ZNext) => true
  end.

Definition frame_end (t : spec) (exc : outcome) : spec :=
  let t := flag08 (match t_due t with [] => true | _ => false end) t in
  (* process never fails, except by passing on what left a coroutine body *)
  let t := flag09 (outcome_eqb exc (abort_outcome t)) t in
  mkSp (t_st t) (t_pc t) (t_val t) (t_fin t) (t_order t) (t_norder t) (t_due t) (t_ran t)
       (filter gh_stays (t_ghost t)) (if no_abort t then [] else t_woke t)
       (if no_abort t then [] else t_risky t) None None
       (ok08 t) (ok09 t) (okwf t).

Definition bad (t : spec) : spec := flagwf false t.

Definition sp_step (sc : scripts) (t : spec) (o : op) (ob : obs) : spec :=
  match o, ob with
  | Start g, ObsR r => sp_action t (AStart g) r
  | Kill g, ObsR r => sp_action t (AKill g) r
  | State g, ObsR r => sp_action t (AState g) r
  | Value g, ObsV v =>
      (* once the generator has returned, its promise holds the value *)
      flag09 (if memz g (t_fin t)
              then oz_eqb v (match alookup g (t_val t) with Some x => x | None => None end)
              else true) t
  | Process dt, ObsP log exc =>
      frame_end (fold_left (sp_exec sc) log (tick dt (flagwf (0 <=? dt) t))) exc
  | _, _ => bad t
  end.

Fixpoint sp_run (sc : scripts) (t : spec) (tr : trace) : spec :=
  match tr with
  | [] => t
  | (o, ob) :: tr => sp_run sc (sp_step sc t o ob) tr
  end.

Definition sp_held (t : spec) : list gid := akeys (t_st t) ++ akeys (t_ghost t).

Definition final (c : case) : spec := sp_run (c_scripts c) sp0 (c_trace c).

(* ---- input domain -------------------------------------------------------- *)
Definition ends_with_return (s : list stp) : bool :=
  match last s ([], RYield YNone) with
  | (_, RReturn _) | (_, RRaise _) => true
  | _ => false
  end.

Definition wf_b (c : case) : bool :=
  forallb (fun x => (0 <=? fst x) && ends_with_return (snd x)) (c_scripts c)
  && okwf (final c).

(* ---- C08 ------------------------------------------------------------------ *)
Definition C08_case := case.
Definition holds08_b (c : case) : bool := ok08 (final c).
Definition holds08 (c : case) : Prop := holds08_b c = true.
Definition known08_b (c : case) : bool := false.

(* ---- C09 ------------------------------------------------------------------ *)
Definition C09_case := case.
Definition holds09_b (c : case) : bool :=
  ok09 (final c) && subz (c_alive c) (sp_held (final c)).
Definition holds09 (c : case) : Prop := holds09_b c = true.
Definition known09_b (c : case) : bool := false.

Definition bit (b : bool) (n : nat) : nat := if b then n else 0%nat.
Definition C08_verdict (c : C08_case) : nat :=
  (bit (wf_b c) 1 + bit (known08_b c) 2 + bit (accepts c) 4 + bit (holds08_b c) 8)%nat.
Definition C09_verdict (c : C09_case) : nat :=
  (bit (wf_b c) 1 + bit (known09_b c) 2 + bit (accepts c) 4 + bit (holds09_b c) 8)%nat.
