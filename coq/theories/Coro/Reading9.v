(* What the flag [ok09] of the abstract scheduler means on raw
   observations.  About Coro/Spec.v alone (no model). *)
From Coq Require Import ZArith List Bool Lia ZifyBool.
From Desper Require Import Lib.Alist Coro.Model Coro.Spec Coro.Lemmas Coro.Inv Coro.Actions
     Coro.Loop.
Import ListNotations.
Open Scope Z_scope.

Lemma ok09_sp_actions_mono acts : forall t outs,
  ok09 (sp_actions t acts outs) = true -> ok09 t = true.
Proof.
  induction acts as [|a acts IH]; intros t [|o outs]; cbn [sp_actions]; auto.
  intros H. apply IH in H. rewrite ok09_sp_action in H. now apply andb_true_iff in H.
Qed.

(* a body runs only while its coroutine is ACTIVE - not after kill, not after
   return, not while it waits - and from the position where it stopped *)
Lemma body_only_when_active sc t g k outs :
  ok09 (sp_exec sc t (g, k, outs)) = true ->
  sp_state t g = 2 /\ k = zget (t_pc t) g.
Proof.
  destruct (nth_error (script_of sc g) (Z.to_nat k)) as [[acts res]|] eqn:Hn.
  - rewrite (sp_exec_unfold _ _ _ _ _ _ _ Hn), ok09_sp_result. intros H.
    apply ok09_sp_actions_mono in H. unfold exec_pre in H. sproj.
    apply andb_true_iff in H. destruct H as [H _]. apply andb_true_iff in H.
    destruct H as [_ H]. apply andb_true_iff in H. destruct H as [H1 H2].
    unfold is_act, sp_state in *. sproj. split; lia.
  - unfold sp_exec. cbv beta iota zeta. rewrite Hn. sproj. rewrite andb_false_r. discriminate.
Qed.

(* the answers of start / kill / state *)
Lemma answers t a o : ok09 (sp_action t a o) = true -> o = exp_action t a.
Proof.
  rewrite ok09_sp_action. intros H. apply andb_true_iff in H. destruct H as [_ H].
  now apply outcome_eqb_eq.
Qed.

(* kill takes effect at once; a successful start makes ACTIVE *)
Lemma kill_at_once t g : sp_state (sp_action t (AKill g) OOk) g = 0.
Proof. unfold sp_action, sp_state. cbn [is_ok]. sproj. now rewrite alookup_adel_eq. Qed.

Lemma start_makes_active t g : sp_state (sp_action t (AStart g) OOk) g = 2.
Proof. unfold sp_action, sp_state. cbn [is_ok]. sproj. now rewrite alookup_aset_eq. Qed.

(* a call that raises changes nothing *)
Lemma error_changes_nothing t a o :
  is_ok o = false ->
  t_st (sp_action t a o) = t_st t /\ t_pc (sp_action t a o) = t_pc t /\
  t_val (sp_action t a o) = t_val t /\ t_ghost (sp_action t a o) = t_ghost t.
Proof. intros H. destruct a; unfold sp_action; rewrite ?H; sproj; auto. Qed.

(* a positive yield pauses, anything else leaves ACTIVE, return terminates
   and fills the promise *)
Lemma yield_positive t g z :
  0 < z -> sp_state t g = 2 -> alookup g (t_st (sp_result t g (RYield (YNum z)))) = Some (SPaused z).
Proof.
  intros Hz Ha. cbn [sp_result is_pos]. assert (0 <? z = true) as -> by lia.
  unfold is_act. rewrite Ha. cbn. now rewrite alookup_aset_eq.
Qed.

Lemma yield_other t g y :
  is_pos y = None -> t_st (sp_result t g (RYield y)) = t_st t.
Proof. intros H. cbn [sp_result]. now rewrite H. Qed.

Lemma return_terminates t g v :
  sp_state (sp_result t g (RReturn v)) g = 0 /\
  alookup g (t_val (sp_result t g (RReturn v))) = Some v /\
  In g (t_fin (sp_result t g (RReturn v))).
Proof.
  cbn [sp_result]. unfold sp_state. sproj. rewrite alookup_adel_eq, alookup_aset_eq.
  repeat split; auto. now left.
Qed.

Lemma value_after_return sc t g v :
  ok09 (sp_step sc t (Value g) (ObsV v)) = true -> In g (t_fin t) ->
  Some v = alookup g (t_val t) \/ (v = None /\ alookup g (t_val t) = None).
Proof.
  cbn [sp_step]. sproj. intros H Hf. apply andb_true_iff in H. destruct H as [_ H].
  apply memz_In in Hf. rewrite Hf in H.
  destruct (alookup g (t_val t)) as [x|].
  - left. destruct v, x; cbn in H; try discriminate; auto. apply Z.eqb_eq in H. now subst.
  - right. destruct v; cbn in H; [discriminate|auto].
Qed.

(* process never fails - except that it passes on what left a coroutine body *)
Lemma process_never_fails sc t dt log exc :
  ok09 (sp_step sc t (Process dt) (ObsP log exc)) = true ->
  exc = abort_outcome (fold_left (sp_exec sc) log (tick dt (flagwf (0 <=? dt) t))).
Proof.
  cbn [sp_step]. unfold frame_end. sproj. intros H. apply andb_true_iff in H.
  destruct H as [_ H]. apply outcome_eqb_eq in H. exact H.
Qed.

(* a body that raises terminates its coroutine; the promise keeps None; the
   frame is over: nobody is owed a step, nobody may run *)
Lemma raise_terminates t g k :
  sp_state (sp_result t g (RRaise k)) g = 0 /\
  t_val (sp_result t g (RRaise k)) = t_val t /\
  In g (t_fin (sp_result t g (RRaise k))) /\
  t_due (sp_result t g (RRaise k)) = [] /\
  no_abort (sp_result t g (RRaise k)) = false.
Proof.
  cbn [sp_result]. unfold sp_state, no_abort. sproj. rewrite alookup_adel_eq.
  repeat split; auto. now left.
Qed.

(* the frame after an abandoned one is an ordinary frame *)
Lemma abort_forgotten t exc : t_abort (frame_end t exc) = None.
Proof. reflexivity. Qed.
