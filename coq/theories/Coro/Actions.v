(* Simulation of one start / kill / state call (issued between frames or
   from inside a coroutine body) and of a sequence of in-body actions. *)
From Coq Require Import ZArith List Bool Lia ZifyBool.
From Desper Require Import Lib.Alist Coro.Model Coro.Spec Coro.Lemmas Coro.Inv.
Import ListNotations.
Open Scope Z_scope.

Lemma outcome_eqb_eq a b : outcome_eqb a b = true -> a = b.
Proof.
  destruct a, b; cbn; intros H; try discriminate; auto;
  apply Z.eqb_eq in H; now subst.
Qed.

Lemma outcome_eqb_refl a : outcome_eqb a a = true.
Proof. destruct a; cbn; auto; apply Z.eqb_refl. Qed.

Lemma Rel_ext s t t' f b :
  Rel s t f b ->
  t_st t' = t_st t -> t_pc t' = t_pc t -> t_val t' = t_val t -> t_fin t' = t_fin t ->
  t_order t' = t_order t -> t_norder t' = t_norder t -> t_due t' = t_due t ->
  t_ran t' = t_ran t -> Rel s t' f b.
Proof.
  intros [? ? ? ? ? ? ? ? ? ?] E1 E2 E3 E4 E5 E6 E7 E8.
  constructor; rewrite ?E1, ?E2, ?E3, ?E4, ?E5, ?E6, ?E7, ?E8; auto.
Qed.

Lemma Rel_model_ext s s' t f b :
  Rel s t f b -> (forall g, abs_st s' g = abs_st s g) ->
  pcs s' = pcs s -> pv s' = pv s -> gdone s' = gdone s -> Rel s' t f b.
Proof.
  intros [? ? ? ? ? ? ? ? ? ?] E1 E2 E3 E4.
  constructor; rewrite ?E2, ?E3, ?E4; auto. intros g. now rewrite E1.
Qed.

Lemma ok08_sp_action t a o : ok08 (sp_action t a o) = ok08 t.
Proof. destruct a; unfold sp_action; destruct (is_ok o); reflexivity. Qed.

Lemma ok09_sp_action t a o :
  ok09 (sp_action t a o) = ok09 t && outcome_eqb o (exp_action t a).
Proof. destruct a; unfold sp_action; destruct (is_ok o); reflexivity. Qed.

Definition wf_action (t : spec) (a : action) (o : outcome) : bool :=
  match a with
  | AStart g => negb (memz g (t_fin t)) &&
                negb (risky_start t g o && match t_risky t with [] => false | _ => true end)
  | _ => true
  end.

Lemma okwf_sp_action t a o : okwf (sp_action t a o) = okwf t && wf_action t a o.
Proof.
  destruct a; unfold sp_action, wf_action; destruct (is_ok o); sproj; auto;
  rewrite ?andb_true_r, ?andb_assoc; auto.
Qed.

Lemma abs_st_killq_other s k g :
  (forall g', g' <> g -> memz g' k = memz g' (killq s)) ->
  alookup g (gens s) = None ->
  forall g', abs_st (set_killq s k) g' = abs_st s g'.
Proof.
  intros H Hg g'. unfold abs_st. sproj. destruct (Z.eq_dec g' g) as [->|N].
  - now rewrite Hg.
  - now rewrite H.
Qed.

Lemma action_sim s t f b a s' o :
  Inv s f b -> Rel s t f b -> do_action s a = (s', o) ->
  okwf (sp_action t a o) = true ->
  exists b', Inv s' f b' /\ Rel s' (sp_action t a o) f b' /\
             (NoLeak s -> NoLeak s' /\ o = exp_action t a).
Proof.
  intros HI HR Hd Hwf. rewrite okwf_sp_action in Hwf. apply andb_true_iff in Hwf.
  destruct Hwf as [_ Hwf]. destruct a as [g|g|g]; cbn [do_action] in Hd; unfold sp_action.
  - (* start *)
    cbn [wf_action] in Hwf. apply andb_true_iff in Hwf. destruct Hwf as [Hwf _].
    rewrite (r_fin _ _ _ _ HR) in Hwf.
    apply negb_true_iff, memz_false in Hwf.
    cbn [exp_action]. rewrite (sp_state_m _ _ _ _ g HR).
    destruct o; cbn [is_ok].
    + (* OOk *)
      destruct (start_sim _ _ _ _ _ _ HI HR Hd Hwf) as (b' & HI' & HR' & HL).
      exists b'. split; auto. split.
      * eapply Rel_ext; [exact HR'|..]; reflexivity.
      * intros L. split; auto. unfold do_start in Hd.
        destruct (g <? 0); [discriminate|].
        destruct (mstate s g =? 0); [reflexivity|discriminate].
    + exfalso. unfold do_start in Hd.
      destruct (g <? 0); [discriminate|]. destruct (negb (mstate s g =? 0)); [discriminate|].
      destruct (memz g (killq s)); [|discriminate].
      destruct (alookup g (gens s)) as [[?|]|]; discriminate.
    + (* ValueError *)
      unfold do_start in Hd. destruct (g <? 0); [discriminate|].
      destruct (mstate s g =? 0) eqn:Em; cbn [negb] in Hd.
      * exfalso. destruct (memz g (killq s)); [|discriminate].
        destruct (alookup g (gens s)) as [[?|]|]; discriminate.
      * injection Hd as <-. exists b. split; auto. split.
        -- eapply Rel_ext; [exact HR|..]; reflexivity.
        -- auto.
    + (* TypeError *)
      unfold do_start in Hd. destruct (g <? 0) eqn:En.
      * injection Hd as <-. exists b. split; auto. split.
        -- eapply Rel_ext; [exact HR|..]; reflexivity.
        -- auto.
      * exfalso. destruct (negb (mstate s g =? 0)); [discriminate|].
        destruct (memz g (killq s)); [|discriminate].
        destruct (alookup g (gens s)) as [[?|]|]; discriminate.
    + (* KeyError: only with a leaked kill mark *)
      unfold do_start in Hd. destruct (g <? 0); [discriminate|].
      destruct (negb (mstate s g =? 0)); [discriminate|].
      destruct (memz g (killq s)) eqn:Ek; [|discriminate].
      destruct (alookup g (gens s)) as [[?|]|] eqn:Eg; try discriminate.
      injection Hd as <-. exists b. split; [now apply Inv_set_killq|]. split.
      * assert (HR2 : Rel (set_killq s (remz g (killq s))) t f b).
        { apply (Rel_model_ext s); auto.
          apply (abs_st_killq_other s _ g); auto.
          intros g'' N. rewrite memz_remz. apply Z.eqb_neq in N. now rewrite N. }
        eapply Rel_ext; [exact HR2|..]; reflexivity.
      * intros L. apply L in Ek. unfold amem in Ek. rewrite Eg in Ek. discriminate.
    + exfalso. unfold do_start in Hd.
      destruct (g <? 0); [discriminate|]. destruct (negb (mstate s g =? 0)); [discriminate|].
      destruct (memz g (killq s)); [|discriminate].
      destruct (alookup g (gens s)) as [[?|]|]; discriminate.
    + exfalso. unfold do_start in Hd.
      destruct (g <? 0); [discriminate|]. destruct (negb (mstate s g =? 0)); [discriminate|].
      destruct (memz g (killq s)); [|discriminate].
      destruct (alookup g (gens s)) as [[?|]|]; discriminate.
  - (* kill *)
    cbn [exp_action]. rewrite (sp_state_m _ _ _ _ g HR).
    unfold do_kill in Hd. destruct (g <? 0) eqn:En.
    { injection Hd as <- <-. cbn [is_ok]. exists b. split; auto. split; auto.
      eapply Rel_ext; [exact HR|..]; reflexivity. }
    unfold mstate. destruct (alookup g (gens s)) as [w|] eqn:Eg.
    + destruct (memz g (killq s)) eqn:Ek.
      * injection Hd as <- <-. cbn [is_ok]. exists b. split; auto. split; auto.
        eapply Rel_ext; [exact HR|..]; reflexivity.
      * injection Hd as <- <-. cbn [is_ok]. exists b.
        split; [now apply Inv_set_killq|]. split.
        -- eapply Rel_ext; [exact (kill_sim _ _ _ _ g HI HR)|..]; reflexivity.
        -- intros L. split.
           ++ intros g' Hg'. sproj. rewrite memz_cons in Hg'.
              destruct (g' =? g) eqn:E; [|now apply L].
              apply Z.eqb_eq in E. subst. unfold amem. now rewrite Eg.
           ++ now destruct w.
    + injection Hd as <- <-. cbn [is_ok]. exists b. split; auto. split; auto.
      eapply Rel_ext; [exact HR|..]; reflexivity.
  - (* state *)
    injection Hd as <- <-. exists b. split; auto. split.
    + eapply Rel_ext; [exact HR|..]; reflexivity.
    + intros L. split; auto. cbn [exp_action]. unfold do_state.
      now rewrite (sp_state_m _ _ _ _ g HR).
Qed.

(* what the flags become *)
Lemma action_flags s t f b a s' o :
  Inv s f b -> Rel s t f b -> do_action s a = (s', o) ->
  okwf (sp_action t a o) = true -> NoLeak s ->
  ok09 (sp_action t a o) = ok09 t.
Proof.
  intros HI HR Hd Hwf L.
  destruct (action_sim _ _ _ _ _ _ _ HI HR Hd Hwf) as (b' & _ & _ & H).
  destruct (H L) as [_ ->]. rewrite ok09_sp_action, outcome_eqb_refl. apply andb_true_r.
Qed.

(* ---- a sequence of in-body actions ---------------------------------------- *)
Lemma okwf_sp_actions_mono t acts outs : okwf (sp_actions t acts outs) = true -> okwf t = true.
Proof.
  revert t outs. induction acts as [|a acts IH]; intros t outs; cbn [sp_actions]; auto.
  destruct outs as [|o outs]; auto. intros H. apply IH in H.
  rewrite okwf_sp_action in H. now apply andb_true_iff in H.
Qed.

Lemma run_actions_length s acts outs s' :
  run_actions s acts outs = Some s' -> length outs = length acts.
Proof.
  revert s outs. induction acts as [|a acts IH]; intros s [|o outs]; cbn [run_actions];
    try discriminate; auto.
  destruct (do_action s a) as [s1 o1]. destruct (outcome_eqb o o1); [|discriminate].
  intros H. cbn [length]. f_equal. eauto.
Qed.

Lemma actions_sim acts : forall s t f b outs s',
  Inv s f b -> Rel s t f b -> run_actions s acts outs = Some s' ->
  okwf (sp_actions t acts outs) = true ->
  exists b', Inv s' f b' /\ Rel s' (sp_actions t acts outs) f b' /\
             ok08 (sp_actions t acts outs) = ok08 t /\
             (NoLeak s -> NoLeak s' /\ ok09 (sp_actions t acts outs) = ok09 t).
Proof.
  induction acts as [|a acts IH]; intros s t f b outs s' HI HR Hr Hwf.
  - destruct outs; [|discriminate]. injection Hr as <-. exists b. cbn [sp_actions]. auto.
  - destruct outs as [|o outs]; [discriminate|]. cbn [run_actions] in Hr.
    destruct (do_action s a) as [s1 o1] eqn:Ed.
    destruct (outcome_eqb o o1) eqn:Eo; [|discriminate].
    apply outcome_eqb_eq in Eo. subst o1. cbn [sp_actions] in *.
    pose proof (okwf_sp_actions_mono _ _ _ Hwf) as Hwf1.
    destruct (action_sim _ _ _ _ _ _ _ HI HR Ed Hwf1) as (b1 & HI1 & HR1 & HL1).
    destruct (IH _ _ _ _ _ _ HI1 HR1 Hr Hwf) as (b2 & HI2 & HR2 & H08 & HL2).
    exists b2. split; auto. split; auto. split.
    + now rewrite H08, ok08_sp_action.
    + intros L. destruct (HL1 L) as [L1 E1]. destruct (HL2 L1) as [L2 E2]. split; auto.
      rewrite E2, ok09_sp_action, E1, outcome_eqb_refl. apply andb_true_r.
Qed.

