(* C09, release: a generator that the processor still references is either
   live (ACTIVE / PAUSED) or a killed one whose next turn has not come. *)
From Coq Require Import ZArith List Bool Lia ZifyBool.
From Desper Require Import Lib.Alist Coro.Model Coro.Spec Coro.Lemmas Coro.Inv Coro.Actions
     Coro.Moves Coro.Loop Coro.Wake Coro.Main.
Import ListNotations.
Open Scope Z_scope.

(* [fnow]: the coroutines in front of the sentinel that are not running *)
Definition gh_ok (s : st) (fnow : list gid) (g : gid) (k : option ghost) : Prop :=
  match k with
  | Some ZNow => In g fnow
  | Some ZNext => alookup g (gens s) = Some None
  | Some (ZWait r) => exists rid, alookup g (gens s) = Some (Some rid) /\
                                  r = dl rid (waitq s) - timer s
  | None => False
  end.

Record RelG (s : st) (t : spec) (fnow : list gid) : Prop := {
  g_nd : NoDup (akeys (t_ghost t));
  g_ok : forall g, amem g (gens s) = true -> memz g (killq s) = true ->
                   gh_ok s fnow g (alookup g (t_ghost t))
}.

Lemma RelG_ext s t t' fnow : RelG s t fnow -> t_ghost t' = t_ghost t -> RelG s t' fnow.
Proof. intros [A B] E. constructor; rewrite E; auto. Qed.

(* ---- start / kill / state ---------------------------------------------------- *)
Lemma do_start_shape s g s' :
  do_start s g = (s', OOk) ->
  gens s' = aset g None (gens s) /\ memz g (killq s') = false /\
  (forall x, x <> g -> memz x (killq s') = memz x (killq s)) /\
  timer s' = timer s /\ (forall rid, dl rid (waitq s') = dl rid (waitq s)).
Proof.
  unfold do_start. destruct (g <? 0); [discriminate|].
  destruct (negb (mstate s g =? 0)); [discriminate|].
  assert (Hrem : forall x, x <> g -> memz x (remz g (killq s)) = memz x (killq s)).
  { intros x N. rewrite memz_remz. apply Z.eqb_neq in N. now rewrite N. }
  assert (Hg : memz g (remz g (killq s)) = false).
  { rewrite memz_remz, Z.eqb_refl. reflexivity. }
  destruct (memz g (killq s)) eqn:Ek.
  - destruct (alookup g (gens s)) as [[rid|]|]; [| |discriminate];
      intros [= <-]; sproj; repeat split; auto.
    intros rid'. apply dl_tombstone.
  - intros [= <-]. sproj. repeat split; auto.
Qed.

Lemma action_g s t f b fnow a s' o :
  Inv s f b -> Rel s t f b -> RelG s t fnow ->
  (forall x, In x (t_due t) -> In x fnow) ->
  do_action s a = (s', o) ->
  RelG s' (sp_action t a o) fnow.
Proof.
  intros HI HR [ND HG] Hdue Hd. destruct a as [g|g|g]; cbn [do_action] in Hd; unfold sp_action.
  - (* start *)
    destruct o; cbn [is_ok];
      try (assert (gens s' = gens s /\ waitq s' = waitq s /\ timer s' = timer s /\
                   forall x, memz x (killq s') = true -> memz x (killq s) = true)
             as (E1 & E2 & E3 & E4);
           [unfold do_start in Hd; destruct (g <? 0); [now injection Hd as <-|];
            destruct (negb (mstate s g =? 0)); [now injection Hd as <-|];
            destruct (memz g (killq s));
            [destruct (alookup g (gens s)) as [[?|]|]|]; try discriminate;
            injection Hd as <-; sproj; repeat split; auto;
            intros x Hx; rewrite memz_remz in Hx; now apply andb_true_iff in Hx
           |constructor; sproj; auto; intros x Hx1 Hx2; rewrite E1 in Hx1;
            specialize (HG x Hx1 (E4 x Hx2)); unfold gh_ok in *; rewrite E1, E2, E3; exact HG]).
    (* OOk *)
    destruct (do_start_shape _ _ _ Hd) as (E1 & E2 & E3 & E4 & E5).
    constructor; sproj.
    + now apply NoDup_akeys_adel.
    + intros x Hx1 Hx2. destruct (Z.eq_dec x g) as [->|N]; [congruence|].
      rewrite alookup_adel_neq by auto. rewrite E1, amem_aset in Hx1.
      assert (x =? g = false) as En by lia. rewrite En in Hx1. cbn [orb] in Hx1.
      rewrite E3 in Hx2 by auto. specialize (HG x Hx1 Hx2). unfold gh_ok in *.
      rewrite E1, alookup_aset, En, E4. destruct (alookup x (t_ghost t)) as [[| |r]|]; auto.
      destruct HG as (rid & H1 & H2). exists rid. now rewrite E5.
  - (* kill *)
    unfold do_kill in Hd. destruct (g <? 0).
    { injection Hd as <- <-. constructor; auto. }
    destruct (alookup g (gens s)) as [w|] eqn:Eg; [|injection Hd as <- <-; constructor; auto].
    destruct (memz g (killq s)) eqn:Ek; [injection Hd as <- <-; constructor; auto|].
    injection Hd as <- <-. cbn [is_ok].
    assert (Est : alookup g (t_st t) =
                  match w with None => Some SAct
                          | Some rid => Some (SPaused (dl rid (waitq s) - timer s)) end).
    { rewrite (r_st _ _ _ _ HR). unfold abs_st. now rewrite Eg, Ek. }
    constructor; sproj.
    + rewrite Est. destruct w; now apply NoDup_akeys_aset.
    + intros x Hx1 Hx2. rewrite memz_cons in Hx2. destruct (x =? g) eqn:E.
      * apply Z.eqb_eq in E. subst x. rewrite Est. destruct w as [rid|].
        -- rewrite alookup_aset_eq. cbn [gh_ok]. sproj. eauto.
        -- rewrite alookup_aset_eq. destruct (memz g (t_due t)) eqn:Ed; cbn [gh_ok]; sproj; auto.
           apply Hdue. now apply memz_In.
      * cbn [orb] in Hx2. specialize (HG x Hx1 Hx2). apply Z.eqb_neq in E.
        assert (alookup x (match alookup g (t_st t) with
                           | Some SAct => aset g (if memz g (t_due t) then ZNow else ZNext) (t_ghost t)
                           | Some (SPaused r) => aset g (ZWait r) (t_ghost t)
                           | None => t_ghost t end) = alookup x (t_ghost t)) as ->.
        { destruct (alookup g (t_st t)) as [[|r]|]; auto; now rewrite alookup_aset_neq. }
        exact HG.
  - injection Hd as <- <-. constructor; auto.
Qed.

Lemma actions_g acts : forall s t f b fnow outs s',
  Inv s f b -> Rel s t f b -> RelG s t fnow ->
  (forall x, In x (t_due t) -> In x fnow) ->
  run_actions s acts outs = Some s' ->
  okwf (sp_actions t acts outs) = true ->
  RelG s' (sp_actions t acts outs) fnow.
Proof.
  induction acts as [|a acts IH]; intros s t f b fnow outs s' HI HR HG Hdue Hr Hwf.
  - destruct outs; [|discriminate]. injection Hr as <-. exact HG.
  - destruct outs as [|o outs]; [discriminate|]. cbn [run_actions] in Hr.
    destruct (do_action s a) as [s1 o1] eqn:Ed.
    destruct (outcome_eqb o o1) eqn:Eo; [|discriminate].
    apply outcome_eqb_eq in Eo. subst o1. cbn [sp_actions] in *.
    pose proof (okwf_sp_actions_mono _ _ _ Hwf) as Hwf1.
    destruct (action_sim _ _ _ _ _ _ _ HI HR Ed Hwf1) as (b1 & HI1 & HR1 & _).
    apply (IH s1 _ f b1 fnow outs s'); auto.
    + eapply action_g; [exact HI|exact HR|exact HG|exact Hdue|exact Ed].
    + intros x Hx. apply due_sp_action in Hx. auto.
Qed.

(* ---- the moves of the loop --------------------------------------------------- *)
Lemma drop_active_g s t g f b s1 :
  Inv s (g :: f) b -> RelG s t (g :: f) -> drop_active s g = (s1, false) -> RelG s1 t f.
Proof.
  intros HI [ND HG] Hd. destruct (front_head _ _ _ _ HI) as (Ea & Eg & Ep & Hn & _).
  unfold drop_active in Hd. rewrite Eg, Ep in Hd. injection Hd as <-. constructor; auto. sproj.
  intros x Hx1 Hx2. rewrite amem_adel in Hx1. rewrite memz_remz in Hx2.
  apply andb_true_iff in Hx1, Hx2. destruct Hx1 as [N Hx1]. destruct Hx2 as [_ Hx2].
  apply negb_true_iff, Z.eqb_neq in N. specialize (HG x Hx1 Hx2). unfold gh_ok in *. sproj.
  rewrite alookup_adel_neq by auto. destruct (alookup x (t_ghost t)) as [[| |r]|]; auto.
  destruct HG as [->|H]; [congruence|auto].
Qed.

Lemma finish_g s t g f b v s1 fnow :
  Inv s (g :: f) b -> RelG s t fnow -> finish (set_done s g) g v = (s1, false) ->
  RelG s1 (sp_result t g (RReturn v)) fnow.
Proof.
  intros HI [ND HG] Hd. destruct (front_head _ _ _ _ HI) as (Ea & Eg & Ep & Hn & _).
  unfold finish in Hd. sproj. rewrite Eg, Ep in Hd. injection Hd as <-.
  constructor; cbn [sp_result]; sproj.
  - now apply NoDup_akeys_adel.
  - intros x Hx1 Hx2. rewrite amem_adel in Hx1. apply andb_true_iff in Hx1.
    destruct Hx1 as [N Hx1]. apply negb_true_iff, Z.eqb_neq in N.
    rewrite memz_remz in Hx2. apply andb_true_iff in Hx2. destruct Hx2 as [_ Hx2].
    specialize (HG x Hx1 Hx2). unfold gh_ok in *. sproj.
    rewrite !alookup_adel_neq by auto. exact HG.
Qed.

Lemma park_g s t g f b z fnow :
  Inv s (g :: f) b -> Rel s t (g :: f) b -> RelG s t fnow -> 0 < z ->
  RelG (park s g z) (sp_result t g (RYield (YNum z))) fnow.
Proof.
  intros HI HR [ND HG] Hz. destruct (front_head _ _ _ _ HI) as (Ea & Eg & Ep & Hn & _).
  assert (NDid : NoDup (map w_id (waitq s ++ [mkW (nrid s) (z + timer s) (Some g)]))).
  { rewrite map_app. cbn [map w_id]. apply NoDup_snoc'; [apply (i_rid _ _ _ HI)|].
    intros H. apply in_map_iff in H. destruct H as (w & E & Hw).
    apply (i_fresh _ _ _ HI) in Hw. lia. }
  assert (Hact : is_act t g = negb (memz g (killq s))).
  { unfold is_act, sp_state. rewrite (r_st _ _ _ _ HR). unfold abs_st. rewrite Eg.
    now destruct (memz g (killq s)). }
  cbn [sp_result is_pos]. assert (0 <? z = true) as -> by lia. rewrite Hact.
  assert (Hother : forall x k, x <> g -> amem x (gens s) = true -> memz x (killq s) = true ->
                     gh_ok s fnow x k -> gh_ok (park s g z) fnow x k).
  { intros x k N Hx1 Hx2 H. unfold gh_ok, park in *. sproj. rewrite alookup_aset_neq by auto.
    destruct k as [[| |r]|]; auto. destruct H as (rid & H1 & H2). exists rid. split; auto.
    destruct (proj1 (i_w _ _ _ HI x rid) H1) as (d & Hrec).
    rewrite (dl_In _ _ _ _ NDid (in_or_app _ _ _ (or_introl Hrec))).
    now rewrite (dl_In _ _ _ _ (i_rid _ _ _ HI) Hrec) in H2. }
  destruct (memz g (killq s)) eqn:Ek; cbn [negb]; constructor; sproj; auto.
  - destruct (amem g (t_ghost t)); auto. now apply NoDup_akeys_aset.
  - intros x Hx1 Hx2. unfold park in Hx1, Hx2. sproj. rewrite amem_aset in Hx1.
    destruct (x =? g) eqn:E.
    + apply Z.eqb_eq in E. subst x.
      assert (Hgh : amem g (t_ghost t) = true).
      { assert (amem g (gens s) = true) as H1 by (unfold amem; now rewrite Eg).
        specialize (HG g H1 Ek). unfold amem. destruct (alookup g (t_ghost t)); auto; try destruct HG. }
      rewrite Hgh, alookup_aset_eq. cbn [gh_ok]. unfold park. sproj. exists (nrid s).
      rewrite alookup_aset_eq. split; auto.
      erewrite dl_In; [|exact NDid|apply in_or_app; right; now left]. lia.
    + cbn [orb] in Hx1. apply Z.eqb_neq in E.
      destruct (amem g (t_ghost t)); [rewrite alookup_aset_neq by auto|]; apply Hother; auto.
  - intros x Hx1 Hx2. unfold park in Hx1, Hx2. sproj. rewrite amem_aset in Hx1.
    destruct (x =? g) eqn:E.
    + apply Z.eqb_eq in E. subst x. congruence.
    + cbn [orb] in Hx1. apply Z.eqb_neq in E. apply Hother; auto.
Qed.

Lemma rotate_g s t g y fnow a :
  RelG s t fnow -> is_pos y = None -> RelG (set_active s a) (sp_result t g (RYield y)) fnow.
Proof.
  intros [ND HG] Hy. cbn [sp_result]. rewrite Hy. constructor; sproj; auto.
Qed.

Lemma alookup_gh_next g l :
  alookup g (map gh_next l) =
  option_map (fun k => match k with ZNow => ZNext | _ => k end) (alookup g l).
Proof.
  induction l as [|[k x] l IH]; cbn [map alookup]; auto.
  destruct x as [| |r]; cbn [gh_next alookup]; destruct (g =? k); auto.
Qed.

Lemma akeys_gh_next l : akeys (map gh_next l) = akeys l.
Proof.
  unfold akeys. rewrite map_map. apply map_ext. intros [k [| |r]]; reflexivity.
Qed.

(* the frame is abandoned: what was to be dropped in it is dropped in the next *)
Lemma abort_g s t g f b k s1 :
  Inv s (g :: f) b -> RelG s t f -> abort (set_done s g) g = (s1, false) ->
  RelG s1 (sp_result t g (RRaise k)) [].
Proof.
  intros HI [ND HG] Hd. destruct (front_head _ _ _ _ HI) as (Ea & Eg & Ep & Hn & _).
  unfold abort in Hd. sproj. rewrite Eg, Ep in Hd. injection Hd as <-.
  constructor; cbn [sp_result]; sproj.
  - rewrite akeys_gh_next. now apply NoDup_akeys_adel.
  - intros x Hx1 Hx2. rewrite amem_adel in Hx1. apply andb_true_iff in Hx1.
    destruct Hx1 as [N Hx1]. apply negb_true_iff, Z.eqb_neq in N.
    rewrite memz_remz in Hx2. apply andb_true_iff in Hx2. destruct Hx2 as [_ Hx2].
    specialize (HG x Hx1 Hx2). rewrite alookup_gh_next, alookup_adel_neq by auto.
    unfold gh_ok in *. sproj. rewrite alookup_adel_neq by auto.
    destruct (alookup x (t_ghost t)) as [[| |r]|]; cbn [option_map]; auto.
    apply (i_in _ _ _ HI). cbn [app In]. right. apply in_or_app. now left.
Qed.

(* ---- the loop ------------------------------------------------------------------ *)
Lemma exec_pre_g s t g f k outs acts :
  RelG s t (g :: f) -> memz g (killq s) = false ->
  RelG (set_pc s g (k + 1)) (exec_pre t g k outs acts) f.
Proof.
  intros [NDg HGg] Hk. constructor; unfold exec_pre; sproj; auto.
  intros x Hx1 Hx2. specialize (HGg x Hx1 Hx2). unfold gh_ok in *. sproj.
  destruct (alookup x (t_ghost t)) as [[| |r]|]; auto.
  destruct HGg as [->|H]; [congruence|auto].
Qed.

Lemma loop_g sc : forall fuel f s t b log s' e,
  Inv s f b -> Rel s t f b -> RelG s t f -> t_abort t = None ->
  loop sc fuel s log = Some (s', [], e) ->
  okwf (fold_left (sp_exec sc) log t) = true ->
  RelG s' (fold_left (sp_exec sc) log t) [].
Proof.
  induction fuel as [|fuel IH]; intros f s t b log s' e HI HR HG Hab Hl Hwf; [discriminate|].
  cbn [loop] in Hl. destruct f as [|g f].
  - rewrite (i_act _ _ _ HI) in Hl. cbn [map app] in Hl. injection Hl as <- -> <-. exact HG.
  - destruct (front_head _ _ _ _ HI) as (Ea & Eg & Ep & Hn & ND & Hpos).
    rewrite Ea in Hl.
    destruct (memz g (killq s)) eqn:Hk.
    { destruct (drop_active_sim _ _ _ _ _ HI HR Hk) as (s1 & Ed & HI1 & HR1 & HL1).
      rewrite Ed in Hl. eapply IH; [exact HI1|exact HR1| |exact Hab|exact Hl|exact Hwf].
      eapply drop_active_g; eauto. }
    destruct (memz g (gdone s)) eqn:Hdn.
    { exfalso. apply memz_In in Hdn. apply (i_done _ _ _ HI) in Hdn. congruence. }
    destruct log as [|[[g' k] outs] log]; [discriminate|].
    destruct ((g' =? g) && (k =? zget (pcs s) g)) eqn:Eh; cbn [negb] in Hl; [|discriminate].
    apply andb_true_iff in Eh. destruct Eh as [E1 E2].
    apply Z.eqb_eq in E1, E2. subst g' k.
    destruct (nth_error (script_of sc g) (Z.to_nat (zget (pcs s) g))) as [[acts res]|] eqn:Hnth;
      [|discriminate].
    destruct (run_actions (set_pc s g (zget (pcs s) g + 1)) acts outs) as [s1|] eqn:Hrun;
      [|discriminate].
    cbn [fold_left] in *.
    pose proof (okwf_fold_mono _ _ _ Hwf) as Hwf1.
    destruct (exec_sim _ _ _ _ _ _ _ _ _ _ HI HR Hk Hab Hnth Hrun Hwf1)
      as (Hwf4 & Hab4 & b1 & HI1 & HR1 & Ho & Hd & H08 & HL1).
    rewrite (sp_exec_unfold _ _ _ _ _ _ _ Hnth) in *.
    set (k := zget (pcs s) g) in *.
    assert (HG1 : RelG s1 (sp_actions (exec_pre t g k outs acts) acts outs) f).
    { apply (actions_g acts (set_pc s g (k + 1)) _ (g :: f) b f outs s1); auto.
      - now apply Inv_set_pc.
      - now apply exec_pre_rel.
      - now apply exec_pre_g.
      - unfold exec_pre. sproj. intros x Hx. apply In_remz in Hx. destruct Hx as [Hx N].
        destruct (r_due _ _ _ _ HR x Hx) as [->|H]; [congruence|auto]. }
    set (t4 := sp_actions (exec_pre t g k outs acts) acts outs) in *.
    destruct res as [y|v|x].
    + assert (Hab5 : t_abort (sp_result t4 g (RYield y)) = None).
      { cbn [sp_result]. destruct (is_pos y); [destruct (is_act t4 g)|]; exact Hab4. }
      destruct (is_pos y) as [z|] eqn:Ey.
      * assert (y = YNum z /\ 0 < z) as [-> Hz].
        { destruct y as [|z']; cbn in Ey; [discriminate|].
          destruct (0 <? z') eqn:E; [|discriminate]. injection Ey as ->. split; auto. lia. }
        destruct (park_sim _ _ _ _ _ _ HI1 HR1 Hz Ho Hd) as (HI2 & HR2 & HL2).
        eapply IH; [exact HI2|exact HR2| |exact Hab5|exact Hl|exact Hwf]. eapply park_g; eauto.
      * destruct (rotate_sim _ _ _ _ _ _ HI1 HR1 Ey Ho Hd) as (HI2 & HR2 & HL2).
        eapply IH; [exact HI2|exact HR2| |exact Hab5|exact Hl|exact Hwf]. now apply rotate_g.
    + destruct (finish_sim _ _ _ _ _ v HI1 HR1 Ho Hd) as (s2 & Ef & HI2 & HR2 & HL2).
      rewrite Ef in Hl.
      assert (Hab5 : t_abort (sp_result t4 g (RReturn v)) = None) by exact Hab4.
      eapply IH; [exact HI2|exact HR2| |exact Hab5|exact Hl|exact Hwf]. eapply finish_g; eauto.
    + destruct (abort_sim _ _ _ _ _ x HI1 HR1 Ho Hd) as (s2 & Ef & HI2 & HR2 & HL2).
      rewrite Ef in Hl. injection Hl as <- -> <-. cbn [fold_left].
      eapply abort_g; eauto.
Qed.

(* ---- start and end of a frame --------------------------------------------------- *)
Lemma alookup_tick_gh dt g l :
  alookup g (map (tick_gh dt) l) =
  option_map (fun k => match k with ZNext => ZNow | ZWait r => ZWait (r - dt) | ZNow => ZNow end)
             (alookup g l).
Proof.
  induction l as [|[k x] l IH]; cbn [map alookup]; auto.
  destruct x as [| |r]; cbn [tick_gh alookup]; destruct (g =? k); auto.
Qed.

Lemma akeys_tick_gh dt l : akeys (map (tick_gh dt) l) = akeys l.
Proof.
  unfold akeys. rewrite map_map. apply map_ext. intros [k [| |r]]; reflexivity.
Qed.

Lemma tick_g ord s t b dt log s1 W c :
  Inv s [] b -> RelG s t [] -> wake ord s dt log = Some (s1, false) ->
  Inv s1 [] (b ++ W) ->
  RelG (set_active s1 (rotate1 (active s1))) (tick dt (flagwf c t)) (b ++ W).
Proof.
  intros HI [ND HG] Hw HI1.
  destruct (wake_sim _ _ _ _ _ _ _ HI Hw) as (_ & W' & _ & _ & _ & _ & _ & _ & _ & Hraw).
  constructor; unfold tick; sproj.
  - now rewrite akeys_tick_gh.
  - intros x Hx1 Hx2. destruct (Hraw x Hx2 Hx1) as (Hk & Eg & Hdl).
    assert (Hx0 : amem x (gens s) = true) by (unfold amem in *; now rewrite <- Eg).
    specialize (HG x Hx0 Hk). rewrite alookup_tick_gh. unfold gh_ok in *. sproj.
    destruct (alookup x (t_ghost t)) as [[| |r]|]; cbn [option_map]; auto.
    + destruct HG.
    + assert (In x ([] ++ b ++ W)) as H; [|exact H].
      apply (i_in _ _ _ HI1). rewrite Eg. exact HG.
    + destruct HG as (rid & H1 & H2). exists rid. rewrite Eg. split; auto.
      rewrite (Hdl rid H1). lia.
Qed.

Lemma alookup_filter_nodup {A} (p : Z * A -> bool) g l :
  NoDup (akeys l) ->
  alookup g (filter p l) =
  match alookup g l with Some v => if p (g, v) then Some v else None | None => None end.
Proof.
  unfold akeys. induction l as [|[k v] l IH]; cbn [filter alookup map fst]; auto.
  intros ND. inversion ND as [|? ? Hn ND']; subst. destruct (g =? k) eqn:E.
  - apply Z.eqb_eq in E. subst k. destruct (p (g, v)) eqn:Ep.
    + cbn [alookup]. now rewrite Z.eqb_refl.
    + rewrite IH by auto. assert (alookup g l = None) as ->; auto.
      apply alookup_None_notin. exact Hn.
  - destruct (p (k, v)); auto. cbn [alookup]. rewrite E. auto.
Qed.

Lemma frame_end_g s t b exc : Inv s [] b -> RelG s t [] -> RelG s (frame_end t exc) [].
Proof.
  intros HI [ND HG]. constructor; unfold frame_end; sproj.
  - unfold akeys in *. now apply NoDup_map_filter.
  - intros x Hx1 Hx2. specialize (HG x Hx1 Hx2). rewrite alookup_filter_nodup by auto.
    unfold gh_ok in *. destruct (alookup x (t_ghost t)) as [[| |r]|]; cbn [gh_stays].
    + destruct HG.
    + exact HG.
    + destruct HG as (rid & H1 & H2).
      destruct (proj1 (i_w _ _ _ HI x rid) H1) as (d & Hrec).
      pose proof (i_dl _ _ _ HI _ Hrec) as Hd. cbn [w_dl] in Hd.
      pose proof (dl_In _ _ _ _ (i_rid _ _ _ HI) Hrec) as Edl.
      assert (0 <? r = true) as -> by lia. cbn beta iota. eauto.
    + exact HG.
Qed.

(* ---- operations and traces ------------------------------------------------------ *)
Lemma step_g ord sc s t b o ob s' :
  Inv s [] b -> Rel s t [] b -> RelG s t [] -> step ord sc s o ob = Some s' ->
  okwf (sp_step sc t o ob) = true ->
  RelG s' (sp_step sc t o ob) [].
Proof.
  intros HI HR HG Hs Hwf.
  assert (Hdue : forall x, In x (t_due t) -> In x []) by (apply (r_due _ _ _ _ HR)).
  destruct o as [g|g|g|g|dt]; destruct ob as [r|v|log exc];
    cbn [step] in Hs; try discriminate; cbn [sp_step] in *.
  - destruct (do_start s g) as [s1 r'] eqn:Ed.
    destruct (outcome_eqb r r') eqn:Er; [|discriminate]. injection Hs as <-.
    apply outcome_eqb_eq in Er. subst r'. eapply (action_g s t [] b [] (AStart g)); eauto.
  - destruct (do_kill s g) as [s1 r'] eqn:Ed.
    destruct (outcome_eqb r r') eqn:Er; [|discriminate]. injection Hs as <-.
    apply outcome_eqb_eq in Er. subst r'. eapply (action_g s t [] b [] (AKill g)); eauto.
  - destruct (outcome_eqb r (do_state s g)) eqn:Er; [|discriminate]. injection Hs as <-.
    apply outcome_eqb_eq in Er. subst r.
    eapply (action_g s t [] b [] (AState g)); eauto; reflexivity.
  - destruct (oz_eqb v _); [|discriminate]. injection Hs as <-.
    eapply RelG_ext; [exact HG|reflexivity].
  - unfold process in Hs. destruct (wake ord s dt log) as [[s1 e1]|] eqn:Ew; [|discriminate].
    destruct (wake_sim _ _ _ _ _ _ _ HI Ew) as (-> & W & HI1 & Hst & HW & Hpc & Hpv & Hdn & HL1 & _).
    destruct (loop sc _ _ log) as [[[s2 log'] e]|] eqn:El; [|discriminate].
    destruct log' as [|? ?]; [|discriminate].
    destruct (outcome_eqb exc e) eqn:Ee; [|discriminate].
    injection Hs as <-.
    apply okwf_frame_end in Hwf.
    destruct (tick_rel s t b dt s1 W (0 <=? dt) HR HI1 Hst HW Hpc Hpv Hdn) as [HI2 HR2].
    pose proof (tick_g ord s t b dt log s1 W (0 <=? dt) HI HG Ew HI1) as HG2.
    pose proof (loop_g sc _ _ _ _ _ _ _ _ HI2 HR2 HG2 eq_refl El Hwf) as HG3.
    destruct (loop_sim sc _ _ _ _ _ _ _ _ HI2 HR2 eq_refl El Hwf) as (_ & b' & HI3 & _).
    eapply frame_end_g; eauto.
Qed.

Lemma run_g sc tr : forall s t b s',
  Inv s [] b -> Rel s t [] b -> RelG s t [] -> run sc s tr = Some s' ->
  okwf (sp_run sc t tr) = true -> t_abort t = None ->
  RelG s' (sp_run sc t tr) [].
Proof.
  induction tr as [|[o ob] tr IH]; intros s t b s' HI HR HG Hr Hwf Hab.
  - injection Hr as <-. exact HG.
  - cbn [run] in Hr. cbn [sp_run] in *. pose proof (okwf_sp_run_mono _ _ _ Hwf) as Hwf1.
    destruct (run_choice _ _ _ _ _ _ _ Hr) as (c & s1 & Es & Hr1).
    destruct (step_sim _ _ _ _ _ _ _ _ HI HR Es Hwf1 Hab) as (b1 & HI1 & HR1 & Hab1 & _).
    eapply (IH s1 _ b1); [exact HI1|exact HR1| |exact Hr1|exact Hwf|exact Hab1].
    eapply step_g; [exact HI|exact HR|exact HG|exact Es|exact Hwf1].
Qed.

Lemma RelG0 : RelG st0 sp0 [].
Proof. constructor; cbn; [constructor|discriminate]. Qed.

Lemma flat_Some (l : list gid) :
  flat_map (fun x : option gid => match x with Some g => [g] | None => [] end) (map Some l) = l.
Proof. induction l as [|x l IH]; cbn [map flat_map app]; auto. now rewrite IH. Qed.

(* every generator referenced from the processor is known to the scheduler *)
Lemma held_sub s t b :
  Inv s [] b -> Rel s t [] b -> RelG s t [] -> NoLeak s ->
  forall g, In g (held s) -> In g (sp_held t).
Proof.
  intros HI HR [ND HG] L g Hg.
  assert (Hk : amem g (gens s) = true).
  { unfold held in Hg. rewrite !in_app_iff in Hg. destruct Hg as [H|[H|[H|[H|H]]]].
    - now apply amem_keys.
    - rewrite (i_act _ _ _ HI) in H. cbn [map app flat_map] in H. rewrite flat_Some in H.
      assert (alookup g (gens s) = Some None) as E by (apply (i_in _ _ _ HI); exact H).
      unfold amem. now rewrite E.
    - apply live_In in H. destruct H as (w & Hw & E).
      assert (alookup g (gens s) = Some (Some (w_id w))) as E2.
      { apply (i_w _ _ _ HI). exists (w_dl w). destruct w as [i d og]. cbn in *. now subst og. }
      unfold amem. now rewrite E2.
    - apply L. now apply memz_In.
    - rewrite <- (i_p _ _ _ HI). now apply memz_In. }
  unfold sp_held. apply in_or_app. destruct (memz g (killq s)) eqn:Ek.
  - right. specialize (HG g Hk Ek). apply amem_keys. unfold amem.
    destruct (alookup g (t_ghost t)); auto; try destruct HG.
  - left. apply amem_keys. unfold amem. rewrite (r_st _ _ _ _ HR). unfold abs_st.
    unfold amem in Hk. destruct (alookup g (gens s)) as [[rid|]|]; try discriminate; now rewrite Ek.
Qed.

(* C09 *)
Theorem accepts_holds09 (c : case) :
  wf_b c = true -> known09_b c = false -> accepts c = true -> holds09 c.
Proof.
  intros Hwf Hk Ha. unfold holds09, holds09_b. apply andb_true_iff. split.
  - now apply accepts_ok09.
  - unfold wf_b, accepts, known09_b, final in *.
    apply andb_true_iff in Hwf. destruct Hwf as [_ Hwf].
    destruct (run (c_scripts c) st0 (c_trace c)) as [s|] eqn:Er; [|discriminate].
    destruct (run_sim _ _ _ _ _ _ Inv0 Rel0 Er Hwf eq_refl) as (b & HI & HR & _ & H09).
    destruct (H09 NoLeak0) as [L _].
    pose proof (run_g _ _ _ _ _ _ Inv0 Rel0 RelG0 Er Hwf eq_refl) as HG.
    apply subz_In. intros x Hx. apply (held_sub s _ b); auto.
    apply (proj1 (subz_In _ _) Ha). exact Hx.
Qed.
