(* List lemmas used by the coroutine proofs. *)
From Coq Require Import ZArith List Bool Lia ZifyBool.
From Desper Require Import Lib.Alist Coro.Model.
Import ListNotations.
Open Scope Z_scope.

Lemma memz_In g l : memz g l = true <-> In g l.
Proof.
  unfold memz. rewrite existsb_exists. split.
  - intros (x & Hx & E). apply Z.eqb_eq in E. now subst.
  - intros H. exists g. split; auto. apply Z.eqb_refl.
Qed.

Lemma memz_false g l : memz g l = false <-> ~ In g l.
Proof.
  rewrite <- memz_In. destruct (memz g l); split; intros; try congruence;
  try (exfalso; auto; fail).
Qed.

Lemma memz_cons g x l : memz g (x :: l) = (g =? x) || memz g l.
Proof. reflexivity. Qed.

Lemma memz_app g l m : memz g (l ++ m) = memz g l || memz g m.
Proof. unfold memz. apply existsb_app. Qed.

Lemma In_remz x g l : In x (remz g l) <-> In x l /\ x <> g.
Proof.
  unfold remz. rewrite filter_In. split; intros [H1 H2]; split; auto.
  - intros ->. rewrite Z.eqb_refl in H2. discriminate.
  - destruct (g =? x) eqn:E; auto. apply Z.eqb_eq in E. congruence.
Qed.

Lemma memz_remz x g l : memz x (remz g l) = negb (x =? g) && memz x l.
Proof.
  destruct (memz x (remz g l)) eqn:E.
  - apply memz_In, In_remz in E. destruct E as [H1 H2].
    apply memz_In in H1. rewrite H1. destruct (x =? g) eqn:E2; auto.
    apply Z.eqb_eq in E2. contradiction.
  - apply memz_false in E. destruct (x =? g) eqn:E2; auto. cbn.
    destruct (memz x l) eqn:E3; auto. exfalso. apply E. apply In_remz.
    split; [now apply memz_In|]. intros ->. rewrite Z.eqb_refl in E2. discriminate.
Qed.

Lemma remz_notin g l : ~ In g l -> remz g l = l.
Proof.
  unfold remz. induction l as [|x l IH]; cbn [filter]; auto. intros H.
  destruct (g =? x) eqn:E.
  - apply Z.eqb_eq in E. subst. exfalso. apply H. now left.
  - cbn. f_equal. apply IH. intros H1. apply H. now right.
Qed.

Lemma remz_app g l m : remz g (l ++ m) = remz g l ++ remz g m.
Proof. unfold remz. apply filter_app. Qed.

Lemma remz_cons g x l : remz g (x :: l) = if x =? g then remz g l else x :: remz g l.
Proof. unfold remz. cbn [filter]. rewrite (Z.eqb_sym g x). now destruct (x =? g). Qed.

(* the order constraint: [o] is what is left of [l] after filtering *)
Lemma filter_mem_remz g o l :
  filter (fun x => memz x (remz g o)) l = remz g (filter (fun x => memz x o) l).
Proof.
  induction l as [|x l IH]; cbn [filter]; auto.
  rewrite memz_remz. destruct (memz x o) eqn:E.
  - rewrite andb_true_r, remz_cons. destruct (x =? g); cbn [negb]; now rewrite IH.
  - rewrite andb_false_r. apply IH.
Qed.

Lemma filter_ext_in' {A} (f g : A -> bool) l :
  (forall x, In x l -> f x = g x) -> filter f l = filter g l.
Proof. apply filter_ext_in. Qed.

Lemma filter_none {A} (f : A -> bool) l : (forall x, In x l -> f x = false) -> filter f l = [].
Proof.
  induction l as [|x l IH]; cbn [filter]; auto. intros H.
  rewrite (H x (or_introl eq_refl)). apply IH. intros y Hy. apply H. now right.
Qed.

Lemma filter_mem_sub o l : filter (fun x => memz x o) l = o -> forall x, In x o -> In x l.
Proof.
  intros H x Hx. rewrite <- H in Hx. apply filter_In in Hx. tauto.
Qed.

Lemma filter_mem_nodup o l : NoDup l -> filter (fun x => memz x o) l = o -> NoDup o.
Proof. intros ND H. rewrite <- H. now apply NoDup_filter. Qed.

(* appending a new element to both *)
Lemma filter_mem_snoc o l g :
  ~ In g l -> ~ In g o -> filter (fun x => memz x o) l = o ->
  filter (fun x => memz x (o ++ [g])) (l ++ [g]) = o ++ [g].
Proof.
  intros Hl Ho H. rewrite filter_app. cbn [filter].
  rewrite memz_app. cbn [memz existsb]. rewrite Z.eqb_refl, orb_true_r. cbn [orb].
  f_equal. transitivity (filter (fun x => memz x o) l); [|exact H].
  apply filter_ext_in. intros x Hx.
  rewrite memz_app. cbn [memz existsb]. rewrite orb_false_r.
  destruct (x =? g) eqn:E; [|now rewrite orb_false_r].
  apply Z.eqb_eq in E. subst. contradiction.
Qed.

(* appending an element that is not constrained *)
Lemma filter_mem_snoc_other o l g :
  ~ In g o -> filter (fun x => memz x o) l = o ->
  filter (fun x => memz x o) (l ++ [g]) = o.
Proof.
  intros Ho H. rewrite filter_app. cbn [filter].
  apply memz_false in Ho. rewrite Ho. now rewrite app_nil_r.
Qed.

Lemma filter_mem_app_other o l m :
  (forall g, In g m -> ~ In g o) -> filter (fun x => memz x o) l = o ->
  filter (fun x => memz x o) (l ++ m) = o.
Proof.
  intros Hm H. rewrite filter_app, H. rewrite filter_none; [apply app_nil_r|].
  intros x Hx. apply memz_false. auto.
Qed.

(* the head of the list is executed *)
Lemma filter_mem_head g o l :
  filter (fun x => memz x o) (g :: l) = o -> ~ In g l ->
  (memz g o = true -> exists o', o = g :: o') /\
  filter (fun x => memz x (remz g o)) l = remz g o.
Proof.
  intros H Hg. split.
  - intros M. cbn [filter] in H. rewrite M in H. eauto.
  - rewrite filter_mem_remz. cbn [filter] in H. destruct (memz g o) eqn:M.
    + assert (E : remz g o = remz g (g :: filter (fun x => memz x o) l)) by now rewrite H.
      rewrite E, remz_cons, Z.eqb_refl.
      reflexivity.
    + now rewrite H.
Qed.

Lemma NoDup_app_inv {A} (l m : list A) :
  NoDup (l ++ m) -> NoDup l /\ NoDup m /\ (forall x, In x l -> ~ In x m).
Proof.
  induction l as [|x l IH]; cbn [app].
  - intros H. repeat split; auto. constructor.
  - intros H. inversion H as [|? ? Hn Hd]; subst. destruct (IH Hd) as (H1 & H2 & H3).
    repeat split; auto.
    + constructor; auto. intros Hx. apply Hn. apply in_or_app. now left.
    + intros y [->|Hy]; auto. intros Hm. apply Hn. apply in_or_app. now right.
Qed.

Lemma NoDup_app_intro {A} (l m : list A) :
  NoDup l -> NoDup m -> (forall x, In x l -> ~ In x m) -> NoDup (l ++ m).
Proof.
  induction l as [|x l IH]; cbn [app]; auto. intros H1 H2 H3.
  inversion H1 as [|? ? Hn Hd]; subst. constructor.
  - rewrite in_app_iff. intros [H|H]; [contradiction|]. apply (H3 x); auto. now left.
  - apply IH; auto. intros y Hy. apply H3. now right.
Qed.

Lemma NoDup_snoc' (x : Z) l : NoDup l -> ~ In x l -> NoDup (l ++ [x]).
Proof.
  intros. apply NoDup_app_intro; auto.
  - constructor; [intros []|constructor].
  - intros y Hy [->|[]]. contradiction.
Qed.

Lemma map_Some_inj (l m : list Z) : map (@Some Z) l = map (@Some Z) m -> l = m.
Proof.
  revert m. induction l as [|x l IH]; destruct m as [|y m]; cbn [map]; try discriminate; auto.
  intros [= -> H]. f_equal. auto.
Qed.

Lemma amem_aset {A} k k' (v : A) l : amem k (aset k' v l) = (k =? k') || amem k l.
Proof. unfold amem. rewrite alookup_aset. destruct (k =? k'); auto. Qed.

Lemma amem_adel {A} k k' (l : list (Z * A)) : amem k (adel k' l) = negb (k =? k') && amem k l.
Proof. unfold amem. rewrite alookup_adel. destruct (k =? k'); auto. Qed.

Lemma amem_keys {A} k (l : list (Z * A)) : amem k l = true <-> In k (akeys l).
Proof.
  unfold amem. pose proof (alookup_None_notin k l) as H.
  destruct (alookup k l) eqn:E; split; intros H1; auto; try discriminate.
  - destruct (in_dec Z.eq_dec k (akeys l)) as [i|n]; auto.
    apply (proj2 H) in n. discriminate.
  - exfalso. apply (proj1 H); auto.
Qed.

(* two constrained lists side by side *)
Lemma filter_mem_app2 o1 o2 l1 l2 :
  filter (fun x => memz x o1) l1 = o1 -> filter (fun x => memz x o2) l2 = o2 ->
  (forall x, In x l1 -> ~ In x l2) ->
  filter (fun x => memz x (o1 ++ o2)) (l1 ++ l2) = o1 ++ o2.
Proof.
  intros H1 H2 Hd. rewrite filter_app. f_equal.
  - transitivity (filter (fun x => memz x o1) l1); [|exact H1].
    apply filter_ext_in. intros x Hx. rewrite memz_app.
    assert (memz x o2 = false) as ->; [|apply orb_false_r].
    apply memz_false. intros H. apply (filter_mem_sub _ _ H2) in H. now apply (Hd x).
  - transitivity (filter (fun x => memz x o2) l2); [|exact H2].
    apply filter_ext_in. intros x Hx. rewrite memz_app.
    assert (memz x o1 = false) as ->; [|reflexivity].
    apply memz_false. intros H. apply (filter_mem_sub _ _ H1) in H. now apply (Hd x H).
Qed.

Lemma subz_In l m : subz l m = true <-> forall x, In x l -> In x m.
Proof.
  unfold subz. rewrite forallb_forall. split; intros H x Hx; apply memz_In; auto.
Qed.

Lemma nodupb_NoDup l : nodupb l = true -> NoDup l.
Proof.
  induction l as [|x l IH]; cbn [nodupb]; [constructor|].
  intros H. apply andb_true_iff in H. destruct H as [H1 H2]. constructor; auto.
  now apply memz_false, negb_true_iff.
Qed.
