(* Simulation of the first half of process(): the shared timer advances,
   every record whose deadline has passed is popped. *)
From Coq Require Import ZArith List Bool Lia ZifyBool.
From Desper Require Import Lib.Alist Coro.Model Coro.Spec Coro.Lemmas Coro.Inv Coro.Actions.
Import ListNotations.
Open Scope Z_scope.

(* what a frame of length dt does to one status *)
Definition tick1 (dt : Z) (x : status) : status :=
  match x with
  | SPaused r => if r - dt <=? 0 then SAct else SPaused (r - dt)
  | SAct => SAct
  end.

Lemma alookup_tick dt g l :
  alookup g (map (tick_st dt) l) = option_map (tick1 dt) (alookup g l).
Proof.
  induction l as [|[k x] l IH]; cbn [map alookup]; auto.
  destruct x as [|r]; cbn [tick_st alookup]; destruct (g =? k); auto.
Qed.

Lemma akeys_tick dt l : akeys (map (tick_st dt) l) = akeys l.
Proof.
  unfold akeys. rewrite map_map. apply map_ext. intros [k [|r]]; reflexivity.
Qed.

Lemma act_keys_In g l : In g (act_keys l) -> In (g, SAct) l.
Proof.
  unfold act_keys. rewrite in_flat_map. intros ([k [|r]] & H1 & H2); cbn in H2; [|tauto].
  destruct H2 as [->|[]]. exact H1.
Qed.

(* ---- the two folds of the wake phase --------------------------------------- *)
Lemma drop_all_spec gs : forall s,
  NoDup gs ->
  (forall g, In g gs -> amem g (gens s) = true /\ memz g (proms s) = true) ->
  exists s', drop_all s gs = (s', false) /\
    (forall x, alookup x (gens s') = if memz x gs then None else alookup x (gens s)) /\
    (forall x, memz x (killq s') = negb (memz x gs) && memz x (killq s)) /\
    (forall x, memz x (proms s') = negb (memz x gs) && memz x (proms s)) /\
    active s' = active s /\ waitq s' = waitq s /\ pv s' = pv s /\ timer s' = timer s /\
    nrid s' = nrid s /\ pcs s' = pcs s /\ gdone s' = gdone s.
Proof.
  induction gs as [|g gs IH]; intros s ND Hin.
  - exists s. cbn [drop_all memz existsb negb andb]. repeat split; auto.
  - inversion ND as [|? ? Hn ND']; subst.
    destruct (Hin g (or_introl eq_refl)) as [Hg Hp].
    cbn [drop_all]. unfold drop_waiting. unfold amem in Hg.
    destruct (alookup g (gens s)) as [w|] eqn:Eg; [|discriminate]. rewrite Hp. sproj.
    match goal with |- context [drop_all ?S gs] => set (s1 := S) end.
    destruct (IH s1 ND') as (s' & Ed & H1 & H2 & H3 & H4 & H5 & H6 & H7 & H8 & H9 & H10).
    { intros x Hx. destruct (Hin x (or_intror Hx)) as [Hx1 Hx2]. unfold s1. sproj.
      assert (x <> g) by (intros ->; contradiction).
      rewrite amem_adel, memz_remz. assert (x =? g = false) as -> by lia. now rewrite Hx1, Hx2. }
    exists s'. rewrite Ed. split; auto. unfold s1 in *. sproj.
    split; [|split; [|split]]; [| | |repeat split; auto].
    + intros x. rewrite H1, alookup_adel, memz_cons. destruct (x =? g) eqn:E; cbn [orb]; auto.
      now destruct (memz x gs).
    + intros x. rewrite H2, memz_remz, memz_cons. destruct (x =? g); cbn [orb negb andb]; auto.
      now rewrite andb_false_r.
    + intros x. rewrite H3, memz_remz, memz_cons. destruct (x =? g); cbn [orb negb andb]; auto.
      now rewrite andb_false_r.
Qed.

Lemma wake_all_spec l : forall s,
  let s' := fold_left wake_one l s in
  (forall x, alookup x (gens s') = if memz x l then Some None else alookup x (gens s)) /\
  active s' = active s ++ map Some l /\
  killq s' = killq s /\ proms s' = proms s /\ waitq s' = waitq s /\ pv s' = pv s /\
  timer s' = timer s /\ nrid s' = nrid s /\ pcs s' = pcs s /\ gdone s' = gdone s.
Proof.
  induction l as [|g l IH]; intros s; cbn [fold_left].
  - cbn [memz existsb map]. rewrite app_nil_r. repeat split; auto.
  - destruct (IH (wake_one s g)) as (H1 & H2 & H3 & H4 & H5 & H6 & H7 & H8 & H9 & H10).
    unfold wake_one in *. sproj. split; [|repeat split; auto].
    + intros x. rewrite H1, alookup_aset, memz_cons. destruct (x =? g); cbn [orb]; auto.
      now destruct (memz x l).
    + rewrite H2, <- app_assoc. reflexivity.
Qed.

(* ---- the order read from the log ------------------------------------------- *)
Lemma dedup_nodup l : NoDup (dedup l).
Proof.
  induction l as [|x l IH]; cbn [dedup]; [constructor|]. constructor.
  - intros H. apply In_remz in H. tauto.
  - unfold remz. now apply NoDup_filter.
Qed.

Lemma insert_by_In key x l y : In y (insert_by key x l) <-> y = x \/ In y l.
Proof.
  induction l as [|z l IH]; cbn [insert_by In].
  - split; intros [H|[]]; left; auto.
  - destruct (key z <? key x); cbn [In]; rewrite ?IH; intuition (subst; auto).
Qed.

Lemma sort_by_In key l y : In y (sort_by key l) <-> In y l.
Proof.
  induction l as [|x l IH]; cbn [sort_by In]; [tauto|].
  rewrite insert_by_In, IH. intuition (subst; auto).
Qed.

Lemma insert_by_nodup key x l : NoDup l -> ~ In x l -> NoDup (insert_by key x l).
Proof.
  induction l as [|z l IH]; cbn [insert_by]; intros ND Hn.
  - constructor; [intros []|constructor].
  - inversion ND as [|? ? Hz ND']; subst. destruct (key z <? key x).
    + constructor.
      * rewrite insert_by_In. intros [->|H]; [apply Hn; now left|contradiction].
      * apply IH; auto. intros H. apply Hn. now right.
    + constructor; auto.
Qed.

Lemma sort_by_nodup key l : NoDup l -> NoDup (sort_by key l).
Proof.
  induction l as [|x l IH]; cbn [sort_by]; intros ND; [constructor|].
  inversion ND as [|? ? Hn ND']; subst. apply insert_by_nodup; auto.
  now rewrite sort_by_In.
Qed.

(* ---- records ------------------------------------------------------------------ *)
Lemma NoDup_map_filter {A B} (f : A -> B) (p : A -> bool) l :
  NoDup (map f l) -> NoDup (map f (filter p l)).
Proof.
  induction l as [|x l IH]; cbn [map filter]; auto. intros ND.
  inversion ND as [|? ? Hn ND']; subst. destruct (p x); auto. cbn [map]. constructor; auto.
  intros H. apply Hn. apply in_map_iff in H. destruct H as (y & E & Hy).
  apply filter_In in Hy. apply in_map_iff. exists y. tauto.
Qed.

Lemma live_filter_nodup p q : NoDup (live_gids q) -> NoDup (live_gids (filter p q)).
Proof.
  unfold live_gids. induction q as [|w q IH]; cbn [filter flat_map]; auto. intros ND.
  apply NoDup_app_inv in ND. destruct ND as (N1 & N2 & N3).
  destruct (p w); auto. cbn [flat_map]. apply NoDup_app_intro; auto.
  intros x Hx H. apply (N3 x Hx). apply in_flat_map in H. destruct H as (w' & Hw' & Hg).
  apply filter_In in Hw'. apply in_flat_map. exists w'. tauto.
Qed.

(* ---- the wake phase ---------------------------------------------------------- *)
Lemma wake_sim ordered s b dt log s1 e :
  Inv s [] b -> wake ordered s dt log = Some (s1, e) ->
  e = false /\
  exists W, Inv s1 [] (b ++ W) /\
    (forall g, abs_st s1 g = option_map (tick1 dt) (abs_st s g)) /\
    (forall g, In g W -> exists r, abs_st s g = Some (SPaused r)) /\
    pcs s1 = pcs s /\ pv s1 = pv s /\ gdone s1 = gdone s /\
    (NoLeak s -> NoLeak s1) /\
    (forall x, memz x (killq s1) = true -> amem x (gens s1) = true ->
       memz x (killq s) = true /\ alookup x (gens s1) = alookup x (gens s) /\
       forall rid, alookup x (gens s) = Some (Some rid) ->
                   dl rid (waitq s1) - timer s1 = dl rid (waitq s) - timer s - dt).
Proof.
  intros HI Hw. unfold wake in Hw.
  destruct (waitq s) as [|w0 q0] eqn:Eq.
  { (* nobody waits: the timer does not move *)
    injection Hw as <- <-. split; auto. exists []. rewrite app_nil_r. split; auto.
    split; [|split; [intros g []|]].
    { intros g. unfold abs_st. destruct (alookup g (gens s)) as [[rid|]|] eqn:Eg; auto.
      - apply (i_w _ _ _ HI) in Eg. rewrite Eq in Eg. destruct Eg as (d & []).
      - now destruct (memz g (killq s)). }
    repeat split; auto.
    intros rid Eg. apply (i_w _ _ _ HI) in Eg. rewrite Eq in Eg. destruct Eg as (d & []). }
  rewrite <- Eq in *. clear w0 q0 Eq.
  set (tm := timer s + dt) in *.
  set (popped := filter (is_due tm) (waitq s)) in *.
  set (rest := filter (fun w => negb (is_due tm w)) (waitq s)) in *.
  set (lg := live_gids popped) in *.
  set (kd := filter (fun g => memz g (killq s)) lg) in *.
  set (wk := filter (fun g => negb (memz g (killq s))) lg) in *.
  destruct (negb (valid_order popped log wk ordered)) eqn:Ev; [discriminate|].
  apply negb_false_iff in Ev. unfold valid_order in Ev. rewrite !andb_true_iff in Ev.
  destruct Ev as ((((Ev1 & Ev2) & Ev3) & _) & _).
  (* facts about the popped records *)
  assert (Hlg : forall g, In g lg <-> exists rid d, In (mkW rid d (Some g)) (waitq s) /\ d <= tm).
  { intros g. unfold lg. rewrite live_In. split.
    - intros (w & Hw1 & Hw2). apply filter_In in Hw1. destruct Hw1 as [Hw1 Hd].
      exists (w_id w), (w_dl w). rewrite <- Hw2, <- wrec_eta. unfold is_due in Hd. split; auto. lia.
    - intros (rid & d & H1 & H2). exists (mkW rid d (Some g)). split; auto.
      apply filter_In. split; auto. unfold is_due. cbn [w_dl]. lia. }
  assert (Huniq : forall g rid d rid' d', In (mkW rid d (Some g)) (waitq s) ->
                    In (mkW rid' d' (Some g)) (waitq s) -> rid = rid' /\ d = d').
  { intros g rid d rid' d' H1 H2.
    assert (E1 : alookup g (gens s) = Some (Some rid)) by (apply (i_w _ _ _ HI); eauto).
    assert (E2 : alookup g (gens s) = Some (Some rid')) by (apply (i_w _ _ _ HI); eauto).
    assert (rid = rid') by congruence. subst rid'. split; auto.
    rewrite <- (dl_In _ _ _ _ (i_rid _ _ _ HI) H1). exact (dl_In _ _ _ _ (i_rid _ _ _ HI) H2). }
  assert (NDlg : NoDup lg) by (apply live_filter_nodup, (i_live _ _ _ HI)).
  assert (Hlg_gens : forall g, In g lg -> exists rid, alookup g (gens s) = Some (Some rid)).
  { intros g Hg. apply Hlg in Hg. destruct Hg as (rid & d & H1 & _). exists rid.
    apply (i_w _ _ _ HI). eauto. }
  assert (Hkd : forall g, In g kd <-> In g lg /\ memz g (killq s) = true).
  { intros g. unfold kd. now rewrite filter_In. }
  assert (Hwk : forall g, In g ordered <-> In g lg /\ memz g (killq s) = false).
  { intros g. assert (In g ordered <-> In g wk) as ->.
    { split; [apply (proj1 (subz_In _ _) Ev2)|apply (proj1 (subz_In _ _) Ev3)]. }
    unfold wk. rewrite filter_In. now rewrite negb_true_iff. }
  assert (NDo : NoDup ordered).
  { now apply nodupb_NoDup. }
  (* the dropped ones *)
  match type of Hw with context [drop_all ?S kd] => set (s0 := S) in * end.
  destruct (drop_all_spec kd s0) as (s2 & Ed & G2 & K2 & P2 & A2 & Q2 & V2 & T2 & N2 & C2 & D2).
  { unfold kd. now apply NoDup_filter. }
  { intros g Hg. apply Hkd in Hg. destruct Hg as [Hg _]. destruct (Hlg_gens g Hg) as (rid & E).
    unfold s0. sproj. rewrite (i_p _ _ _ HI). unfold amem. now rewrite E. }
  rewrite Ed in Hw.
  destruct (wake_all_spec ordered s2) as (G3 & A3 & K3 & P3 & Q3 & V3 & T3 & N3 & C3 & D3).
  set (s3 := fold_left wake_one ordered s2) in *.
  unfold s0 in *. sproj.
  assert (Hgens : forall x, alookup x (gens s3) =
                   if memz x ordered then Some None
                   else if memz x kd then None else alookup x (gens s)).
  { intros x. now rewrite G3, G2. }
  assert (Hkq : forall x, memz x (killq s3) = negb (memz x kd) && memz x (killq s)).
  { intros x. now rewrite K3, K2. }
  assert (Hpr : forall x, memz x (proms s3) = negb (memz x kd) && memz x (proms s)).
  { intros x. now rewrite P3, P2. }
  assert (Hact : active s3 = None :: map Some (b ++ ordered)).
  { rewrite A3, A2, (i_act _ _ _ HI). cbn [map app]. now rewrite map_app. }
  assert (Hwq : waitq s3 = rest) by (now rewrite Q3, Q2).
  (* membership facts as booleans *)
  assert (Bo : forall x, memz x ordered = true -> memz x kd = false /\
                 (exists rid, alookup x (gens s) = Some (Some rid)) /\ memz x (killq s) = false).
  { intros x Hx. apply memz_In, Hwk in Hx. destruct Hx as [H1 H2]. split; [|split; auto].
    apply memz_false. intros H. apply Hkd in H. destruct H. congruence. }
  assert (Bk : forall x, memz x kd = true ->
                 (exists rid, alookup x (gens s) = Some (Some rid)) /\ memz x (killq s) = true).
  { intros x Hx. apply memz_In, Hkd in Hx. destruct Hx. split; auto. }
  assert (Bn : forall x, memz x ordered = false -> memz x kd = false -> ~ In x lg).
  { intros x H1 H2 H. apply memz_false in H1, H2. destruct (memz x (killq s)) eqn:E.
    - apply H2, Hkd. auto.
    - apply H1, Hwk. auto. }
  assert (Hrest : forall w, In w rest <-> In w (waitq s) /\ tm < w_dl w).
  { intros w. unfold rest. rewrite filter_In. unfold is_due. split; intros [H1 H2]; split; auto; lia. }
  set (sf := match rest with [] => set_timer s3 0 | _ :: _ => s3 end) in *.
  assert (Fg : gens sf = gens s3) by (unfold sf; destruct rest; reflexivity).
  assert (Fa : active sf = active s3) by (unfold sf; destruct rest; reflexivity).
  assert (Fq : waitq sf = rest) by (unfold sf; destruct rest; auto).
  assert (Fk : killq sf = killq s3) by (unfold sf; destruct rest; reflexivity).
  assert (Fp : proms sf = proms s3) by (unfold sf; destruct rest; reflexivity).
  assert (Ft : rest <> [] -> timer sf = tm).
  { unfold sf. destruct rest; [congruence|]. intros _. now rewrite T3, T2. }
  assert (Fo : pv sf = pv s /\ nrid sf = nrid s /\ pcs sf = pcs s /\ gdone sf = gdone s).
  { unfold sf. destruct rest; sproj; rewrite ?V3, ?V2, ?N3, ?N2, ?C3, ?C2, ?D3, ?D2; auto. }
  destruct Fo as (Fv & Fn & Fc & Fd).
  injection Hw as <- <-. fold sf. split; auto. exists ordered.
  assert (Hst : forall g, abs_st sf g = option_map (tick1 dt) (abs_st s g)).
  { intros g. unfold abs_st. rewrite Fg, Fk, Hgens, Hkq.
    destruct (memz g ordered) eqn:Eo.
    - destruct (Bo g Eo) as (E1 & (rid & E2) & E3). rewrite E1, E2, E3. cbn [negb andb option_map tick1].
      apply memz_In, Hwk in Eo. destruct Eo as [Hl _]. apply Hlg in Hl.
      destruct Hl as (rid' & d & Hrec & Hd).
      assert (alookup g (gens s) = Some (Some rid')) as E4 by (apply (i_w _ _ _ HI); eauto).
      assert (rid' = rid) by congruence. subst rid'.
      rewrite (dl_In _ _ _ _ (i_rid _ _ _ HI) Hrec).
      assert (d - timer s - dt <=? 0 = true) as -> by (unfold tm in Hd; lia). reflexivity.
    - destruct (memz g kd) eqn:Ekd.
      + destruct (Bk g Ekd) as ((rid & E2) & E3). now rewrite E2, E3.
      + cbn [negb andb]. pose proof (Bn g Eo Ekd) as Hnl.
        destruct (alookup g (gens s)) as [[rid|]|] eqn:Eg; auto.
        * destruct (memz g (killq s)); auto. cbn [option_map tick1].
          destruct (proj1 (i_w _ _ _ HI g rid) Eg) as (d & Hrec).
          assert (Hd : tm < d).
          { destruct (Z_lt_le_dec tm d); auto. exfalso. apply Hnl, Hlg. eauto. }
          assert (Hin : In (mkW rid d (Some g)) rest) by (apply Hrest; cbn [w_dl]; auto).
          rewrite Fq. rewrite (dl_In _ _ _ _ (i_rid _ _ _ HI) Hrec).
          rewrite (dl_In rid d (Some g) rest); auto.
          2:{ unfold rest. apply NoDup_map_filter, (i_rid _ _ _ HI). }
          rewrite Ft by (intros E; rewrite E in Hin; destruct Hin).
          assert (d - timer s - dt <=? 0 = false) as -> by (unfold tm in Hd; lia).
          do 2 f_equal. unfold tm. lia.
        * now destruct (memz g (killq s)). }
  split; [|split; [exact Hst|]].
  - constructor.
    + rewrite Fa, Hact. reflexivity.
    + cbn [app]. apply NoDup_app_intro; auto.
      * pose proof (i_nd _ _ _ HI) as H. exact H.
      * intros x Hx Ho. apply Hwk in Ho. destruct Ho as [Hl _]. destruct (Hlg_gens x Hl) as (rid & E).
        assert (alookup x (gens s) = Some None) by (apply (i_in _ _ _ HI); exact Hx). congruence.
    + intros x. cbn [app]. rewrite Fg, Hgens, in_app_iff.
      destruct (memz x ordered) eqn:Eo.
      * apply memz_In in Eo. tauto.
      * destruct (memz x kd) eqn:Ekd.
        -- destruct (Bk x Ekd) as ((rid & E2) & _). apply memz_false in Eo. split; [|discriminate].
           intros [H|H]; [|contradiction].
           assert (alookup x (gens s) = Some None) by (apply (i_in _ _ _ HI); exact H). congruence.
        -- apply memz_false in Eo. rewrite <- (i_in _ _ _ HI x). cbn [app]. tauto.
    + rewrite Fq. unfold rest. apply NoDup_map_filter, (i_rid _ _ _ HI).
    + intros w Hw'. rewrite Fq in Hw'. apply Hrest in Hw'. rewrite Fn. apply (i_fresh _ _ _ HI). tauto.
    + intros x rid. rewrite Fg, Fq, Hgens. destruct (memz x ordered) eqn:Eo.
      * split; [discriminate|]. intros (d & H). apply Hrest in H. cbn [w_dl] in H. destruct H as [H1 H2].
        apply memz_In, Hwk in Eo. destruct Eo as [Hl _]. apply Hlg in Hl.
        destruct Hl as (rid' & d' & H3 & H4). destruct (Huniq _ _ _ _ _ H1 H3). lia.
      * destruct (memz x kd) eqn:Ekd.
        -- split; [discriminate|]. intros (d & H). apply Hrest in H. cbn [w_dl] in H. destruct H as [H1 H2].
           apply memz_In, Hkd in Ekd. destruct Ekd as [Hl _]. apply Hlg in Hl.
           destruct Hl as (rid' & d' & H3 & H4). destruct (Huniq _ _ _ _ _ H1 H3). lia.
        -- rewrite (i_w _ _ _ HI x rid). split; intros (d & H); exists d.
           ++ apply Hrest. split; auto. cbn [w_dl].
              destruct (Z_lt_le_dec tm d); auto. exfalso. apply (Bn x Eo Ekd), Hlg. eauto.
           ++ apply Hrest in H. tauto.
    + rewrite Fq. unfold rest. apply live_filter_nodup, (i_live _ _ _ HI).
    + intros x. rewrite Fp, Fg, Hpr. unfold amem. rewrite Hgens.
      destruct (memz x ordered) eqn:Eo.
      * destruct (Bo x Eo) as (E1 & (rid & E2) & _). rewrite E1, (i_p _ _ _ HI). unfold amem.
        now rewrite E2.
      * destruct (memz x kd); auto. cbn [negb andb]. apply (i_p _ _ _ HI).
    + intros w Hw'. rewrite Fq in Hw'. rewrite Ft by (intros E; rewrite E in Hw'; destruct Hw').
      apply Hrest in Hw'. tauto.
    + intros x Hx. rewrite Fd in Hx. apply (i_done _ _ _ HI) in Hx. rewrite Fg, Hgens.
      destruct (memz x ordered) eqn:Eo.
      * destruct (Bo x Eo) as (_ & (rid & E2) & _). congruence.
      * now destruct (memz x kd).
    + intros x. unfold amem. rewrite Fg, Hgens. destruct (memz x ordered) eqn:Eo.
      * intros _. destruct (Bo x Eo) as (_ & (rid & E2) & _). apply (i_pos _ _ _ HI).
        unfold amem. now rewrite E2.
      * destruct (memz x kd); [discriminate|]. apply (i_pos _ _ _ HI).
  - split.
    { intros g Hg. apply memz_In in Hg. destruct (Bo g Hg) as (_ & (rid & E2) & E3).
      unfold abs_st. rewrite E2, E3. eauto. }
    split; auto. split; auto. split; auto. split.
    { intros L x Hx. rewrite Fk, Hkq in Hx. apply andb_true_iff in Hx. destruct Hx as [H1 H2].
      apply negb_true_iff in H1. unfold amem. rewrite Fg, Hgens.
      destruct (memz x ordered); auto. rewrite H1. now apply L. }
    intros x Hx _. rewrite Fk, Hkq in Hx. apply andb_true_iff in Hx. destruct Hx as [H1 H2].
    apply negb_true_iff in H1.
    assert (Eo : memz x ordered = false).
    { destruct (memz x ordered) eqn:Eo; auto. destruct (Bo x Eo) as (_ & _ & E). congruence. }
    split; auto. split.
    { now rewrite Fg, Hgens, Eo, H1. }
    intros rid Eg. destruct (proj1 (i_w _ _ _ HI x rid) Eg) as (d & Hrec).
    assert (Hd : tm < d).
    { destruct (Z_lt_le_dec tm d); auto. exfalso. apply (Bn x Eo H1), Hlg. eauto. }
    assert (Hin : In (mkW rid d (Some x)) rest) by (apply Hrest; cbn [w_dl]; auto).
    rewrite Fq, (dl_In _ _ _ _ (i_rid _ _ _ HI) Hrec).
    rewrite (dl_In rid d (Some x) rest); auto.
    2:{ unfold rest. apply NoDup_map_filter, (i_rid _ _ _ HI). }
    rewrite Ft by (intros E; rewrite E in Hin; destruct Hin). unfold tm. lia.
Qed.
