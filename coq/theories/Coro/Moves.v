(* The four ways in which the head of the active queue leaves the front of
   the queue during process(): dropped (pending kill), finished
   (StopIteration), parked (positive wait), rotated behind the sentinel. *)
From Coq Require Import ZArith List Bool Lia ZifyBool.
From Desper Require Import Lib.Alist Coro.Model Coro.Spec Coro.Lemmas Coro.Inv Coro.Actions.
Import ListNotations.
Open Scope Z_scope.

Lemma front_head s g f b :
  Inv s (g :: f) b ->
  active s = Some g :: map Some f ++ None :: map Some b /\
  alookup g (gens s) = Some None /\ memz g (proms s) = true /\
  ~ In g (f ++ b) /\ NoDup (f ++ b) /\ 0 <= g.
Proof.
  intros HI. pose proof (i_nd _ _ _ HI) as ND. cbn [app] in ND.
  inversion ND as [|? ? Hn ND']; subst.
  assert (Eg : alookup g (gens s) = Some None).
  { apply (i_in _ _ _ HI). now left. }
  repeat split; auto.
  - apply (i_act _ _ _ HI).
  - rewrite (i_p _ _ _ HI). unfold amem. now rewrite Eg.
  - apply (i_pos _ _ _ HI). unfold amem. now rewrite Eg.
Qed.

Lemma pop_ord g f o :
  filter (fun x => memz x o) (g :: f) = o -> ~ In g o -> filter (fun x => memz x o) f = o.
Proof. cbn [filter]. intros H N. apply memz_false in N. now rewrite N in H. Qed.

(* removing g from _generators and _promises *)
Lemma Inv_remove s g f b act kq pv' gd :
  Inv s (g :: f) b ->
  act = tl (active s) ->
  (forall x, In x gd -> x = g \/ In x (gdone s)) ->
  Inv (mkSt (adel g (gens s)) act (waitq s) kq (remz g (proms s)) pv' (timer s) (nrid s)
            (pcs s) gd) f b.
Proof.
  intros HI -> Hgd. destruct (front_head _ _ _ _ HI) as (Ea & Eg & Ep & Hn & ND & Hpos).
  constructor; sproj.
  - rewrite Ea. reflexivity.
  - exact ND.
  - intros x. rewrite alookup_adel. destruct (x =? g) eqn:E.
    + apply Z.eqb_eq in E. subst. split; [contradiction|discriminate].
    + apply Z.eqb_neq in E. rewrite <- (i_in _ _ _ HI x). cbn [app In]. split; auto.
      intros [H|H]; auto. congruence.
  - apply (i_rid _ _ _ HI).
  - apply (i_fresh _ _ _ HI).
  - intros x rid. rewrite alookup_adel. destruct (x =? g) eqn:E.
    + apply Z.eqb_eq in E. subst. split; [discriminate|].
      intros H. apply (i_w _ _ _ HI) in H. congruence.
    + apply (i_w _ _ _ HI).
  - apply (i_live _ _ _ HI).
  - intros x. rewrite memz_remz, amem_adel. now rewrite (i_p _ _ _ HI).
  - apply (i_dl _ _ _ HI).
  - intros x Hx. rewrite alookup_adel. destruct (x =? g) eqn:E; auto.
    destruct (Hgd x Hx) as [->|H]; [now rewrite Z.eqb_refl in E|].
    now apply (i_done _ _ _ HI).
  - intros x. rewrite amem_adel. intros H. apply andb_true_iff in H.
    now apply (i_pos _ _ _ HI).
Qed.

(* ---- dropped: pending kill ------------------------------------------------ *)
Lemma drop_active_sim s t g f b :
  Inv s (g :: f) b -> Rel s t (g :: f) b -> memz g (killq s) = true ->
  exists s1, drop_active s g = (s1, false) /\ Inv s1 f b /\ Rel s1 t f b /\
             (NoLeak s -> NoLeak s1).
Proof.
  intros HI HR Hk. destruct (front_head _ _ _ _ HI) as (Ea & Eg & Ep & Hn & ND & Hpos).
  unfold drop_active. rewrite Eg, Ep. sproj. eexists. split; [reflexivity|].
  assert (Hnone : abs_st s g = None). { unfold abs_st. now rewrite Eg, Hk. }
  assert (Hno : forall x, In x (t_order t ++ t_norder t ++ t_due t) -> x <> g).
  { intros x Hx ->. apply (r_act _ _ _ _ HR) in Hx. rewrite (r_st _ _ _ _ HR), Hnone in Hx.
    discriminate. }
  split; [|split].
  - apply (Inv_remove s g f b); auto.
  - constructor; sproj.
    + intros x. rewrite (r_st _ _ _ _ HR). unfold abs_st. sproj.
      rewrite alookup_adel, memz_remz. destruct (x =? g) eqn:E; cbn [negb andb]; auto.
      apply Z.eqb_eq in E. subst. now rewrite Eg, Hk.
    + apply (r_nd _ _ _ _ HR).
    + apply (r_pc _ _ _ _ HR).
    + apply (r_val _ _ _ _ HR).
    + apply (r_fin _ _ _ _ HR).
    + apply (pop_ord g); [apply (r_ord _ _ _ _ HR)|]. intros H. apply (Hno g); auto.
      rewrite !in_app_iff. auto.
    + apply (r_nord _ _ _ _ HR).
    + intros x Hx. pose proof (r_due _ _ _ _ HR x Hx) as [<-|H]; auto.
      exfalso. apply (Hno g); auto. rewrite !in_app_iff. auto.
    + intros x Hx H. apply (r_ran _ _ _ _ HR x Hx). now right.
    + apply (r_act _ _ _ _ HR).
  - intros L x Hx. sproj. rewrite memz_remz in Hx. rewrite amem_adel.
    apply andb_true_iff in Hx. destruct Hx as [Hx1 Hx2]. rewrite Hx1. cbn. now apply L.
Qed.

(* ---- finished: StopIteration ---------------------------------------------- *)
Lemma finish_sim s t g f b v :
  Inv s (g :: f) b -> Rel s t (g :: f) b ->
  ~ In g (t_order t) -> ~ In g (t_due t) ->
  exists s1, finish (set_done s g) g v = (s1, false) /\ Inv s1 f b /\
             Rel s1 (sp_result t g (RReturn v)) f b /\
             (NoLeak s -> NoLeak s1).
Proof.
  intros HI HR Ho Hd. destruct (front_head _ _ _ _ HI) as (Ea & Eg & Ep & Hn & ND & Hpos).
  unfold finish. sproj. rewrite Eg, Ep. eexists. split; [reflexivity|].
  assert (Hnn : ~ In g (t_norder t)).
  { intros H. apply (filter_mem_sub _ _ (r_nord _ _ _ _ HR)) in H. apply Hn.
    apply in_or_app. now right. }
  split; [|split].
  - apply (Inv_remove s g f b); auto. intros x [<-|H]; auto.
  - constructor; cbn [sp_result]; sproj.
    + intros x. rewrite alookup_adel, (r_st _ _ _ _ HR). unfold abs_st. sproj.
      rewrite alookup_adel, memz_remz. destruct (x =? g); auto.
    + apply NoDup_akeys_adel, (r_nd _ _ _ _ HR).
    + apply (r_pc _ _ _ _ HR).
    + f_equal. apply (r_val _ _ _ _ HR).
    + f_equal. apply (r_fin _ _ _ _ HR).
    + apply (pop_ord g); auto. apply (r_ord _ _ _ _ HR).
    + apply (r_nord _ _ _ _ HR).
    + intros x Hx. pose proof (r_due _ _ _ _ HR x Hx) as [<-|H]; auto. contradiction.
    + intros x [<-|Hx] H.
      * apply Hn. apply in_or_app. now left.
      * apply (r_ran _ _ _ _ HR x Hx). now right.
    + intros x Hx. rewrite alookup_adel_neq; [now apply (r_act _ _ _ _ HR)|].
      intros ->. rewrite !in_app_iff in Hx. tauto.
  - intros L x Hx. sproj. rewrite memz_remz in Hx. rewrite amem_adel.
    apply andb_true_iff in Hx. destruct Hx as [Hx1 Hx2]. rewrite Hx1. cbn. now apply L.
Qed.

(* ---- parked: a positive wait ---------------------------------------------- *)
Lemma live_gids_app q q' : live_gids (q ++ q') = live_gids q ++ live_gids q'.
Proof. unfold live_gids. apply flat_map_app. Qed.

Lemma park_sim s t g f b z :
  Inv s (g :: f) b -> Rel s t (g :: f) b -> 0 < z ->
  ~ In g (t_order t) -> ~ In g (t_due t) ->
  Inv (park s g z) f b /\ Rel (park s g z) (sp_result t g (RYield (YNum z))) f b /\
  (NoLeak s -> NoLeak (park s g z)).
Proof.
  intros HI HR Hz Ho Hd. destruct (front_head _ _ _ _ HI) as (Ea & Eg & Ep & Hn & ND & Hpos).
  assert (Hnn : ~ In g (t_norder t)).
  { intros H. apply (filter_mem_sub _ _ (r_nord _ _ _ _ HR)) in H. apply Hn.
    apply in_or_app. now right. }
  assert (Hnl : forall rid d, ~ In (mkW rid d (Some g)) (waitq s)).
  { intros rid d H. assert (alookup g (gens s) = Some (Some rid)) by (apply (i_w _ _ _ HI); eauto).
    congruence. }
  assert (NDid : NoDup (map w_id (waitq s ++ [mkW (nrid s) (z + timer s) (Some g)]))).
  { rewrite map_app. cbn [map w_id]. apply NoDup_snoc'; [apply (i_rid _ _ _ HI)|].
    intros H. apply in_map_iff in H. destruct H as (w & E & Hw).
    apply (i_fresh _ _ _ HI) in Hw. lia. }
  split; [|split].
  - unfold park. constructor; sproj.
    + rewrite Ea. reflexivity.
    + exact ND.
    + intros x. rewrite alookup_aset. destruct (x =? g) eqn:E.
      * apply Z.eqb_eq in E. subst. split; [contradiction|discriminate].
      * apply Z.eqb_neq in E. rewrite <- (i_in _ _ _ HI x). cbn [app In]. split; auto.
        intros [H|H]; auto. congruence.
    + exact NDid.
    + intros w Hw. apply in_app_iff in Hw. destruct Hw as [Hw|[<-|[]]].
      * apply (i_fresh _ _ _ HI) in Hw. lia.
      * cbn [w_id]. lia.
    + intros x rid. rewrite alookup_aset. destruct (x =? g) eqn:E.
      * apply Z.eqb_eq in E. subst x. split.
        -- intros [= <-]. exists (z + timer s). apply in_or_app. right. now left.
        -- intros (d & H). apply in_app_iff in H. destruct H as [H|[H|[]]].
           ++ exfalso. eapply Hnl; eauto.
           ++ now injection H as ->.
      * apply Z.eqb_neq in E. rewrite (i_w _ _ _ HI x rid). split; intros (d & H); exists d.
        -- apply in_or_app. now left.
        -- apply in_app_iff in H. destruct H as [H|[H|[]]]; auto. injection H as _ _ H. congruence.
    + rewrite live_gids_app. cbn [live_gids flat_map w_gen app].
      apply NoDup_snoc'; [apply (i_live _ _ _ HI)|].
      intros H. apply live_In in H. destruct H as (w & Hw & E).
      apply (Hnl (w_id w) (w_dl w)). rewrite <- E, <- wrec_eta. exact Hw.
    + intros x. rewrite amem_aset, (i_p _ _ _ HI x). destruct (x =? g) eqn:E; auto.
      apply Z.eqb_eq in E. subst. unfold amem. now rewrite Eg.
    + intros w Hw. apply in_app_iff in Hw. destruct Hw as [Hw|[<-|[]]].
      * now apply (i_dl _ _ _ HI).
      * cbn [w_dl]. lia.
    + intros x Hx. apply (i_done _ _ _ HI) in Hx. rewrite alookup_aset.
      destruct (x =? g) eqn:E; auto. apply Z.eqb_eq in E. subst. congruence.
    + intros x. rewrite amem_aset. destruct (x =? g) eqn:E; [lia|apply (i_pos _ _ _ HI)].
  - assert (Hst : forall x, abs_st (park s g z) x =
                  if x =? g then (if memz g (killq s) then None else Some (SPaused z))
                  else abs_st s x).
    { intros x. unfold abs_st, park. sproj. rewrite alookup_aset. destruct (x =? g) eqn:E.
      - apply Z.eqb_eq in E. subst x. destruct (memz g (killq s)); auto.
        erewrite dl_In; [|exact NDid|apply in_or_app; right; now left].
        do 2 f_equal. lia.
      - destruct (alookup x (gens s)) as [[rid|]|] eqn:Ex; auto.
        destruct (memz x (killq s)); auto.
        destruct (proj1 (i_w _ _ _ HI x rid) Ex) as (d & Hrec).
        rewrite (dl_In _ _ _ _ NDid (in_or_app _ _ _ (or_introl Hrec))).
        now rewrite (dl_In _ _ _ _ (i_rid _ _ _ HI) Hrec). }
    assert (Hact : is_act t g = negb (memz g (killq s))).
    { unfold is_act, sp_state. rewrite (r_st _ _ _ _ HR). unfold abs_st. rewrite Eg.
      now destruct (memz g (killq s)). }
    cbn [sp_result is_pos]. assert (0 <? z = true) as -> by lia. rewrite Hact.
    assert (Hcommon : forall x, In x (t_order t ++ t_norder t ++ t_due t) -> x <> g).
    { intros x Hx ->. rewrite !in_app_iff in Hx. tauto. }
    destruct (memz g (killq s)) eqn:Ek; cbn [negb]; constructor; sproj;
      try apply (r_pc _ _ _ _ HR); try apply (r_val _ _ _ _ HR); try apply (r_fin _ _ _ _ HR);
      try apply (r_nord _ _ _ _ HR); try (apply (pop_ord g); auto; apply (r_ord _ _ _ _ HR)).
    + intros x. rewrite Hst, (r_st _ _ _ _ HR). destruct (x =? g) eqn:E; auto.
      apply Z.eqb_eq in E. subst. unfold abs_st. now rewrite Eg, Ek.
    + apply (r_nd _ _ _ _ HR).
    + intros x Hx. pose proof (r_due _ _ _ _ HR x Hx) as [<-|H]; auto. contradiction.
    + intros x [<-|Hx] H.
      * apply Hn. apply in_or_app. now left.
      * apply (r_ran _ _ _ _ HR x Hx). now right.
    + apply (r_act _ _ _ _ HR).
    + intros x. rewrite Hst, alookup_aset. destruct (x =? g); auto. apply (r_st _ _ _ _ HR).
    + apply NoDup_akeys_aset, (r_nd _ _ _ _ HR).
    + intros x Hx. pose proof (r_due _ _ _ _ HR x Hx) as [<-|H]; auto. contradiction.
    + intros x [<-|Hx] H.
      * apply Hn. apply in_or_app. now left.
      * apply (r_ran _ _ _ _ HR x Hx). now right.
    + intros x Hx. rewrite alookup_aset_neq; [now apply (r_act _ _ _ _ HR)|]. now apply Hcommon.
  - intros L x Hx. unfold park in *. sproj. rewrite amem_aset. destruct (x =? g); auto.
    now apply L.
Qed.

(* ---- rotated behind the sentinel ------------------------------------------ *)
Lemma rotate_sim s t g f b y :
  Inv s (g :: f) b -> Rel s t (g :: f) b -> is_pos y = None ->
  ~ In g (t_order t) -> ~ In g (t_due t) ->
  Inv (set_active s (rotate1 (active s))) f (b ++ [g]) /\
  Rel (set_active s (rotate1 (active s))) (sp_result t g (RYield y)) f (b ++ [g]) /\
  (NoLeak s -> NoLeak (set_active s (rotate1 (active s)))).
Proof.
  intros HI HR Hy Ho Hd. destruct (front_head _ _ _ _ HI) as (Ea & Eg & Ep & Hn & ND & Hpos).
  assert (Hnn : ~ In g (t_norder t)).
  { intros H. apply (filter_mem_sub _ _ (r_nord _ _ _ _ HR)) in H. apply Hn.
    apply in_or_app. now right. }
  assert (Hnb : ~ In g b) by (intros H; apply Hn; apply in_or_app; now right).
  assert (Hnf : ~ In g f) by (intros H; apply Hn; apply in_or_app; now left).
  split; [|split].
  - pose proof HI as [A1 A2 A3 A4 A5 A6 A7 A8 A9 A10 A11]. constructor; sproj; auto.
    + rewrite Ea. cbn [rotate1]. rewrite <- app_assoc. cbn [app]. now rewrite map_app.
    + rewrite app_assoc. apply NoDup_snoc'; auto.
    + intros x. rewrite <- (A3 x). cbn [app In]. rewrite app_assoc, in_app_iff. cbn [In].
      intuition.
  - assert (Hact : is_act t g = negb (memz g (killq s))).
    { unfold is_act, sp_state. rewrite (r_st _ _ _ _ HR). unfold abs_st. rewrite Eg.
      now destruct (memz g (killq s)). }
    cbn [sp_result]. rewrite Hy. constructor; sproj;
      try apply (r_pc _ _ _ _ HR); try apply (r_val _ _ _ _ HR); try apply (r_fin _ _ _ _ HR);
      try apply (r_nd _ _ _ _ HR); try (apply (pop_ord g); auto; apply (r_ord _ _ _ _ HR)).
    + intros x. rewrite (r_st _ _ _ _ HR). reflexivity.
    + destruct (is_act t g).
      * apply filter_mem_snoc; auto. apply (r_nord _ _ _ _ HR).
      * apply filter_mem_snoc_other; auto. apply (r_nord _ _ _ _ HR).
    + intros x Hx. pose proof (r_due _ _ _ _ HR x Hx) as [<-|H]; auto. contradiction.
    + intros x [<-|Hx] H; auto. apply (r_ran _ _ _ _ HR x Hx). now right.
    + intros x Hx. destruct (is_act t g) eqn:Ea2.
      * rewrite !in_app_iff in Hx. cbn [In] in Hx.
        destruct Hx as [H|[[H|[H|[]]]|H]];
          try (apply (r_act _ _ _ _ HR); rewrite !in_app_iff; auto; fail).
        subst x. unfold is_act, sp_state in Ea2.
        destruct (alookup g (t_st t)) as [[|r]|]; auto; discriminate.
      * now apply (r_act _ _ _ _ HR).
  - intros L. exact L.
Qed.

(* ---- a body raised: the frame is abandoned --------------------------------- *)
Lemma before_sentinel_app (f : list gid) r :
  before_sentinel (map Some f ++ None :: r) = map Some f.
Proof. induction f as [|x f IH]; cbn [map app before_sentinel]; auto. now rewrite IH. Qed.

Lemma from_sentinel_app (f : list gid) r :
  from_sentinel (map Some f ++ None :: r) = None :: r.
Proof. induction f as [|x f IH]; cbn [map app from_sentinel]; auto. Qed.

Lemma Inv_restore s f b :
  Inv s f b -> Inv (set_active s (rot_to_sentinel (active s))) [] (b ++ f).
Proof.
  intros [A1 A2 A3 A4 A5 A6 A7 A8 A9 A10 A11]. constructor; sproj; auto.
  - rewrite A1. unfold rot_to_sentinel. rewrite before_sentinel_app, from_sentinel_app.
    cbn [map app]. now rewrite map_app.
  - cbn [app]. apply NoDup_app_inv in A2. destruct A2 as (N1 & N2 & N3).
    apply NoDup_app_intro; auto. intros x Hb Hf. now apply (N3 x Hf).
  - intros x. cbn [app]. rewrite <- (A3 x), !in_app_iff. tauto.
Qed.

Lemma abort_sim s t g f b k :
  Inv s (g :: f) b -> Rel s t (g :: f) b ->
  ~ In g (t_order t) -> ~ In g (t_due t) ->
  exists s1, abort (set_done s g) g = (s1, false) /\ Inv s1 [] (b ++ f) /\
             Rel s1 (sp_result t g (RRaise k)) [] (b ++ f) /\
             (NoLeak s -> NoLeak s1).
Proof.
  intros HI HR Ho Hd. destruct (front_head _ _ _ _ HI) as (Ea & Eg & Ep & Hn & ND & Hpos).
  unfold abort. sproj. rewrite Eg, Ep. eexists. split; [reflexivity|].
  assert (Hnn : ~ In g (t_norder t)).
  { intros H. apply (filter_mem_sub _ _ (r_nord _ _ _ _ HR)) in H. apply Hn.
    apply in_or_app. now right. }
  split; [|split].
  - assert (HI1 : Inv (mkSt (adel g (gens s)) (tl (active s)) (waitq s) (remz g (killq s))
                            (remz g (proms s)) (pv s) (timer s) (nrid s) (pcs s)
                            (g :: gdone s)) f b).
    { apply (Inv_remove s g f b); auto. intros x [<-|H]; auto. }
    exact (Inv_restore _ _ _ HI1).
  - constructor; cbn [sp_result]; sproj.
    + intros x. rewrite alookup_adel, (r_st _ _ _ _ HR). unfold abs_st. sproj.
      rewrite alookup_adel, memz_remz. destruct (x =? g); auto.
    + apply NoDup_akeys_adel, (r_nd _ _ _ _ HR).
    + apply (r_pc _ _ _ _ HR).
    + apply (r_val _ _ _ _ HR).
    + f_equal. apply (r_fin _ _ _ _ HR).
    + reflexivity.
    + apply filter_mem_app2.
      * apply (r_nord _ _ _ _ HR).
      * apply (pop_ord g); auto. apply (r_ord _ _ _ _ HR).
      * apply NoDup_app_inv in ND. destruct ND as (_ & _ & N3). intros x Hb Hf. now apply (N3 x Hf).
    + intros x [].
    + intros x _ [].
    + intros x Hx. cbn [app] in Hx. rewrite app_nil_r in Hx.
      rewrite alookup_adel_neq.
      * apply (r_act _ _ _ _ HR). rewrite !in_app_iff in *. tauto.
      * intros ->. rewrite in_app_iff in Hx. tauto.
  - intros L x Hx. sproj. rewrite memz_remz in Hx. rewrite amem_adel.
    apply andb_true_iff in Hx. destruct Hx as [Hx1 Hx2]. rewrite Hx1. cbn. now apply L.
Qed.
