(* Simulation of the loop of process() over the active queue. *)
From Coq Require Import ZArith List Bool Lia ZifyBool.
From Desper Require Import Lib.Alist Coro.Model Coro.Spec Coro.Lemmas Coro.Inv Coro.Actions
     Coro.Moves.
Import ListNotations.
Open Scope Z_scope.

(* ---- flags and sets through the spec functions ---------------------------- *)
Lemma okwf_sp_result t g res : okwf (sp_result t g res) = okwf t.
Proof.
  destruct res as [y|v|k]; cbn [sp_result]; [|reflexivity|reflexivity].
  destruct (is_pos y); [destruct (is_act t g)|]; reflexivity.
Qed.
Lemma ok08_sp_result t g res : ok08 (sp_result t g res) = ok08 t.
Proof.
  destruct res as [y|v|k]; cbn [sp_result]; [|reflexivity|reflexivity].
  destruct (is_pos y); [destruct (is_act t g)|]; reflexivity.
Qed.
Lemma ok09_sp_result t g res : ok09 (sp_result t g res) = ok09 t.
Proof.
  destruct res as [y|v|k]; cbn [sp_result]; [|reflexivity|reflexivity].
  destruct (is_pos y); [destruct (is_act t g)|]; reflexivity.
Qed.

Lemma okwf_sp_exec_mono sc t e : okwf (sp_exec sc t e) = true -> okwf t = true.
Proof.
  destruct e as [[g k] outs]. unfold sp_exec. cbv beta iota zeta.
  destruct (nth_error (script_of sc g) (Z.to_nat k)) as [[acts res]|]; [|auto].
  rewrite okwf_sp_result. intros H. now apply okwf_sp_actions_mono in H.
Qed.

Lemma okwf_fold_mono sc log : forall t,
  okwf (fold_left (sp_exec sc) log t) = true -> okwf t = true.
Proof.
  induction log as [|e log IH]; intros t; cbn [fold_left]; auto.
  intros H. apply IH in H. now apply okwf_sp_exec_mono in H.
Qed.

Lemma order_sp_action t a o x : In x (t_order (sp_action t a o)) -> In x (t_order t).
Proof.
  destruct a as [g|g|g]; unfold sp_action; destruct (is_ok o); sproj; auto.
  intros H. apply In_remz in H. tauto.
Qed.
Lemma due_sp_action t a o x : In x (t_due (sp_action t a o)) -> In x (t_due t).
Proof.
  destruct a as [g|g|g]; unfold sp_action; destruct (is_ok o); sproj; auto.
  intros H. apply In_remz in H. tauto.
Qed.
Lemma order_sp_actions acts : forall t outs x,
  In x (t_order (sp_actions t acts outs)) -> In x (t_order t).
Proof.
  induction acts as [|a acts IH]; intros t [|o outs] x; cbn [sp_actions]; auto.
  intros H. apply IH in H. now apply order_sp_action in H.
Qed.
Lemma due_sp_actions acts : forall t outs x,
  In x (t_due (sp_actions t acts outs)) -> In x (t_due t).
Proof.
  induction acts as [|a acts IH]; intros t [|o outs] x; cbn [sp_actions]; auto.
  intros H. apply IH in H. now apply due_sp_action in H.
Qed.

Lemma Inv_set_pc s f b g k : Inv s f b -> Inv (set_pc s g k) f b.
Proof. intros [? ? ? ? ? ? ? ? ? ? ?]; constructor; sproj; auto. Qed.

(* ---- the body of one coroutine, up to its yield / return ------------------- *)
Definition chk08 (t : spec) (h : gid) : bool :=
  is_act t h && negb (memz h (t_ran t)) && head_ok h (t_order t) && no_abort t.

Lemma abort_sp_action t a o : t_abort (sp_action t a o) = t_abort t.
Proof. destruct a; unfold sp_action; destruct (is_ok o); reflexivity. Qed.
Lemma abort_sp_actions acts : forall t outs, t_abort (sp_actions t acts outs) = t_abort t.
Proof.
  induction acts as [|a acts IH]; intros t [|o outs]; cbn [sp_actions]; auto.
  now rewrite IH, abort_sp_action.
Qed.

(* the scheduler at the moment the body of g is entered at position k *)
Definition exec_pre (t : spec) (g : gid) (k : Z) (outs : list outcome) (acts : list action)
  : spec :=
  enter (flag09 (Nat.eqb (length outs) (length acts))
           (flag09 (is_act (flag08 (chk08 t g) t) g && (k =? zget (t_pc (flag08 (chk08 t g) t)) g))
                   (flag08 (chk08 t g) t))) g k.

Lemma sp_exec_unfold sc t g k outs acts res :
  nth_error (script_of sc g) (Z.to_nat k) = Some (acts, res) ->
  sp_exec sc t (g, k, outs) = sp_result (sp_actions (exec_pre t g k outs acts) acts outs) g res.
Proof. intros H. unfold sp_exec. cbv beta iota zeta. now rewrite H. Qed.

Lemma exec_pre_rel s t g f b k outs acts :
  Rel s t (g :: f) b ->
  Rel (set_pc s g (k + 1)) (exec_pre t g k outs acts) (g :: f) b.
Proof.
  intros HR. constructor; unfold exec_pre; sproj.
  - intros x. rewrite (r_st _ _ _ _ HR). reflexivity.
  - apply (r_nd _ _ _ _ HR).
  - f_equal. apply (r_pc _ _ _ _ HR).
  - apply (r_val _ _ _ _ HR).
  - apply (r_fin _ _ _ _ HR).
  - rewrite filter_mem_remz. now rewrite (r_ord _ _ _ _ HR).
  - apply (r_nord _ _ _ _ HR).
  - intros x Hx. apply In_remz in Hx. apply (r_due _ _ _ _ HR). tauto.
  - apply (r_ran _ _ _ _ HR).
  - intros x Hx. apply (r_act _ _ _ _ HR). rewrite !in_app_iff in *.
    rewrite !In_remz in Hx. tauto.
Qed.

Lemma exec_sim sc s t g f b outs acts res s1 :
  Inv s (g :: f) b -> Rel s t (g :: f) b -> memz g (killq s) = false ->
  t_abort t = None ->
  nth_error (script_of sc g) (Z.to_nat (zget (pcs s) g)) = Some (acts, res) ->
  run_actions (set_pc s g (zget (pcs s) g + 1)) acts outs = Some s1 ->
  okwf (sp_exec sc t (g, zget (pcs s) g, outs)) = true ->
  let t4 := sp_actions (exec_pre t g (zget (pcs s) g) outs acts) acts outs in
  okwf t4 = true /\ t_abort t4 = None /\
  exists b1,
    Inv s1 (g :: f) b1 /\ Rel s1 t4 (g :: f) b1 /\
    ~ In g (t_order t4) /\ ~ In g (t_due t4) /\
    ok08 t4 = ok08 t /\
    (NoLeak s -> NoLeak s1 /\ ok09 t4 = ok09 t).
Proof.
  intros HI HR Hk Hab Hnth Hrun Hwf t4.
  destruct (front_head _ _ _ _ HI) as (Ea & Eg & Ep & Hn & ND & Hpos).
  set (k := zget (pcs s) g) in *.
  rewrite (sp_exec_unfold _ _ _ _ _ _ _ Hnth), okwf_sp_result in Hwf. fold t4 in Hwf.
  split; auto.
  split. { unfold t4. rewrite abort_sp_actions. unfold exec_pre. sproj. exact Hab. }
  assert (C1 : chk08 t g = true).
  { unfold chk08. assert (is_act t g = true) as ->.
    { unfold is_act, sp_state. rewrite (r_st _ _ _ _ HR). unfold abs_st. now rewrite Eg, Hk. }
    assert (memz g (t_ran t) = false) as ->.
    { apply memz_false. intros H. apply (r_ran _ _ _ _ HR g H). now left. }
    unfold no_abort. rewrite Hab, andb_true_r.
    cbn [negb andb]. unfold head_ok. destruct (t_order t) as [|x o] eqn:Eo; auto.
    destruct (memz g (x :: o)) eqn:M; [|apply orb_true_r].
    pose proof (r_ord _ _ _ _ HR) as Hord. rewrite Eo in Hord.
    cbn [filter] in Hord. rewrite M in Hord. injection Hord as -> _.
    now rewrite Z.eqb_refl. }
  assert (C2 : is_act (flag08 (chk08 t g) t) g && (k =? zget (t_pc (flag08 (chk08 t g) t)) g) = true).
  { apply andb_true_iff. split.
    - unfold chk08 in C1. apply andb_true_iff in C1. destruct C1 as [C1 _].
      apply andb_true_iff in C1. destruct C1 as [C1 _].
      apply andb_true_iff in C1. destruct C1 as [C1 _]. exact C1.
    - sproj. rewrite (r_pc _ _ _ _ HR). apply Z.eqb_refl. }
  pose proof (exec_pre_rel s t g f b k outs acts HR) as HR1.
  pose proof (Inv_set_pc _ _ _ g (k + 1) HI) as HI1.
  destruct (actions_sim acts _ _ _ _ _ _ HI1 HR1 Hrun Hwf) as (b1 & HI2 & HR2 & H08 & HL).
  exists b1. fold t4 in HR2, H08, HL.
  split; auto. split; auto.
  split.
  { intros H. apply order_sp_actions in H. unfold exec_pre in H. sproj. apply In_remz in H. tauto. }
  split.
  { intros H. apply due_sp_actions in H. unfold exec_pre in H. sproj. apply In_remz in H. tauto. }
  split.
  { rewrite H08. unfold exec_pre. sproj. now rewrite C1, andb_true_r. }
  intros L. assert (L1 : NoLeak (set_pc s g (k + 1))) by exact L.
  destruct (HL L1) as [L2 E9]. split; auto. rewrite E9. unfold exec_pre. sproj.
  rewrite C2, (run_actions_length _ _ _ _ Hrun), Nat.eqb_refl. now rewrite !andb_true_r.
Qed.

(* ---- the loop --------------------------------------------------------------- *)
Lemma loop_sim sc : forall fuel f s t b log s' e,
  Inv s f b -> Rel s t f b -> t_abort t = None ->
  loop sc fuel s log = Some (s', [], e) ->
  okwf (fold_left (sp_exec sc) log t) = true ->
  e = abort_outcome (fold_left (sp_exec sc) log t) /\
  exists b', Inv s' [] b' /\ Rel s' (fold_left (sp_exec sc) log t) [] b' /\
             ok08 (fold_left (sp_exec sc) log t) = ok08 t /\
             (NoLeak s ->
              NoLeak s' /\ ok09 (fold_left (sp_exec sc) log t) = ok09 t).
Proof.
  induction fuel as [|fuel IH]; intros f s t b log s' e HI HR Hab Hl Hwf; [discriminate|].
  cbn [loop] in Hl. destruct f as [|g f].
  - (* the sentinel is at the head *)
    rewrite (i_act _ _ _ HI) in Hl. cbn [map app] in Hl. injection Hl as <- -> <-.
    cbn [fold_left]. split; [unfold abort_outcome; now rewrite Hab|]. exists b. auto.
  - destruct (front_head _ _ _ _ HI) as (Ea & Eg & Ep & Hn & ND & Hpos).
    rewrite Ea in Hl.
    destruct (memz g (killq s)) eqn:Hk.
    { (* pending kill: dropped *)
      destruct (drop_active_sim _ _ _ _ _ HI HR Hk) as (s1 & Ed & HI1 & HR1 & HL1).
      rewrite Ed in Hl.
      destruct (IH _ _ _ _ _ _ _ HI1 HR1 Hab Hl Hwf) as (He & b' & HI' & HR' & H08 & HL').
      split; [exact He|]. exists b'. split; [exact HI'|]. split; [exact HR'|].
      split; [exact H08|]. intros L. apply HL'; auto. }
    destruct (memz g (gdone s)) eqn:Hdn.
    { (* an exhausted generator is never queued *)
      exfalso. apply memz_In in Hdn. apply (i_done _ _ _ HI) in Hdn. congruence. }
    destruct log as [|[[g' k] outs] log]; [discriminate|].
    destruct ((g' =? g) && (k =? zget (pcs s) g)) eqn:Eh; cbn [negb] in Hl; [|discriminate].
    apply andb_true_iff in Eh. destruct Eh as [E1 E2].
    apply Z.eqb_eq in E1, E2. subst g' k.
    destruct (nth_error (script_of sc g) (Z.to_nat (zget (pcs s) g))) as [[acts res]|] eqn:Hnth;
      [|discriminate].
    destruct (run_actions (set_pc s g (zget (pcs s) g + 1)) acts outs) as [s1|] eqn:Hrun;
      [|discriminate].
    cbn [fold_left] in *.
    pose proof (okwf_fold_mono _ _ _ Hwf) as Hwf1.
    destruct (exec_sim _ _ _ _ _ _ _ _ _ _ HI HR Hk Hab Hnth Hrun Hwf1)
      as (_ & Hab4 & b1 & HI1 & HR1 & Ho & Hd & H08 & HL1).
    rewrite (sp_exec_unfold _ _ _ _ _ _ _ Hnth) in *.
    set (t4 := sp_actions (exec_pre t g (zget (pcs s) g) outs acts) acts outs) in *.
    destruct res as [y|v|x].
    + assert (Hab5 : t_abort (sp_result t4 g (RYield y)) = None).
      { cbn [sp_result]. destruct (is_pos y); [destruct (is_act t4 g)|]; exact Hab4. }
      destruct (is_pos y) as [z|] eqn:Ey.
      * (* parked *)
        assert (y = YNum z /\ 0 < z) as [-> Hz].
        { destruct y as [|z']; cbn in Ey; [discriminate|].
          destruct (0 <? z') eqn:E; [|discriminate]. injection Ey as ->. split; auto. lia. }
        destruct (park_sim _ _ _ _ _ _ HI1 HR1 Hz Ho Hd) as (HI2 & HR2 & HL2).
        destruct (IH _ _ _ _ _ _ _ HI2 HR2 Hab5 Hl Hwf) as (He & b' & HI' & HR' & H08' & HL').
        split; auto. exists b'. split; auto. split; auto. split.
        -- now rewrite H08', ok08_sp_result.
        -- intros L. destruct (HL1 L) as [L1 E9]. destruct (HL' (HL2 L1)) as [L' E9'].
           split; auto. now rewrite E9', ok09_sp_result.
      * (* rotated *)
        destruct (rotate_sim _ _ _ _ _ _ HI1 HR1 Ey Ho Hd) as (HI2 & HR2 & HL2).
        destruct (IH _ _ _ _ _ _ _ HI2 HR2 Hab5 Hl Hwf) as (He & b' & HI' & HR' & H08' & HL').
        split; auto. exists b'. split; auto. split; auto. split.
        -- now rewrite H08', ok08_sp_result.
        -- intros L. destruct (HL1 L) as [L1 E9]. destruct (HL' (HL2 L1)) as [L' E9'].
           split; auto. now rewrite E9', ok09_sp_result.
    + (* returned *)
      destruct (finish_sim _ _ _ _ _ v HI1 HR1 Ho Hd) as (s2 & Ef & HI2 & HR2 & HL2).
      rewrite Ef in Hl.
      assert (Hab5 : t_abort (sp_result t4 g (RReturn v)) = None) by exact Hab4.
      destruct (IH _ _ _ _ _ _ _ HI2 HR2 Hab5 Hl Hwf) as (He & b' & HI' & HR' & H08' & HL').
      split; auto. exists b'. split; auto. split; auto. split.
      * now rewrite H08', ok08_sp_result.
      * intros L. destruct (HL1 L) as [L1 E9].
        destruct (HL' (HL2 L1)) as [L' E9']. split; auto.
        now rewrite E9', ok09_sp_result.
    + (* raised: the frame is abandoned *)
      destruct (abort_sim _ _ _ _ _ x HI1 HR1 Ho Hd) as (s2 & Ef & HI2 & HR2 & HL2).
      rewrite Ef in Hl. injection Hl as <- -> <-. cbn [fold_left].
      split; [reflexivity|]. exists (b1 ++ f). split; auto. split; auto. split.
      * now rewrite ok08_sp_result.
      * intros L. destruct (HL1 L) as [L1 E9]. split; auto.
Qed.
