(* Simulation of whole operations and of whole traces; the flag theorems. *)
From Coq Require Import ZArith List Bool Lia ZifyBool.
From Desper Require Import Lib.Alist Coro.Model Coro.Spec Coro.Lemmas Coro.Inv Coro.Actions
     Coro.Moves Coro.Loop Coro.Wake.
Import ListNotations.
Open Scope Z_scope.

Lemma Inv0 : Inv st0 [] [].
Proof.
  constructor; cbn.
  - reflexivity.
  - constructor.
  - intros g. split; [tauto|discriminate].
  - constructor.
  - intros w [].
  - intros g rid. split; [discriminate|]. intros (d & []).
  - constructor.
  - reflexivity.
  - intros w [].
  - intros g [].
  - discriminate.
Qed.

Lemma Rel0 : Rel st0 sp0 [] [].
Proof.
  constructor; cbn; auto; try constructor; try (intros g []).
Qed.

Lemma NoLeak0 : NoLeak st0.
Proof. intros g H. discriminate. Qed.

(* ---- start of a frame ---------------------------------------------------- *)
Lemma tick_rel s t b dt s1 W c :
  Rel s t [] b -> Inv s1 [] (b ++ W) ->
  (forall g, abs_st s1 g = option_map (tick1 dt) (abs_st s g)) ->
  (forall g, In g W -> exists r, abs_st s g = Some (SPaused r)) ->
  pcs s1 = pcs s -> pv s1 = pv s -> gdone s1 = gdone s ->
  let s2 := set_active s1 (rotate1 (active s1)) in
  Inv s2 (b ++ W) [] /\ Rel s2 (tick dt (flagwf c t)) (b ++ W) [].
Proof.
  intros HR HI Hst HW Hpc Hpv Hdn s2. split.
  - destruct HI as [A1 A2 A3 A4 A5 A6 A7 A8 A9 A10 A11]. unfold s2.
    constructor; sproj; auto; rewrite ?app_nil_r in *; auto.
    rewrite A1. cbn [app rotate1 map]. reflexivity.
  - assert (Hl : forall g, alookup g (map (tick_st dt) (t_st t)) = abs_st s1 g).
    { intros g. now rewrite alookup_tick, (r_st _ _ _ _ HR), Hst. }
    assert (Hak : forall g, In g (act_keys (map (tick_st dt) (t_st t))) ->
                            alookup g (map (tick_st dt) (t_st t)) = Some SAct).
    { intros g Hg. apply act_keys_In in Hg. apply In_alookup_nodup; auto.
      rewrite akeys_tick. apply (r_nd _ _ _ _ HR). }
    unfold tick, s2. constructor; sproj.
    + exact Hl.
    + rewrite akeys_tick. apply (r_nd _ _ _ _ HR).
    + rewrite Hpc. apply (r_pc _ _ _ _ HR).
    + rewrite Hpv. apply (r_val _ _ _ _ HR).
    + rewrite Hdn. apply (r_fin _ _ _ _ HR).
    + apply filter_mem_app_other; [|apply (r_nord _ _ _ _ HR)].
      intros g Hg Hn. destruct (HW g Hg) as (r & E).
      assert (alookup g (t_st t) = Some SAct) as E2.
      { apply (r_act _ _ _ _ HR). rewrite !in_app_iff. auto. }
      rewrite (r_st _ _ _ _ HR), E in E2. discriminate.
    + reflexivity.
    + intros g Hg. apply Hak in Hg. rewrite Hl in Hg. unfold abs_st in Hg.
      destruct (alookup g (gens s1)) as [[rid|]|] eqn:Eg; try discriminate.
      * destruct (memz g (killq s1)); discriminate.
      * apply (i_in _ _ _ HI) in Eg. exact Eg.
    + intros g [].
    + intros g Hg. cbn [app] in Hg. apply in_app_iff in Hg. destruct Hg as [Hg|Hg]; auto.
      rewrite alookup_tick.
      assert (alookup g (t_st t) = Some SAct) as ->; [|reflexivity].
      apply (r_act _ _ _ _ HR). rewrite !in_app_iff. auto.
Qed.

(* ---- one operation -------------------------------------------------------- *)
Lemma okwf_frame_end t exc : okwf (frame_end t exc) = true -> okwf t = true.
Proof. unfold frame_end. sproj. auto. Qed.

Lemma okwf_sp_step_mono sc t o ob : okwf (sp_step sc t o ob) = true -> okwf t = true.
Proof.
  destruct o, ob; cbn [sp_step]; try (unfold bad; sproj; rewrite andb_false_r; discriminate);
    try (rewrite okwf_sp_action; intros H; now apply andb_true_iff in H); auto.
  intros H. apply okwf_frame_end in H. apply okwf_fold_mono in H. unfold tick in H. sproj.
  now apply andb_true_iff in H.
Qed.

Lemma okwf_sp_run_mono sc tr : forall t, okwf (sp_run sc t tr) = true -> okwf t = true.
Proof.
  induction tr as [|[o ob] tr IH]; intros t; cbn [sp_run]; auto.
  intros H. apply IH in H. now apply okwf_sp_step_mono in H.
Qed.

Lemma step_action_sim s t b a s' r r' :
  Inv s [] b -> Rel s t [] b -> do_action s a = (s', r') -> outcome_eqb r r' = true ->
  okwf (sp_action t a r) = true ->
  exists b', Inv s' [] b' /\ Rel s' (sp_action t a r) [] b' /\
             ok08 (sp_action t a r) = ok08 t /\
             (NoLeak s -> NoLeak s' /\ ok09 (sp_action t a r) = ok09 t).
Proof.
  intros HI HR Hd Hr Hwf. apply outcome_eqb_eq in Hr. subst r'.
  destruct (action_sim _ _ _ _ _ _ _ HI HR Hd Hwf) as (b' & HI' & HR' & HL).
  exists b'. split; auto. split; auto. split; [apply ok08_sp_action|].
  intros L. destruct (HL L) as [L' E]. split; auto.
  rewrite ok09_sp_action, E, outcome_eqb_refl. apply andb_true_r.
Qed.

Lemma step_sim ord sc s t b o ob s' :
  Inv s [] b -> Rel s t [] b -> step ord sc s o ob = Some s' ->
  okwf (sp_step sc t o ob) = true ->
  t_abort t = None ->
  exists b', Inv s' [] b' /\ Rel s' (sp_step sc t o ob) [] b' /\
             t_abort (sp_step sc t o ob) = None /\
             ok08 (sp_step sc t o ob) = ok08 t /\
             (NoLeak s -> NoLeak s' /\ ok09 (sp_step sc t o ob) = ok09 t).
Proof.
  intros HI HR Hs Hwf Hab. destruct o as [g|g|g|g|dt]; destruct ob as [r|v|log exc];
    cbn [step] in Hs; try discriminate; cbn [sp_step] in *.
  - destruct (do_start s g) as [s1 r'] eqn:Ed.
    destruct (outcome_eqb r r') eqn:Er; [|discriminate]. injection Hs as <-.
    destruct (step_action_sim s t b (AStart g) _ _ _ HI HR Ed Er Hwf) as (b' & ? & ? & ? & ?).
    exists b'. rewrite abort_sp_action. auto.
  - destruct (do_kill s g) as [s1 r'] eqn:Ed.
    destruct (outcome_eqb r r') eqn:Er; [|discriminate]. injection Hs as <-.
    destruct (step_action_sim s t b (AKill g) _ _ _ HI HR Ed Er Hwf) as (b' & ? & ? & ? & ?).
    exists b'. rewrite abort_sp_action. auto.
  - destruct (outcome_eqb r (do_state s g)) eqn:Er; [|discriminate]. injection Hs as <-.
    assert (Ed : do_action s (AState g) = (s, do_state s g)) by reflexivity.
    destruct (step_action_sim s t b (AState g) _ _ _ HI HR Ed Er Hwf) as (b' & ? & ? & ? & ?).
    exists b'. rewrite abort_sp_action. auto.
  - (* value *)
    destruct (oz_eqb v _) eqn:Ev; [|discriminate]. injection Hs as <-.
    exists b. split; auto. split; [now apply Rel_flag09|]. split; [exact Hab|].
    split; [reflexivity|].
    intros L. split; auto. sproj. rewrite (r_val _ _ _ _ HR), Ev.
    destruct (memz g (t_fin t)); apply andb_true_r.
  - (* process *)
    unfold process in Hs. destruct (wake ord s dt log) as [[s1 e1]|] eqn:Ew; [|discriminate].
    destruct (wake_sim _ _ _ _ _ _ _ HI Ew) as (-> & W & HI1 & Hst & HW & Hpc & Hpv & Hdn & HL1 & _).
    destruct (loop sc _ _ log) as [[[s2 log'] e]|] eqn:El; [|discriminate].
    destruct log' as [|? ?]; [|discriminate].
    destruct (outcome_eqb exc e) eqn:Ee; [|discriminate].
    injection Hs as <-.
    apply okwf_frame_end in Hwf.
    destruct (tick_rel s t b dt s1 W (0 <=? dt) HR HI1 Hst HW Hpc Hpv Hdn) as [HI2 HR2].
    destruct (loop_sim sc _ _ _ _ _ _ _ _ HI2 HR2 eq_refl El Hwf) as (He & b' & HI3 & HR3 & H08 & HL3).
    apply outcome_eqb_eq in Ee. subst exc.
    exists b'. split; auto. split.
    + eapply Rel_ext; [exact HR3|..]; reflexivity.
    + split; [reflexivity|]. split.
      * unfold frame_end. sproj. rewrite H08.
        destruct (t_due (fold_left (sp_exec sc) log (tick dt (flagwf (0 <=? dt) t)))) as [|x l] eqn:Ed.
        -- unfold tick. sproj. now rewrite !andb_true_r.
        -- exfalso. apply (r_due _ _ _ _ HR3 x). rewrite Ed. now left.
      * intros L. assert (L2 : NoLeak (set_active s1 (rotate1 (active s1)))) by (apply HL1, L).
        destruct (HL3 L2) as [L3 E9]. split; auto.
        unfold frame_end. sproj. rewrite E9. unfold tick. sproj.
        rewrite He. unfold abort_outcome. sproj. rewrite outcome_eqb_refl.
        now rewrite !andb_true_r.
Qed.

(* an accepted trace: some reading of the open choice was accepted *)
Lemma run_choice sc s o ob tr s' cs :
  (fix try (cs : list (list gid)) : option st :=
     match cs with
     | [] => None
     | c :: cs =>
         match (match step c sc s o ob with Some s1 => run sc s1 tr | None => None end) with
         | Some r => Some r
         | None => try cs
         end
     end) cs = Some s' ->
  exists c s1, step c sc s o ob = Some s1 /\ run sc s1 tr = Some s'.
Proof.
  induction cs as [|c cs IH]; [discriminate|].
  destruct (step c sc s o ob) as [s1|] eqn:Es; [|exact IH].
  destruct (run sc s1 tr) as [r|] eqn:Er; [|exact IH].
  intros [= <-]. eauto.
Qed.

(* ---- whole traces ------------------------------------------------------------ *)
Lemma run_sim sc tr : forall s t b s',
  Inv s [] b -> Rel s t [] b -> run sc s tr = Some s' ->
  okwf (sp_run sc t tr) = true -> t_abort t = None ->
  exists b', Inv s' [] b' /\ Rel s' (sp_run sc t tr) [] b' /\
             ok08 (sp_run sc t tr) = ok08 t /\
             (NoLeak s -> NoLeak s' /\ ok09 (sp_run sc t tr) = ok09 t).
Proof.
  induction tr as [|[o ob] tr IH]; intros s t b s' HI HR Hr Hwf Hab.
  - injection Hr as <-. exists b. cbn [sp_run]. auto.
  - cbn [run] in Hr. cbn [sp_run] in *. pose proof (okwf_sp_run_mono _ _ _ Hwf) as Hwf1.
    destruct (run_choice _ _ _ _ _ _ _ Hr) as (c & s1 & Es & Hr1).
    destruct (step_sim _ _ _ _ _ _ _ _ HI HR Es Hwf1 Hab) as (b1 & HI1 & HR1 & Hab1 & H08 & HL1).
    destruct (IH _ _ _ _ HI1 HR1 Hr1 Hwf Hab1) as (b2 & HI2 & HR2 & H08' & HL2).
    exists b2. split; auto. split; auto. split; [congruence|].
    intros L. destruct (HL1 L) as [L1 E1]. destruct (HL2 L1) as [L2 E2].
    split; auto. congruence.
Qed.

(* C08: every accepted trace in the domain satisfies the timing clauses *)
Theorem accepts_holds08 (c : case) :
  wf_b c = true -> accepts c = true -> holds08_b c = true.
Proof.
  unfold wf_b, accepts, holds08_b, final. intros Hwf Ha.
  apply andb_true_iff in Hwf. destruct Hwf as [_ Hwf].
  destruct (run (c_scripts c) st0 (c_trace c)) as [s|] eqn:Er; [|discriminate].
  destruct (run_sim _ _ _ _ _ _ Inv0 Rel0 Er Hwf eq_refl) as (b & _ & _ & H08 & _).
  now rewrite H08.
Qed.

(* C09, the clauses checked step by step *)
Theorem accepts_ok09 (c : case) :
  wf_b c = true -> known09_b c = false -> accepts c = true -> ok09 (final c) = true.
Proof.
  unfold wf_b, accepts, known09_b, final. intros Hwf Hk Ha.
  apply andb_true_iff in Hwf. destruct Hwf as [_ Hwf].
  destruct (run (c_scripts c) st0 (c_trace c)) as [s|] eqn:Er; [|discriminate].
  destruct (run_sim _ _ _ _ _ _ Inv0 Rel0 Er Hwf eq_refl) as (b & _ & _ & _ & H09).
  destruct (H09 NoLeak0) as [_ E]. now rewrite E.
Qed.
