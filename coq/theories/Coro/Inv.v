(* Invariant of the processor model, refinement relation with the abstract
   scheduler, and the simulation of start / kill / state. *)
From Coq Require Import ZArith List Bool Lia ZifyBool.
From Desper Require Import Lib.Alist Coro.Model Coro.Spec Coro.Lemmas.
Import ListNotations.
Open Scope Z_scope.

Ltac sproj := cbn [gens active waitq killq proms pv timer nrid pcs gdone
                   set_killq set_timer set_waitq set_active set_pc set_done start_fin
                   t_st t_pc t_val t_fin t_order t_norder t_due t_ran t_ghost t_woke t_risky t_cur t_abort ok08 ok09 okwf
                   flag08 flag09 flagwf add_risk started killed enter abandon w_id w_dl w_gen] in *.

(* deadline of the record with identity rid *)
Definition dl (rid : Z) (q : list wrec) : Z :=
  match find (fun w => w_id w =? rid) q with Some w => w_dl w | None => 0 end.

(* the status the property talks about, read off the processor *)
Definition abs_st (s : st) (g : gid) : option status :=
  match alookup g (gens s) with
  | None => None
  | Some w =>
      if memz g (killq s) then None
      else match w with
           | None => Some SAct
           | Some rid => Some (SPaused (dl rid (waitq s) - timer s))
           end
  end.

(* [front]: the part of the active queue before the sentinel (coroutines
   still to be met in the running frame; empty between frames), [back]:
   the part after it *)
Record Inv (s : st) (front back : list gid) : Prop := {
  i_act : active s = map Some front ++ None :: map Some back;
  i_nd : NoDup (front ++ back);
  i_in : forall g, In g (front ++ back) <-> alookup g (gens s) = Some None;
  i_rid : NoDup (map w_id (waitq s));
  i_fresh : forall w, In w (waitq s) -> w_id w < nrid s;
  i_w : forall g rid, alookup g (gens s) = Some (Some rid) <->
                      exists d, In (mkW rid d (Some g)) (waitq s);
  i_live : NoDup (live_gids (waitq s));
  i_p : forall g, memz g (proms s) = amem g (gens s);
  i_dl : forall w, In w (waitq s) -> timer s < w_dl w;
  i_done : forall g, In g (gdone s) -> alookup g (gens s) = None;
  i_pos : forall g, amem g (gens s) = true -> 0 <= g
}.

Record Rel (s : st) (t : spec) (front back : list gid) : Prop := {
  r_st : forall g, alookup g (t_st t) = abs_st s g;
  r_nd : NoDup (akeys (t_st t));
  r_pc : t_pc t = pcs s;
  r_val : t_val t = pv s;
  r_fin : t_fin t = gdone s;
  r_ord : filter (fun g => memz g (t_order t)) front = t_order t;
  r_nord : filter (fun g => memz g (t_norder t)) back = t_norder t;
  r_due : forall g, In g (t_due t) -> In g front;
  r_ran : forall g, In g (t_ran t) -> ~ In g front;
  r_act : forall g, In g (t_order t ++ t_norder t ++ t_due t) ->
                    alookup g (t_st t) = Some SAct
}.

(* no kill mark on a generator the processor does not know *)
Definition NoLeak (s : st) : Prop :=
  forall g, memz g (killq s) = true -> amem g (gens s) = true.

Lemma Rel_flag08 s t f b x : Rel s t f b -> Rel s (flag08 x t) f b.
Proof. intros [? ? ? ? ? ? ? ? ? ?]; constructor; sproj; auto. Qed.
Lemma Rel_flag09 s t f b x : Rel s t f b -> Rel s (flag09 x t) f b.
Proof. intros [? ? ? ? ? ? ? ? ? ?]; constructor; sproj; auto. Qed.
Lemma Rel_flagwf s t f b x : Rel s t f b -> Rel s (flagwf x t) f b.
Proof. intros [? ? ? ? ? ? ? ? ? ?]; constructor; sproj; auto. Qed.

Lemma sp_state_m s t f b g : Rel s t f b -> sp_state t g = mstate s g.
Proof.
  intros HR. unfold sp_state, mstate. rewrite (r_st _ _ _ _ HR g). unfold abs_st.
  destruct (alookup g (gens s)) as [[rid|]|]; auto; destruct (memz g (killq s)); auto.
Qed.

(* ---- wait records -------------------------------------------------------- *)
Lemma dl_In rid d og q :
  NoDup (map w_id q) -> In (mkW rid d og) q -> dl rid q = d.
Proof.
  unfold dl. induction q as [|w q IH]; cbn [map find In]; [tauto|].
  intros ND [->|H].
  - cbn [w_id]. now rewrite Z.eqb_refl.
  - inversion ND as [|? ? Hn ND']; subst.
    destruct (w_id w =? rid) eqn:E.
    + apply Z.eqb_eq in E. exfalso. apply Hn. rewrite E.
      change rid with (w_id (mkW rid d og)). now apply in_map.
    + auto.
Qed.

Lemma tombstone_ids r q : map w_id (tombstone r q) = map w_id q.
Proof.
  unfold tombstone. rewrite map_map. apply map_ext. intros w.
  destruct (w_id w =? r); reflexivity.
Qed.

Lemma dl_tombstone rid r q : dl rid (tombstone r q) = dl rid q.
Proof.
  unfold dl, tombstone. induction q as [|w q IH]; cbn [map find]; auto.
  destruct (w_id w =? r) eqn:E; cbn [w_id].
  - destruct (w_id w =? rid); auto.
  - destruct (w_id w =? rid); auto.
Qed.

Lemma In_tombstone w r q :
  In w (tombstone r q) ->
  exists w0, In w0 q /\ w_id w = w_id w0 /\ w_dl w = w_dl w0 /\
             ((w_id w0 = r /\ w_gen w = None) \/ (w_id w0 <> r /\ w = w0)).
Proof.
  unfold tombstone. intros H. apply in_map_iff in H. destruct H as (w0 & E & H).
  exists w0. split; auto. destruct (w_id w0 =? r) eqn:E2; subst w; cbn [w_id w_dl w_gen].
  - apply Z.eqb_eq in E2. auto.
  - apply Z.eqb_neq in E2. auto.
Qed.

Lemma tombstone_keep w r q : In w q -> w_id w <> r -> In w (tombstone r q).
Proof.
  intros H N. unfold tombstone. apply in_map_iff. exists w. split; auto.
  apply Z.eqb_neq in N. now rewrite N.
Qed.

Lemma live_tombstone_sub r q g : In g (live_gids (tombstone r q)) -> In g (live_gids q).
Proof.
  unfold live_gids, tombstone. rewrite !in_flat_map. intros (w & Hw & Hg).
  apply in_map_iff in Hw. destruct Hw as (w0 & E & H0). exists w0. split; auto.
  destruct (w_id w0 =? r); subst w; cbn [w_gen] in Hg; auto. destruct Hg.
Qed.

Lemma live_tombstone_nodup r q : NoDup (live_gids q) -> NoDup (live_gids (tombstone r q)).
Proof.
  unfold live_gids, tombstone. induction q as [|w q IH]; cbn [map flat_map]; auto.
  intros ND. apply NoDup_app_inv in ND. destruct ND as (N1 & N2 & N3).
  apply NoDup_app_intro; auto.
  - destruct (w_id w =? r); cbn [w_gen]; auto. constructor.
  - intros x Hx Hq. apply (N3 x).
    + destruct (w_id w =? r); cbn [w_gen] in Hx; auto. destruct Hx.
    + now apply (live_tombstone_sub r q x).
Qed.

Lemma live_In g q : In g (live_gids q) <-> exists w, In w q /\ w_gen w = Some g.
Proof.
  unfold live_gids. rewrite in_flat_map. split; intros (w & H1 & H2); exists w; split; auto.
  - destruct (w_gen w); cbn in H2; [|tauto]. destruct H2 as [->|[]]. reflexivity.
  - rewrite H2. now left.
Qed.

Lemma wrec_eta w : w = mkW (w_id w) (w_dl w) (w_gen w).
Proof. now destruct w. Qed.

(* ---- kill ----------------------------------------------------------------- *)
Lemma Inv_set_killq s f b k : Inv s f b -> Inv (set_killq s k) f b.
Proof. intros [? ? ? ? ? ? ? ? ? ? ?]; constructor; sproj; auto. Qed.

Lemma abs_st_kill s g g' :
  abs_st (set_killq s (g :: killq s)) g' = if g' =? g then None else abs_st s g'.
Proof.
  unfold abs_st. sproj. rewrite memz_cons.
  destruct (g' =? g); cbn [orb]; auto. now destruct (alookup g' (gens s)).
Qed.

Lemma kill_sim s t f b g :
  Inv s f b -> Rel s t f b -> Rel (set_killq s (g :: killq s)) (killed t g) f b.
Proof.
  intros HI HR. constructor; sproj.
  - intros g'. rewrite alookup_adel, abs_st_kill. destruct (g' =? g); auto. apply (r_st _ _ _ _ HR).
  - apply NoDup_akeys_adel, (r_nd _ _ _ _ HR).
  - apply (r_pc _ _ _ _ HR).
  - apply (r_val _ _ _ _ HR).
  - apply (r_fin _ _ _ _ HR).
  - rewrite filter_mem_remz. now rewrite (r_ord _ _ _ _ HR).
  - rewrite filter_mem_remz. now rewrite (r_nord _ _ _ _ HR).
  - intros x Hx. apply In_remz in Hx. apply (r_due _ _ _ _ HR). tauto.
  - apply (r_ran _ _ _ _ HR).
  - intros x Hx. assert (x <> g /\ In x (t_order t ++ t_norder t ++ t_due t)) as [N Hx'].
    { rewrite !in_app_iff in *. rewrite !In_remz in Hx. tauto. }
    rewrite alookup_adel_neq by auto. now apply (r_act _ _ _ _ HR).
Qed.

(* ---- start ---------------------------------------------------------------- *)
Lemma memz_proms_add g g' l :
  memz g' (if memz g l then l else l ++ [g]) = (g' =? g) || memz g' l.
Proof.
  destruct (memz g l) eqn:E.
  - destruct (g' =? g) eqn:E2; auto. apply Z.eqb_eq in E2. now subst.
  - rewrite memz_app. cbn [memz existsb]. rewrite orb_false_r. apply orb_comm.
Qed.

(* the spec side of a successful start, for any way the model appended *)
Lemma started_rel s s' t f b b' g :
  Rel s t f b ->
  (forall g', abs_st s' g' = if g' =? g then Some SAct else abs_st s g') ->
  pcs s' = pcs s -> pv s' = aset g None (pv s) -> gdone s' = gdone s ->
  abs_st s g = None ->
  (b' = b \/ b' = b ++ [g]) ->
  Rel s' (started t g) f b'.
Proof.
  intros HR Hst Hpc Hpv Hdone Hnone Hb. constructor; sproj.
  - intros g'. rewrite alookup_aset, Hst. destruct (g' =? g); auto. apply (r_st _ _ _ _ HR).
  - apply NoDup_akeys_aset, (r_nd _ _ _ _ HR).
  - rewrite Hpc. apply (r_pc _ _ _ _ HR).
  - rewrite Hpv. f_equal. apply (r_val _ _ _ _ HR).
  - rewrite Hdone. apply (r_fin _ _ _ _ HR).
  - apply (r_ord _ _ _ _ HR).
  - destruct Hb as [->| ->]; [apply (r_nord _ _ _ _ HR)|].
    apply filter_mem_snoc_other; [|apply (r_nord _ _ _ _ HR)].
    intros Hg. assert (alookup g (t_st t) = Some SAct) as E.
    { apply (r_act _ _ _ _ HR). rewrite !in_app_iff. auto. }
    rewrite (r_st _ _ _ _ HR), Hnone in E. discriminate.
  - apply (r_due _ _ _ _ HR).
  - apply (r_ran _ _ _ _ HR).
  - intros x Hx. rewrite alookup_aset. destruct (x =? g); auto. now apply (r_act _ _ _ _ HR).
Qed.

Lemma okwf_flag09 x t : okwf (flag09 x t) = okwf t. Proof. reflexivity. Qed.
Lemma okwf_flag08 x t : okwf (flag08 x t) = okwf t. Proof. reflexivity. Qed.

Lemma mstate0 s g : mstate s g = 0 -> abs_st s g = None.
Proof.
  unfold mstate, abs_st. destruct (alookup g (gens s)) as [[rid|]|]; auto;
  destruct (memz g (killq s)); auto; discriminate.
Qed.

Lemma mstate0_cases s g :
  mstate s g = 0 -> alookup g (gens s) = None \/ memz g (killq s) = true.
Proof.
  unfold mstate. destruct (alookup g (gens s)) as [[rid|]|]; auto;
  destruct (memz g (killq s)); auto; discriminate.
Qed.

Lemma start_sim s t f b g s' :
  Inv s f b -> Rel s t f b -> do_start s g = (s', OOk) -> ~ In g (gdone s) ->
  exists b', Inv s' f b' /\ Rel s' (started t g) f b' /\ (NoLeak s -> NoLeak s').
Proof.
  intros HI HR Hs Hnd. unfold do_start in Hs.
  destruct (g <? 0) eqn:Eneg; [discriminate|].
  destruct (mstate s g =? 0) eqn:Em; cbn [negb] in Hs; [|discriminate].
  apply Z.eqb_eq in Em. pose proof (mstate0 _ _ Em) as Hnone.
  destruct (memz g (killq s)) eqn:Ek.
  - destruct (alookup g (gens s)) as [[rid|]|] eqn:Eg; [| |discriminate].
    + (* paused, kill pending: tombstone and append *)
      injection Hs as <-. exists (b ++ [g]).
      assert (Hgn : ~ In g (f ++ b)).
      { intros H. apply (i_in _ _ _ HI) in H. congruence. }
      destruct (proj1 (i_w _ _ _ HI g rid) Eg) as (d0 & Hrec).
      assert (Hlive : forall rid' d, In (mkW rid' d (Some g)) (waitq s) -> rid' = rid).
      { intros rid' d H. assert (alookup g (gens s) = Some (Some rid')) by (apply (i_w _ _ _ HI); eauto).
        congruence. }
      assert (Hother : forall g' rid' d, g' <> g -> In (mkW rid' d (Some g')) (waitq s) -> rid' <> rid).
      { intros g' rid' d N H ->. pose proof (i_rid _ _ _ HI) as ND.
        pose proof (dl_In _ _ _ _ ND H) as E1. pose proof (dl_In _ _ _ _ ND Hrec) as E2.
        assert (alookup g' (gens s) = Some (Some rid)) as E3 by (apply (i_w _ _ _ HI); eauto).
        (* same identity, two records: the identities are duplicate-free *)
        clear E1 E2. revert H Hrec ND. generalize (waitq s). intros q.
        induction q as [|w q IH]; cbn [In map]; [tauto|].
        intros [->|H1] [E|H2] ND; inversion ND as [|? ? Hn ND']; subst.
        - injection E as _ E. congruence.
        - apply Hn. cbn [w_id]. change rid with (w_id (mkW rid d0 (Some g))). now apply in_map.
        - apply Hn. cbn [w_id]. change rid with (w_id (mkW rid d (Some g'))). now apply in_map.
        - auto. }
      split; [|split].
      * constructor; sproj.
        -- rewrite (i_act _ _ _ HI), <- app_assoc. cbn [app]. now rewrite map_app.
        -- rewrite app_assoc. apply NoDup_snoc'; [apply (i_nd _ _ _ HI)|auto].
        -- intros g'. rewrite alookup_aset, app_assoc, in_app_iff. cbn [In].
           destruct (g' =? g) eqn:E.
           ++ apply Z.eqb_eq in E. subst. tauto.
           ++ apply Z.eqb_neq in E. rewrite <- (i_in _ _ _ HI g').
              split; [intros [H|[H|[]]]; auto; congruence|auto].
        -- rewrite tombstone_ids. apply (i_rid _ _ _ HI).
        -- intros w Hw. apply In_tombstone in Hw. destruct Hw as (w0 & H0 & E & _).
           rewrite E. now apply (i_fresh _ _ _ HI).
        -- intros g' rid'. rewrite alookup_aset. destruct (g' =? g) eqn:E.
           ++ apply Z.eqb_eq in E. subst g'. split; [discriminate|].
              intros (d & Hd). exfalso. apply In_tombstone in Hd.
              destruct Hd as (w0 & H0 & E1 & E2 & [[E3 E4]|[E3 E4]]); cbn [w_id w_dl w_gen] in *.
              ** discriminate.
              ** subst w0. apply E3. cbn [w_id]. eapply Hlive; eauto.
           ++ apply Z.eqb_neq in E. rewrite (i_w _ _ _ HI g' rid'). split; intros (d & Hd); exists d.
              ** apply tombstone_keep; auto. cbn [w_id]. eapply Hother; eauto.
              ** apply In_tombstone in Hd.
                 destruct Hd as (w0 & H0 & E1 & E2 & [[E3 E4]|[E3 E4]]); cbn [w_id w_dl w_gen] in *.
                 --- discriminate.
                 --- now subst w0.
        -- apply live_tombstone_nodup, (i_live _ _ _ HI).
        -- intros g'. rewrite memz_proms_add, amem_aset. now rewrite (i_p _ _ _ HI).
        -- intros w Hw. apply In_tombstone in Hw. destruct Hw as (w0 & H0 & _ & E & _).
           rewrite E. now apply (i_dl _ _ _ HI).
        -- intros g' Hg'. rewrite alookup_aset. destruct (g' =? g) eqn:E.
           ++ apply Z.eqb_eq in E. subst. contradiction.
           ++ now apply (i_done _ _ _ HI).
        -- intros g'. rewrite amem_aset. destruct (g' =? g) eqn:E; [lia|apply (i_pos _ _ _ HI)].
      * eapply started_rel; eauto; sproj; auto.
        intros g'. unfold abs_st. sproj. rewrite alookup_aset, memz_remz.
        destruct (g' =? g) eqn:E; cbn [negb andb]; auto.
        destruct (alookup g' (gens s)) as [[rid'|]|]; auto.
        now rewrite dl_tombstone.
      * intros HL g' Hg'. sproj. rewrite memz_remz in Hg'. rewrite amem_aset.
        destruct (g' =? g); auto. cbn in Hg'. now apply HL.
    + (* active, kill pending: keeps its place *)
      injection Hs as <-. exists b.
      assert (Hgn : In g (f ++ b)) by (now apply (i_in _ _ _ HI)).
      split; [|split].
      * pose proof HI as [? ? ? ? ? ? ? ? ? ? ?]. constructor; sproj; auto.
        -- intros g'. rewrite alookup_aset. destruct (g' =? g) eqn:E; auto.
           apply Z.eqb_eq in E. subst. tauto.
        -- intros g' rid'. rewrite alookup_aset. destruct (g' =? g) eqn:E; auto.
           apply Z.eqb_eq in E. subst g'. split; [discriminate|].
           intros H. apply i_w0 in H. congruence.
        -- intros g'. rewrite memz_proms_add, amem_aset. now rewrite i_p0.
        -- intros g' Hg'. rewrite alookup_aset. destruct (g' =? g) eqn:E; auto.
           apply Z.eqb_eq in E. subst. contradiction.
        -- intros g'. rewrite amem_aset. destruct (g' =? g) eqn:E; [lia|apply i_pos0].
      * eapply started_rel; eauto; sproj; auto.
        intros g'. unfold abs_st. sproj. rewrite alookup_aset, memz_remz.
        destruct (g' =? g) eqn:E; cbn [negb andb]; auto.
      * intros HL g' Hg'. sproj. rewrite memz_remz in Hg'. rewrite amem_aset.
        destruct (g' =? g); auto. cbn in Hg'. now apply HL.
  - (* not known: append *)
    injection Hs as <-. exists (b ++ [g]).
    destruct (mstate0_cases _ _ Em) as [Eg|Eg]; [|congruence].
    assert (Hgn : ~ In g (f ++ b)).
    { intros H. apply (i_in _ _ _ HI) in H. congruence. }
    split; [|split].
    + pose proof HI as [? ? ? ? ? ? ? ? ? ? ?]. constructor; sproj; auto.
      * rewrite i_act0, <- app_assoc. cbn [app]. now rewrite map_app.
      * rewrite app_assoc. apply NoDup_snoc'; auto.
      * intros g'. rewrite alookup_aset, app_assoc, in_app_iff. cbn [In].
        destruct (g' =? g) eqn:E.
        -- apply Z.eqb_eq in E. subst. tauto.
        -- apply Z.eqb_neq in E. rewrite <- (i_in0 g').
           split; [intros [H|[H|[]]]; auto; congruence|auto].
      * intros g' rid'. rewrite alookup_aset. destruct (g' =? g) eqn:E; auto.
        apply Z.eqb_eq in E. subst g'. split; [discriminate|].
        intros H. apply i_w0 in H. congruence.
      * intros g'. rewrite memz_proms_add, amem_aset. now rewrite i_p0.
      * intros g' Hg'. rewrite alookup_aset. destruct (g' =? g) eqn:E; auto.
        apply Z.eqb_eq in E. subst. contradiction.
      * intros g'. rewrite amem_aset. destruct (g' =? g) eqn:E; [lia|apply i_pos0].
    + eapply started_rel; eauto; sproj; auto.
      intros g'. unfold abs_st. sproj. rewrite alookup_aset.
      destruct (g' =? g) eqn:E; auto. apply Z.eqb_eq in E. subst. now rewrite Ek.
    + intros HL g' Hg'. sproj. rewrite amem_aset. destruct (g' =? g); auto. now apply HL.
Qed.
