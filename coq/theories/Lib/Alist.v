(* Association lists keyed by Z: the model of Python dict (insertion order
   kept) and, with unit values / plain lists, of set.  Models only; the
   lemmas are the usual get/set laws. *)
From Coq Require Import ZArith List Bool Lia.
Import ListNotations.
Open Scope Z_scope.

Section Alist.
  Context {A : Type}.

  Fixpoint alookup (k : Z) (l : list (Z * A)) : option A :=
    match l with
    | [] => None
    | (k', v) :: l => if k =? k' then Some v else alookup k l
    end.

  (* dict[k] = v : overwrite in place, else append (insertion order) *)
  Fixpoint aset (k : Z) (v : A) (l : list (Z * A)) : list (Z * A) :=
    match l with
    | [] => [(k, v)]
    | (k', v') :: l => if k =? k' then (k, v) :: l else (k', v') :: aset k v l
    end.

  Fixpoint adel (k : Z) (l : list (Z * A)) : list (Z * A) :=
    match l with
    | [] => []
    | (k', v') :: l => if k =? k' then adel k l else (k', v') :: adel k l
    end.

  Definition amem (k : Z) (l : list (Z * A)) : bool :=
    match alookup k l with Some _ => true | None => false end.

  Definition akeys (l : list (Z * A)) : list Z := map fst l.

  Lemma alookup_aset_eq k v l : alookup k (aset k v l) = Some v.
  Proof.
    induction l as [|[k' v'] l IH]; cbn [aset alookup].
    - now rewrite Z.eqb_refl.
    - destruct (k =? k') eqn:E; cbn [alookup]; [now rewrite Z.eqb_refl|now rewrite E].
  Qed.

  Lemma alookup_aset_neq k k' v l : k <> k' -> alookup k (aset k' v l) = alookup k l.
  Proof.
    intros N. induction l as [|[k2 v2] l IH]; cbn [aset alookup].
    - destruct (k =? k') eqn:E; [apply Z.eqb_eq in E; contradiction|reflexivity].
    - destruct (k' =? k2) eqn:E2; cbn [alookup].
      + apply Z.eqb_eq in E2; subst k2.
        destruct (k =? k') eqn:E; [apply Z.eqb_eq in E; contradiction|reflexivity].
      + destruct (k =? k2); auto.
  Qed.

  Lemma alookup_aset k k' v l :
    alookup k (aset k' v l) = if k =? k' then Some v else alookup k l.
  Proof.
    destruct (k =? k') eqn:E.
    - apply Z.eqb_eq in E; subst; apply alookup_aset_eq.
    - apply Z.eqb_neq in E; now apply alookup_aset_neq.
  Qed.

  Lemma alookup_adel_eq k l : alookup k (adel k l) = None.
  Proof.
    induction l as [|[k' v'] l IH]; cbn [adel alookup]; auto.
    destruct (k =? k') eqn:E; auto. cbn [alookup]. now rewrite E.
  Qed.

  Lemma alookup_adel_neq k k' l : k <> k' -> alookup k (adel k' l) = alookup k l.
  Proof.
    intros N. induction l as [|[k2 v2] l IH]; cbn [adel alookup]; auto.
    destruct (k' =? k2) eqn:E2.
    - apply Z.eqb_eq in E2; subst k2.
      destruct (k =? k') eqn:E; [apply Z.eqb_eq in E; contradiction|auto].
    - cbn [alookup]. destruct (k =? k2); auto.
  Qed.

  Lemma alookup_adel k k' l :
    alookup k (adel k' l) = if k =? k' then None else alookup k l.
  Proof.
    destruct (k =? k') eqn:E.
    - apply Z.eqb_eq in E; subst; apply alookup_adel_eq.
    - apply Z.eqb_neq in E; now apply alookup_adel_neq.
  Qed.

  Lemma alookup_In k v l : alookup k l = Some v -> In (k, v) l.
  Proof.
    induction l as [|[k' v'] l IH]; cbn [alookup]; [discriminate|].
    destruct (k =? k') eqn:E.
    - apply Z.eqb_eq in E; subst. intros [= ->]. now left.
    - intros H. right. auto.
  Qed.

  Lemma alookup_None_notin k l : alookup k l = None <-> ~ In k (akeys l).
  Proof.
    unfold akeys. induction l as [|[k' v'] l IH]; cbn [alookup map fst In].
    - tauto.
    - destruct (k =? k') eqn:E.
      + apply Z.eqb_eq in E; subst. split; [discriminate|]. intros H; exfalso; apply H; now left.
      + apply Z.eqb_neq in E. rewrite IH. split; intros H.
        * intros [H1|H1]; [congruence|contradiction].
        * intros H1; apply H; now right.
  Qed.

  Lemma In_alookup_nodup k v l : NoDup (akeys l) -> In (k, v) l -> alookup k l = Some v.
  Proof.
    unfold akeys. induction l as [|[k' v'] l IH]; cbn [alookup map fst In]; [tauto|].
    intros ND [H|H].
    - injection H as -> ->. now rewrite Z.eqb_refl.
    - inversion ND as [|? ? Hn ND']; subst.
      destruct (k =? k') eqn:E.
      + apply Z.eqb_eq in E; subst. exfalso. apply Hn.
        change k' with (fst (k', v)). now apply in_map.
      + auto.
  Qed.

  Lemma akeys_aset_in k v l : amem k l = true -> akeys (aset k v l) = akeys l.
  Proof.
    unfold amem, akeys. induction l as [|[k' v'] l IH]; cbn [alookup aset map fst]; [discriminate|].
    destruct (k =? k') eqn:E; cbn [map fst].
    - apply Z.eqb_eq in E; now subst.
    - intros H. now rewrite IH.
  Qed.

  Lemma akeys_aset_notin k v l : amem k l = false -> akeys (aset k v l) = akeys l ++ [k].
  Proof.
    unfold amem, akeys. induction l as [|[k' v'] l IH]; cbn [alookup aset map fst app]; auto.
    destruct (k =? k') eqn:E; [discriminate|].
    cbn [map fst]. intros H. now rewrite IH.
  Qed.

  Lemma akeys_adel k l : akeys (adel k l) = filter (fun x => negb (k =? x)) (akeys l).
  Proof.
    unfold akeys. induction l as [|[k' v'] l IH]; cbn [adel map fst filter]; auto.
    destruct (k =? k'); cbn [negb map fst]; now rewrite IH.
  Qed.

  Lemma NoDup_snoc (x : Z) (l : list Z) : NoDup l -> ~ In x l -> NoDup (l ++ [x]).
  Proof.
    induction l as [|y l IH]; cbn [app]; intros ND NI.
    - constructor; [tauto|constructor].
    - inversion ND as [|? ? Hn ND']; subst. constructor.
      + rewrite in_app_iff. cbn [In]. intros [H|[H|[]]]; [contradiction|].
        subst. apply NI. now left.
      + apply IH; auto. intros H; apply NI; now right.
  Qed.

  Lemma NoDup_akeys_aset k v l : NoDup (akeys l) -> NoDup (akeys (aset k v l)).
  Proof.
    intros ND. destruct (amem k l) eqn:M.
    - now rewrite akeys_aset_in.
    - rewrite akeys_aset_notin by assumption.
      apply NoDup_snoc; auto. apply alookup_None_notin.
      unfold amem in M. destruct (alookup k l); [discriminate|reflexivity].
  Qed.

  Lemma NoDup_akeys_adel k l : NoDup (akeys l) -> NoDup (akeys (adel k l)).
  Proof. intros ND. rewrite akeys_adel. now apply NoDup_filter. Qed.

End Alist.
