(* C11: the store invariant (back-links, handle xor map, allocation) and the
   refinement between the store and the table of latest assignments, and
   their preservation by every operation of the model. *)
From Coq Require Import ZArith List Bool Lia.
From Desper Require Import Lib.Alist Tree.C11Model Tree.C11Lemmas.
Import ListNotations.
Open Scope Z_scope.

Definition child_m (s : store) (M : mid) (n : name) (c : mid) : Prop :=
  alookup n (m_maps (sm s M)) = Some c.
Definition child_h (s : store) (M : mid) (n : name) (h : hid) : Prop :=
  in_layers (m_layers (sm s M)) n h.

(* [used] = the values inserted so far *)
Record Inv (used : list ref) (s : store) : Prop := mkInv {
  I_xor : forall M n c h, child_m s M n c -> child_h s M n h -> False;
  I_bm : forall M n c, child_m s M n c ->
                       m_parent (sm s c) = Some M /\ m_key (sm s c) = Some n;
  I_bh : forall M n h, child_h s M n h -> sh s h = HR (Some M) (Some n);
  I_fresh : forall M, M < - snext s -> sm s M = m_default;
  I_cm : forall M n c, child_m s M n c -> - snext s <= c /\ (0 <= c -> In (RM c) used);
  I_ch : forall M n h, child_h s M n h -> In (RH h) used;
  I_next : 0 <= snext s;
}.

Definition Rel (s : store) (sp : spec) : Prop :=
  snext s = sp_n sp /\ forall M n, vis (sm s M) n = look sp M n.

Lemma Inv_init : Inv [] st_init.
Proof.
  constructor; cbn; try discriminate; auto; try lia.
  - intros M n h (L & [<-|[]] & HE). discriminate.
  - intros M n h (L & [<-|[]] & HE). discriminate.
Qed.

Lemma Rel_init : Rel st_init sp_init.
Proof. split; [reflexivity|]. intros M n. reflexivity. Qed.

Lemma Inv_used_mono used used' s :
  (forall v, In v used -> In v used') -> Inv used s -> Inv used' s.
Proof.
  intros Hs [X1 X2 X3 X4 X5 X6 X7]. constructor; auto.
  - intros M n c HC. destruct (X5 _ _ _ HC) as [A B]. split; auto.
  - intros M n h HC. apply Hs. eauto.
Qed.

(* a child map is never a visible handle *)
Lemma child_m_vis used s M n c :
  Inv used s -> child_m s M n c -> vis (sm s M) n = Some (RM c).
Proof.
  intros HI HC. unfold vis. destruct (cm_lookup n (m_layers (sm s M))) eqn:E.
  - exfalso. apply cm_lookup_in in E. eapply I_xor; eauto.
  - unfold child_m in HC. now rewrite HC.
Qed.

Lemma vis_not_map s M n :
  alookup n (m_maps (sm s M)) = None -> forall c, vis (sm s M) n <> Some (RM c).
Proof.
  intros HN c. unfold vis. destruct (cm_lookup n (m_layers (sm s M))); [discriminate|].
  rewrite HN. discriminate.
Qed.

Lemma no_child_h_default (n : name) (h : hid) : ~ in_layers (A:=hid) [[]] n h.
Proof. intros (L & [<-|[]] & HE). discriminate. Qed.

(* ---- one iteration of the loop over keys[:-1] --------------------------------- *)
Definition walk_step (s : store) (t : mid) (k : name) : store * mid :=
  let r := sm s t in
  let r1 := MR (m_parent r) (m_key r) (m_maps r) (cm_pop_all k (m_layers r)) in
  match alookup k (m_maps r1) with
  | Some c => (mput s t r1, c)
  | None =>
      let c := new_id s in
      let s1 := mput s t (MR (m_parent r1) (m_key r1) (aset k c (m_maps r1)) (m_layers r1)) in
      let s2 := mput s1 c (MR (Some t) (Some k) [] [[]]) in
      (ST (sm s2) (sh s2) (snext s + 1), c)
  end.

Lemma set_walk_cons s t k pre :
  set_walk s t (k :: pre) = let '(s', c) := walk_step s t k in set_walk s' c pre.
Proof.
  unfold walk_step. cbn [set_walk m_maps].
  destruct (alookup k (m_maps (sm s t))); reflexivity.
Qed.

Definition sp_step (sp : spec) (m : mid) (k : name) : spec * mid :=
  match look sp m k with
  | Some (RM c) => (sp, c)
  | _ => let c := - sp_n sp - 1 in
         (SP (tput (sp_tbl sp) m (aset k (RM c) (sp_tbl sp m))) (sp_n sp + 1), c)
  end.

Lemma sp_set_walk_cons sp m k pre :
  sp_set_walk sp m (k :: pre) = let '(sp', c) := sp_step sp m k in sp_set_walk sp' c pre.
Proof.
  unfold sp_step. cbn [sp_set_walk].
  destruct (look sp m k) as [[c|h]|]; reflexivity.
Qed.

Lemma walk_step_old used s sp t k c :
  Inv used s -> Rel s sp -> child_m s t k c ->
  let s' := fst (walk_step s t k) in
  snd (walk_step s t k) = c /\ Inv used s' /\ Rel s' sp /\ sp_step sp t k = (sp, c) /\
  snext s' = snext s /\ - snext s <= c.
Proof.
  intros HI [HR1 HR2] HC. unfold walk_step. cbn [m_maps].
  unfold child_m in HC. rewrite HC. cbn [fst snd].
  set (r := sm s t).
  set (r1 := MR (m_parent r) (m_key r) (m_maps r) (cm_pop_all k (m_layers r))).
  assert (Hsm : forall M, sm (mput s t r1) M = if M =? t then r1 else sm s M) by reflexivity.
  assert (Hmaps : forall M, m_maps (sm (mput s t r1) M) = m_maps (sm s M)).
  { intros M. rewrite Hsm. destruct (M =? t) eqn:E; auto. apply Z.eqb_eq in E. now subst. }
  assert (Hpar : forall M, m_parent (sm (mput s t r1) M) = m_parent (sm s M) /\
                           m_key (sm (mput s t r1) M) = m_key (sm s M)).
  { intros M. rewrite Hsm. destruct (M =? t) eqn:E; auto. apply Z.eqb_eq in E. now subst. }
  assert (Hch : forall M n h, child_h (mput s t r1) M n h -> child_h s M n h).
  { intros M n h. unfold child_h. rewrite Hsm. destruct (M =? t) eqn:E; auto.
    apply Z.eqb_eq in E. subst M. cbn [r1 m_layers]. intros H.
    now apply in_layers_pop_all in H. }
  assert (Hcm : forall M n c', child_m (mput s t r1) M n c' <-> child_m s M n c').
  { intros M n c'. unfold child_m. now rewrite Hmaps. }
  split; [reflexivity|]. split; [|split; [|split; [|split]]].
  - constructor.
    + intros M n c' h A B. apply Hcm in A. apply Hch in B. eapply I_xor; eauto.
    + intros M n c' A. apply Hcm in A. destruct (Hpar c') as [-> ->]. eapply I_bm; eauto.
    + intros M n h B. apply Hch in B. cbn [sh mput]. eapply I_bh; eauto.
    + intros M HM. cbn [snext mput] in HM. rewrite Hsm.
      destruct (M =? t) eqn:E; [|eapply I_fresh; eauto].
      apply Z.eqb_eq in E. subst M. exfalso.
      (* t has a child, so it is not a fresh record *)
      pose proof (I_fresh _ _ HI t HM) as HF. fold r in HF.
      assert (HC' : alookup k (m_maps r) = Some c) by exact HC.
      rewrite HF in HC'. discriminate.
    + intros M n c' A. apply Hcm in A. cbn [snext mput]. eapply I_cm; eauto.
    + intros M n h B. apply Hch in B. eapply I_ch; eauto.
    + cbn [snext mput]. eapply I_next; eauto.
  - split; [exact HR1|]. intros M n. rewrite <- HR2. rewrite Hsm.
    destruct (M =? t) eqn:E; auto. apply Z.eqb_eq in E. subst M.
    unfold vis. cbn [r1 m_layers m_maps]. rewrite cm_lookup_pop_all.
    destruct (n =? k) eqn:E2; auto. apply Z.eqb_eq in E2. subst n.
    fold r. destruct (cm_lookup k (m_layers r)) eqn:E3; auto.
    exfalso. apply cm_lookup_in in E3. eapply I_xor; eauto.
  - unfold sp_step. rewrite <- HR2. rewrite (child_m_vis _ _ _ _ _ HI HC). reflexivity.
  - reflexivity.
  - eapply I_cm; eauto.
Qed.

Lemma tput_look sp m l n M :
  look (SP (tput (sp_tbl sp) m l) n) M = fun x => if M =? m then alookup x l else look sp M x.
Proof. unfold look, tput. cbn [sp_tbl]. destruct (M =? m); reflexivity. Qed.

Lemma walk_step_new used s sp t k :
  Inv used s -> Rel s sp -> - snext s <= t -> alookup k (m_maps (sm s t)) = None ->
  let s' := fst (walk_step s t k) in
  let c := new_id s in
  snd (walk_step s t k) = c /\ Inv used s' /\
  (exists sp', sp_step sp t k = (sp', c) /\ Rel s' sp') /\
  snext s' = snext s + 1.
Proof.
  intros HI [HR1 HR2] Ht HN. unfold walk_step. cbn [m_maps m_parent m_key m_layers].
  rewrite HN. cbn [fst snd].
  set (r := sm s t). set (c := new_id s).
  set (rt := MR (m_parent r) (m_key r) (aset k c (m_maps r)) (cm_pop_all k (m_layers r))).
  set (rc := MR (Some t) (Some k) [] [[]]).
  set (s' := ST (sm (mput (mput s t rt) c rc)) (sh (mput (mput s t rt) c rc)) (snext s + 1)).
  change (c = c /\ Inv used s' /\
          (exists sp', sp_step sp t k = (sp', c) /\ Rel s' sp') /\ snext s' = snext s + 1).
  pose proof (I_next _ _ HI) as Hn0.
  assert (Hct : c <> t) by (unfold c, new_id; lia).
  assert (Hsm : forall M, sm s' M = if M =? c then rc else if M =? t then rt else sm s M)
    by reflexivity.
  assert (Hsh : sh s' = sh s) by reflexivity.
  assert (Hnx : snext s' = snext s + 1) by reflexivity.
  assert (Hcd : sm s c = m_default).
  { apply (I_fresh _ _ HI). unfold c, new_id. lia. }
  (* children in the new store *)
  assert (Hcm : forall M n c', child_m s' M n c' ->
            (M = t /\ n = k /\ c' = c) \/ ((M <> t \/ n <> k) /\ child_m s M n c')).
  { intros M n c'. unfold child_m. rewrite Hsm. destruct (M =? c) eqn:E1.
    { cbn. discriminate. }
    destruct (M =? t) eqn:E2.
    - apply Z.eqb_eq in E2. subst M. cbn [rt m_maps]. rewrite alookup_aset.
      destruct (n =? k) eqn:E3.
      + apply Z.eqb_eq in E3. intros [= <-]. left. auto.
      + apply Z.eqb_neq in E3. intros H. right. split; auto.
    - apply Z.eqb_neq in E2. intros H. right. split; auto. }
  assert (Hch : forall M n h, child_h s' M n h -> (M <> t \/ n <> k) /\ child_h s M n h).
  { intros M n h. unfold child_h. rewrite Hsm. destruct (M =? c) eqn:E1.
    { cbn [rc m_layers]. intros H. now apply no_child_h_default in H. }
    destruct (M =? t) eqn:E2.
    - apply Z.eqb_eq in E2. subst M. cbn [rt m_layers]. intros H.
      apply in_layers_pop_all in H. destruct H as [A B]. split; auto.
    - apply Z.eqb_neq in E2. intros H. split; auto. }
  split; [reflexivity|]. split; [|split].
  - constructor.
    + intros M n c' h A B. apply Hcm in A. apply Hch in B. destruct B as [B1 B2].
      destruct A as [(-> & -> & _)|[_ A]].
      * destruct B1 as [B1|B1]; now apply B1.
      * eapply I_xor; eauto.
    + intros M n c' A. apply Hcm in A. destruct A as [(-> & -> & ->)|[_ A]].
      * rewrite Hsm, Z.eqb_refl. cbn. auto.
      * destruct (I_cm _ _ HI _ _ _ A) as [A1 _].
        assert (c' <> c) by (unfold c, new_id; lia).
        rewrite Hsm. destruct (c' =? c) eqn:E1; [apply Z.eqb_eq in E1; contradiction|].
        destruct (c' =? t) eqn:E2.
        -- apply Z.eqb_eq in E2. subst c'. cbn [rt m_parent m_key]. eapply I_bm; eauto.
        -- eapply I_bm; eauto.
    + intros M n h B. apply Hch in B. destruct B as [_ B].
      change (sh s h = HR (Some M) (Some n)). eapply I_bh; eauto.
    + intros M HM. rewrite Hnx in HM. rewrite Hsm.
      destruct (M =? c) eqn:E1; [apply Z.eqb_eq in E1; unfold c, new_id in E1; lia|].
      destruct (M =? t) eqn:E2; [apply Z.eqb_eq in E2; lia|].
      apply (I_fresh _ _ HI). lia.
    + intros M n c' A. rewrite Hnx. apply Hcm in A. destruct A as [(-> & -> & ->)|[_ A]].
      * unfold c, new_id. split; lia.
      * destruct (I_cm _ _ HI _ _ _ A) as [A1 A2]. split; auto. lia.
    + intros M n h B. apply Hch in B. destruct B as [_ B]. eapply I_ch; eauto.
    + rewrite Hnx. lia.
  - assert (Hlk : forall c0, look sp t k <> Some (RM c0)).
    { intros c0. rewrite <- HR2. now apply vis_not_map. }
    exists (SP (tput (sp_tbl sp) t (aset k (RM c) (sp_tbl sp t))) (sp_n sp + 1)).
    split.
    + unfold sp_step. unfold c, new_id. rewrite HR1.
      destruct (look sp t k) as [[c0|h0]|] eqn:E; auto.
      exfalso. now apply (Hlk c0).
    + split; [cbn [sp_n]; rewrite Hnx; lia|].
      intros M n. rewrite tput_look. rewrite Hsm.
      destruct (M =? c) eqn:E1.
      * apply Z.eqb_eq in E1. subst M.
        destruct (c =? t) eqn:E2; [apply Z.eqb_eq in E2; contradiction|].
        rewrite <- HR2, Hcd. reflexivity.
      * destruct (M =? t) eqn:E2; [|apply HR2].
        apply Z.eqb_eq in E2. subst M. rewrite alookup_aset.
        unfold vis. cbn [rt m_layers m_maps]. rewrite cm_lookup_pop_all, alookup_aset.
        destruct (n =? k) eqn:E3; auto.
        fold r. change (vis r n = alookup n (sp_tbl sp t)). apply HR2.
  - exact Hnx.
Qed.

Lemma set_walk_inv used pre : forall s sp t,
  Inv used s -> Rel s sp -> - snext s <= t ->
  Inv used (fst (set_walk s t pre)) /\
  - snext (fst (set_walk s t pre)) <= snd (set_walk s t pre) /\
  exists sp1, sp_set_walk sp t pre = (sp1, snd (set_walk s t pre)) /\
              Rel (fst (set_walk s t pre)) sp1.
Proof.
  induction pre as [|k pre IH]; intros s sp t HI HR Ht.
  - cbn [set_walk sp_set_walk fst snd]. split; auto. split; auto. exists sp. auto.
  - rewrite set_walk_cons, sp_set_walk_cons.
    destruct (alookup k (m_maps (sm s t))) as [c|] eqn:E.
    + destruct (walk_step_old used s sp t k c HI HR E) as (A & B & C & D & F & G).
      destruct (walk_step s t k) as [s' c'] eqn:EW. cbn [fst snd] in *. subst c'.
      rewrite D. apply IH; auto. lia.
    + destruct (walk_step_new used s sp t k HI HR Ht E) as (A & B & (sp' & C & D) & F).
      destruct (walk_step s t k) as [s' c'] eqn:EW. cbn [fst snd] in *. subst c'.
      rewrite C. apply IH; auto. unfold new_id. lia.
Qed.

(* ---- the final assignment ---------------------------------------------------- *)
Definition set_final (s1 : store) (t : mid) (last : name) (v : ref) : store :=
  let r := sm s1 t in
  match v with
  | RM c =>
      let s2 := mput s1 t (MR (m_parent r) (m_key r) (aset last c (m_maps r))
                              (cm_pop_all last (m_layers r))) in
      let rc := sm s2 c in
      mput s2 c (MR (Some t) (Some last) (m_maps rc) (m_layers rc))
  | RH h =>
      let s2 := mput s1 t (MR (m_parent r) (m_key r) (adel last (m_maps r))
                              (cm_set last h (m_layers r))) in
      hput s2 h (HR (Some t) (Some last))
  end.

Lemma py_setitem_eq s m pre last v :
  py_setitem s m pre last v =
  set_final (fst (set_walk s m pre)) (snd (set_walk s m pre)) last v.
Proof.
  unfold py_setitem, set_final. destruct (set_walk s m pre) as [s1 t]. reflexivity.
Qed.

Lemma set_final_map used s sp t last c :
  Inv used s -> Rel s sp -> - snext s <= t -> 0 <= c -> ~ In (RM c) used ->
  Inv (RM c :: used) (set_final s t last (RM c)) /\
  Rel (set_final s t last (RM c))
      (SP (tput (sp_tbl sp) t (aset last (RM c) (sp_tbl sp t))) (sp_n sp)).
Proof.
  intros HI [HR1 HR2] Ht Hc Hnu. unfold set_final.
  set (r := sm s t).
  set (rt := MR (m_parent r) (m_key r) (aset last c (m_maps r)) (cm_pop_all last (m_layers r))).
  set (s2 := mput s t rt).
  set (s' := mput s2 c (MR (Some t) (Some last) (m_maps (sm s2 c)) (m_layers (sm s2 c)))).
  pose proof (I_next _ _ HI) as Hn0.
  assert (Hs2 : forall M, sm s2 M = if M =? t then rt else sm s M) by reflexivity.
  assert (Hsm : forall M, sm s' M =
            if M =? c then MR (Some t) (Some last) (m_maps (sm s2 c)) (m_layers (sm s2 c))
            else sm s2 M) by reflexivity.
  assert (Hmaps : forall M, m_maps (sm s' M) = m_maps (sm s2 M)).
  { intros M. rewrite Hsm. destruct (M =? c) eqn:E; auto. apply Z.eqb_eq in E. now subst. }
  assert (Hlay : forall M, m_layers (sm s' M) = m_layers (sm s2 M)).
  { intros M. rewrite Hsm. destruct (M =? c) eqn:E; auto. apply Z.eqb_eq in E. now subst. }
  (* c is nobody's child before *)
  assert (Hnc : forall M n, ~ child_m s M n c).
  { intros M n A. destruct (I_cm _ _ HI _ _ _ A) as [_ B]. auto. }
  assert (Hcm : forall M n c', child_m s' M n c' ->
            (M = t /\ n = last /\ c' = c) \/ ((M <> t \/ n <> last) /\ child_m s M n c')).
  { intros M n c'. unfold child_m. rewrite Hmaps, Hs2. destruct (M =? t) eqn:E2.
    - apply Z.eqb_eq in E2. subst M. cbn [rt m_maps]. rewrite alookup_aset.
      destruct (n =? last) eqn:E3.
      + apply Z.eqb_eq in E3. intros [= <-]. left. auto.
      + apply Z.eqb_neq in E3. intros H. right. split; auto.
    - apply Z.eqb_neq in E2. intros H. right. split; auto. }
  assert (Hch : forall M n h, child_h s' M n h -> (M <> t \/ n <> last) /\ child_h s M n h).
  { intros M n h. unfold child_h. rewrite Hlay, Hs2. destruct (M =? t) eqn:E2.
    - apply Z.eqb_eq in E2. subst M. cbn [rt m_layers]. intros H.
      apply in_layers_pop_all in H. destruct H as [A B]. split; auto.
    - apply Z.eqb_neq in E2. intros H. split; auto. }
  split.
  - constructor.
    + intros M n c' h A B. apply Hcm in A. apply Hch in B. destruct B as [B1 B2].
      destruct A as [(-> & -> & _)|[_ A]].
      * destruct B1 as [B1|B1]; now apply B1.
      * eapply I_xor; eauto.
    + intros M n c' A. apply Hcm in A. destruct A as [(-> & -> & ->)|[_ A]].
      * rewrite Hsm, Z.eqb_refl. cbn. auto.
      * assert (c' <> c) by (intros ->; eapply Hnc; eauto).
        rewrite Hsm. destruct (c' =? c) eqn:E1; [apply Z.eqb_eq in E1; contradiction|].
        rewrite Hs2. destruct (c' =? t) eqn:E2.
        -- apply Z.eqb_eq in E2. subst c'. cbn [rt m_parent m_key]. eapply I_bm; eauto.
        -- eapply I_bm; eauto.
    + intros M n h B. apply Hch in B. destruct B as [_ B].
      change (sh s h = HR (Some M) (Some n)). eapply I_bh; eauto.
    + intros M HM. change (M < - snext s) in HM. rewrite Hsm.
      destruct (M =? c) eqn:E1; [apply Z.eqb_eq in E1; lia|].
      rewrite Hs2. destruct (M =? t) eqn:E2; [apply Z.eqb_eq in E2; lia|].
      apply (I_fresh _ _ HI). lia.
    + intros M n c' A.
      change (- snext s <= c' /\ (0 <= c' -> In (RM c') (RM c :: used))). apply Hcm in A.
      destruct A as [(-> & -> & ->)|[_ A]].
      * split; [lia|]. intros _. now left.
      * destruct (I_cm _ _ HI _ _ _ A) as [A1 A2]. split; auto. intros H. right. auto.
    + intros M n h B. apply Hch in B. destruct B as [_ B]. right. eapply I_ch; eauto.
    + exact Hn0.
  - split; [exact HR1|]. intros M n. rewrite tput_look.
    unfold vis. rewrite Hmaps, Hlay, Hs2.
    destruct (M =? t) eqn:E2; [|apply HR2].
    apply Z.eqb_eq in E2. subst M. cbn [rt m_layers m_maps].
    rewrite cm_lookup_pop_all, !alookup_aset.
    destruct (n =? last) eqn:E3; auto.
    fold r. change (vis r n = alookup n (sp_tbl sp t)). apply HR2.
Qed.

Lemma set_final_handle used s sp t last h :
  Inv used s -> Rel s sp -> - snext s <= t -> ~ In (RH h) used ->
  Inv (RH h :: used) (set_final s t last (RH h)) /\
  Rel (set_final s t last (RH h))
      (SP (tput (sp_tbl sp) t (aset last (RH h) (sp_tbl sp t))) (sp_n sp)).
Proof.
  intros HI [HR1 HR2] Ht Hnu. unfold set_final.
  set (r := sm s t).
  set (rt := MR (m_parent r) (m_key r) (adel last (m_maps r)) (cm_set last h (m_layers r))).
  set (s2 := mput s t rt).
  set (s' := hput s2 h (HR (Some t) (Some last))).
  pose proof (I_next _ _ HI) as Hn0.
  assert (Hsm : forall M, sm s' M = if M =? t then rt else sm s M) by reflexivity.
  assert (Hsh : forall x, sh s' x = if x =? h then HR (Some t) (Some last) else sh s x)
    by reflexivity.
  assert (Hnh : forall M n, ~ child_h s M n h).
  { intros M n A. apply Hnu. eapply I_ch; eauto. }
  assert (Hcm : forall M n c', child_m s' M n c' -> (M <> t \/ n <> last) /\ child_m s M n c').
  { intros M n c'. unfold child_m. rewrite Hsm. destruct (M =? t) eqn:E2.
    - apply Z.eqb_eq in E2. subst M. cbn [rt m_maps]. rewrite alookup_adel.
      destruct (n =? last) eqn:E3; [discriminate|]. apply Z.eqb_neq in E3. auto.
    - apply Z.eqb_neq in E2. auto. }
  assert (Hch : forall M n h', child_h s' M n h' ->
            (M = t /\ n = last /\ h' = h) \/ child_h s M n h').
  { intros M n h'. unfold child_h. rewrite Hsm. destruct (M =? t) eqn:E2; auto.
    apply Z.eqb_eq in E2. subst M. cbn [rt m_layers]. intros H.
    apply in_layers_set in H. destruct H as [[-> ->]|H]; auto. }
  split.
  - constructor.
    + intros M n c' h' A B. apply Hcm in A. destruct A as [A1 A2]. apply Hch in B.
      destruct B as [(-> & -> & _)|B].
      * destruct A1 as [A1|A1]; now apply A1.
      * eapply I_xor; eauto.
    + intros M n c' A. apply Hcm in A. destruct A as [_ A]. rewrite Hsm.
      destruct (c' =? t) eqn:E2.
      * apply Z.eqb_eq in E2. subst c'. cbn [rt m_parent m_key]. eapply I_bm; eauto.
      * eapply I_bm; eauto.
    + intros M n h' B. apply Hch in B. rewrite Hsh. destruct B as [(-> & -> & ->)|B].
      * now rewrite Z.eqb_refl.
      * destruct (h' =? h) eqn:E; [|eapply I_bh; eauto].
        apply Z.eqb_eq in E. subst h'. exfalso. eapply Hnh; eauto.
    + intros M HM. change (M < - snext s) in HM. rewrite Hsm.
      destruct (M =? t) eqn:E2; [apply Z.eqb_eq in E2; lia|].
      apply (I_fresh _ _ HI). lia.
    + intros M n c' A.
      change (- snext s <= c' /\ (0 <= c' -> In (RM c') (RH h :: used))). apply Hcm in A.
      destruct A as [_ A]. destruct (I_cm _ _ HI _ _ _ A) as [A1 A2]. split; auto.
      intros H. right. auto.
    + intros M n h' B. apply Hch in B. destruct B as [(-> & -> & ->)|B]; [now left|].
      right. eapply I_ch; eauto.
    + exact Hn0.
  - split; [exact HR1|]. intros M n. rewrite tput_look. rewrite Hsm.
    destruct (M =? t) eqn:E2; [|apply HR2].
    apply Z.eqb_eq in E2. subst M. unfold vis. cbn [rt m_layers m_maps].
    rewrite cm_lookup_set, alookup_adel, alookup_aset.
    destruct (n =? last) eqn:E3; auto.
    fold r. change (vis r n = alookup n (sp_tbl sp t)). apply HR2.
Qed.

(* ---- handles.maps.insert(0, {}) ------------------------------------------------ *)
Lemma py_push_inv used s sp m :
  Inv used s -> Rel s sp -> - snext s <= m ->
  Inv used (py_push s m) /\ Rel (py_push s m) sp.
Proof.
  intros HI [HR1 HR2] Hm. unfold py_push.
  set (r := sm s m).
  set (rt := MR (m_parent r) (m_key r) (m_maps r) ([] :: m_layers r)).
  set (s' := mput s m rt).
  assert (Hsm : forall M, sm s' M = if M =? m then rt else sm s M) by reflexivity.
  assert (Hcm : forall M n c', child_m s' M n c' -> child_m s M n c').
  { intros M n c'. unfold child_m. rewrite Hsm. destruct (M =? m) eqn:E2; auto.
    apply Z.eqb_eq in E2. now subst M. }
  assert (Hch : forall M n h', child_h s' M n h' -> child_h s M n h').
  { intros M n h'. unfold child_h. rewrite Hsm. destruct (M =? m) eqn:E2; auto.
    apply Z.eqb_eq in E2. subst M. cbn [rt m_layers]. apply in_layers_push. }
  split.
  - constructor.
    + intros M n c' h' A B. apply Hcm in A. apply Hch in B. eapply I_xor; eauto.
    + intros M n c' A. apply Hcm in A. rewrite Hsm. destruct (c' =? m) eqn:E2.
      * apply Z.eqb_eq in E2. subst c'. cbn [rt m_parent m_key]. eapply I_bm; eauto.
      * eapply I_bm; eauto.
    + intros M n h' B. apply Hch in B. change (sh s h' = HR (Some M) (Some n)).
      eapply I_bh; eauto.
    + intros M HM. change (M < - snext s) in HM. rewrite Hsm.
      destruct (M =? m) eqn:E2; [apply Z.eqb_eq in E2; lia|].
      apply (I_fresh _ _ HI). lia.
    + intros M n c' A. change (- snext s <= c' /\ (0 <= c' -> In (RM c') used)).
      apply Hcm in A. eapply I_cm; eauto.
    + intros M n h' B. apply Hch in B. eapply I_ch; eauto.
    + exact (I_next _ _ HI).
  - split; [exact HR1|]. intros M n. rewrite <- HR2. rewrite Hsm.
    destruct (M =? m) eqn:E2; auto. apply Z.eqb_eq in E2. subst M. reflexivity.
Qed.

(* ---- clear ----------------------------------------------------------------------- *)
Definition zmem (x : Z) (l : list Z) : bool := existsb (Z.eqb x) l.
Definition hparent_is (m : mid) (r : hrec) : bool :=
  match h_parent r with Some p => p =? m | None => false end.
Definition mparent_is (m : mid) (r : mrec) : bool :=
  match m_parent r with Some p => p =? m | None => false end.

Lemma zmem_In x l : In x l -> zmem x l = true.
Proof.
  intros H. unfold zmem. apply existsb_exists. exists x. split; auto. apply Z.eqb_refl.
Qed.

Lemma detach_h_one m s x :
  sm (detach_h m s x) = sm s /\ snext (detach_h m s x) = snext s /\
  forall h, sh (detach_h m s x) h =
            if (h =? x) && hparent_is m (sh s h) then HR None None else sh s h.
Proof.
  unfold detach_h, hparent_is. destruct (h_parent (sh s x)) as [p|] eqn:E.
  - destruct (p =? m) eqn:E2.
    + split; [reflexivity|]. split; [reflexivity|]. intros h. cbn [sh hput].
      destruct (h =? x) eqn:E3; auto. apply Z.eqb_eq in E3. subst h.
      rewrite E, E2. reflexivity.
    + split; [reflexivity|]. split; [reflexivity|]. intros h.
      destruct (h =? x) eqn:E3; auto. apply Z.eqb_eq in E3. subst h.
      rewrite E, E2. reflexivity.
  - split; [reflexivity|]. split; [reflexivity|]. intros h.
    destruct (h =? x) eqn:E3; auto. apply Z.eqb_eq in E3. subst h. rewrite E. reflexivity.
Qed.

Lemma detach_h_fold m l : forall s,
  sm (fold_left (detach_h m) l s) = sm s /\
  snext (fold_left (detach_h m) l s) = snext s /\
  forall h, sh (fold_left (detach_h m) l s) h =
            if zmem h l && hparent_is m (sh s h) then HR None None else sh s h.
Proof.
  induction l as [|x l IH]; intros s; cbn [fold_left].
  - split; auto.
  - destruct (detach_h_one m s x) as (A1 & A2 & A3).
    destruct (IH (detach_h m s x)) as (B1 & B2 & B3).
    split; [congruence|]. split; [congruence|]. intros h. rewrite B3, A3.
    unfold zmem. cbn [existsb]. fold (zmem h l).
    destruct (h =? x); destruct (zmem h l); destruct (hparent_is m (sh s h)) eqn:E;
      cbn [andb orb]; auto; rewrite ?E; auto.
Qed.

Lemma detach_m_one m s x :
  sh (detach_m m s x) = sh s /\ snext (detach_m m s x) = snext s /\
  forall c, sm (detach_m m s x) c =
            if (c =? x) && mparent_is m (sm s c)
            then MR None None (m_maps (sm s c)) (m_layers (sm s c)) else sm s c.
Proof.
  unfold detach_m, mparent_is. destruct (m_parent (sm s x)) as [p|] eqn:E.
  - destruct (p =? m) eqn:E2.
    + split; [reflexivity|]. split; [reflexivity|]. intros c. cbn [sm mput].
      destruct (c =? x) eqn:E3; auto. apply Z.eqb_eq in E3. subst c.
      rewrite E, E2. reflexivity.
    + split; [reflexivity|]. split; [reflexivity|]. intros c.
      destruct (c =? x) eqn:E3; auto. apply Z.eqb_eq in E3. subst c.
      rewrite E, E2. reflexivity.
  - split; [reflexivity|]. split; [reflexivity|]. intros c.
    destruct (c =? x) eqn:E3; auto. apply Z.eqb_eq in E3. subst c. rewrite E. reflexivity.
Qed.

Lemma detach_m_fold m l : forall s,
  sh (fold_left (detach_m m) l s) = sh s /\
  snext (fold_left (detach_m m) l s) = snext s /\
  forall c, sm (fold_left (detach_m m) l s) c =
            if zmem c l && mparent_is m (sm s c)
            then MR None None (m_maps (sm s c)) (m_layers (sm s c)) else sm s c.
Proof.
  induction l as [|x l IH]; intros s; cbn [fold_left].
  - split; auto.
  - destruct (detach_m_one m s x) as (A1 & A2 & A3).
    destruct (IH (detach_m m s x)) as (B1 & B2 & B3).
    split; [congruence|]. split; [congruence|]. intros c. rewrite B3, A3.
    unfold zmem. cbn [existsb]. fold (zmem c l).
    destruct (c =? x); destruct (zmem c l); destruct (mparent_is m (sm s c)) eqn:E;
      cbn [andb orb]; auto; rewrite ?E; auto.
Qed.

Lemma child_m_listed s m n c : child_m s m n c -> In c (map snd (m_maps (sm s m))).
Proof.
  unfold child_m. intros H. apply alookup_In in H.
  change c with (snd (n, c)). now apply in_map.
Qed.

Lemma child_h_listed s m n h :
  child_h s m n h -> In h (concat (map (map snd) (m_layers (sm s m)))).
Proof.
  intros (L & HL & HE). apply in_concat. exists (map snd L). split.
  - now apply in_map.
  - apply alookup_In in HE. change h with (snd (n, h)). now apply in_map.
Qed.

Lemma py_clear_char used s m :
  Inv used s ->
  let s' := py_clear s m in
  snext s' = snext s /\
  (forall M, m_maps (sm s' M) = if M =? m then [] else m_maps (sm s M)) /\
  (forall M, m_layers (sm s' M) = if M =? m then [[]] else m_layers (sm s M)) /\
  (forall c, (m_parent (sm s' c) = m_parent (sm s c) /\ m_key (sm s' c) = m_key (sm s c)) \/
             (m_parent (sm s c) = Some m /\ m_parent (sm s' c) = None /\ m_key (sm s' c) = None)) /\
  (forall h, sh s' h = sh s h \/ (h_parent (sh s h) = Some m /\ sh s' h = HR None None)) /\
  (forall n c, child_m s m n c -> m_parent (sm s' c) = None /\ m_key (sm s' c) = None) /\
  (forall n h, child_h s m n h -> sh s' h = HR None None).
Proof.
  intros HI. unfold py_clear.
  set (hs := concat (map (map snd) (m_layers (sm s m)))).
  set (cs := map snd (m_maps (sm s m))).
  destruct (detach_h_fold m hs s) as (A1 & A2 & A3).
  set (s1 := fold_left (detach_h m) hs s) in *.
  destruct (detach_m_fold m cs s1) as (B1 & B2 & B3).
  set (s2 := fold_left (detach_m m) cs s1) in *.
  set (s' := mput s2 m (MR (m_parent (sm s2 m)) (m_key (sm s2 m)) [] [[]])).
  assert (Hsm : forall M, sm s' M =
            if M =? m then MR (m_parent (sm s2 m)) (m_key (sm s2 m)) [] [[]] else sm s2 M)
    by reflexivity.
  assert (Hs2 : forall c, sm s2 c = if zmem c cs && mparent_is m (sm s c)
                                    then MR None None (m_maps (sm s c)) (m_layers (sm s c))
                                    else sm s c).
  { intros c. rewrite B3, A1. reflexivity. }
  assert (Hsh : forall h, sh s' h = if zmem h hs && hparent_is m (sh s h)
                                    then HR None None else sh s h).
  { intros h. change (sh s' h) with (sh s2 h). rewrite B1. apply A3. }
  assert (Hpk : forall c,
            (m_parent (sm s' c) = m_parent (sm s c) /\ m_key (sm s' c) = m_key (sm s c)) \/
            (m_parent (sm s c) = Some m /\ m_parent (sm s' c) = None /\ m_key (sm s' c) = None)).
  { intros c.
    assert (X : (m_parent (sm s2 c) = m_parent (sm s c) /\ m_key (sm s2 c) = m_key (sm s c)) \/
                (m_parent (sm s c) = Some m /\ m_parent (sm s2 c) = None /\
                 m_key (sm s2 c) = None)).
    { rewrite Hs2. destruct (zmem c cs && mparent_is m (sm s c)) eqn:E; auto.
      right. apply andb_true_iff in E. destruct E as [_ E]. unfold mparent_is in E.
      destruct (m_parent (sm s c)) as [p|]; [|discriminate]. apply Z.eqb_eq in E. subst p.
      cbn. auto. }
    rewrite Hsm. destruct (c =? m) eqn:E; auto. apply Z.eqb_eq in E. subst c.
    cbn [m_parent m_key]. exact X. }
  change (snext s' = snext s /\
  (forall M, m_maps (sm s' M) = if M =? m then [] else m_maps (sm s M)) /\
  (forall M, m_layers (sm s' M) = if M =? m then [[]] else m_layers (sm s M)) /\
  (forall c, (m_parent (sm s' c) = m_parent (sm s c) /\ m_key (sm s' c) = m_key (sm s c)) \/
             (m_parent (sm s c) = Some m /\ m_parent (sm s' c) = None /\ m_key (sm s' c) = None)) /\
  (forall h, sh s' h = sh s h \/ (h_parent (sh s h) = Some m /\ sh s' h = HR None None)) /\
  (forall n c, child_m s m n c -> m_parent (sm s' c) = None /\ m_key (sm s' c) = None) /\
  (forall n h, child_h s m n h -> sh s' h = HR None None)).
  split; [change (snext s2 = snext s); congruence|].
  split; [|split; [|split; [exact Hpk|split; [|split]]]].
  - intros M. rewrite Hsm. destruct (M =? m); auto. rewrite Hs2.
    destruct (zmem M cs && mparent_is m (sm s M)); auto.
  - intros M. rewrite Hsm. destruct (M =? m); auto. rewrite Hs2.
    destruct (zmem M cs && mparent_is m (sm s M)); auto.
  - intros h. rewrite Hsh. destruct (zmem h hs && hparent_is m (sh s h)) eqn:E; auto.
    right. apply andb_true_iff in E. destruct E as [_ E]. unfold hparent_is in E.
    destruct (h_parent (sh s h)) as [p|]; [|discriminate]. apply Z.eqb_eq in E. subst p. auto.
  - intros n c HC. destruct (I_bm _ _ HI _ _ _ HC) as [P _].
    assert (X : m_parent (sm s2 c) = None /\ m_key (sm s2 c) = None).
    { rewrite Hs2. rewrite (zmem_In c cs (child_m_listed _ _ _ _ HC)).
      unfold mparent_is. rewrite P, Z.eqb_refl. cbn. auto. }
    rewrite Hsm. destruct (c =? m) eqn:E; auto. apply Z.eqb_eq in E. subst c. exact X.
  - intros n h HC. rewrite Hsh. rewrite (zmem_In h hs (child_h_listed _ _ _ _ HC)).
    unfold hparent_is. rewrite (I_bh _ _ HI _ _ _ HC). cbn. now rewrite Z.eqb_refl.
Qed.

Lemma py_clear_inv used s sp m :
  Inv used s -> Rel s sp -> - snext s <= m ->
  Inv used (py_clear s m) /\ Rel (py_clear s m) (SP (tput (sp_tbl sp) m []) (sp_n sp)).
Proof.
  intros HI [HR1 HR2] Hm.
  destruct (py_clear_char used s m HI) as (C0 & C1 & C2 & C3 & C4 & C5 & C6).
  set (s' := py_clear s m) in *.
  assert (Hcm : forall M n c, child_m s' M n c -> M <> m /\ child_m s M n c).
  { intros M n c. unfold child_m. rewrite C1. destruct (M =? m) eqn:E; [discriminate|].
    apply Z.eqb_neq in E. auto. }
  assert (Hch : forall M n h, child_h s' M n h -> M <> m /\ child_h s M n h).
  { intros M n h. unfold child_h. rewrite C2. destruct (M =? m) eqn:E.
    - intros H. now apply no_child_h_default in H.
    - apply Z.eqb_neq in E. auto. }
  split.
  - constructor.
    + intros M n c h A B. apply Hcm in A. apply Hch in B. eapply I_xor; [eauto|apply A|apply B].
    + intros M n c A. apply Hcm in A. destruct A as [A0 A]. destruct (I_bm _ _ HI _ _ _ A) as [P K].
      destruct (C3 c) as [[-> ->]|(P' & _)]; auto. rewrite P in P'. congruence.
    + intros M n h B. apply Hch in B. destruct B as [B0 B]. pose proof (I_bh _ _ HI _ _ _ B) as P.
      destruct (C4 h) as [->|(P' & _)]; auto. rewrite P in P'. cbn in P'. congruence.
    + intros M HM. rewrite C0 in HM. pose proof (I_fresh _ _ HI M HM) as HF.
      assert (M <> m) by lia.
      destruct (sm s' M) as [p k ms ls] eqn:ES.
      pose proof (C1 M) as X1. pose proof (C2 M) as X2. rewrite ES in X1, X2.
      destruct (M =? m) eqn:E; [apply Z.eqb_eq in E; contradiction|].
      rewrite HF in X1, X2. cbn in X1, X2. subst ms ls.
      destruct (C3 M) as [[X3 X4]|(X3 & _)].
      * rewrite ES, HF in X3, X4. cbn in X3, X4. subst. reflexivity.
      * rewrite HF in X3. discriminate.
    + intros M n c A. rewrite C0. apply Hcm in A. destruct A as [_ A]. eapply I_cm; eauto.
    + intros M n h B. apply Hch in B. destruct B as [_ B]. eapply I_ch; eauto.
    + rewrite C0. exact (I_next _ _ HI).
  - split; [cbn [sp_n]; congruence|]. intros M n. rewrite tput_look.
    unfold vis. rewrite C1, C2. destruct (M =? m) eqn:E; [reflexivity|]. apply HR2.
Qed.

(* ---- every operation ----------------------------------------------------------- *)
Lemma exec_inv used s sp o :
  Inv used s -> Rel s sp -> op_guard s o = true ->
  (forall v, In v (op_value o) -> 0 <= ref_id v /\ ~ In v used) ->
  Inv (op_value o ++ used) (exec s o) /\ Rel (exec s o) (sp_exec sp o).
Proof.
  intros HI HR HG HV. unfold op_guard, allocated in HG. apply Z.leb_le in HG.
  destruct o as [m pre last v|m|m]; cbn [op_target] in HG; cbn [exec sp_exec op_value app].
  - rewrite py_setitem_eq.
    destruct (set_walk_inv used pre s sp m HI HR HG) as (A & B & sp1 & C & D).
    rewrite C. destruct (HV v (or_introl eq_refl)) as [V1 V2].
    destruct v as [c|h]; cbn [ref_id] in V1.
    + now apply set_final_map.
    + now apply set_final_handle.
  - now apply py_clear_inv.
  - now apply py_push_inv.
Qed.
