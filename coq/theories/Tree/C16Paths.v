(* C16: the C11 store seen along paths from the populated map (object 0):
   which paths lead to a map, and the column of handles under a key.  Frame
   lemmas for the steps of __setitem__ and for handles.maps.insert(0, {}). *)
From Coq Require Import ZArith List Bool Lia.
From Desper Require Import Lib.Alist Tree.C11Model Tree.C11Lemmas Tree.C11Inv Tree.C16Model.
Import ListNotations.
Open Scope Z_scope.

(* ---- columns ---------------------------------------------------------------------- *)
Lemma column_nil k : column k [] = [].
Proof. reflexivity. Qed.

Lemma column_cons k l ls :
  column k (l :: ls) = (match alookup k l with Some h => [h] | None => [] end) ++ column k ls.
Proof. reflexivity. Qed.

Lemma column_pop_all k n ls :
  column n (cm_pop_all k ls) = if n =? k then [] else column n ls.
Proof.
  induction ls as [|l ls IH]; cbn [cm_pop_all map].
  - now destruct (n =? k).
  - fold (cm_pop_all k ls). rewrite !column_cons, IH, alookup_adel.
    destruct (n =? k); reflexivity.
Qed.

Lemma column_empty_lookup k ls : column k ls = [] <-> cm_lookup k ls = None.
Proof.
  induction ls as [|l ls IH]; cbn [cm_lookup]; [tauto|].
  rewrite column_cons. destruct (alookup k l).
  - split; discriminate.
  - exact IH.
Qed.

Lemma same_layers_column a : forall b k, same_layers a b = true -> column k a = column k b.
Proof.
  induction a as [|x a IH]; intros [|y b] k; cbn [same_layers]; try discriminate; auto.
  intros H. apply andb_true_iff in H. destruct H as [H1 H2].
  rewrite !column_cons, (same_dict_lookup _ _ H1 k), (IH b k H2). reflexivity.
Qed.

(* per object and name: the column, and what the first layer has *)
Definition ncol (s : store) (x : mid) (n : Z) : list Z := column n (m_layers (sm s x)).
Definition lay0 (s : store) (x : mid) (n : Z) : option Z :=
  match m_layers (sm s x) with l0 :: _ => alookup n l0 | [] => None end.

Lemma ncol_lay0 s x n :
  ncol s x n = (match lay0 s x n with Some h => [h] | None => [] end) ++
               column n (List.tl (m_layers (sm s x))).
Proof.
  unfold ncol, lay0. destruct (m_layers (sm s x)) as [|l0 ls]; [reflexivity|].
  now rewrite column_cons.
Qed.

(* ---- walks ------------------------------------------------------------------------- *)
Lemma walk_app s : forall p m q,
  walk s m (p ++ q) = match walk s m p with Some t => walk s t q | None => None end.
Proof.
  induction p as [|k p IH]; intros m q; cbn [app walk]; [reflexivity|].
  destruct (alookup k (m_maps (sm s m))); [apply IH|reflexivity].
Qed.

Lemma walk_same_maps s s' :
  (forall x, m_maps (sm s' x) = m_maps (sm s x)) -> forall p m, walk s' m p = walk s m p.
Proof.
  intros H. induction p as [|k p IH]; intros m; cbn [walk]; [reflexivity|].
  rewrite H. destruct (alookup k (m_maps (sm s m))); auto.
Qed.

(* the object a non-empty walk ends in is somebody's child *)
Lemma walk_child s : forall p m x,
  walk s m p = Some x -> (p = [] /\ x = m) \/ exists M n, child_m s M n x.
Proof.
  induction p as [|k p IH] using rev_ind; intros m x; cbn [walk].
  - intros [= <-]. now left.
  - rewrite walk_app. destruct (walk s m p) as [t|]; [|discriminate]. cbn [walk].
    destruct (alookup k (m_maps (sm s t))) as [c|] eqn:E; [|discriminate].
    intros [= <-]. right. exists t, k. exact E.
Qed.

(* paths from an object that is nobody's child are unique *)
Lemma unique_path used s r : Inv used s -> m_parent (sm s r) = None ->
  forall p q x, walk s r p = Some x -> walk s r q = Some x -> p = q.
Proof.
  intros HI HR. induction p as [|k p IH] using rev_ind; intros q x HP HQ.
  - cbn in HP. injection HP as <-.
    destruct q as [|k' q] using rev_ind; [reflexivity|]. exfalso. clear IHq.
    rewrite walk_app in HQ. destruct (walk s r q) as [t|]; [|discriminate]. cbn [walk] in HQ.
    destruct (alookup k' (m_maps (sm s t))) as [c|] eqn:E; [|discriminate].
    injection HQ as ->. destruct (I_bm _ _ HI t k' r E) as [P _]. congruence.
  - rewrite walk_app in HP. destruct (walk s r p) as [t|] eqn:EP; [|discriminate].
    cbn [walk] in HP. destruct (alookup k (m_maps (sm s t))) as [c|] eqn:E; [|discriminate].
    injection HP as <-. destruct (I_bm _ _ HI t k c E) as [P K].
    destruct q as [|k' q] using rev_ind.
    + cbn in HQ. injection HQ as <-. congruence.
    + clear IHq. rewrite walk_app in HQ. destruct (walk s r q) as [t'|] eqn:EQ; [|discriminate].
      cbn [walk] in HQ. destruct (alookup k' (m_maps (sm s t'))) as [c'|] eqn:E'; [|discriminate].
      injection HQ as ->. destruct (I_bm _ _ HI t' k' c E') as [P' K'].
      assert (t' = t) by congruence. assert (k' = k) by congruence. subst t' k'.
      now rewrite (IH q t eq_refl EQ).
Qed.

(* a fresh, empty child c is hung under (t, k): the walks that exist
   afterwards are the old ones and the one that ends with that step *)
Lemma walk_plus s s' t k c :
  (forall x, m_maps (sm s' x) =
             if x =? t then aset k c (m_maps (sm s t))
             else if x =? c then [] else m_maps (sm s x)) ->
  alookup k (m_maps (sm s t)) = None -> c <> t ->
  (forall M n, ~ child_m s M n c) ->
  forall q m x, m <> c ->
    (walk s' m q = Some x <->
     walk s m q = Some x \/ (exists q1, q = q1 ++ [k] /\ walk s m q1 = Some t /\ x = c)).
Proof.
  intros HM HK Hct HNC. induction q as [|k' q IH]; intros m x Hm.
  - cbn [walk]. split; [now left|]. intros [H|(q1 & H & _)]; [exact H|].
    destruct q1; discriminate.
  - cbn [walk]. rewrite HM. destruct (m =? t) eqn:Et.
    + apply Z.eqb_eq in Et. subst m. rewrite alookup_aset. destruct (k' =? k) eqn:Ek.
      * apply Z.eqb_eq in Ek. subst k'. rewrite HK.
        (* the new step: only the empty walk continues from c *)
        assert (HC : forall q, walk s' c q = Some x <-> q = [] /\ x = c).
        { intros [|k2 q2]; cbn [walk].
          - split; [intros [= <-]; auto|intros [_ ->]; reflexivity].
          - rewrite HM. destruct (c =? t) eqn:E1; [apply Z.eqb_eq in E1; contradiction|].
            rewrite Z.eqb_refl. cbn. split; [discriminate|intros [H _]; discriminate]. }
        rewrite HC. split.
        -- intros [-> ->]. right. exists []. cbn. auto.
        -- intros [H|(q1 & H1 & H2 & H3)]; [discriminate|].
           destruct q1 as [|k1 q1].
           ++ cbn in H1. injection H1 as ->. auto.
           ++ cbn [app] in H1. injection H1 as <- ->. cbn [walk] in H2. rewrite HK in H2.
              discriminate.
      * destruct (alookup k' (m_maps (sm s t))) as [y|] eqn:Ey.
        -- assert (Hy : y <> c) by (intros ->; eapply HNC; eauto).
           rewrite (IH y x Hy). split.
           ++ intros [H|(q1 & -> & H2 & ->)]; [now left|]. right. exists (k' :: q1).
              cbn [app walk]. rewrite Ey. auto.
           ++ intros [H|(q1 & H1 & H2 & ->)]; [now left|]. right.
              destruct q1 as [|k1 q1].
              ** cbn in H1. injection H1 as -> _. apply Z.eqb_neq in Ek. contradiction.
              ** cbn [app] in H1. injection H1 as <- ->. cbn [walk] in H2. rewrite Ey in H2.
                 exists q1. auto.
        -- split; [discriminate|]. intros [H|(q1 & H1 & H2 & ->)]; [discriminate|].
           destruct q1 as [|k1 q1].
           ++ cbn in H1. injection H1 as -> _. apply Z.eqb_neq in Ek. contradiction.
           ++ cbn [app] in H1. injection H1 as <- ->. cbn [walk] in H2. rewrite Ey in H2.
              discriminate.
    + destruct (m =? c) eqn:Ec; [apply Z.eqb_eq in Ec; contradiction|].
      apply Z.eqb_neq in Et.
      destruct (alookup k' (m_maps (sm s m))) as [y|] eqn:Ey.
      * assert (Hy : y <> c) by (intros ->; eapply HNC; eauto).
        rewrite (IH y x Hy). split.
        -- intros [H|(q1 & -> & H2 & ->)]; [now left|]. right. exists (k' :: q1).
           cbn [app walk]. rewrite Ey. auto.
        -- intros [H|(q1 & H1 & H2 & ->)]; [now left|]. right.
           destruct q1 as [|k1 q1].
           ++ cbn in H2. injection H2 as ->. contradiction.
           ++ cbn [app] in H1. injection H1 as <- ->. cbn [walk] in H2. rewrite Ey in H2.
              exists q1. auto.
      * split; [discriminate|]. intros [H|(q1 & H1 & H2 & ->)]; [discriminate|].
        destruct q1 as [|k1 q1].
        -- cbn in H2. injection H2 as ->. contradiction.
        -- cbn [app] in H1. injection H1 as <- ->. cbn [walk] in H2. rewrite Ey in H2.
           discriminate.
Qed.
