(* C16: the C11 store seen along paths from the populated map (object 0):
   which paths lead to a map, and the column of handles under a key.  Frame
   lemmas for the steps of __setitem__ and for handles.maps.insert(0, {}). *)
From Coq Require Import ZArith List Bool Lia.
From Desper Require Import Lib.Alist Tree.C11Model Tree.C11Lemmas Tree.C11Inv Tree.C16Model
     Tree.C16Proofs.
Import ListNotations.
Open Scope Z_scope.

(* ---- columns ---------------------------------------------------------------------- *)
Lemma column_nil k : column k [] = [].
Proof. reflexivity. Qed.

Lemma column_cons k l ls :
  column k (l :: ls) = (match alookup k l with Some h => [h] | None => [] end) ++ column k ls.
Proof. reflexivity. Qed.

Lemma column_pop_all k n ls :
  column n (cm_pop_all k ls) = if n =? k then [] else column n ls.
Proof.
  induction ls as [|l ls IH]; cbn [cm_pop_all map].
  - now destruct (n =? k).
  - fold (cm_pop_all k ls). rewrite !column_cons, IH, alookup_adel.
    destruct (n =? k); reflexivity.
Qed.

Lemma column_empty_lookup k ls : column k ls = [] <-> cm_lookup k ls = None.
Proof.
  induction ls as [|l ls IH]; cbn [cm_lookup]; [tauto|].
  rewrite column_cons. destruct (alookup k l).
  - split; discriminate.
  - exact IH.
Qed.

Lemma same_layers_column a : forall b k, same_layers a b = true -> column k a = column k b.
Proof.
  induction a as [|x a IH]; intros [|y b] k; cbn [same_layers]; try discriminate; auto.
  intros H. apply andb_true_iff in H. destruct H as [H1 H2].
  rewrite !column_cons, (same_dict_lookup _ _ H1 k), (IH b k H2). reflexivity.
Qed.

(* per object and name: the column, and what the first layer has *)
Definition ncol (s : store) (x : mid) (n : Z) : list Z := column n (m_layers (sm s x)).
Definition lay0 (s : store) (x : mid) (n : Z) : option Z :=
  match m_layers (sm s x) with l0 :: _ => alookup n l0 | [] => None end.

Lemma ncol_lay0 s x n :
  ncol s x n = (match lay0 s x n with Some h => [h] | None => [] end) ++
               column n (List.tl (m_layers (sm s x))).
Proof.
  unfold ncol, lay0. destruct (m_layers (sm s x)) as [|l0 ls]; [reflexivity|].
  now rewrite column_cons.
Qed.

(* ---- walks ------------------------------------------------------------------------- *)
Lemma walk_app s : forall p m q,
  walk s m (p ++ q) = match walk s m p with Some t => walk s t q | None => None end.
Proof.
  induction p as [|k p IH]; intros m q; cbn [app walk]; [reflexivity|].
  destruct (alookup k (m_maps (sm s m))); [apply IH|reflexivity].
Qed.

Lemma walk_same_maps s s' :
  (forall x, m_maps (sm s' x) = m_maps (sm s x)) -> forall p m, walk s' m p = walk s m p.
Proof.
  intros H. induction p as [|k p IH]; intros m; cbn [walk]; [reflexivity|].
  rewrite H. destruct (alookup k (m_maps (sm s m))); auto.
Qed.

(* the object a non-empty walk ends in is somebody's child *)
Lemma walk_child s : forall p m x,
  walk s m p = Some x -> (p = [] /\ x = m) \/ exists M n, child_m s M n x.
Proof.
  induction p as [|k p IH] using rev_ind; intros m x; cbn [walk].
  - intros [= <-]. now left.
  - rewrite walk_app. destruct (walk s m p) as [t|]; [|discriminate]. cbn [walk].
    destruct (alookup k (m_maps (sm s t))) as [c|] eqn:E; [|discriminate].
    intros [= <-]. right. exists t, k. exact E.
Qed.

(* paths from an object that is nobody's child are unique *)
Lemma unique_path used s r : Inv used s -> m_parent (sm s r) = None ->
  forall p q x, walk s r p = Some x -> walk s r q = Some x -> p = q.
Proof.
  intros HI HR. induction p as [|k p IH] using rev_ind; intros q x HP HQ.
  - cbn in HP. injection HP as <-.
    destruct q as [|k' q] using rev_ind; [reflexivity|]. exfalso. clear IHq.
    rewrite walk_app in HQ. destruct (walk s r q) as [t|]; [|discriminate]. cbn [walk] in HQ.
    destruct (alookup k' (m_maps (sm s t))) as [c|] eqn:E; [|discriminate].
    injection HQ as ->. destruct (I_bm _ _ HI t k' r E) as [P _]. congruence.
  - rewrite walk_app in HP. destruct (walk s r p) as [t|] eqn:EP; [|discriminate].
    cbn [walk] in HP. destruct (alookup k (m_maps (sm s t))) as [c|] eqn:E; [|discriminate].
    injection HP as <-. destruct (I_bm _ _ HI t k c E) as [P K].
    destruct q as [|k' q] using rev_ind.
    + cbn in HQ. injection HQ as <-. congruence.
    + clear IHq. rewrite walk_app in HQ. destruct (walk s r q) as [t'|] eqn:EQ; [|discriminate].
      cbn [walk] in HQ. destruct (alookup k' (m_maps (sm s t'))) as [c'|] eqn:E'; [|discriminate].
      injection HQ as ->. destruct (I_bm _ _ HI t' k' c E') as [P' K'].
      assert (t' = t) by congruence. assert (k' = k) by congruence. subst t' k'.
      now rewrite (IH q t eq_refl EQ).
Qed.

(* a fresh, empty child c is hung under (t, k): the walks that exist
   afterwards are the old ones and the one that ends with that step *)
Lemma walk_plus s s' t k c :
  (forall x, m_maps (sm s' x) =
             if x =? t then aset k c (m_maps (sm s t))
             else if x =? c then [] else m_maps (sm s x)) ->
  alookup k (m_maps (sm s t)) = None -> c <> t ->
  (forall M n, ~ child_m s M n c) ->
  forall q m x, m <> c ->
    (walk s' m q = Some x <->
     walk s m q = Some x \/ (exists q1, q = q1 ++ [k] /\ walk s m q1 = Some t /\ x = c)).
Proof.
  intros HM HK Hct HNC. induction q as [|k' q IH]; intros m x Hm.
  - cbn [walk]. split; [now left|]. intros [H|(q1 & H & _)]; [exact H|].
    destruct q1; discriminate.
  - cbn [walk]. rewrite HM. destruct (m =? t) eqn:Et.
    + apply Z.eqb_eq in Et. subst m. rewrite alookup_aset. destruct (k' =? k) eqn:Ek.
      * apply Z.eqb_eq in Ek. subst k'. rewrite HK.
        (* the new step: only the empty walk continues from c *)
        assert (HC : forall q, walk s' c q = Some x <-> q = [] /\ x = c).
        { intros [|k2 q2]; cbn [walk].
          - split; [intros [= <-]; auto|intros [_ ->]; reflexivity].
          - rewrite HM. destruct (c =? t) eqn:E1; [apply Z.eqb_eq in E1; contradiction|].
            rewrite Z.eqb_refl. cbn. split; [discriminate|intros [H _]; discriminate]. }
        rewrite HC. split.
        -- intros [-> ->]. right. exists []. cbn. auto.
        -- intros [H|(q1 & H1 & H2 & H3)]; [discriminate|].
           destruct q1 as [|k1 q1].
           ++ cbn in H1. injection H1 as ->. auto.
           ++ cbn [app] in H1. injection H1 as <- ->. cbn [walk] in H2. rewrite HK in H2.
              discriminate.
      * destruct (alookup k' (m_maps (sm s t))) as [y|] eqn:Ey.
        -- assert (Hy : y <> c) by (intros ->; eapply HNC; eauto).
           rewrite (IH y x Hy). split.
           ++ intros [H|(q1 & -> & H2 & ->)]; [now left|]. right. exists (k' :: q1).
              cbn [app walk]. rewrite Ey. auto.
           ++ intros [H|(q1 & H1 & H2 & ->)]; [now left|]. right.
              destruct q1 as [|k1 q1].
              ** cbn in H1. injection H1 as -> _. apply Z.eqb_neq in Ek. contradiction.
              ** cbn [app] in H1. injection H1 as <- ->. cbn [walk] in H2. rewrite Ey in H2.
                 exists q1. auto.
        -- split; [discriminate|]. intros [H|(q1 & H1 & H2 & ->)]; [discriminate|].
           destruct q1 as [|k1 q1].
           ++ cbn in H1. injection H1 as -> _. apply Z.eqb_neq in Ek. contradiction.
           ++ cbn [app] in H1. injection H1 as <- ->. cbn [walk] in H2. rewrite Ey in H2.
              discriminate.
    + destruct (m =? c) eqn:Ec; [apply Z.eqb_eq in Ec; contradiction|].
      apply Z.eqb_neq in Et.
      destruct (alookup k' (m_maps (sm s m))) as [y|] eqn:Ey.
      * assert (Hy : y <> c) by (intros ->; eapply HNC; eauto).
        rewrite (IH y x Hy). split.
        -- intros [H|(q1 & -> & H2 & ->)]; [now left|]. right. exists (k' :: q1).
           cbn [app walk]. rewrite Ey. auto.
        -- intros [H|(q1 & H1 & H2 & ->)]; [now left|]. right.
           destruct q1 as [|k1 q1].
           ++ cbn in H2. injection H2 as ->. contradiction.
           ++ cbn [app] in H1. injection H1 as <- ->. cbn [walk] in H2. rewrite Ey in H2.
              exists q1. auto.
      * split; [discriminate|]. intros [H|(q1 & H1 & H2 & ->)]; [discriminate|].
        destruct q1 as [|k1 q1].
        -- cbn in H2. injection H2 as ->. contradiction.
        -- cbn [app] in H1. injection H1 as <- ->. cbn [walk] in H2. rewrite Ey in H2.
           discriminate.
Qed.

(* ---- the view from the populated map ------------------------------------------------- *)
Definition scol (s : store) (key : list Z * Z) : list Z :=
  match walk s 0 (fst key) with Some t => ncol s t (snd key) | None => [] end.
Definition RootNone (s : store) : Prop := m_parent (sm s 0) = None.

Lemma scol_transfer s s' :
  (forall q x, walk s 0 q = Some x -> walk s' 0 q = Some x) ->
  (forall q x, walk s' 0 q = Some x ->
               walk s 0 q = Some x \/ (walk s 0 q = None /\ forall n, ncol s' x n = [])) ->
  (forall x n, ncol s' x n = ncol s x n) ->
  forall key, scol s' key = scol s key.
Proof.
  intros H1 H2 H3 [q n]. unfold scol. cbn [fst snd].
  destruct (walk s' 0 q) as [x|] eqn:E.
  - destruct (H2 q x E) as [E0|[E0 HN]]; rewrite E0; [apply H3|apply HN].
  - destruct (walk s 0 q) as [x|] eqn:E0; [|reflexivity].
    rewrite (H1 q x E0) in E. discriminate.
Qed.

Lemma lay0_of_ncol s x n : ncol s x n = [] -> lay0 s x n = None.
Proof.
  rewrite ncol_lay0. destruct (lay0 s x n); [discriminate|reflexivity].
Qed.

(* ---- one iteration of the loop over keys[:-1] ------------------------------------------ *)
Lemma walk_step_records s t k :
  let r := sm s t in
  match alookup k (m_maps r) with
  | Some c =>
      walk_step s t k =
      (mput s t (MR (m_parent r) (m_key r) (m_maps r) (cm_pop_all k (m_layers r))), c)
  | None =>
      walk_step s t k =
      (ST (fun x => if x =? new_id s then MR (Some t) (Some k) [] [[]]
                    else if x =? t then MR (m_parent r) (m_key r) (aset k (new_id s) (m_maps r))
                                           (cm_pop_all k (m_layers r))
                    else sm s x) (sh s) (snext s + 1), new_id s)
  end.
Proof.
  cbv zeta. unfold walk_step. cbn [m_maps m_parent m_key m_layers].
  destruct (alookup k (m_maps (sm s t))); reflexivity.
Qed.

Lemma ncol_pop s t k n :
  ncol s t k = [] ->
  column n (cm_pop_all k (m_layers (sm s t))) = ncol s t n.
Proof.
  intros H. rewrite column_pop_all. destruct (n =? k) eqn:E; [|reflexivity].
  apply Z.eqb_eq in E. subst n. now rewrite H.
Qed.

Lemma lay0_pop s t k n :
  ncol s t k = [] ->
  match cm_pop_all k (m_layers (sm s t)) with l0 :: _ => alookup n l0 | [] => None end =
  lay0 s t n.
Proof.
  intros H. apply lay0_of_ncol in H. unfold lay0 in *.
  destruct (m_layers (sm s t)) as [|l0 ls]; [reflexivity|].
  cbn [cm_pop_all map]. rewrite alookup_adel. destruct (n =? k) eqn:E; [|reflexivity].
  apply Z.eqb_eq in E. subst n. now rewrite H.
Qed.

Lemma walk_step_frame used s t k :
  Inv used s -> - snext s <= t -> ncol s t k = [] ->
  let s' := fst (walk_step s t k) in
  let c := snd (walk_step s t k) in
  (forall x n, ncol s' x n = ncol s x n) /\
  (forall x n, lay0 s' x n = lay0 s x n) /\
  (forall x, x <> c -> m_parent (sm s' x) = m_parent (sm s x)) /\
  (forall x, x <> t -> x <> new_id s -> sm s' x = sm s x) /\
  sh s' = sh s /\
  ((alookup k (m_maps (sm s t)) = Some c /\ (forall x, m_maps (sm s' x) = m_maps (sm s x))) \/
   (alookup k (m_maps (sm s t)) = None /\ c = new_id s /\ c <> t /\ c <> 0 /\
    (forall M n, ~ child_m s M n c) /\
    (forall n, ncol s' c n = []) /\
    (forall x, m_maps (sm s' x) =
               if x =? t then aset k c (m_maps (sm s t))
               else if x =? c then [] else m_maps (sm s x)))).
Proof.
  intros HI Ht HC. pose proof (walk_step_records s t k) as HR. cbv zeta in HR.
  pose proof (I_next _ _ HI) as Hn.
  destruct (alookup k (m_maps (sm s t))) as [c|] eqn:E; rewrite HR; cbn [fst snd].
  - (* the sub-map exists *)
    repeat split.
    + intros x n. unfold ncol. cbn [sm mput]. destruct (x =? t) eqn:Ex; [|reflexivity].
      apply Z.eqb_eq in Ex. subst x. cbn [m_layers]. now apply ncol_pop.
    + intros x n. unfold lay0 at 1. cbn [sm mput]. destruct (x =? t) eqn:Ex; [|reflexivity].
      apply Z.eqb_eq in Ex. subst x. cbn [m_layers]. now apply lay0_pop.
    + intros x _. cbn [sm mput]. destruct (x =? t) eqn:Ex; [|reflexivity].
      apply Z.eqb_eq in Ex. now subst x.
    + intros x Hx _. cbn [sm mput]. destruct (x =? t) eqn:Ex; [|reflexivity].
      apply Z.eqb_eq in Ex. contradiction.
    + left. split; [reflexivity|]. intros x. cbn [sm mput].
      destruct (x =? t) eqn:Ex; [|reflexivity]. apply Z.eqb_eq in Ex. now subst x.
  - (* a new sub-map is created *)
    assert (Hct : new_id s <> t) by (unfold new_id; lia).
    assert (Hc0 : new_id s <> 0) by (unfold new_id; lia).
    assert (Hcd : sm s (new_id s) = m_default) by (apply (I_fresh _ _ HI); unfold new_id; lia).
    repeat split.
    + intros x n. unfold ncol. cbn [sm]. destruct (x =? new_id s) eqn:Ec.
      * apply Z.eqb_eq in Ec. subst x. now rewrite Hcd.
      * destruct (x =? t) eqn:Ex; [|reflexivity].
        apply Z.eqb_eq in Ex. subst x. cbn [m_layers]. now apply ncol_pop.
    + intros x n. unfold lay0 at 1. cbn [sm]. destruct (x =? new_id s) eqn:Ec.
      * apply Z.eqb_eq in Ec. subst x. unfold lay0. now rewrite Hcd.
      * destruct (x =? t) eqn:Ex; [|reflexivity].
        apply Z.eqb_eq in Ex. subst x. cbn [m_layers]. now apply lay0_pop.
    + intros x Hx. cbn [sm]. destruct (x =? new_id s) eqn:Ec;
        [apply Z.eqb_eq in Ec; contradiction|].
      destruct (x =? t) eqn:Ex; [|reflexivity]. apply Z.eqb_eq in Ex. now subst x.
    + intros x Hx Hx'. cbn [sm]. destruct (x =? new_id s) eqn:Ec;
        [apply Z.eqb_eq in Ec; contradiction|].
      destruct (x =? t) eqn:Ex; [apply Z.eqb_eq in Ex; contradiction|reflexivity].
    + right. split; [reflexivity|]. split; [reflexivity|]. split; [exact Hct|].
      split; [exact Hc0|]. split; [|split].
      * intros M n HCh. destruct (I_cm _ _ HI _ _ _ HCh) as [A _]. unfold new_id in A. lia.
      * intros n. unfold ncol. cbn [sm]. rewrite Z.eqb_refl. reflexivity.
      * intros x. cbn [sm]. destruct (x =? t) eqn:Ex.
        -- apply Z.eqb_eq in Ex. subst x.
           destruct (t =? new_id s) eqn:Ec; [apply Z.eqb_eq in Ec; congruence|]. reflexivity.
        -- destruct (x =? new_id s); reflexivity.
Qed.

Lemma walk_alloc used s : Inv used s -> forall q x, walk s 0 q = Some x -> - snext s <= x.
Proof.
  intros HI q x HW. destruct (walk_child s q 0 x HW) as [[_ ->]|(M & n & HC)].
  - pose proof (I_next _ _ HI). lia.
  - now destruct (I_cm _ _ HI _ _ _ HC).
Qed.

Lemma walk_step_paths used s done t k :
  Inv used s -> RootNone s -> walk s 0 done = Some t -> scol s (done, k) = [] ->
  let s' := fst (walk_step s t k) in
  let c := snd (walk_step s t k) in
  walk s' 0 (done ++ [k]) = Some c /\
  (forall q x, walk s 0 q = Some x -> walk s' 0 q = Some x) /\
  (forall q x, walk s' 0 q = Some x ->
     walk s 0 q = Some x \/
     (q = done ++ [k] /\ walk s 0 q = None /\ x < 0 /\ forall n, ncol s' x n = [])) /\
  (forall x n, ncol s' x n = ncol s x n) /\
  (forall x n, lay0 s' x n = lay0 s x n) /\
  RootNone s' /\
  (forall x, x <> t -> 0 <= x -> sm s' x = sm s x) /\
  sh s' = sh s.
Proof.
  intros HI HR HW HC.
  assert (HC' : ncol s t k = []).
  { unfold scol in HC. cbn [fst snd] in HC. now rewrite HW in HC. }
  pose proof (walk_alloc _ _ HI _ _ HW) as Ht.
  destruct (walk_step_frame used s t k HI Ht HC') as (F1 & F2 & F3 & F4 & F5 & F6).
  cbv zeta. set (s' := fst (walk_step s t k)) in *. set (c := snd (walk_step s t k)) in *.
  pose proof (I_next _ _ HI) as Hn.
  assert (F4' : forall x, x <> t -> 0 <= x -> sm s' x = sm s x).
  { intros x Hx H0. apply F4; auto. unfold new_id. lia. }
  destruct F6 as [[E HM]|(E & Ec & Hct & Hc0 & HNC & HN & HM)].
  - (* existing sub-map: no walk changes *)
    pose proof (walk_same_maps s s' HM) as HWs.
    assert (c <> 0).
    { intros ->. destruct (I_bm _ _ HI t k 0 E) as [P _]. unfold RootNone in HR. congruence. }
    split; [|split; [|split; [|split; [|split; [|split; [|split]]]]]]; auto.
    + rewrite HWs, walk_app, HW. cbn [walk]. now rewrite E.
    + intros q x. now rewrite HWs.
    + intros q x. rewrite HWs. now left.
    + unfold RootNone. rewrite F3; auto.
  - pose proof (walk_plus s s' t k c HM E Hct HNC) as HP.
    assert (HNone : walk s 0 (done ++ [k]) = None).
    { rewrite walk_app, HW. cbn [walk]. now rewrite E. }
    split; [|split; [|split; [|split; [|split; [|split; [|split]]]]]]; auto.
    + apply HP; [congruence|]. right. exists done. auto.
    + intros q x Hq. apply HP; [congruence|]. now left.
    + intros q x Hq. apply HP in Hq; [|congruence].
      destruct Hq as [Hq|(q1 & -> & H1 & ->)]; [now left|]. right.
      rewrite (unique_path used s 0 HI HR q1 done t H1 HW).
      split; [reflexivity|]. split; [exact HNone|]. split; [|exact HN].
      rewrite Ec. unfold new_id. lia.
    + unfold RootNone. rewrite F3; auto.
Qed.

(* no handle is stored under the name of a directory on the way *)
Fixpoint clean (s : store) (done pre : list Z) : Prop :=
  match pre with
  | [] => True
  | k :: pre' => scol s (done, k) = [] /\ clean s (done ++ [k]) pre'
  end.

Lemma clean_ext s s' : (forall key, scol s' key = scol s key) ->
  forall pre done, clean s done pre -> clean s' done pre.
Proof.
  intros H. induction pre as [|k pre IH]; intros done; cbn [clean]; [auto|].
  intros [A B]. split; [now rewrite H|now apply IH].
Qed.

Lemma set_walk_paths used pre : forall s sp done t,
  Inv used s -> Rel s sp -> RootNone s -> walk s 0 done = Some t -> clean s done pre ->
  let s1 := fst (set_walk s t pre) in
  let t1 := snd (set_walk s t pre) in
  Inv used s1 /\ (exists sp1, Rel s1 sp1) /\ RootNone s1 /\
  walk s1 0 (done ++ pre) = Some t1 /\
  (forall q x, walk s 0 q = Some x -> walk s1 0 q = Some x) /\
  (forall q x, walk s1 0 q = Some x ->
     walk s 0 q = Some x \/
     (walk s 0 q = None /\ x < 0 /\ (exists j, q = done ++ firstn j pre) /\
      forall n, ncol s1 x n = [])) /\
  (forall x n, ncol s1 x n = ncol s x n) /\
  (forall x n, lay0 s1 x n = lay0 s x n) /\
  (forall B, 0 <= B -> (forall q y, walk s 0 q = Some y -> y <= B) ->
             forall x, B < x -> sm s1 x = sm s x) /\
  sh s1 = sh s.
Proof.
  induction pre as [|k pre IH]; intros s sp done t HI HR HRn HW HCl.
  - cbn [set_walk fst snd]. rewrite app_nil_r.
    split; [exact HI|]. split; [eauto|]. split; [exact HRn|]. split; [exact HW|].
    split; [auto|]. split; [intros q x H; now left|]. repeat split; auto.
  - cbn [clean] in HCl. destruct HCl as [HC1 HC2].
    rewrite set_walk_cons.
    destruct (walk_step_paths used s done t k HI HRn HW HC1)
      as (W1 & W2 & W3 & W4 & W5 & W6 & W7 & W8).
    (* the store invariant after the step *)
    assert (HInv : Inv used (fst (walk_step s t k)) /\ exists sp', Rel (fst (walk_step s t k)) sp').
    { pose proof (walk_alloc _ _ HI _ _ HW) as Ht.
      destruct (alookup k (m_maps (sm s t))) as [c|] eqn:E.
      - destruct (walk_step_old used s sp t k c HI HR E) as (_ & A & B & _). eauto.
      - destruct (walk_step_new used s sp t k HI HR Ht E) as (_ & A & (sp' & _ & B) & _). eauto. }
    destruct HInv as [HI' [sp' HR']].
    destruct (walk_step s t k) as [s' c] eqn:EW. cbn [fst snd] in *.
    assert (HS : forall key, scol s' key = scol s key).
    { apply scol_transfer; auto. intros q x Hq.
      destruct (W3 q x Hq) as [A|(_ & A & _ & B)]; auto. }
    specialize (IH s' sp' (done ++ [k]) c HI' HR' W6 W1 (clean_ext s s' HS _ _ HC2)).
    cbv zeta in IH.
    destruct IH as (I1 & I2 & I3 & I4 & I5 & I6 & I7 & I8 & I9 & I10).
    rewrite <- app_assoc in I4. cbn [app] in I4.
    split; auto. split; auto. split; auto. split; auto.
    split; [intros q x H; apply I5, W2, H|].
    split; [|split; [|split; [|split]]].
    + intros q x Hq. destruct (I6 q x Hq) as [A|(A & Ax & (j & ->) & B)].
      * destruct (W3 q x A) as [A'|(-> & A' & Ax & B)]; [now left|]. right.
        split; auto. split; auto. split; [exists 1%nat; reflexivity|].
        intros n. now rewrite I7.
      * right. split.
        -- destruct (walk s 0 ((done ++ [k]) ++ firstn j pre)) as [y|] eqn:E; [|reflexivity].
           rewrite (W2 _ _ E) in A. discriminate.
        -- split; auto. split; [|exact B]. exists (S j). cbn [firstn].
           now rewrite <- app_assoc.
    + intros x n. now rewrite I7, W4.
    + intros x n. now rewrite I8, W5.
    + intros B HB0 HB x Hx. rewrite (I9 B HB0); auto.
      * apply W7; [|lia]. specialize (HB done t HW). lia.
      * intros q y Hq. destruct (W3 q y Hq) as [A|(_ & _ & A & _)]; [eauto|lia].
    + congruence.
Qed.

(* ---- the final assignment and the new layer ---------------------------------------------- *)
Lemma adel_absent {A} k (l : list (Z * A)) : alookup k l = None -> adel k l = l.
Proof.
  induction l as [|[k' v] l IH]; cbn [alookup adel]; [reflexivity|].
  destruct (k =? k'); [discriminate|]. intros H. now rewrite IH.
Qed.

Lemma list_eqb_Z_eq a b : list_eqb Z.eqb a b = true -> a = b.
Proof. apply list_eqb_eq. intros x y H. now apply Z.eqb_eq. Qed.
Lemma list_eqb_refl_Z a : list_eqb Z.eqb a a = true.
Proof. apply list_eqb_refl. apply Z.eqb_refl. Qed.

Lemma set_handle_paths used s P t last h :
  Inv used s -> RootNone s -> walk s 0 P = Some t -> alookup last (m_maps (sm s t)) = None ->
  let s' := set_final s t last (RH h) in
  (forall q, walk s' 0 q = walk s 0 q) /\
  (forall key, scol s' key =
               if key_eqb key (P, last)
               then h :: column last (List.tl (m_layers (sm s t)))
               else scol s key) /\
  (forall x n, lay0 s' x n = if (x =? t) && (n =? last) then Some h else lay0 s x n) /\
  RootNone s' /\
  (forall x, x <> t -> sm s' x = sm s x) /\
  (forall x n, ncol s' x n =
               if (x =? t) && (n =? last) then h :: column last (List.tl (m_layers (sm s t)))
               else ncol s x n).
Proof.
  intros HI HRn HW HN. cbv zeta. unfold set_final.
  set (r := sm s t).
  set (rt := MR (m_parent r) (m_key r) (adel last (m_maps r)) (cm_set last h (m_layers r))).
  set (s' := hput (mput s t rt) h (HR (Some t) (Some last))).
  assert (Hsm : forall x, sm s' x = if x =? t then rt else sm s x) by reflexivity.
  assert (HM : forall x, m_maps (sm s' x) = m_maps (sm s x)).
  { intros x. rewrite Hsm. destruct (x =? t) eqn:E; [|reflexivity].
    apply Z.eqb_eq in E. subst x. cbn [rt m_maps]. now apply adel_absent. }
  assert (HWs : forall q, walk s' 0 q = walk s 0 q) by (intros q; now apply walk_same_maps).
  assert (HNc : forall x n, ncol s' x n =
            if (x =? t) && (n =? last) then h :: column last (List.tl (m_layers (sm s t)))
            else ncol s x n).
  { intros x n. unfold ncol. rewrite Hsm. destruct (x =? t) eqn:E; [|reflexivity].
    apply Z.eqb_eq in E. subst x. cbn [rt m_layers andb]. fold r.
    destruct (m_layers r) as [|l0 ls]; cbn [cm_set List.tl].
    - rewrite column_cons. cbn [alookup]. destruct (n =? last); reflexivity.
    - rewrite !column_cons, alookup_aset. destruct (n =? last) eqn:E2; [|reflexivity].
      apply Z.eqb_eq in E2. now subst n. }
  split; [exact HWs|]. split; [|split; [|split; [|split; [|exact HNc]]]].
  - intros [q n]. unfold scol. cbn [fst snd]. rewrite HWs. unfold key_eqb. cbn [fst snd].
    destruct (walk s 0 q) as [x|] eqn:E.
    + rewrite HNc. destruct (x =? t) eqn:Ex.
      * apply Z.eqb_eq in Ex. subst x.
        rewrite (unique_path used s 0 HI HRn q P t E HW).
        rewrite (list_eqb_refl_Z P). cbn [andb]. reflexivity.
      * cbn [andb]. destruct (list_eqb Z.eqb q P) eqn:EL; [|reflexivity].
        apply list_eqb_Z_eq in EL. subst q. rewrite HW in E. injection E as <-.
        rewrite Z.eqb_refl in Ex. discriminate.
    + destruct (list_eqb Z.eqb q P) eqn:EL; [|reflexivity].
      apply list_eqb_Z_eq in EL. subst q. congruence.
  - intros x n. unfold lay0. rewrite Hsm. destruct (x =? t) eqn:E; [|reflexivity].
    apply Z.eqb_eq in E. subst x. cbn [rt m_layers andb]. fold r.
    destruct (m_layers r) as [|l0 ls]; cbn [cm_set].
    + cbn [alookup]. destruct (n =? last); reflexivity.
    + rewrite alookup_aset. destruct (n =? last); reflexivity.
  - unfold RootNone. rewrite Hsm. destruct (0 =? t) eqn:E; [|exact HRn].
    apply Z.eqb_eq in E. subst t. cbn [rt m_parent]. exact HRn.
  - intros x Hx. rewrite Hsm. destruct (x =? t) eqn:E; [apply Z.eqb_eq in E; contradiction|].
    reflexivity.
Qed.

Lemma set_map_paths used s P t last c :
  Inv used s -> RootNone s -> walk s 0 P = Some t ->
  alookup last (m_maps (sm s t)) = None -> ncol s t last = [] ->
  sm s c = m_default -> (forall M n, ~ child_m s M n c) -> c <> t -> c <> 0 ->
  let s' := set_final s t last (RM c) in
  (forall q x, walk s 0 q = Some x -> walk s' 0 q = Some x) /\
  (forall q x, walk s' 0 q = Some x ->
     walk s 0 q = Some x \/ (q = P ++ [last] /\ walk s 0 q = None /\ x = c)) /\
  walk s' 0 (P ++ [last]) = Some c /\
  (forall x n, ncol s' x n = ncol s x n) /\
  (forall x n, lay0 s' x n = lay0 s x n) /\
  RootNone s' /\
  (forall x, x <> t -> x <> c -> sm s' x = sm s x) /\
  sh s' = sh s.
Proof.
  intros HI HRn HW HN HC Hcd HNC Hct Hc0. cbv zeta. unfold set_final.
  set (r := sm s t).
  set (rt := MR (m_parent r) (m_key r) (aset last c (m_maps r)) (cm_pop_all last (m_layers r))).
  set (s2 := mput s t rt).
  set (s' := mput s2 c (MR (Some t) (Some last) (m_maps (sm s2 c)) (m_layers (sm s2 c)))).
  assert (Hs2c : sm s2 c = m_default).
  { unfold s2. cbn [sm mput]. destruct (c =? t) eqn:E; [apply Z.eqb_eq in E; contradiction|].
    exact Hcd. }
  assert (Hsm : forall x, sm s' x =
            if x =? c then MR (Some t) (Some last) [] [[]]
            else if x =? t then rt else sm s x).
  { intros x. unfold s'. cbn [sm mput]. rewrite Hs2c. cbn [m_maps m_layers m_default].
    destruct (x =? c); reflexivity. }
  assert (HM : forall x, m_maps (sm s' x) =
            if x =? t then aset last c (m_maps (sm s t))
            else if x =? c then [] else m_maps (sm s x)).
  { intros x. rewrite Hsm. destruct (x =? t) eqn:Et.
    - apply Z.eqb_eq in Et. subst x.
      destruct (t =? c) eqn:E; [apply Z.eqb_eq in E; congruence|]. reflexivity.
    - destruct (x =? c); reflexivity. }
  pose proof (walk_plus s s' t last c HM HN Hct HNC) as HP.
  assert (HNone : walk s 0 (P ++ [last]) = None).
  { rewrite walk_app, HW. cbn [walk]. now rewrite HN. }
  split; [|split; [|split; [|split; [|split; [|split; [|split]]]]]].
  - intros q x Hq. apply HP; [congruence|]. now left.
  - intros q x Hq. apply HP in Hq; [|congruence].
    destruct Hq as [Hq|(q1 & -> & H1 & ->)]; [now left|]. right.
    rewrite (unique_path used s 0 HI HRn q1 P t H1 HW). auto.
  - apply HP; [congruence|]. right. exists P. auto.
  - intros x n. unfold ncol. rewrite Hsm. destruct (x =? c) eqn:Ec.
    + apply Z.eqb_eq in Ec. subst x. now rewrite Hcd.
    + destruct (x =? t) eqn:Et; [|reflexivity]. apply Z.eqb_eq in Et. subst x.
      cbn [rt m_layers]. now apply ncol_pop.
  - intros x n. unfold lay0 at 1. rewrite Hsm. destruct (x =? c) eqn:Ec.
    + apply Z.eqb_eq in Ec. subst x. unfold lay0. now rewrite Hcd.
    + destruct (x =? t) eqn:Et; [|reflexivity]. apply Z.eqb_eq in Et. subst x.
      cbn [rt m_layers]. now apply lay0_pop.
  - unfold RootNone. rewrite Hsm.
    destruct (0 =? c) eqn:Ec; [apply Z.eqb_eq in Ec; congruence|].
    destruct (0 =? t) eqn:Et; [|exact HRn]. apply Z.eqb_eq in Et. subst t. exact HRn.
  - intros x Hxt Hxc. rewrite Hsm.
    destruct (x =? c) eqn:Ec; [apply Z.eqb_eq in Ec; contradiction|].
    destruct (x =? t) eqn:Et; [apply Z.eqb_eq in Et; contradiction|reflexivity].
  - reflexivity.
Qed.

Lemma push_paths s t :
  let s' := py_push s t in
  (forall q, walk s' 0 q = walk s 0 q) /\
  (forall x n, ncol s' x n = ncol s x n) /\
  (forall key, scol s' key = scol s key) /\
  (forall n, lay0 s' t n = None) /\
  (forall x, x <> t -> sm s' x = sm s x) /\
  m_layers (sm s' t) = [] :: m_layers (sm s t) /\
  (RootNone s -> RootNone s') /\
  sh s' = sh s.
Proof.
  cbv zeta. unfold py_push.
  set (r := sm s t).
  set (s' := mput s t (MR (m_parent r) (m_key r) (m_maps r) ([] :: m_layers r))).
  assert (Hsm : forall x, sm s' x = if x =? t then MR (m_parent r) (m_key r) (m_maps r)
                                                        ([] :: m_layers r) else sm s x)
    by reflexivity.
  assert (HWs : forall q, walk s' 0 q = walk s 0 q).
  { intros q. apply walk_same_maps. intros x. rewrite Hsm.
    destruct (x =? t) eqn:E; [|reflexivity]. apply Z.eqb_eq in E. now subst x. }
  assert (HNc : forall x n, ncol s' x n = ncol s x n).
  { intros x n. unfold ncol. rewrite Hsm. destruct (x =? t) eqn:E; [|reflexivity].
    apply Z.eqb_eq in E. subst x. reflexivity. }
  split; [exact HWs|]. split; [exact HNc|]. split; [|split; [|split; [|split; [|split]]]].
  - intros [q n]. unfold scol. cbn [fst snd]. rewrite HWs.
    destruct (walk s 0 q); [apply HNc|reflexivity].
  - intros n. unfold lay0. rewrite Hsm, Z.eqb_refl. reflexivity.
  - intros x Hx. rewrite Hsm. destruct (x =? t) eqn:E; [apply Z.eqb_eq in E; contradiction|].
    reflexivity.
  - rewrite Hsm, Z.eqb_refl. reflexivity.
  - unfold RootNone. rewrite Hsm. destruct (0 =? t) eqn:E; [|auto].
    apply Z.eqb_eq in E. subst t. auto.
  - reflexivity.
Qed.
