(* C16 - directory population mirrors the file tree under the rules.

   Model of desper/model/__init__.py: DirectoryResourcePopulator.__call__
   (the defaults of the two flags, the loop over the rules, missing / not a
   directory, the extension filter with os.path.splitext, the key formed
   from the path relative to the root, trimming for files only, sub-map
   creation only when get finds nothing, conflict layering) on top of the
   C11 model of ResourceMap (get, __setitem__, handles.maps.insert).

   Input of the model: per rule, whether its directory exists, and the path
   sequence glob.iglob returned in that run (glob, os.path and the file
   system are trusted: C16 is partial in that respect).  The property is
   stated against the directory tree the harness created (the truth).

   Path components are strings (the code looks at their characters); the
   ResourceMap model of C11 names key parts by numbers, so a case carries
   the bijection between the two (c_names).

   Models only: no proofs in this file. *)
From Coq Require Import ZArith List Bool String Ascii.
From Desper Require Import Lib.Alist Tree.C11Model.
Import ListNotations.
Open Scope Z_scope.

(* ---- strings ------------------------------------------------------------------ *)
Fixpoint str_to_list (s : string) : list ascii :=
  match s with EmptyString => [] | String c r => c :: str_to_list r end.
Fixpoint list_to_str (l : list ascii) : string :=
  match l with [] => EmptyString | c :: l => String c (list_to_str l) end.
Definition is_dot (c : ascii) : bool := Ascii.eqb c "."%char.
Definition starts_dot (s : string) : bool :=
  match s with String c _ => is_dot c | EmptyString => false end.

(* split at the last dot *)
Fixpoint split_last_dot (l : list ascii) : option (list ascii * list ascii) :=
  match l with
  | [] => None
  | c :: l' =>
      match split_last_dot l' with
      | Some (a, b) => Some (c :: a, b)
      | None => if is_dot c then Some ([], c :: l') else None
      end
  end.
(* os.path.splitext on one path component: the extension starts at the last
   dot, unless only dots precede it *)
Definition splitext (s : string) : string * string :=
  match split_last_dot (str_to_list s) with
  | Some (a, b) => if forallb is_dot a then (s, EmptyString)
                   else (list_to_str a, list_to_str b)
  | None => (s, EmptyString)
  end.

Definition smem (k : string) (l : list string) : bool := existsb (String.eqb k) l.
Fixpoint slookup {A} (k : string) (l : list (string * A)) : option A :=
  match l with
  | [] => None
  | (k', v) :: l => if String.eqb k k' then Some v else slookup k l
  end.

(* ---- paths ------------------------------------------------------------------------ *)
(* a path is the list of its components, split at os.sep as written (so
   'root/gfx/' ends with an empty component) *)
Definition norm (cs : list string) : list string :=
  filter (fun c => negb (String.eqb c "" || String.eqb c ".")) cs.
Fixpoint strip_prefix (p l : list string) : option (list string) :=
  match p, l with
  | [], _ => Some l
  | x :: p, y :: l => if String.eqb x y then strip_prefix p l else None
  | _ :: _, [] => None
  end.
(* normpath(relpath(full, root)).replace(sep, '/') as a list of key parts *)
Definition key_comps (root full : list string) : option (list string) :=
  strip_prefix (norm root) (norm full).
Definition last_comp (cs : list string) : string := List.last cs EmptyString.
(* splitext(resource_string)[0]: only the last part can lose an extension *)
Fixpoint trim_last (cs : list string) : list string :=
  match cs with
  | [] => []
  | [c] => [fst (splitext c)]
  | c :: cs => c :: trim_last cs
  end.

(* string -> number of the key part *)
Fixpoint intern (tbl : list (string * Z)) (cs : list string) : option (list Z) :=
  match cs with
  | [] => Some []
  | c :: cs => match slookup c tbl, intern tbl cs with
               | Some n, Some r => Some (n :: r)
               | _, _ => None
               end
  end.
Fixpoint split_last {A} (l : list A) : option (list A * A) :=
  match l with
  | [] => None
  | [x] => Some ([], x)
  | x :: l => match split_last l with Some (a, b) => Some (x :: a, b) | None => None end
  end.

(* ---- inputs -------------------------------------------------------------------------- *)
Inductive kind := KFile | KDir | KOther.
Record entry := E { e_kind : kind; e_comps : list string }.
Record rule := R {
  r_path : list string;       (* directory_path, relative to the root *)
  r_exts : list string;       (* file_exts; [] = all *)
  r_sig : Z;                  (* identifies (handle_type, args, kwargs) *)
}.
(* what is on disk at root/directory_path *)
Inductive tstat :=
| TMissing
| TNotDir
| TDir (truth : list entry).  (* the directory itself and everything beneath it *)

Inductive exc := XNone | XValueError | XOther.

(* the map as observed after the call: per map its handle layers, its
   sub-maps, and whether all its children record it as parent under their
   name *)
Inductive otree := ONode (layers : list (list (Z * Z))) (subs : list (Z * otree)) (links : bool).
Definition o_layers (o : otree) := match o with ONode l _ _ => l end.
Definition o_subs (o : otree) := match o with ONode _ s _ => s end.
Definition o_links (o : otree) := match o with ONode _ _ b => b end.

Record call := CALL {
  k_root : list string;
  k_rules : list rule;
  k_ctor_nest : option bool; k_ctor_trim : option bool;   (* given at construction, if at all *)
  k_nest : option bool; k_trim : option bool;      (* given per call *)
  k_truth : list tstat;                            (* per rule *)
  k_seqs : list (list entry);                      (* per rule: what glob.iglob yielded *)
  k_exc : exc;                                     (* observed outcome *)
  k_log : list (Z * (list string * Z));            (* factory calls: handle id, path, rule sig *)
  k_tree : otree;                                  (* the map afterwards *)
}.
Record C16_case := CASE16 { c_names : list (string * Z); c_calls : list call }.

(* __init__(self, root, nest_on_conflict=True, trim_extensions=False); a
   per-call None falls back to the attribute *)
Definition eff_nest (c : call) : bool :=
  match k_nest c with
  | Some b => b
  | None => match k_ctor_nest c with Some b => b | None => true end
  end.
Definition eff_trim (c : call) : bool :=
  match k_trim c with
  | Some b => b
  | None => match k_ctor_trim c with Some b => b | None => false end
  end.

(* ---- the model ------------------------------------------------------------------------- *)
Record pstate := PS {
  p_store : store;        (* the ResourceMap objects; the populated map is object 0 *)
  p_nh : Z;               (* handles built so far *)
  p_nm : Z;               (* maps created by the populator for directories *)
  p_log : list (Z * (list string * Z));   (* factory calls of this call, newest first *)
  p_exc : exc;
}.

Definition ext_ok (r : rule) (e : entry) : bool :=
  (* len(rule.file_exts) and splitext(full_file_path)[1] not in rule.file_exts -> skip *)
  match r_exts r with
  | [] => true
  | exts => smem (snd (splitext (last_comp (e_comps e)))) exts
  end.

(* the key of an entry, as numbers *)
Definition entry_key (tbl : list (string * Z)) (root : list string) (trim : bool) (e : entry)
  : option (list Z * Z) :=
  match key_comps root (e_comps e) with
  | None => None
  | Some kc =>
      let kc' := match e_kind e with KFile => if trim then trim_last kc else kc | _ => kc end in
      match intern tbl kc' with
      | Some ks => split_last ks
      | None => None
      end
  end.

(* handle is handle.parent.handles.maps[0].get(handle.key) -> new layer *)
Definition nest_step (s : store) (found : qres) : store + exc :=
  match found with
  | RHandleR h0 =>
      match h_parent (sh s h0) with
      | None => inr XOther                               (* None.handles: AttributeError *)
      | Some p =>
          match m_layers (sm s p), h_key (sh s h0) with
          | l0 :: _, Some k =>
              match alookup k l0 with
              | Some h1 => if h1 =? h0 then inl (py_push s p) else inl s
              | None => inl s
              end
          | _ :: _, None => inl s
          | [], _ => inr XOther                          (* IndexError *)
          end
      end
  | RMapR c =>
      (* a sub-map under that key: it is not in its parent's handles *)
      match m_parent (sm s c) with
      | None => inr XOther
      | Some p => match m_layers (sm s p) with [] => inr XOther | _ => inl s end
      end
  | _ => inl s                                           (* get returned None *)
  end.

Definition pop_entry (tbl : list (string * Z)) (root : list string) (nest trim : bool)
                     (r : rule) (st : pstate) (e : entry) : pstate :=
  match p_exc st with
  | XNone =>
      if ext_ok r e then
        match entry_key tbl root trim e with
        | None => PS (p_store st) (p_nh st) (p_nm st) (p_log st) XOther
        | Some (pre, last) =>
            let s := p_store st in
            match e_kind e with
            | KDir =>
                (* isdir and resource_map.get(resource_string) is None *)
                match py_get s 0 pre last RNone with
                | RNone =>
                    let c := p_nm st + 1 in
                    PS (py_setitem s 0 pre last (RM c)) (p_nh st) c (p_log st) XNone
                | _ => st
                end
            | KFile =>
                let h := p_nh st in                      (* rule.instantiate(full_file_path) *)
                let lg := (h, (e_comps e, r_sig r)) :: p_log st in
                let s1 := if nest then nest_step s (py_get s 0 pre last RNone) else inl s in
                match s1 with
                | inl s1 => PS (py_setitem s1 0 pre last (RH h)) (h + 1) (p_nm st) lg XNone
                | inr x => PS s (h + 1) (p_nm st) lg x
                end
            | KOther => st
            end
        end
      else st
  | _ => st
  end.

Definition pop_rule (tbl : list (string * Z)) (root : list string) (nest trim : bool)
                    (st : pstate) (r : rule) (t : tstat) (seq : list entry) : pstate :=
  match p_exc st with
  | XNone =>
      match t with
      | TMissing => st                                   (* not exists: continue *)
      | TNotDir => PS (p_store st) (p_nh st) (p_nm st) (p_log st) XValueError
      | TDir _ => fold_left (pop_entry tbl root nest trim r) seq st
      end
  | _ => st
  end.

Fixpoint pop_rules (tbl : list (string * Z)) (root : list string) (nest trim : bool)
                   (st : pstate) (rs : list rule) (ts : list tstat) (qs : list (list entry))
  : pstate :=
  match rs, ts with
  | r :: rs, t :: ts =>
      let seq := match qs with q :: _ => q | [] => [] end in
      pop_rules tbl root nest trim (pop_rule tbl root nest trim st r t seq) rs ts (List.tl qs)
  | _, _ => st
  end.

Definition pop_call (tbl : list (string * Z)) (st : pstate) (c : call) : pstate :=
  pop_rules tbl (k_root c) (eff_nest c) (eff_trim c)
            (PS (p_store st) (p_nh st) (p_nm st) [] XNone)
            (k_rules c) (k_truth c) (k_seqs c).

(* ---- comparing the store with the observed tree -------------------------------------------- *)
Definition links_of (s : store) (m : mid) : bool :=
  forallb (fun '(n, _) =>
             match alookup n (m_maps (sm s m)) with
             | Some c => opt_eqb (m_parent (sm s c)) (Some m) && opt_eqb (m_key (sm s c)) (Some n)
             | None => true
             end) (m_maps (sm s m)) &&
  forallb (fun l => forallb (fun '(n, _) =>
             match alookup n l with
             | Some h => opt_eqb (h_parent (sh s h)) (Some m) && opt_eqb (h_key (sh s h)) (Some n)
             | None => true
             end) l)
          (m_layers (sm s m)).

Fixpoint tree_match (s : store) (m : mid) (o : otree) : bool :=
  match o with
  | ONode layers subs links =>
      same_layers layers (m_layers (sm s m)) &&
      Bool.eqb links (links_of s m) &&
      forallb (fun '(n, _) => amem n subs) (m_maps (sm s m)) &&
      (fix go (l : list (Z * otree)) : bool :=
         match l with
         | [] => true
         | (n, o') :: l =>
             match alookup n (m_maps (sm s m)) with
             | Some c => tree_match s c o'
             | None => false
             end && go l
         end) subs
  end.

Definition exc_eqb (a b : exc) : bool :=
  match a, b with
  | XNone, XNone => true | XValueError, XValueError => true | XOther, XOther => true
  | _, _ => false
  end.
Fixpoint list_eqb {A} (f : A -> A -> bool) (a b : list A) : bool :=
  match a, b with
  | [], [] => true
  | x :: a, y :: b => f x y && list_eqb f a b
  | _, _ => false
  end.
Definition log_eqb (a b : list (Z * (list string * Z))) : bool :=
  list_eqb (fun x y => (fst x =? fst y) && list_eqb String.eqb (fst (snd x)) (fst (snd y)) &&
                       (snd (snd x) =? snd (snd y))) a b.

Definition call_ok (tbl : list (string * Z)) (st : pstate) (c : call) : option pstate :=
  let st' := pop_call tbl st c in
  if exc_eqb (k_exc c) (p_exc st') && log_eqb (k_log c) (rev (p_log st')) &&
     tree_match (p_store st') 0 (k_tree c)
  then Some st' else None.

Fixpoint run_calls (tbl : list (string * Z)) (st : pstate) (cs : list call) : bool :=
  match cs with
  | [] => true
  | c :: cs => match call_ok tbl st c with Some st' => run_calls tbl st' cs | None => false end
  end.

Definition ps_init := PS st_init 0 0 [] XNone.
Definition accepts (c : C16_case) : bool := run_calls (c_names c) ps_init (c_calls c).

(* ---- the property --------------------------------------------------------------------------- *)
(* the handles stored under one name in one map, newest (visible) first *)
Definition column (k : Z) (layers : list (list (Z * Z))) : list Z :=
  flat_map (fun l => match alookup k l with Some h => [h] | None => [] end) layers.
Fixpoint owalk (o : otree) (p : list Z) : option otree :=
  match p with
  | [] => Some o
  | k :: p' => match alookup k (o_subs o) with Some o' => owalk o' p' | None => None end
  end.
(* the column reachable under a key; [] when the key leads nowhere *)
Definition ocol (o : otree) (key : list Z * Z) : list Z :=
  match owalk o (fst key) with Some n => column (snd key) (o_layers n) | None => [] end.
Definition is_omap (o : otree) (p : list Z) : bool :=
  match owalk o p with Some _ => true | None => false end.

(* every key under which some handle is stored / every path that is a map *)
Fixpoint okeys (o : otree) : list (list Z * Z) :=
  match o with
  | ONode layers subs _ =>
      map (fun n => ([], n)) (List.concat (map (map fst) layers)) ++
      (fix go (l : list (Z * otree)) : list (list Z * Z) :=
         match l with
         | [] => []
         | (n, o') :: l => map (fun '(p, x) => (n :: p, x)) (okeys o') ++ go l
         end) subs
  end.
Fixpoint omaps (o : otree) : list (list Z) :=
  match o with
  | ONode _ subs _ =>
      [] :: (fix go (l : list (Z * otree)) : list (list Z) :=
               match l with
               | [] => []
               | (n, o') :: l => map (cons n) (omaps o') ++ go l
               end) subs
  end.
Fixpoint olinks (o : otree) : bool :=
  match o with
  | ONode _ subs b =>
      b && (fix go (l : list (Z * otree)) : bool :=
              match l with [] => true | (_, o') :: l => olinks o' && go l end) subs
  end.

Definition key_eqb (a b : list Z * Z) : bool :=
  list_eqb Z.eqb (fst a) (fst b) && (snd a =? snd b).

(* which rules are processed: all before the first one whose path exists
   and is not a directory *)
Fixpoint first_notdir (ts : list tstat) : bool :=
  match ts with
  | [] => false
  | TNotDir :: _ => true
  | _ :: ts => first_notdir ts
  end.
Fixpoint active {A} (rs : list A) (ts : list tstat) : list (A * list entry) :=
  match rs, ts with
  | r :: rs, TDir tr :: ts => (r, tr) :: active rs ts
  | _ :: rs, TMissing :: ts => active rs ts
  | _, _ => []                                 (* TNotDir: the call stops here *)
  end.

(* files a rule accepts, with the key each must be reachable under *)
Definition accepted_files (tbl : list (string * Z)) (c : call)
  : list ((list string * Z) * option (list Z * Z)) :=
  flat_map (fun '(r, truth) =>
              flat_map (fun e =>
                          match e_kind e with
                          | KFile => if ext_ok r e
                                     then [((norm (e_comps e), r_sig r),
                                            entry_key tbl (k_root c) (eff_trim c) e)]
                                     else []
                          | _ => []
                          end) truth)
           (active (k_rules c) (k_truth c)).
(* paths that correspond to a directory (or lead to a file) under a rule's
   directory *)
Fixpoint prefixes {A} (l : list A) : list (list A) :=
  match l with [] => [[]] | x :: l => [] :: map (cons x) (prefixes l) end.
Definition allowed_maps (tbl : list (string * Z)) (c : call) : list (list Z) :=
  flat_map (fun '(r, truth) =>
              flat_map (fun e =>
                          match key_comps (k_root c) (e_comps e) with
                          | Some kc =>
                              match intern tbl (match e_kind e with KDir => kc | _ => removelast kc end) with
                              | Some ks => prefixes ks
                              | None => []
                              end
                          | None => []
                          end) truth)
           (active (k_rules c) (k_truth c)).

Definition count_occ_b {A} (f : A -> A -> bool) (x : A) (l : list A) : nat :=
  List.length (filter (f x) l).
Definition perm_b {A} (f : A -> A -> bool) (a b : list A) : bool :=
  (List.length a =? List.length b)%nat &&
  forallb (fun x => (count_occ_b f x a =? count_occ_b f x b)%nat) a.

Definition built_eqb (a b : list string * Z) : bool :=
  list_eqb String.eqb (fst a) (fst b) && (snd a =? snd b).
Definition okey_eqb (a b : option (list Z * Z)) : bool :=
  match a, b with Some x, Some y => key_eqb x y | None, None => true | _, _ => false end.

(* the handles built for a key, oldest first *)
Definition news_of (tbl : list (string * Z)) (c : call) (key : list Z * Z) : list Z :=
  flat_map (fun '(h, (comps, sg)) =>
              match entry_key tbl (k_root c) (eff_trim c) (E KFile comps) with
              | Some k => if key_eqb k key then [h] else []
              | None => []
              end) (k_log c).
Definition expected_col (nest : bool) (before news : list Z) : list Z :=
  if nest then rev news ++ before
  else match news with [] => before | _ => List.last news 0 :: List.tl before end.

Fixpoint seq_from (n : Z) (l : list Z) : bool :=
  match l with [] => true | x :: l => (x =? n) && seq_from (n + 1) l end.

(* the keys of the files accepted in a call; the full path of a key *)
Definition accepted_keys (tbl : list (string * Z)) (c : call) : list (list Z * Z) :=
  flat_map (fun x => match snd x with Some k => [k] | None => [] end) (accepted_files tbl c).
Definition kpath (k : list Z * Z) : list Z := fst k ++ [snd k].
Fixpoint is_prefix (p l : list Z) : bool :=
  match p, l with
  | [], _ => true
  | x :: p, y :: l => (x =? y) && is_prefix p l
  | _ :: _, [] => false
  end.
Definition proper_prefix (p l : list Z) : bool := is_prefix p l && negb (list_eqb Z.eqb p l).

(* what must be under key k after the call.  Besides the keys of this
   call's files, the map may hold keys from earlier populations (of other
   directory trees): a name that is now a directory on the way to an
   accepted file must have lost its handles (every layer), whatever lay
   below a name that is now a file is gone, and for a name that is now some
   other directory the property leaves open whether it became a sub-map *)
Definition col_ok (tbl : list (string * Z)) (prev : otree) (c : call) (k : list Z * Z) : bool :=
  let now := ocol (k_tree c) k in
  let exp := expected_col (eff_nest c) (ocol prev k) (news_of tbl c k) in
  let afk := map kpath (accepted_keys tbl c) in
  if existsb (fun f => proper_prefix (kpath k) f) afk || existsb (fun f => is_prefix f (fst k)) afk
  then is_empty now
  else if existsb (list_eqb Z.eqb (kpath k)) (allowed_maps tbl c)
       then is_empty now || list_eqb Z.eqb now exp
       else list_eqb Z.eqb now exp.

Definition call_holds (tbl : list (string * Z)) (prev : otree) (nh : Z) (c : call) : bool :=
  let files := accepted_files tbl c in
  let keys := accepted_keys tbl c in
  let afk := map kpath keys in
  (* a rule path that exists and is not a directory: ValueError; missing: skipped *)
  exc_eqb (k_exc c) (if first_notdir (k_truth c) then XValueError else XNone) &&
  (* exactly one handle per accepted file, built from that file's path and
     the rule's arguments; the handles are new objects *)
  perm_b built_eqb (map (fun x => (norm (fst (snd x)), snd (snd x))) (k_log c)) (map fst files) &&
  forallb (fun x => match snd x with Some _ => true | None => false end) files &&
  seq_from nh (map fst (k_log c)) &&
  (* under every key: the handles built for it in this call on top of (nest)
     or instead of the top of (no nest) what was there; nothing else changed
     but for the names that changed between file and directory *)
  forallb (col_ok tbl prev c) (keys ++ okeys prev ++ okeys (k_tree c)) &&
  (* sub-maps: the old ones stay unless their name is now a file, a new one
     corresponds to a directory under a rule's directory or leads to one, no
     sub-map is left at or below the key of an accepted file; back-links are
     in place *)
  forallb (fun p => existsb (fun f => is_prefix f p) afk || is_omap (k_tree c) p) (omaps prev) &&
  forallb (fun p => is_omap prev p || existsb (list_eqb Z.eqb p) (allowed_maps tbl c))
          (omaps (k_tree c)) &&
  forallb (fun p => negb (existsb (fun f => is_prefix f p) afk)) (omaps (k_tree c)) &&
  olinks (k_tree c).

(* the part of [call_holds] that Props/C16.v proves for all cases *)
Definition call_holds_core (tbl : list (string * Z)) (nh : Z) (c : call) : bool :=
  exc_eqb (k_exc c) (if first_notdir (k_truth c) then XValueError else XNone) &&
  perm_b built_eqb (map (fun x => (norm (fst (snd x)), snd (snd x))) (k_log c))
                   (map fst (accepted_files tbl c)) &&
  forallb (fun x => match snd x with Some _ => true | None => false end) (accepted_files tbl c) &&
  seq_from nh (map fst (k_log c)) &&
  olinks (k_tree c).

Definition o_empty := ONode [[]] [] true.
Fixpoint holds_from (tbl : list (string * Z)) (prev : otree) (nh : Z) (cs : list call) : bool :=
  match cs with
  | [] => true
  | c :: cs =>
      call_holds tbl prev nh c &&
      holds_from tbl (k_tree c) (nh + Z.of_nat (List.length (k_log c))) cs
  end.
Definition holds_b (c : C16_case) : bool := holds_from (c_names c) o_empty 0 (c_calls c).
Fixpoint core_from (tbl : list (string * Z)) (nh : Z) (cs : list call) : bool :=
  match cs with
  | [] => true
  | c :: cs => call_holds_core tbl nh c &&
               core_from tbl (nh + Z.of_nat (List.length (k_log c))) cs
  end.
Definition holds_core_b (c : C16_case) : bool := core_from (c_names c) 0 (c_calls c).
Definition holds (c : C16_case) : Prop := holds_b c = true.

(* ---- input domain ------------------------------------------------------------------------------ *)
Fixpoint nodup_str (l : list string) : bool :=
  match l with [] => true | k :: l => negb (smem k l) && nodup_str l end.
Fixpoint nodup_z (l : list Z) : bool :=
  match l with [] => true | k :: l => negb (existsb (Z.eqb k) l) && nodup_z l end.

Definition proper_name (c : string) : bool :=
  negb (String.eqb c "" || String.eqb c "." || String.eqb c ".." || starts_dot c).

Definition kind_eqb (a b : kind) : bool :=
  match a, b with KFile, KFile => true | KDir, KDir => true | KOther, KOther => true | _, _ => false end.
Definition entry_eqb (a b : entry) : bool :=
  kind_eqb (e_kind a) (e_kind b) && list_eqb String.eqb (norm (e_comps a)) (norm (e_comps b)).

(* the part of a path below the root has a component that begins with '.' *)
Definition hidden (root : list string) (e : entry) : bool :=
  match key_comps root (e_comps e) with
  | Some kc => existsb starts_dot kc
  | None => false
  end.

(* the path of a file is written without a trailing separator: its last
   component is the file's name *)
Definition file_named (e : entry) : bool :=
  match e_kind e with
  | KFile => String.eqb (last_comp (e_comps e)) (List.last (norm (e_comps e)) EmptyString)
  | _ => true
  end.

Definition truth_ok (tbl : list (string * Z)) (c : call) (r : rule) (t : tstat) (seq : list entry) : bool :=
  match t with
  | TDir truth =>
      forallb file_named truth && forallb file_named seq &&
      (* the rule's directory first, everything else beneath it, nothing twice *)
      match truth with
      | d :: _ => kind_eqb (e_kind d) KDir &&
                  list_eqb String.eqb (norm (e_comps d)) (norm (k_root c ++ r_path r))
      | [] => false
      end &&
      forallb (fun e => match strip_prefix (norm (k_root c ++ r_path r)) (norm (e_comps e)) with
                        | Some _ => true        (* a FIFO, a broken link ... may be there too *)
                        | None => false
                        end) truth &&
      (fix nd (l : list entry) : bool :=
         match l with
         | [] => true
         | e :: l => negb (existsb (fun e' => list_eqb String.eqb (norm (e_comps e)) (norm (e_comps e'))) l)
                     && nd l
         end) truth &&
      (* every name has a number, with and without its extension *)
      forallb (fun e => match entry_key tbl (k_root c) true e, entry_key tbl (k_root c) false e with
                        | Some _, Some _ => true | _, _ => false end) truth &&
      (* glob is trusted to enumerate what is there, each entry once, except
         what begins with a dot (known finding K7) *)
      perm_b entry_eqb seq (filter (fun e => negb (hidden (k_root c) e)) truth)
  | _ => match seq with [] => true | _ => false end
  end.

Fixpoint forall3 {A B C} (f : A -> B -> C -> bool) (a : list A) (b : list B) (c : list C) : bool :=
  match a, b, c with
  | [], [], [] => true
  | x :: a, y :: b, z :: c => f x y z && forall3 f a b c
  | _, _, _ => false
  end.

(* the keys of all files / the paths of all directories of a call *)
Definition file_keys (tbl : list (string * Z)) (c : call) : list (list Z) :=
  flat_map (fun t => match t with
                     | TDir truth =>
                         flat_map (fun e => match e_kind e, entry_key tbl (k_root c) (eff_trim c) e with
                                            | KFile, Some (pre, last) => [pre ++ [last]]
                                            | _, _ => []
                                            end) truth
                     | _ => []
                     end) (k_truth c).
Definition dir_keys (tbl : list (string * Z)) (c : call) : list (list Z) :=
  flat_map (fun t => match t with
                     | TDir truth =>
                         flat_map (fun e =>
                            match key_comps (k_root c) (e_comps e) with
                            | Some kc =>
                                match intern tbl (match e_kind e with KDir => kc | _ => removelast kc end) with
                                | Some ks => prefixes ks
                                | None => []
                                end
                            | None => []
                            end) truth
                     | _ => []
                     end) (k_truth c).

Definition call_wf (tbl : list (string * Z)) (c : call) : bool :=
  forallb (fun r => nonempty (r_path r) && forallb proper_name (r_path r)) (k_rules c) &&
  forall3 (truth_ok tbl c) (k_rules c) (k_truth c) (k_seqs c).

(* within one population a name is a file or a directory, never both (C11:
   a name is a handle or a sub-map; no implementation could satisfy C16
   otherwise).  Across populations - other directory trees through root=,
   other populators - a name may change sides: the latest population wins *)
Definition call_noclash (tbl : list (string * Z)) (c : call) : bool :=
  forallb (fun k => negb (existsb (list_eqb Z.eqb k) (dir_keys tbl c))) (file_keys tbl c).
Definition wf_b (c : C16_case) : bool :=
  nodup_str (map fst (c_names c)) && nodup_z (map snd (c_names c)) &&
  forallb (call_wf (c_names c)) (c_calls c) &&
  forallb (call_noclash (c_names c)) (c_calls c).
(* no name changes sides in the whole sequence of populations *)
Definition noclash_b (c : C16_case) : bool :=
  let fk := flat_map (file_keys (c_names c)) (c_calls c) in
  let dk := flat_map (dir_keys (c_names c)) (c_calls c) in
  forallb (fun k => negb (existsb (list_eqb Z.eqb k) dk)) fk.

(* ---- known findings -------------------------------------------------------------------------------- *)
(* K7: an entry under a processed rule directory whose name begins with '.'
   (glob skips it) *)
Definition k7_call (c : call) : bool :=
  existsb (fun '(r, truth) => existsb (hidden (k_root c)) truth) (active (k_rules c) (k_truth c)).
(* K8: nest_on_conflict = False and a file's key whose visible handle is not
   in the first ChainMap layer of its map: the new handle is put on top of
   it instead of replacing it *)
Definition top_below_first (o : otree) (key : list Z * Z) : bool :=
  match owalk o (fst key) with
  | Some n =>
      match o_layers n with
      | l0 :: rest => match alookup (snd key) l0 with
                      | Some _ => false
                      | None => nonempty (column (snd key) rest)
                      end
      | [] => false
      end
  | None => false
  end.
Definition k8_call (tbl : list (string * Z)) (prev : otree) (c : call) : bool :=
  negb (eff_nest c) &&
  existsb (fun x => match snd x with Some k => top_below_first prev k | None => false end)
          (accepted_files tbl c).
Fixpoint known_from (tbl : list (string * Z)) (prev : otree) (cs : list call) : bool :=
  match cs with
  | [] => false
  | c :: cs => k7_call c || k8_call tbl prev c || known_from tbl (k_tree c) cs
  end.
Definition known_b (c : C16_case) : bool := known_from (c_names c) o_empty (c_calls c).

Definition C16_verdict (c : C16_case) : nat :=
  (bit (wf_b c) 1 + bit (known_b c) 2 + bit (accepts c) 4 + bit (holds_b c) 8)%nat.
