(* C16: the factory calls of one population are, up to order, exactly the
   files the rules accept in the directory tree (one call per file and rule,
   with that file's path and the rule's arguments). *)
From Coq Require Import ZArith List Bool String Ascii Lia Permutation.
From Desper Require Import Lib.Alist Tree.C11Model Tree.C11Lemmas Tree.C11Inv
     Tree.C16Model Tree.C16Proofs.
Import ListNotations.
Open Scope Z_scope.

(* ---- boolean permutation against Permutation ------------------------------------------- *)
Lemma Permutation_filter {A} (p : A -> bool) l l' :
  Permutation l l' -> Permutation (filter p l) (filter p l').
Proof.
  induction 1 as [|x l l' H IH|x y l|l1 l2 l3 H1 IH1 H2 IH2]; cbn [filter].
  - constructor.
  - destruct (p x); [now constructor|assumption].
  - destruct (p x); destruct (p y); try reflexivity. apply perm_swap.
  - now transitivity (filter p l2).
Qed.

Section PermB.
  Context {A B : Type} (f : A -> A -> bool) (g : A -> B).
  Hypothesis fg : forall x y, f x y = true <-> g x = g y.

  Lemma f_refl x : f x x = true.
  Proof. now apply fg. Qed.

  Lemma f_congr x y z : g x = g y -> f z x = f z y.
  Proof.
    intros E. destruct (f z x) eqn:E1; destruct (f z y) eqn:E2; auto.
    - apply fg in E1. assert (f z y = true) by (apply fg; congruence). congruence.
    - apply fg in E2. assert (f z x = true) by (apply fg; congruence). congruence.
  Qed.

  Lemma count_app x l1 l2 :
    count_occ_b f x (l1 ++ l2) = (count_occ_b f x l1 + count_occ_b f x l2)%nat.
  Proof. unfold count_occ_b. now rewrite filter_app, app_length. Qed.

  Lemma perm_b_Permutation : forall a b,
    perm_b f a b = true -> Permutation (map g a) (map g b).
  Proof.
    induction a as [|x a IH]; intros b H.
    - unfold perm_b in H. apply andb_true_iff in H. destruct H as [H _].
      apply Nat.eqb_eq in H. destruct b; [constructor|discriminate].
    - destruct (perm_b_in f (x :: a) b x f_refl H (or_introl eq_refl)) as (y & HIy & Hxy).
      apply in_split in HIy. destruct HIy as (b1 & b2 & ->).
      apply fg in Hxy.
      assert (HR : perm_b f a (b1 ++ b2) = true).
      { unfold perm_b in H |- *. apply andb_true_iff in H. destruct H as [HL HC].
        apply Nat.eqb_eq in HL. rewrite app_length in HL. cbn [List.length] in HL.
        apply andb_true_iff. split.
        - apply Nat.eqb_eq. rewrite app_length. lia.
        - rewrite forallb_forall in HC. apply forallb_forall. intros z Hz.
          specialize (HC z (or_intror Hz)). apply Nat.eqb_eq in HC. apply Nat.eqb_eq.
          rewrite count_app in HC |- *. unfold count_occ_b in HC |- *.
          cbn [filter] in HC. rewrite (f_congr x y z Hxy) in HC.
          destruct (f z y); cbn [List.length] in HC; lia. }
      specialize (IH _ HR). rewrite map_app in IH |- *. cbn [map]. rewrite Hxy.
      now apply Permutation_cons_app.
  Qed.
End PermB.

Lemma Permutation_perm_b {A} (f : A -> A -> bool) :
  (forall x y, f x y = true <-> x = y) ->
  forall a b, Permutation a b -> perm_b f a b = true.
Proof.
  intros Hf a b HP. unfold perm_b. apply andb_true_iff. split.
  - apply Nat.eqb_eq. now apply Permutation_length.
  - apply forallb_forall. intros x _. apply Nat.eqb_eq. unfold count_occ_b.
    apply Permutation_length. now apply Permutation_filter.
Qed.

Lemma built_eqb_eq x y : built_eqb x y = true <-> x = y.
Proof.
  unfold built_eqb. destruct x as [a n], y as [b m]. cbn [fst snd]. split.
  - intros H. apply andb_true_iff in H. destruct H as [H1 H2].
    apply str_list_eqb_eq in H1. apply Z.eqb_eq in H2. congruence.
  - intros [= -> ->]. rewrite (list_eqb_refl String.eqb String.eqb_refl), Z.eqb_refl.
    reflexivity.
Qed.

(* ---- what one rule accepts ---------------------------------------------------------------- *)
Definition accepted (r : rule) (e : entry) : bool :=
  match e_kind e with KFile => ext_ok r e | _ => false end.
Definition payload (r : rule) (e : entry) : list string * Z := (norm (e_comps e), r_sig r).

Definition nrm (e : entry) : kind * list string := (e_kind e, norm (e_comps e)).
Lemma entry_eqb_nrm x y : entry_eqb x y = true <-> nrm x = nrm y.
Proof.
  unfold entry_eqb, nrm. split.
  - intros H. apply andb_true_iff in H. destruct H as [H1 H2].
    apply kind_eqb_eq in H1. apply str_list_eqb_eq in H2. congruence.
  - intros [= -> ->]. rewrite (list_eqb_refl String.eqb String.eqb_refl).
    destruct (e_kind y); reflexivity.
Qed.

(* acceptance and payload only depend on the kind and the normalised path,
   for entries whose last component is the file's name *)
Definition accepted' (r : rule) (x : kind * list string) : bool :=
  match fst x with
  | KFile => match r_exts r with
             | [] => true
             | exts => smem (snd (splitext (List.last (snd x) EmptyString))) exts
             end
  | _ => false
  end.
Definition payload' (r : rule) (x : kind * list string) : list string * Z := (snd x, r_sig r).

Lemma accepted_nrm r e : file_named e = true -> accepted r e = accepted' r (nrm e).
Proof.
  unfold file_named, accepted, accepted', ext_ok, nrm. cbn [fst snd].
  destruct (e_kind e); auto. intros H. apply String.eqb_eq in H. now rewrite H.
Qed.

Lemma filter_map_nrm r l : forallb file_named l = true ->
  map (payload r) (filter (accepted r) l) =
  map (payload' r) (filter (accepted' r) (map nrm l)).
Proof.
  induction l as [|e l IH]; cbn [forallb map filter]; auto.
  intros H. apply andb_true_iff in H. destruct H as [H1 H2].
  rewrite <- (accepted_nrm r e H1). destruct (accepted r e); cbn [map]; now rewrite IH.
Qed.

Lemma hidden_filter_id root l :
  existsb (hidden root) l = false -> filter (fun e => negb (hidden root e)) l = l.
Proof.
  induction l as [|e l IH]; cbn [existsb filter]; auto.
  intros H. apply orb_false_iff in H. destruct H as [H1 H2]. rewrite H1. cbn [negb].
  now rewrite IH.
Qed.

Lemma rule_perm tbl c r truth seq :
  truth_ok tbl c r (TDir truth) seq = true -> existsb (hidden (k_root c)) truth = false ->
  Permutation (map (payload r) (filter (accepted r) seq))
              (map (payload r) (filter (accepted r) truth)).
Proof.
  unfold truth_ok. intros H HH.
  apply andb_true_iff in H. destruct H as [H HPerm].
  repeat (apply andb_true_iff in H; destruct H as [H ?]).
  rewrite (hidden_filter_id _ _ HH) in HPerm.
  rewrite !filter_map_nrm by assumption.
  apply Permutation_map, Permutation_filter.
  exact (perm_b_Permutation entry_eqb nrm entry_eqb_nrm _ _ HPerm).
Qed.

(* ---- the log the model writes --------------------------------------------------------------- *)
Lemma pop_entry_log tbl root nest trim r st e :
  PInv st -> p_exc st = XNone -> entry_key tbl root trim e <> None ->
  p_log (pop_entry tbl root nest trim r st e) =
  if accepted r e then (p_nh st, (e_comps e, r_sig r)) :: p_log st else p_log st.
Proof.
  intros HP HX HK. unfold pop_entry, accepted. rewrite HX.
  destruct (ext_ok r e).
  2:{ destruct (e_kind e); reflexivity. }
  destruct (entry_key tbl root trim e) as [[pre last]|]; [|contradiction].
  destruct (e_kind e); [| |reflexivity].
  - destruct nest.
    + destruct HP as [(used & sp & HI & _) _ _ HL].
      destruct (nest_step_ok used (p_store st) pre last HI HL) as (s1 & -> & _). reflexivity.
    + reflexivity.
  - destruct (py_get (p_store st) 0 pre last RNone); reflexivity.
Qed.

Lemma pop_entries_log tbl root nest trim r n0 seq : forall st,
  PInv st -> LogOK n0 st -> p_exc st = XNone ->
  (forall e, In e seq -> entry_key tbl root trim e <> None) ->
  map snd (rev (p_log (fold_left (pop_entry tbl root nest trim r) seq st))) =
  map snd (rev (p_log st)) ++ map (fun e => (e_comps e, r_sig r)) (filter (accepted r) seq).
Proof.
  induction seq as [|e seq IH]; intros st HP HL HX HK; cbn [fold_left filter map].
  - now rewrite app_nil_r.
  - pose proof (HK e (or_introl eq_refl)) as HKe.
    destruct (pop_entry_ok tbl root nest trim r n0 st e HP HL HX HKe) as (A & B & C).
    rewrite IH; auto. 2:{ intros e' HI. apply HK. now right. }
    rewrite (pop_entry_log tbl root nest trim r st e HP HX HKe).
    destruct (accepted r e); cbn [rev map]; [|reflexivity].
    rewrite map_app, <- app_assoc. reflexivity.
Qed.

(* the rules that are processed, with the sequence glob gave for each *)
Fixpoint act_seqs (rs : list rule) (ts : list tstat) (qs : list (list entry))
  : list (rule * list entry) :=
  match rs, ts, qs with
  | r :: rs, TDir _ :: ts, q :: qs => (r, q) :: act_seqs rs ts qs
  | _ :: rs, TMissing :: ts, _ :: qs => act_seqs rs ts qs
  | _, _, _ => []
  end.

Definition built_by (l : list (rule * list entry)) : list (list string * Z) :=
  flat_map (fun '(r, q) => map (fun e => (e_comps e, r_sig r)) (filter (accepted r) q)) l.

Lemma pop_rules_log tbl c nest n0 : forall rs ts qs st,
  PInv st -> LogOK n0 st -> p_exc st = XNone ->
  forall3 (truth_ok tbl c) rs ts qs = true ->
  map snd (rev (p_log (pop_rules tbl (k_root c) nest (eff_trim c) st rs ts qs))) =
  map snd (rev (p_log st)) ++ built_by (act_seqs rs ts qs).
Proof.
  induction rs as [|r rs IH]; intros ts qs st HP HL HX HF.
  - destruct ts; cbn [pop_rules act_seqs built_by flat_map]; now rewrite app_nil_r.
  - destruct ts as [|t ts]; [discriminate|]. destruct qs as [|q qs]; [discriminate|].
    cbn [forall3] in HF. apply andb_true_iff in HF. destruct HF as [HT HF].
    cbn [pop_rules List.tl]. unfold pop_rule. rewrite HX.
    destruct t as [| |truth].
    + cbn [act_seqs]. now apply IH.
    + (* not a directory: the call stops; nothing more is built *)
      cbn [act_seqs built_by flat_map]. rewrite app_nil_r.
      set (st1 := PS (p_store st) (p_nh st) (p_nm st) (p_log st) XValueError).
      assert (HP1 : PInv st1) by (destruct HP as [A B C D]; constructor; auto).
      assert (HS : forall rs ts qs, p_log (pop_rules tbl (k_root c) nest (eff_trim c) st1 rs ts qs)
                                    = p_log st).
      { clear. intros rs. induction rs as [|r rs IH]; intros ts qs; [destruct ts; reflexivity|].
        destruct ts as [|t ts]; [reflexivity|]. cbn [pop_rules]. unfold pop_rule at 1.
        cbn [p_exc st1]. apply IH. }
      now rewrite HS.
    + pose proof (truth_ok_keys tbl c r truth q (eff_trim c) HT) as HK.
      destruct (pop_entries_ok tbl (k_root c) nest (eff_trim c) r n0 q st HP HL HX HK)
        as (A & B & C).
      cbn [act_seqs built_by flat_map]. rewrite IH; auto.
      rewrite (pop_entries_log tbl (k_root c) nest (eff_trim c) r n0 q st HP HL HX HK).
      now rewrite <- app_assoc.
Qed.

(* ---- against the truth ------------------------------------------------------------------------ *)
Lemma built_perm tbl c : forall rs ts qs,
  forall3 (truth_ok tbl c) rs ts qs = true ->
  existsb (fun '(r, truth) => existsb (hidden (k_root c)) truth) (active rs ts) = false ->
  Permutation
    (map (fun x => (norm (fst x), snd x)) (built_by (act_seqs rs ts qs)))
    (flat_map (fun '(r, truth) => map (payload r) (filter (accepted r) truth)) (active rs ts)).
Proof.
  induction rs as [|r rs IH]; intros ts qs HF HH.
  - destruct ts; cbn; constructor.
  - destruct ts as [|t ts]; [discriminate|]. destruct qs as [|q qs]; [discriminate|].
    cbn [forall3] in HF. apply andb_true_iff in HF. destruct HF as [HT HF].
    destruct t as [| |truth]; cbn [act_seqs active].
    + now apply IH.
    + cbn. constructor.
    + cbn [existsb] in HH. apply orb_false_iff in HH. destruct HH as [HH1 HH2].
      cbn [built_by flat_map]. rewrite map_app. apply Permutation_app; [|now apply IH].
      rewrite map_map. cbn [fst snd].
      exact (rule_perm tbl c r truth q HT HH1).
Qed.

Lemma accepted_files_fst tbl c :
  map fst (accepted_files tbl c) =
  flat_map (fun '(r, truth) => map (payload r) (filter (accepted r) truth))
           (active (k_rules c) (k_truth c)).
Proof.
  unfold accepted_files. induction (active (k_rules c) (k_truth c)) as [|[r truth] l IH];
    [reflexivity|].
  cbn [flat_map]. rewrite map_app, IH. f_equal. clear.
  induction truth as [|e truth IH]; [reflexivity|].
  cbn [flat_map filter]. unfold accepted at 1.
  destruct (e_kind e); [|exact IH|exact IH].
  destruct (ext_ok r e); cbn [app map fst]; [|exact IH]. now rewrite IH.
Qed.

Lemma accepted_files_keys tbl c :
  forallb (call_wf tbl) [c] = true ->
  forallb (fun x => match snd x with Some _ => true | None => false end)
          (accepted_files tbl c) = true.
Proof.
  cbn [forallb]. rewrite andb_true_r. unfold call_wf. intros H.
  apply andb_true_iff in H. destruct H as [_ HF].
  unfold accepted_files. revert HF. generalize (k_seqs c) (k_truth c).
  induction (k_rules c) as [|r rs IH]; intros qs ts HF; [destruct ts; reflexivity|].
  destruct ts as [|t ts]; [discriminate|]. destruct qs as [|q qs]; [discriminate|].
  cbn [forall3] in HF. apply andb_true_iff in HF. destruct HF as [HT HF].
  destruct t as [| |truth]; cbn [active flat_map]; [now apply (IH qs)|reflexivity|].
  rewrite forallb_app. rewrite (IH qs ts HF), andb_true_r.
  unfold truth_ok in HT. apply andb_true_iff in HT. destruct HT as [HT _].
  apply andb_true_iff in HT. destruct HT as [_ HK]. rewrite forallb_forall in HK.
  apply forallb_forall. intros x Hx. apply in_flat_map in Hx. destruct Hx as (e & He & Hx).
  specialize (HK e He).
  destruct (e_kind e); [|destruct Hx|destruct Hx].
  destruct (ext_ok r e); [|destruct Hx]. destruct Hx as [<-|[]]. cbn [snd].
  destruct (eff_trim c);
    destruct (entry_key tbl (k_root c) true e); try discriminate;
    destruct (entry_key tbl (k_root c) false e); try discriminate; reflexivity.
Qed.
