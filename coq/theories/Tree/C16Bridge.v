(* C16: an observed tree that matches the store answers path questions as
   the store does. *)
From Coq Require Import ZArith List Bool String Lia.
From Desper Require Import Lib.Alist Tree.C11Model Tree.C11Lemmas Tree.C11Inv Tree.C16Model
     Tree.C16Proofs Tree.C16Paths Tree.C16Full.
Import ListNotations.
Open Scope Z_scope.

Lemma tm_list_spec s m subs : tm_list s m tree_match subs = true ->
  forall n o', In (n, o') subs ->
  exists c, alookup n (m_maps (sm s m)) = Some c /\ tree_match s c o' = true.
Proof.
  induction subs as [|[n0 o0] subs IH]; intros H n o' HI; [destruct HI|].
  change ((match alookup n0 (m_maps (sm s m)) with
           | Some c => tree_match s c o0 | None => false end) &&
          tm_list s m tree_match subs = true) in H.
  apply andb_true_iff in H. destruct H as [H1 H2]. destruct HI as [HI|HI].
  - injection HI as -> ->. destruct (alookup n (m_maps (sm s m))) as [c|]; [eauto|discriminate].
  - eauto.
Qed.

Lemma bridge_walk s : forall p o m, tree_match s m o = true ->
  match owalk o p, walk s m p with
  | Some o', Some x => tree_match s x o' = true
  | None, None => True
  | _, _ => False
  end.
Proof.
  induction p as [|k p IH]; intros o m HM; cbn [owalk walk]; [exact HM|].
  destruct o as [layers subs links]. cbn [o_subs]. pose proof HM as HM'.
  rewrite tree_match_eq in HM'.
  apply andb_true_iff in HM'. destruct HM' as [HM' M4].
  apply andb_true_iff in HM'. destruct HM' as [_ M3].
  destruct (alookup k subs) as [o'|] eqn:E.
  - apply alookup_In in E. destruct (tm_list_spec s m subs M4 k o' E) as (c & -> & HC).
    now apply IH.
  - destruct (alookup k (m_maps (sm s m))) as [c|] eqn:E2; [|exact I].
    rewrite forallb_forall in M3. apply alookup_In in E2. specialize (M3 _ E2). cbn in M3.
    unfold amem in M3. rewrite E in M3. discriminate.
Qed.

Lemma tree_match_layers s m o : tree_match s m o = true ->
  same_layers (o_layers o) (m_layers (sm s m)) = true.
Proof.
  destruct o as [layers subs links]. rewrite tree_match_eq. intros H.
  apply andb_true_iff in H. destruct H as [H _].
  apply andb_true_iff in H. destruct H as [H _].
  apply andb_true_iff in H. now destruct H as [H _].
Qed.

Lemma bridge_col s o : tree_match s 0 o = true -> forall key, ocol o key = scol s key.
Proof.
  intros HM [p n]. unfold ocol, scol. cbn [fst snd].
  pose proof (bridge_walk s p o 0 HM) as HB.
  destruct (owalk o p) as [o'|]; destruct (walk s 0 p) as [x|]; try contradiction; auto.
  unfold ncol. apply same_layers_column. now apply tree_match_layers.
Qed.

Lemma bridge_map s o : tree_match s 0 o = true ->
  forall p, is_omap o p = true <-> walk s 0 p <> None.
Proof.
  intros HM p. unfold is_omap. pose proof (bridge_walk s p o 0 HM) as HB.
  destruct (owalk o p); destruct (walk s 0 p); try contradiction; split; congruence.
Qed.

Lemma bridge_k8 s o key : tree_match s 0 o = true -> top_below_first o key = false ->
  forall t, walk s 0 (fst key) = Some t -> lay0 s t (snd key) = None -> ncol s t (snd key) = [].
Proof.
  intros HM HT t HW HL. unfold top_below_first in HT.
  pose proof (bridge_walk s (fst key) o 0 HM) as HB. rewrite HW in HB.
  destruct (owalk o (fst key)) as [o'|]; [|contradiction].
  pose proof (tree_match_layers s t o' HB) as HS.
  unfold ncol, lay0 in *. destruct (o_layers o') as [|l0' rest'];
    destruct (m_layers (sm s t)) as [|l0 rest]; cbn [same_layers] in HS; try discriminate;
    [reflexivity|].
  apply andb_true_iff in HS. destruct HS as [HS1 HS2].
  unfold hid, name in *.
  rewrite (same_dict_lookup _ _ HS1 (snd key)), HL in HT.
  rewrite column_cons, HL. cbn [app]. rewrite <- (same_layers_column _ _ (snd key) HS2).
  destruct (column (snd key) rest'); [reflexivity|discriminate].
Qed.

(* every listed sub-map path walks *)
Definition omaps_list :=
  fix go (l : list (Z * otree)) : list (list Z) :=
    match l with
    | [] => []
    | (n, o') :: l => map (cons n) (omaps o') ++ go l
    end.
Lemma omaps_eq layers subs b : omaps (ONode layers subs b) = [] :: omaps_list subs.
Proof. reflexivity. Qed.

Lemma omaps_list_in subs p : In p (omaps_list subs) ->
  exists n o' p', In (n, o') subs /\ p = n :: p' /\ In p' (omaps o').
Proof.
  induction subs as [|[n o'] subs IH]; intros HI; [destruct HI|].
  change (In p (map (cons n) (omaps o') ++ omaps_list subs)) in HI.
  apply in_app_or in HI. destruct HI as [HI|HI].
  - apply in_map_iff in HI. destruct HI as (p' & <- & HI). exists n, o', p'.
    split; [now left|auto].
  - destruct (IH HI) as (n1 & o1 & p1 & A & B & C). exists n1, o1, p1. split; [now right|auto].
Qed.

Lemma omaps_store s : forall o m p, tree_match s m o = true -> In p (omaps o) ->
  walk s m p <> None.
Proof.
  apply (otree_ind2 (fun o => forall m p, tree_match s m o = true -> In p (omaps o) ->
                                          walk s m p <> None)).
  intros layers subs links HF m p HM HI. rewrite omaps_eq in HI.
  destruct HI as [<-|HI]; [cbn; discriminate|].
  destruct (omaps_list_in subs p HI) as (n & o' & p' & A & -> & C).
  rewrite tree_match_eq in HM. apply andb_true_iff in HM. destruct HM as [_ M4].
  destruct (tm_list_spec s m subs M4 n o' A) as (c & E & HC).
  cbn [walk]. rewrite E. rewrite Forall_forall in HF. exact (HF (n, o') A c p' HC C).
Qed.
