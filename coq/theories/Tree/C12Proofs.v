From Coq Require Import ZArith List Bool Lia.
From Desper Require Import Lib.Alist Tree.C12Model.
Import ListNotations.
Open Scope Z_scope.

(* refinement relation between the model state (fields of Handle) and the
   specification state (history summary), handle by handle *)
Definition R1 (x : hstate) (y : Z * bool) : Prop :=
  h_loads x = fst y /\ h_cached x = snd y /\
  (h_cached x = true -> h_cache x = Some (h_loads x)).

Definition Rh (s : hstates) (t : shandles) : Prop := forall h, R1 (hget s h) (sget t h).
Definition R (s : state) (t : sstate) : Prop :=
  Rh (st_h s) (sp_h t) /\ st_cur s = sp_cur t.

Lemma R_init : R st_init sp_init.
Proof.
  split; [|reflexivity]. intros h. unfold hget, sget. cbn.
  repeat split; auto. discriminate.
Qed.

Lemma hget_aset s h h' x : hget (aset h x s) h' = if h' =? h then x else hget s h'.
Proof. unfold hget. rewrite alookup_aset. destruct (h' =? h); reflexivity. Qed.

Lemma sget_aset s h h' x : sget (aset h x s) h' = if h' =? h then x else sget s h'.
Proof. unfold sget. rewrite alookup_aset. destruct (h' =? h); reflexivity. Qed.

Lemma Rh_aset s t h x y : Rh s t -> R1 x y -> Rh (aset h x s) (aset h y t).
Proof.
  intros HR H1 h'. rewrite hget_aset, sget_aset. destruct (h' =? h); auto.
Qed.

Lemma R1_clear x y : R1 x y -> R1 (clear x) (fst y, false).
Proof.
  intros (Hl & _ & _). unfold clear. repeat split; cbn; auto. discriminate.
Qed.

Lemma Rh_clear s t h : Rh s t -> Rh (aset h (clear (hget s h)) s) (sclear h t).
Proof. intros HR. unfold sclear. apply Rh_aset; auto. apply R1_clear, HR. Qed.

(* what a loading access observes when the handle is already loaded *)
Lemma spec_access_loaded n fail ob y :
  spec_access n true fail ob = Some y ->
  y = (n, true) /\ o_loads ob = n /\ o_exc ob = false /\ o_flag ob = true.
Proof.
  unfold spec_access.
  destruct (o_loads ob =? n) eqn:E1; cbn [andb]; [|discriminate].
  destruct (o_flag ob); cbn [andb]; [|discriminate].
  destruct (o_exc ob); cbn [negb]; [discriminate|].
  intros [= <-]. apply Z.eqb_eq in E1. auto.
Qed.

(* ... and when it is not: exactly one more load attempt; it either raises
   (nothing cached) or succeeds (cached from now on) *)
Lemma spec_access_unloaded n fail ob y :
  spec_access n false fail ob = Some y ->
  o_loads ob = n + 1 /\ o_exc ob = fail /\ y = (n + 1, negb fail).
Proof.
  unfold spec_access. destruct fail.
  - destruct (o_loads ob =? n + 1) eqn:E1; cbn [andb]; [|discriminate].
    destruct (o_flag ob); cbn [andb]; [|discriminate].
    destruct (o_exc ob); [|discriminate].
    intros [= <-]. apply Z.eqb_eq in E1. auto.
  - destruct (o_loads ob =? n + 1) eqn:E1; cbn [andb]; [|discriminate].
    destruct (o_flag ob); cbn [andb]; [|discriminate].
    destruct (o_exc ob); cbn [negb]; [discriminate|].
    intros [= <-]. apply Z.eqb_eq in E1. auto.
Qed.

(* Handle.__call__ characterised: whatever observation the model accepts for
   a call is what the specification demands, and the refinement is kept *)
Lemma call_spec x y fail x' v r :
  R1 x y -> call x fail = (x', v, r) ->
  exists y', (forall ob, obs_ok ob x' v r = true ->
                         spec_access (fst y) (snd y) fail ob = Some y') /\ R1 x' y'.
Proof.
  intros (Hl & Hc & Hk) Hcall. unfold call in Hcall.
  destruct y as [n since]. cbn [fst snd] in *.
  destruct (h_cached x) eqn:E.
  - injection Hcall as <- <- <-. subst since. exists (n, true). split.
    + intros ob Hob. unfold obs_ok in Hob. rewrite Hl in Hob.
      unfold is_latest in Hob. rewrite (Hk eq_refl), Hl, Z.eqb_refl in Hob.
      unfold spec_access.
      destruct (o_loads ob =? n); cbn [andb] in *; [|discriminate].
      destruct (o_exc ob); cbn [Bool.eqb andb negb] in *; [discriminate|].
      destruct (o_flag ob); cbn [Bool.eqb] in *; [reflexivity|discriminate].
    + repeat split; auto.
  - subst since. destruct fail.
    + injection Hcall as <- <- <-. exists (n + 1, false). split.
      * intros ob Hob. unfold obs_ok in Hob. cbn [h_loads] in Hob. rewrite Hl in Hob.
        unfold spec_access.
        destruct (o_loads ob =? n + 1); cbn [andb] in *; [|discriminate].
        destruct (o_exc ob); cbn [Bool.eqb andb] in *; [|discriminate].
        destruct (o_flag ob); cbn [Bool.eqb] in *; [reflexivity|discriminate].
      * repeat split; cbn; auto; try lia.
    + injection Hcall as <- <- <-. exists (n + 1, true). split.
      * intros ob Hob. unfold obs_ok in Hob. cbn [h_loads h_cache is_latest] in Hob.
        rewrite Hl, Z.eqb_refl in Hob.
        unfold spec_access.
        destruct (o_loads ob =? n + 1); cbn [andb] in *; [|discriminate].
        destruct (o_exc ob); cbn [Bool.eqb andb negb] in *; [discriminate|].
        destruct (o_flag ob); cbn [Bool.eqb] in *; [reflexivity|discriminate].
      * repeat split; cbn; auto; lia.
Qed.

(* a call that did not raise leaves the handle cached: a second call right
   after it neither loads nor changes anything *)
Lemma call_ok_again x fail x' v :
  call x fail = (x', v, false) -> call x' false = (x', v, false).
Proof.
  unfold call. destruct (h_cached x) eqn:E.
  - intros [= <- <-]. now rewrite E.
  - destruct fail; [discriminate|]. intros [= <- <-]. reflexivity.
Qed.

Lemma step_sim s t o ob s' :
  R s t -> step s o ob = Some s' ->
  exists t', spec_step t o ob = Some t' /\ R s' t'.
Proof.
  intros [HR Hcur] Hs. destruct o as [h p fail|h|h|h cc cn fail]; cbn [step spec_step] in *.
  - pose proof (HR h) as H1. destruct (sget (sp_h t) h) as [n since] eqn:Et.
    destruct p; cbn [loading].
    1-4: destruct (call (hget (st_h s) h) fail) as [[x' v] r] eqn:Ec;
         destruct (call_spec _ _ _ _ _ _ H1 Ec) as (y' & Hy & HRy); cbn [fst snd] in Hy;
         destruct (obs_ok ob x' v r) eqn:Eo; [|discriminate];
         injection Hs as <-; rewrite (Hy ob Eo);
         eexists; split; [reflexivity|]; split; cbn; [apply Rh_aset; auto|auto].
    + (* PGet *) destruct H1 as (Hl & _). cbn [fst] in Hl. rewrite <- Hl.
      destruct ((o_loads ob =? h_loads (hget (st_h s) h)) && o_flag ob && negb (o_exc ob));
        [|discriminate].
      injection Hs as <-. eexists; split; [reflexivity|]. split; auto.
    + (* PSGet *) destruct H1 as (Hl & _). cbn [fst] in Hl. rewrite <- Hl.
      destruct ((o_loads ob =? h_loads (hget (st_h s) h)) && o_flag ob && negb (o_exc ob));
        [|discriminate].
      injection Hs as <-. eexists; split; [reflexivity|]. split; auto.
  - pose proof (HR h) as H1. destruct (sget (sp_h t) h) as [n since] eqn:Et.
    destruct H1 as (Hl & Hc & Hk). cbn [fst snd] in *.
    cbn [clear h_loads] in Hs. rewrite Hl in Hs.
    destruct ((o_loads ob =? n) && o_flag ob && negb (o_exc ob)); [|discriminate].
    injection Hs as <-.
    eexists; split; [reflexivity|]. split; cbn; auto.
    apply Rh_clear; auto.
  - pose proof (HR h) as H1. destruct (sget (sp_h t) h) as [n since] eqn:Et.
    destruct H1 as (Hl & Hc & Hk). cbn [fst snd] in *.
    rewrite Hl, Hc in Hs.
    destruct ((o_loads ob =? n) && Bool.eqb (o_flag ob) since && negb (o_exc ob)); [|discriminate].
    injection Hs as <-. eexists; split; [reflexivity|]. split; auto.
  - (* OSwitch *)
    rewrite <- Hcur.
    set (s1 := match st_cur s with
               | Some c => if cc then aset c (clear (hget (st_h s) c)) (st_h s) else st_h s
               | None => st_h s end) in *.
    set (t1 := match st_cur s with
               | Some c => if cc then sclear c (sp_h t) else sp_h t
               | None => sp_h t end).
    assert (HR1 : Rh s1 t1).
    { subst s1 t1. destruct (st_cur s) as [c|]; auto. destruct cc; auto.
      apply Rh_clear; auto. }
    set (s2 := if cn then aset h (clear (hget s1 h)) s1 else s1) in *.
    set (t2 := if cn then sclear h t1 else t1).
    assert (HR2 : Rh s2 t2).
    { subst s2 t2. destruct cn; auto. apply Rh_clear; auto. }
    pose proof (HR2 h) as H1. destruct (sget t2 h) as [n since] eqn:Et.
    destruct (call (hget s2 h) fail) as [[x1 v1] r1] eqn:Ec1.
    destruct (call_spec _ _ _ _ _ _ H1 Ec1) as (y' & Hy & HRy); cbn [fst snd] in Hy.
    destruct r1.
    + destruct (obs_ok ob x1 v1 true) eqn:Eo; [|discriminate].
      injection Hs as <-. rewrite (Hy ob Eo).
      eexists; split; [reflexivity|]. split; cbn; auto. apply Rh_aset; auto.
    + rewrite (call_ok_again _ _ _ _ Ec1) in Hs.
      destruct (obs_ok ob x1 v1 false) eqn:Eo; [|discriminate].
      injection Hs as <-. rewrite (Hy ob Eo).
      eexists; split; [reflexivity|]. split; cbn; auto. apply Rh_aset; auto.
Qed.

Lemma run_sim tr : forall s t s',
  R s t -> run s tr = Some s' -> exists t', spec_run t tr = Some t' /\ R s' t'.
Proof.
  induction tr as [|[o ob] tr IH]; intros s t s' HR Hrun; cbn [run spec_run] in *.
  - injection Hrun as <-. eauto.
  - destruct (step s o ob) as [s1|] eqn:Es; [|discriminate].
    destruct (step_sim _ _ _ _ _ HR Es) as (t1 & Ht1 & HR1). rewrite Ht1. eauto.
Qed.

Theorem accepts_holds tr : accepts tr = true -> holds tr.
Proof.
  unfold accepts, holds, holds_b. destruct (run st_init tr) as [s'|] eqn:E; [|discriminate].
  intros _. destruct (run_sim _ _ _ _ R_init E) as (t' & -> & _). reflexivity.
Qed.

(* ---- what [holds] says on raw observations ------------------------------
   [clears h cur o]: operation o clears handle h (cur = handle the loop is on) *)
Definition clears (h : Z) (cur : option Z) (o : op) : bool :=
  match o with
  | OClear h' => h =? h'
  | OSwitch h' cc cn _ =>
      (cn && (h =? h')) ||
      (cc && match cur with Some c => h =? c | None => false end)
  | _ => false
  end.

Definition touches (h : Z) (o : op) : bool :=
  match o with OAccess h' _ _ | OClear h' | OCached h' | OSwitch h' _ _ _ => h =? h' end.

Definition next_cur (cur : option Z) (o : op) : option Z :=
  match o with OSwitch h _ _ _ => Some h | _ => cur end.

Fixpoint no_clear (h : Z) (cur : option Z) (tr : trace) : bool :=
  match tr with
  | [] => true
  | (o, _) :: tr => negb (clears h cur o) && no_clear h (next_cur cur o) tr
  end.

Lemma sget_sclear s h h' :
  sget (sclear h s) h' = if h' =? h then (fst (sget s h), false) else sget s h'.
Proof. unfold sclear. apply sget_aset. Qed.

(* one spec step on a handle that is loaded and not cleared by the step:
   the handle stays (n, true) and, if the step observes it, it reports n *)
Lemma spec_step_loaded t o ob t' h n :
  spec_step t o ob = Some t' -> clears h (sp_cur t) o = false ->
  sget (sp_h t) h = (n, true) ->
  sget (sp_h t') h = (n, true) /\ sp_cur t' = next_cur (sp_cur t) o /\
  (touches h o = true -> o_loads ob = n /\ o_exc ob = false).
Proof.
  intros Hs Hc Hg.
  destruct o as [h' p fail|h'|h'|h' cc cn fail]; cbn [spec_step clears touches next_cur] in *.
  - destruct (sget (sp_h t) h') as [m since] eqn:Eg'.
    destruct (h =? h') eqn:Eh.
    + apply Z.eqb_eq in Eh; subst h'. rewrite Hg in Eg'. injection Eg' as <- <-.
      destruct (loading p).
      * destruct (spec_access n true fail ob) as [y|] eqn:Ea; [|discriminate].
        injection Hs as <-. cbn.
        destruct (spec_access_loaded _ _ _ _ Ea) as (-> & H1 & H2 & _).
        rewrite sget_aset, Z.eqb_refl. auto.
      * destruct (o_loads ob =? n) eqn:E1; cbn [andb] in Hs; [|discriminate].
        destruct (o_flag ob); cbn [andb] in Hs; [|discriminate].
        destruct (o_exc ob); cbn [negb] in Hs; [discriminate|].
        injection Hs as <-. apply Z.eqb_eq in E1. auto.
    + destruct (loading p).
      * destruct (spec_access m since fail ob) as [y|]; [|discriminate]. injection Hs as <-. cbn.
        rewrite sget_aset, Eh. repeat split; auto; discriminate.
      * destruct (_ && _); [|discriminate]. injection Hs as <-.
        repeat split; auto; discriminate.
  - destruct (sget (sp_h t) h') as [m since] eqn:Eg'.
    destruct (_ && _); [|discriminate]. injection Hs as <-. cbn.
    rewrite sget_sclear, Hc. repeat split; auto; discriminate.
  - destruct (sget (sp_h t) h') as [m since] eqn:Eg'.
    destruct (h =? h') eqn:Eh.
    + apply Z.eqb_eq in Eh; subst h'. rewrite Hg in Eg'. injection Eg' as <- <-.
      destruct (o_loads ob =? n) eqn:E1; cbn [andb] in Hs; [|discriminate].
      destruct (Bool.eqb (o_flag ob) true); cbn [andb] in Hs; [|discriminate].
      destruct (o_exc ob); cbn [negb] in Hs; [discriminate|].
      injection Hs as <-. apply Z.eqb_eq in E1. auto.
    + destruct (_ && _); [|discriminate]. injection Hs as <-.
      repeat split; auto; discriminate.
  - apply orb_false_iff in Hc. destruct Hc as [Hc1 Hc2].
    set (s1 := match sp_cur t with
               | Some c => if cc then sclear c (sp_h t) else sp_h t
               | None => sp_h t end) in *.
    assert (Hg1 : sget s1 h = (n, true)).
    { subst s1. destruct (sp_cur t) as [c|]; auto. destruct cc; auto.
      cbn [andb] in Hc2. rewrite sget_sclear, Hc2. exact Hg. }
    set (s2 := if cn then sclear h' s1 else s1) in *.
    assert (Hg2 : sget s2 h = (n, true)).
    { subst s2. destruct cn; auto. cbn [andb] in Hc1. rewrite sget_sclear, Hc1. exact Hg1. }
    destruct (sget s2 h') as [m since] eqn:Eg'.
    destruct (spec_access m since fail ob) as [y|] eqn:Ea; [|discriminate].
    injection Hs as <-. cbn.
    destruct (h =? h') eqn:Eh.
    + apply Z.eqb_eq in Eh; subst h'. rewrite Hg2 in Eg'. injection Eg' as <- <-.
      destruct (spec_access_loaded _ _ _ _ Ea) as (-> & H1 & H2 & _).
      rewrite sget_aset, Z.eqb_refl. auto.
    + rewrite sget_aset, Eh. repeat split; auto; discriminate.
Qed.

(* at most one load between two clears: along any trace satisfying the
   property, from a point where h has been accessed since its last clear and
   as long as no operation clears h (explicitly or through a switch), every
   observation of h reports the same load count *)
Lemma loads_stable_when_loaded tr : forall t t' h n,
  spec_run t tr = Some t' -> no_clear h (sp_cur t) tr = true ->
  sget (sp_h t) h = (n, true) ->
  sget (sp_h t') h = (n, true) /\
  forall o ob, In (o, ob) tr -> touches h o = true -> o_loads ob = n /\ o_exc ob = false.
Proof.
  induction tr as [|[o ob] tr IH]; intros t t' h n Hr Hn Hg; cbn [spec_run] in Hr.
  - injection Hr as <-. split; auto. intros ? ? [].
  - destruct (spec_step t o ob) as [t1|] eqn:Es; [|discriminate].
    cbn [no_clear] in Hn. apply andb_true_iff in Hn. destruct Hn as [Hn1 Hn2].
    apply negb_true_iff in Hn1.
    destruct (spec_step_loaded _ _ _ _ _ _ Es Hn1 Hg) as (Hg1 & Hcur & Hobs).
    rewrite <- Hcur in Hn2.
    destruct (IH _ _ _ _ Hr Hn2 Hg1) as (Hfin & Hall). split; auto.
    intros o' ob' [Heq|Hin] Ht.
    + injection Heq as <- <-. auto.
    + eauto.
Qed.

(* the first loading access after a clear (or ever, or after a failed load)
   makes exactly one load attempt; if load() raises the error reaches the
   caller and the handle stays unloaded, otherwise it is loaded from now on *)
Lemma first_access_loads t h p fail ob t' n :
  spec_step t (OAccess h p fail) ob = Some t' -> loading p = true ->
  sget (sp_h t) h = (n, false) ->
  o_loads ob = n + 1 /\ o_exc ob = fail /\ sget (sp_h t') h = (n + 1, negb fail).
Proof.
  cbn [spec_step]. intros Hs Hl Hg. rewrite Hg, Hl in Hs.
  destruct (spec_access n false fail ob) as [y|] eqn:Ea; [|discriminate].
  injection Hs as <-. cbn.
  destruct (spec_access_unloaded _ _ _ _ Ea) as (H1 & H2 & ->).
  rewrite sget_aset, Z.eqb_refl. auto.
Qed.
