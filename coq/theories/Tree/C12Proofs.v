From Coq Require Import ZArith List Bool Lia.
From Desper Require Import Lib.Alist Tree.C12Model.
Import ListNotations.
Open Scope Z_scope.

(* refinement relation between the model state (fields of Handle) and the
   specification state (history summary), handle by handle *)
Definition R1 (x : hstate) (y : Z * bool) : Prop :=
  h_loads x = fst y /\ h_cached x = snd y /\
  (h_cached x = true -> h_cache x = Some (h_loads x)).

Definition R (s : state) (t : sstate) : Prop := forall h, R1 (hget s h) (sget t h).

Lemma R_init : R [] [].
Proof. intros h. unfold hget, sget. cbn. repeat split; auto. discriminate. Qed.

Lemma hget_aset s h h' x : hget (aset h x s) h' = if h' =? h then x else hget s h'.
Proof. unfold hget. rewrite alookup_aset. destruct (h' =? h); reflexivity. Qed.

Lemma sget_aset s h h' x : sget (aset h x s) h' = if h' =? h then x else sget s h'.
Proof. unfold sget. rewrite alookup_aset. destruct (h' =? h); reflexivity. Qed.

Lemma R_aset s t h x y : R s t -> R1 x y -> R (aset h x s) (aset h y t).
Proof.
  intros HR H1 h'. rewrite hget_aset, sget_aset. destruct (h' =? h); auto.
Qed.

(* Handle.__call__ characterised: the value returned is always the object
   of the most recent load, and load runs iff nothing was cached *)
Lemma call_spec x y x' v :
  R1 x y -> call x = (x', v) ->
  h_loads x' = (if snd y then fst y else fst y + 1) /\
  is_latest x' v = true /\ R1 x' (h_loads x', true).
Proof.
  intros (Hl & Hc & Hk) Hcall. unfold call in Hcall.
  destruct (h_cached x) eqn:E.
  - injection Hcall as <- <-. rewrite <- Hc. repeat split; auto.
    unfold is_latest. rewrite (Hk eq_refl). apply Z.eqb_refl.
  - injection Hcall as <- <-. cbn. rewrite <- Hc, <- Hl. repeat split; auto.
    apply Z.eqb_refl.
Qed.

(* a second call right after a call neither loads nor changes anything *)
Lemma call_call x x' v : call x = (x', v) -> call x' = (x', v).
Proof.
  unfold call. destruct (h_cached x) eqn:E; intros [= <- <-].
  - now rewrite E.
  - reflexivity.
Qed.

Lemma step_sim s t o ob s' :
  R s t -> step s o ob = Some s' ->
  exists t', spec_step t o ob = Some t' /\ R s' t'.
Proof.
  intros HR Hs. destruct o as [h p|h|h]; cbn [step spec_step] in *.
  - pose proof (HR h) as H1. destruct (sget t h) as [n since] eqn:Et.
    destruct p; cbn [loading].
    1-4: destruct (call (hget s h)) as [x' v] eqn:Ec;
         destruct (call_spec _ _ _ _ H1 Ec) as (Hl & Hv & HR1); cbn [fst snd] in Hl;
         rewrite Hv in Hs;
         destruct (o_loads ob =? h_loads x') eqn:E1; cbn [andb] in Hs; [|discriminate];
         destruct (o_flag ob) eqn:E2; cbn [Bool.eqb] in Hs; [|discriminate];
         injection Hs as <-; apply Z.eqb_eq in E1;
         rewrite <- Hl, E1, Z.eqb_refl; cbn [andb];
         eexists; split; [reflexivity|]; apply R_aset; auto.
    + (* PGet *) destruct H1 as (Hl & _). cbn [fst] in Hl. rewrite <- Hl.
      destruct ((o_loads ob =? h_loads (hget s h)) && o_flag ob); [|discriminate].
      injection Hs as <-. eauto.
    + (* PSGet *) destruct H1 as (Hl & _). cbn [fst] in Hl. rewrite <- Hl.
      destruct ((o_loads ob =? h_loads (hget s h)) && o_flag ob); [|discriminate].
      injection Hs as <-. eauto.
    + (* PSwitch: two calls *)
      destruct (call (hget s h)) as [x1 v1] eqn:Ec1.
      rewrite (call_call _ _ _ Ec1) in Hs.
      destruct (call_spec _ _ _ _ H1 Ec1) as (Hl & Hv & HR1); cbn [fst snd] in Hl.
      rewrite Hv in Hs.
      destruct (o_loads ob =? h_loads x1) eqn:E1; cbn [andb] in Hs; [|discriminate].
      destruct (o_flag ob) eqn:E2; cbn [Bool.eqb] in Hs; [|discriminate].
      injection Hs as <-. apply Z.eqb_eq in E1.
      rewrite <- Hl, E1, Z.eqb_refl. cbn [andb].
      eexists; split; [reflexivity|]. apply R_aset; auto.
  - pose proof (HR h) as H1. destruct (sget t h) as [n since] eqn:Et.
    destruct H1 as (Hl & Hc & Hk). cbn [fst snd] in *.
    cbn [clear h_loads] in Hs. rewrite Hl in Hs.
    destruct (o_loads ob =? n) eqn:E1; cbn [andb] in Hs; [|discriminate].
    destruct (o_flag ob); [|discriminate]. injection Hs as <-.
    eexists; split; [reflexivity|]. apply R_aset; auto.
    repeat split; cbn; auto. discriminate.
  - pose proof (HR h) as H1. destruct (sget t h) as [n since] eqn:Et.
    destruct H1 as (Hl & Hc & Hk). cbn [fst snd] in *.
    rewrite Hl, Hc in Hs.
    destruct ((o_loads ob =? n) && Bool.eqb (o_flag ob) since); [|discriminate].
    injection Hs as <-. eauto.
Qed.

Lemma run_sim tr : forall s t s',
  R s t -> run s tr = Some s' -> exists t', spec_run t tr = Some t' /\ R s' t'.
Proof.
  induction tr as [|[o ob] tr IH]; intros s t s' HR Hrun; cbn [run spec_run] in *.
  - injection Hrun as <-. eauto.
  - destruct (step s o ob) as [s1|] eqn:Es; [|discriminate].
    destruct (step_sim _ _ _ _ _ HR Es) as (t1 & Ht1 & HR1). rewrite Ht1. eauto.
Qed.

Theorem accepts_holds tr : accepts tr = true -> holds tr.
Proof.
  unfold accepts, holds, holds_b. destruct (run [] tr) as [s'|] eqn:E; [|discriminate].
  intros _. destruct (run_sim _ _ _ _ R_init E) as (t' & -> & _). reflexivity.
Qed.

(* What [holds] means, stated directly on the observations (so that the
   boolean spec machine is not itself trusted): consider one handle h and two
   consecutive observations of it with no clear in between... the load count
   does not move once an access has happened since the last clear. *)
Definition touches (h : Z) (o : op) : bool :=
  match o with OAccess h' _ | OClear h' | OCached h' => h =? h' end.

Lemma spec_step_other t o ob t' h :
  spec_step t o ob = Some t' -> touches h o = false -> sget t' h = sget t h.
Proof.
  destruct o as [h' p|h'|h']; cbn [spec_step touches]; intros Hs Ht;
    destruct (sget t h') as [n since].
  - destruct (loading p).
    + destruct (_ && _); [|discriminate]. injection Hs as <-. now rewrite sget_aset, Ht.
    + destruct (_ && _); [|discriminate]. now injection Hs as <-.
  - destruct (_ =? _); [|discriminate]. injection Hs as <-. now rewrite sget_aset, Ht.
  - destruct (_ && _); [|discriminate]. now injection Hs as <-.
Qed.

(* at most one load between two clears: along any accepted-by-spec trace
   without OClear h, the load count of h grows by at most one in total, and
   does not grow at all after the first loading access *)
Fixpoint no_clear (h : Z) (tr : trace) : bool :=
  match tr with
  | [] => true
  | (OClear h', _) :: tr => negb (h =? h') && no_clear h tr
  | _ :: tr => no_clear h tr
  end.

Lemma loads_stable_when_loaded tr : forall t t' h n,
  spec_run t tr = Some t' -> no_clear h tr = true -> sget t h = (n, true) ->
  sget t' h = (n, true) /\
  forall o ob, In (o, ob) tr -> touches h o = true -> o_loads ob = n.
Proof.
  induction tr as [|[o ob] tr IH]; intros t t' h n Hr Hn Hg; cbn [spec_run] in Hr.
  - injection Hr as <-. split; auto. intros ? ? [].
  - destruct (spec_step t o ob) as [t1|] eqn:Es; [|discriminate].
    assert (Hg1 : sget t1 h = (n, true) /\ (touches h o = true -> o_loads ob = n)).
    { destruct (touches h o) eqn:Et.
      - destruct o as [h' p|h'|h']; cbn [touches] in Et; apply Z.eqb_eq in Et; subst h';
          cbn [spec_step] in Es; rewrite Hg in Es.
        + destruct (loading p).
          * destruct (o_loads ob =? n) eqn:E1; cbn [andb] in Es; [|discriminate].
            destruct (o_flag ob); [|discriminate]. injection Es as <-.
            rewrite sget_aset, Z.eqb_refl. apply Z.eqb_eq in E1. auto.
          * destruct (o_loads ob =? n) eqn:E1; cbn [andb] in Es; [|discriminate].
            destruct (o_flag ob); [|discriminate]. injection Es as <-.
            apply Z.eqb_eq in E1. auto.
        + cbn [no_clear] in Hn. rewrite Z.eqb_refl in Hn. discriminate.
        + destruct (o_loads ob =? n) eqn:E1; cbn [andb] in Es; [|discriminate].
          destruct (Bool.eqb (o_flag ob) true); [|discriminate]. injection Es as <-.
          apply Z.eqb_eq in E1. auto.
      - split; [|discriminate]. rewrite (spec_step_other _ _ _ _ _ Es Et). exact Hg. }
    destruct Hg1 as (Hg1 & Hobs).
    assert (Hn' : no_clear h tr = true).
    { destruct o; cbn [no_clear] in Hn; auto. apply andb_true_iff in Hn. tauto. }
    destruct (IH _ _ _ _ Hr Hn' Hg1) as (Hfin & Hall). split; auto.
    intros o' ob' [Heq|Hin] Ht.
    + injection Heq as <- <-. auto.
    + eauto.
Qed.
