(* C11 with keys as written: the theorem carries over to the operations the
   keys denote. *)
From Coq Require Import ZArith List Bool.
From Desper Require Import Lib.Alist Tree.C11Model Tree.C11Lemmas Tree.C11Inv Tree.C11Proofs
     Tree.C11Keys.
Import ListNotations.
Open Scope Z_scope.

Theorem raccepts_rholds c : rwf_b c = true -> raccepts c = true -> rholds c.
Proof.
  unfold rwf_b, raccepts, rholds, rholds_b. destruct (cook c) as [c'|]; [|discriminate].
  intros HW HA. exact (accepts_holds c' HW HA).
Qed.

(* splitting and joining: the parts of a key written with separator [sep]
   between single names are those names *)
Fixpoint join (sep : Z) (ns : list Z) : list Z :=
  match ns with
  | [] => []
  | [n] => [n]
  | n :: ns => n :: sep :: join sep ns
  end.

Lemma split_join sep : forall ns, ns <> [] -> Forall (fun n => n <> sep) ns ->
  split sep (join sep ns) = map (fun n => [n]) ns.
Proof.
  induction ns as [|n ns IH]; intros HN HF; [contradiction|].
  inversion HF as [|? ? H1 H2]; subst. destruct ns as [|n2 ns].
  - cbn. destruct (n =? sep) eqn:E; [apply Z.eqb_eq in E; contradiction|reflexivity].
  - change (join sep (n :: n2 :: ns)) with (n :: sep :: join sep (n2 :: ns)).
    cbn [split]. destruct (n =? sep) eqn:E; [apply Z.eqb_eq in E; contradiction|].
    rewrite Z.eqb_refl. rewrite IH; [|discriminate|assumption]. reflexivity.
Qed.
