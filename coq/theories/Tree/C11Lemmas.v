(* Library lemmas for C11: ChainMap layers, comparison of observed dicts. *)
From Coq Require Import ZArith List Bool Lia.
From Desper Require Import Lib.Alist Tree.C11Model.
Import ListNotations.
Open Scope Z_scope.

(* ---- boolean equalities -------------------------------------------------- *)
Lemma opt_eqb_eq a b : opt_eqb a b = true <-> a = b.
Proof.
  destruct a, b; cbn; split; try congruence; try discriminate.
  - intros H. apply Z.eqb_eq in H. now subst.
  - intros [= ->]. apply Z.eqb_refl.
Qed.

Lemma ref_eqb_eq a b : ref_eqb a b = true <-> a = b.
Proof.
  destruct a, b; cbn; split; try congruence; try discriminate;
    try (intros H; apply Z.eqb_eq in H; now subst);
    intros [= ->]; apply Z.eqb_refl.
Qed.

Lemma oref_eqb_refl a : oref_eqb a a = true.
Proof. destruct a as [[x|x]|]; cbn; auto; apply Z.eqb_refl. Qed.

Lemma qres_eqb_eq a b : qres_eqb a b = true -> a = b.
Proof.
  destruct a, b; cbn; try discriminate; auto;
    intros H; apply Z.eqb_eq in H; now subst.
Qed.

Lemma qres_eqb_refl a : a <> RBad -> qres_eqb a a = true.
Proof. intros H. destruct a; cbn; auto; try apply Z.eqb_refl. Qed.

(* ---- layers ----------------------------------------------------------------- *)
Definition in_layers {A} (ls : list (list (name * A))) (n : name) (h : A) : Prop :=
  exists L, In L ls /\ alookup n L = Some h.

Lemma cm_lookup_in {A} n (ls : list (list (name * A))) h :
  cm_lookup n ls = Some h -> in_layers ls n h.
Proof.
  induction ls as [|l ls IH]; cbn [cm_lookup]; [discriminate|].
  destruct (alookup n l) eqn:E.
  - intros [= ->]. exists l. split; [now left|assumption].
  - intros H. destruct (IH H) as (L & HL & HE). exists L. split; [now right|assumption].
Qed.

Lemma cm_lookup_none {A} n (ls : list (list (name * A))) :
  cm_lookup n ls = None <-> (forall h, ~ in_layers ls n h).
Proof.
  induction ls as [|l ls IH]; cbn [cm_lookup].
  - split; auto. intros _ h (L & [] & _).
  - destruct (alookup n l) eqn:E.
    + split; [discriminate|]. intros H. exfalso. apply (H a). exists l. split; [now left|auto].
    + rewrite IH. split; intros H h (L & HL & HE).
      * destruct HL as [<-|HL]; [congruence|]. apply (H h). now exists L.
      * apply (H h). exists L. split; [now right|auto].
Qed.

Lemma in_layers_pop_all {A} k (ls : list (list (name * A))) n h :
  in_layers (cm_pop_all k ls) n h -> n <> k /\ in_layers ls n h.
Proof.
  unfold cm_pop_all. intros (L & HL & HE). apply in_map_iff in HL.
  destruct HL as (L0 & <- & HL0). rewrite alookup_adel in HE.
  destruct (n =? k) eqn:E; [discriminate|]. apply Z.eqb_neq in E.
  split; auto. now exists L0.
Qed.

Lemma in_layers_pop_all_inv {A} k (ls : list (list (name * A))) n h :
  n <> k -> in_layers ls n h -> in_layers (cm_pop_all k ls) n h.
Proof.
  intros N (L & HL & HE). exists (adel k L). split.
  - unfold cm_pop_all. now apply in_map.
  - rewrite alookup_adel_neq; auto.
Qed.

Lemma cm_lookup_pop_all {A} k (ls : list (list (name * A))) n :
  cm_lookup n (cm_pop_all k ls) = if n =? k then None else cm_lookup n ls.
Proof.
  induction ls as [|l ls IH]; cbn [cm_pop_all map cm_lookup].
  - now destruct (n =? k).
  - rewrite alookup_adel. fold (cm_pop_all k ls). rewrite IH.
    destruct (n =? k); auto.
Qed.

(* the precise form: entries of the lower layers are untouched *)
Lemma in_layers_set {A} k v (ls : list (list (name * A))) n h :
  in_layers (cm_set k v ls) n h -> (n = k /\ h = v) \/ in_layers ls n h.
Proof.
  intros (L & HL & HE). destruct ls as [|l ls]; cbn [cm_set] in HL.
  - destruct HL as [<-|[]]. cbn [alookup] in HE.
    destruct (n =? k) eqn:E; [|discriminate]. apply Z.eqb_eq in E. left. split; congruence.
  - destruct HL as [<-|HL].
    + rewrite alookup_aset in HE. destruct (n =? k) eqn:E.
      * apply Z.eqb_eq in E. left. split; congruence.
      * right. exists l. split; [now left|auto].
    + right. exists L. split; [now right|auto].
Qed.

Lemma cm_lookup_set {A} k v (ls : list (list (name * A))) n :
  cm_lookup n (cm_set k v ls) = if n =? k then Some v else cm_lookup n ls.
Proof.
  destruct ls as [|l ls]; cbn [cm_set cm_lookup alookup].
  - destruct (n =? k); auto.
  - rewrite alookup_aset. destruct (n =? k); auto.
Qed.

Lemma in_layers_push {A} (ls : list (list (name * A))) n h :
  in_layers ([] :: ls) n h -> in_layers ls n h.
Proof.
  intros (L & [<-|HL] & HE); [discriminate|]. now exists L.
Qed.

(* ---- comparison of observed dicts ------------------------------------------- *)
Lemma sub_dict_spec a b :
  sub_dict a b = true -> forall n c, In (n, c) a -> alookup n b = Some c.
Proof.
  unfold sub_dict. rewrite forallb_forall. intros H n c HI.
  specialize (H _ HI). cbn in H. now apply opt_eqb_eq in H.
Qed.

Lemma same_dict_lookup a b :
  same_dict a b = true -> forall n, alookup n a = alookup n b.
Proof.
  unfold same_dict. intros H n. apply andb_true_iff in H. destruct H as [H1 H2].
  destruct (alookup n a) eqn:E.
  - apply alookup_In in E. symmetry. eapply sub_dict_spec; eauto.
  - destruct (alookup n b) eqn:E2; auto.
    apply alookup_In in E2. rewrite (sub_dict_spec _ _ H2 _ _ E2) in E. discriminate.
Qed.

Lemma same_dict_nil a : same_dict a [] = true -> a = [].
Proof.
  unfold same_dict, sub_dict. destruct a as [|[n c] a]; auto. cbn. discriminate.
Qed.

Lemma alookup_nonempty {A} n (l : list (Z * A)) v : alookup n l = Some v -> nonempty l = true.
Proof. destruct l; [discriminate|reflexivity]. Qed.

Lemma cm_lookup_filter {A} n (ls : list (list (name * A))) :
  cm_lookup n (filter nonempty ls) = cm_lookup n ls.
Proof.
  induction ls as [|l ls IH]; cbn [filter cm_lookup]; auto.
  destruct l as [|x l]; cbn [nonempty]; cbn [cm_lookup]; rewrite IH; auto.
Qed.

Lemma in_layers_filter {A} (ls : list (list (name * A))) n h :
  in_layers ls n h <-> in_layers (filter nonempty ls) n h.
Proof.
  split; intros (L & HL & HE); exists L; split; auto.
  - apply filter_In. split; auto. eapply alookup_nonempty; eauto.
  - now apply filter_In in HL.
Qed.

Lemma same_layers_lookup a b :
  same_layers a b = true -> forall n, cm_lookup n a = cm_lookup n b.
Proof.
  revert b. induction a as [|x a IH]; intros [|y b]; cbn [same_layers]; try discriminate; auto.
  intros H n. apply andb_true_iff in H. destruct H as [H1 H2]. cbn [cm_lookup].
  rewrite (same_dict_lookup _ _ H1 n), (IH _ H2 n). reflexivity.
Qed.

Lemma same_layers_in a b :
  same_layers a b = true -> forall n h, in_layers a n h -> in_layers b n h.
Proof.
  revert b. induction a as [|x a IH]; intros [|y b]; cbn [same_layers]; try discriminate.
  - intros _ n h (L & [] & _).
  - intros H n h (L & HL & HE). apply andb_true_iff in H. destruct H as [H1 H2].
    destruct HL as [<-|HL].
    + exists y. split; [now left|]. now rewrite <- (same_dict_lookup _ _ H1 n).
    + destruct (IH _ H2 n h) as (L' & HL' & HE'); [now exists L|].
      exists L'. split; [now right|auto].
Qed.

Lemma layers_equiv_lookup a b :
  layers_equiv a b = true -> forall n, cm_lookup n a = cm_lookup n b.
Proof.
  unfold layers_equiv. intros H n.
  rewrite <- (cm_lookup_filter n a), <- (cm_lookup_filter n b).
  now apply same_layers_lookup.
Qed.

Lemma layers_equiv_in a b :
  layers_equiv a b = true -> forall n h, in_layers a n h -> in_layers b n h.
Proof.
  unfold layers_equiv. intros H n h HI. apply in_layers_filter.
  apply (same_layers_in _ _ H). apply (proj1 (in_layers_filter a n h)). exact HI.
Qed.

Lemma filter_nonempty_nil {A} (ls : list (list A)) :
  filter nonempty ls = [] -> forallb is_empty ls = true.
Proof.
  induction ls as [|l ls IH]; cbn [filter forallb]; auto.
  destruct l; cbn [nonempty is_empty]; [auto|discriminate].
Qed.

Lemma layers_equiv_empty a b :
  layers_equiv a b = true -> forallb is_empty b = true -> forallb is_empty a = true.
Proof.
  unfold layers_equiv. intros H Hb. apply filter_nonempty_nil.
  assert (Hf : filter nonempty b = []).
  { clear H. induction b as [|l b IH]; auto. cbn [forallb] in Hb.
    apply andb_true_iff in Hb. destruct Hb as [H1 H2]. destruct l; [|discriminate].
    cbn [filter nonempty]. auto. }
  rewrite Hf in H. destruct (filter nonempty a); [auto|discriminate].
Qed.

(* a listed id has a record *)
Lemma has_id_find {A} x (l : list (Z * A)) :
  has_id x l = true -> exists r, alookup x l = Some r /\ In (x, r) l.
Proof.
  unfold has_id, amem. destruct (alookup x l) eqn:E; [|discriminate].
  intros _. exists a. split; auto. now apply alookup_In.
Qed.

(* entries (also shadowed duplicates) of observed layers *)
Definition entry_in {A} (ls : list (list (name * A))) (n : name) (h : A) : Prop :=
  exists L, In L ls /\ In (n, h) L.

Lemma same_layers_entry a b :
  same_layers a b = true -> forall n h, entry_in a n h -> in_layers b n h.
Proof.
  revert b. induction a as [|x a IH]; intros [|y b]; cbn [same_layers]; try discriminate.
  - intros _ n h (L & [] & _).
  - intros H n h (L & HL & HE). apply andb_true_iff in H. destruct H as [H1 H2].
    destruct HL as [<-|HL].
    + exists y. split; [now left|]. unfold same_dict in H1. apply andb_true_iff in H1.
      destruct H1 as [H1 _]. eapply sub_dict_spec; eauto.
    + destruct (IH _ H2 n h) as (L' & HL' & HE'); [now exists L|].
      exists L'. split; [now right|auto].
Qed.

Lemma layers_equiv_entry a b :
  layers_equiv a b = true -> forall n h, entry_in a n h -> in_layers b n h.
Proof.
  unfold layers_equiv. intros H n h (L & HL & HE). apply in_layers_filter.
  apply (same_layers_entry _ _ H). exists L. split; auto.
  apply filter_In. split; auto. destruct L; [destruct HE|reflexivity].
Qed.

Lemma In_alookup_some {A} n (c : A) l : In (n, c) l -> exists c', alookup n l = Some c'.
Proof.
  intros H. destruct (alookup n l) eqn:E; [eauto|].
  apply alookup_None_notin in E. exfalso. apply E. unfold akeys.
  change n with (fst (n, c)). now apply in_map.
Qed.
