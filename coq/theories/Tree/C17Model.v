(* C17 - a static resource map is a faithful, immutable mirror.

   Model of desper/model/tree.py: ResourceMap.get_static_map (the class
   generated per map: which names become slots, when a __dict__ is added,
   the recursive construction) and StaticResourceMap.__getattribute__ /
   __getitem__ / get / __setattr__ / __delattr__.

   The input is a resource tree of any shape: per map the handle layers of
   its ChainMap and its sub-maps.  Names are strings because the code
   inspects their characters (isidentifier, startswith / endswith '__').

   Models only: no proofs in this file. *)
From Coq Require Import ZArith List Bool String Ascii.
Import ListNotations.
Open Scope Z_scope.

Definition hid := Z.

(* ---- dicts keyed by strings ------------------------------------------------ *)
Fixpoint slookup {A} (k : string) (l : list (string * A)) : option A :=
  match l with
  | [] => None
  | (k', v) :: l => if String.eqb k k' then Some v else slookup k l
  end.
Definition smem (k : string) (l : list string) : bool := existsb (String.eqb k) l.

(* ChainMap lookup: the first layer that has the name *)
Fixpoint cmlookup {A} (k : string) (ls : list (list (string * A))) : option A :=
  match ls with
  | [] => None
  | l :: ls => match slookup k l with Some v => Some v | None => cmlookup k ls end
  end.

(* the resource tree: a ResourceMap = handle layers + sub-maps *)
Inductive rtree := Node (layers : list (list (string * hid))) (subs : list (string * rtree)).
Definition t_layers (t : rtree) := match t with Node l _ => l end.
Definition t_subs (t : rtree) := match t with Node _ s => s end.

(* ChainMap.items(): every name of any layer once, with the value of the
   first layer that has it (iteration starts from the last layer) *)
Fixpoint chain_names (ls : list (list (string * hid))) : list string :=
  match ls with
  | [] => []
  | l :: ls => let rest := chain_names ls in
               rest ++ filter (fun k => negb (smem k rest)) (map fst l)
  end.
Definition chain_items (ls : list (list (string * hid))) : list (string * hid) :=
  flat_map (fun k => match cmlookup k ls with Some h => [(k, h)] | None => [] end)
           (chain_names ls).

(* ---- the characters the code looks at --------------------------------------- *)
Definition is_start (c : ascii) : bool :=
  let n := nat_of_ascii c in
  ((65 <=? n) && (n <=? 90) || (97 <=? n) && (n <=? 122) || (n =? 95))%nat.
Definition is_cont (c : ascii) : bool :=
  let n := nat_of_ascii c in (is_start c || (48 <=? n) && (n <=? 57))%nat.
Fixpoint all_chars (f : ascii -> bool) (s : string) : bool :=
  match s with EmptyString => true | String c r => f c && all_chars f r end.
(* str.isidentifier() on ASCII strings *)
Definition isidentifier (s : string) : bool :=
  match s with EmptyString => false | String c r => is_start c && all_chars is_cont r end.
Definition starts2 (s : string) : bool := String.prefix "__" s.
Definition ends2 (s : string) : bool :=
  let n := String.length s in
  (2 <=? n)%nat && String.eqb (String.substring (n - 2) 2 s) "__".

(* the filter of get_static_map: identifiers, except names that the class
   body would mangle (__x but not __x__) *)
Definition is_slot (s : string) : bool := isidentifier s && (negb (starts2 s) || ends2 s).
(* what a class body does to a slot name *)
Definition mangle (s : string) : string :=
  if starts2 s && negb (ends2 s) then ("_StaticSubmap" ++ s)%string else s.

(* ---- the snapshot --------------------------------------------------------------- *)
(* one generated StaticSubmap instance: _handle_names, the attributes that
   hold handles, the attributes that hold nested snapshots *)
Inductive snode :=
  SNode (hnames : list string) (hattrs : list (string * hid)) (sattrs : list (string * snode)).
Definition s_hnames (s : snode) := match s with SNode a _ _ => a end.
Definition s_hattrs (s : snode) := match s with SNode _ b _ => b end.
Definition s_sattrs (s : snode) := match s with SNode _ _ c => c end.

(* object.__setattr__(subself, key, value) succeeds when key is the name of
   a slot of the class or the instance has a __dict__ *)
Definition can_store (slots : list string) (has_dict : bool) (key : string) : bool :=
  smem key (map mangle slots) || has_dict.

(* get_static_map; None = the construction raises *)
Fixpoint build (t : rtree) : option snode :=
  match t with
  | Node layers subs =>
      let items := chain_items layers in                      (* self.handles.items() *)
      let keys := map fst items ++ map fst subs in            (* chain(handles.keys(), maps.keys()) *)
      let slots := filter is_slot keys in                     (* slots_resources *)
      (* if len(slots_resources) < len(self.handles) + len(self.maps): '__dict__' *)
      let has_dict := (List.length slots <? List.length items + List.length subs)%nat in
      if forallb (can_store slots has_dict) keys then
        (* for key, value in self.maps.items(): setattr(key, value.get_static_map()) *)
        match (fix go (l : list (string * rtree)) : option (list (string * snode)) :=
                 match l with
                 | [] => Some []
                 | (k, c) :: l =>
                     match build c, go l with
                     | Some n, Some r => Some ((k, n) :: r)
                     | _, _ => None
                     end
                 end) subs with
        | Some ss => Some (SNode (map fst items) items ss)
        | None => None
        end
      else None                                                (* AttributeError *)
  end.

(* ---- results ---------------------------------------------------------------------- *)
Inductive res :=
| RVal (h : hid)       (* what h() returns now: the access went through the handle's
                          __call__ (for a Handle subclass that overrides __call__ the
                          harness checks that it is the result of the one call made by
                          this access; for a plain handle, the cached resource) *)
| RHandle (h : hid)    (* the handle object h *)
| RSub                 (* a nested container (sub-map / sub-snapshot) *)
| RAbsent              (* KeyError on the map, AttributeError on the snapshot *)
| RNotMap              (* the walk reached a loaded resource / a handle before its end *)
| RBad.

Definition res_eqb (a b : res) : bool :=
  match a, b with
  | RVal x, RVal y => x =? y
  | RHandle x, RHandle y => x =? y
  | RSub, RSub => true
  | RAbsent, RAbsent => true
  | RNotMap, RNotMap => true
  | _, _ => false
  end.

(* ---- access to the snapshot ---------------------------------------------------------- *)
Inductive aval := AHandle (h : hid) | ASub (s : snode).
(* object.__getattribute__(self, name), for names that are not members of
   the snapshot class itself *)
Definition raw_attr (s : snode) (name : string) : option aval :=
  match slookup name (s_hattrs s) with
  | Some h => Some (AHandle h)
  | None => match slookup name (s_sattrs s) with Some c => Some (ASub c) | None => None end
  end.

Inductive mode := MAttr | MItem | MGet.
(* one step: StaticResourceMap.__getattribute__ (and __getitem__, which is
   getattr) unwrap names listed in _handle_names; get never unwraps *)
Definition snap_step (md : mode) (s : snode) (name : string) : res + snode :=
  match md with
  | MAttr | MItem =>
      if smem name (s_hnames s) then
        match raw_attr s name with
        | Some (AHandle h) => inl (RVal h)            (* object.__getattribute__(self, name)() *)
        | Some (ASub _) => inl RBad                   (* calling a snapshot: TypeError *)
        | None => inl RAbsent
        end
      else
        match raw_attr s name with
        | Some (AHandle h) => inl (RHandle h)
        | Some (ASub c) => inr c
        | None => inl RAbsent
        end
  | MGet =>
      match raw_attr s name with
      | Some (AHandle h) => inl (RHandle h)
      | Some (ASub c) => inr c
      | None => inl RAbsent
      end
  end.
Fixpoint snap_path (md : mode) (s : snode) (p : list string) : res :=
  match p with
  | [] => RSub
  | k :: p' =>
      match snap_step md s k with
      | inr c => snap_path md c p'
      | inl r => match p' with [] => r | _ => match r with RAbsent => RAbsent | RBad => RBad | _ => RNotMap end end
      end
  end.
(* navigation with get, to the node whose attributes are attacked *)
Fixpoint snap_node (s : snode) (p : list string) : option snode :=
  match p with
  | [] => Some s
  | k :: p' => match raw_attr s k with Some (ASub c) => snap_node c p' | _ => None end
  end.

(* ---- access to the map (ResourceMap.__getitem__ / get, part by part) ---------------- *)
Definition tree_step (md : mode) (t : rtree) (name : string) : res + rtree :=
  match cmlookup name (t_layers t) with
  | Some h => inl (match md with MGet => RHandle h | _ => RVal h end)
  | None => match slookup name (t_subs t) with Some c => inr c | None => inl RAbsent end
  end.
Fixpoint tree_path (md : mode) (t : rtree) (p : list string) : res :=
  match p with
  | [] => RSub
  | k :: p' =>
      match tree_step md t k with
      | inr c => tree_path md c p'
      | inl r => match p' with [] => r | _ => match r with RAbsent => RAbsent | RBad => RBad | _ => RNotMap end end
      end
  end.

(* ---- operations on the snapshot and their observations -------------------------------- *)
Inductive probe :=
| PPath (md : mode) (p : list string)                  (* s.a.b / s['a']['b'] / s.get('a').get('b') *)
| PSet (p : list string) (name : string)               (* setattr(node at p, name, value) *)
| PDel (p : list string) (name : string).              (* delattr(node at p, name) *)

(* structural equality of observed snapshots (the harness lists attributes
   in sorted order) *)
Fixpoint list_eqb {A} (f : A -> A -> bool) (a b : list A) : bool :=
  match a, b with
  | [], [] => true
  | x :: a, y :: b => f x y && list_eqb f a b
  | _, _ => false
  end.
Fixpoint sn_eqb (a b : snode) : bool :=
  match a, b with
  | SNode ha aa sa, SNode hb ab sb =>
      list_eqb String.eqb ha hb &&
      list_eqb (fun x y => String.eqb (fst x) (fst y) && (snd x =? snd y)) aa ab &&
      (fix go (l1 : list (string * snode)) (l2 : list (string * snode)) : bool :=
         match l1, l2 with
         | [], [] => true
         | (k1, c1) :: l1, (k2, c2) :: l2 => String.eqb k1 k2 && sn_eqb c1 c2 && go l1 l2
         | _, _ => false
         end) sa sb
  end.

Inductive pobs :=
| OPath (snap : res) (map_ : res)     (* the snapshot's answer; the map's answer at snapshot time *)
| OMut (raised : bool) (after : snode).  (* did it raise; the snapshot's structure afterwards *)

Record C17_snap := CASE {
  c_tree : rtree;                (* the map at snapshot time (observed structure) *)
  c_built : bool;                (* get_static_map returned *)
  c_dump : snode;                (* structure of the snapshot as observed *)
  c_probes : list (probe * pobs);
}.

(* sets of names / dicts compared without order *)
Definition sub_names (a b : list string) : bool := forallb (fun k => smem k b) a.
Definition same_names (a b : list string) : bool := sub_names a b && sub_names b a.
Definition sub_hattrs (a b : list (string * hid)) : bool :=
  forallb (fun '(k, h) => match slookup k b with Some h' => h =? h' | None => false end) a.

(* the observed snapshot [o] is the model's snapshot [m] *)
Fixpoint sn_match (o m : snode) : bool :=
  match o, m with
  | SNode ho ao so, SNode hm am sm =>
      same_names ho hm && sub_hattrs ao am && sub_hattrs am ao &&
      forallb (fun '(k, _) => match slookup k so with Some _ => true | None => false end) sm &&
      (fix go (l : list (string * snode)) : bool :=
         match l with
         | [] => true
         | (k, c) :: l =>
             match slookup k sm with Some c' => sn_match c c' | None => false end && go l
         end) so
  end.

(* ---- the model as an acceptor ------------------------------------------------------------ *)
Definition probe_ok (t : rtree) (sn dump : snode) (pr : probe) (ob : pobs) : bool :=
  match pr, ob with
  | PPath md p, OPath r_snap r_map =>
      res_eqb r_snap (snap_path md sn p) && res_eqb r_map (tree_path md t p)
  | PSet p _, OMut raised after =>
      (* __setattr__ raises whatever the node and the name and stores
         nothing: the snapshot is observed exactly as before *)
      match snap_node sn p with Some _ => raised && sn_eqb after dump | None => false end
  | PDel p _, OMut raised after =>
      match snap_node sn p with Some _ => raised && sn_eqb after dump | None => false end
  | _, _ => false
  end.

Definition snap_accepts (c : C17_snap) : bool :=
  match build (c_tree c) with
  | Some sn =>
      c_built c && sn_match (c_dump c) sn &&
      forallb (fun '(pr, ob) => probe_ok (c_tree c) sn (c_dump c) pr ob) (c_probes c)
  | None => negb (c_built c)
  end.

(* ---- the property, over observations only ------------------------------------------------- *)
(* the snapshot's structure mirrors the map's: per map, _handle_names are the
   names of the visible handles, the handle attributes are exactly the visible
   handles (nothing else, nothing missing), every sub-map has its snapshot,
   mirrored in turn, and there are no further attributes *)
Definition visible_ok (layers : list (list (string * hid))) (hn : list string)
                      (ha : list (string * hid)) : bool :=
  forallb (fun '(k, h) => match cmlookup k layers with Some h' => h =? h' | None => false end) ha &&
  forallb (fun l => forallb (fun '(k, _) =>
             match cmlookup k layers, slookup k ha with
             | Some h, Some h' => (h =? h') && smem k hn
             | _, _ => false
             end) l) layers &&
  forallb (fun k => match slookup k ha with Some _ => true | None => false end) hn.

Fixpoint mirrors (t : rtree) (o : snode) : bool :=
  match t, o with
  | Node layers subs, SNode hn ha sa =>
      visible_ok layers hn ha &&
      forallb (fun '(k, _) => match slookup k subs with Some _ => true | None => false end) sa &&
      (fix go (l : list (string * rtree)) : bool :=
         match l with
         | [] => true
         | (k, c) :: l =>
             match slookup k sa with Some o' => mirrors c o' | None => false end && go l
         end) subs
  end.

Definition probe_holds (dump : snode) (pr : probe) (ob : pobs) : bool :=
  match pr, ob with
  | PPath md p, OPath r_snap r_map =>
      (* same walk, same loaded resource / same handle object / absent alike *)
      res_eqb r_snap r_map
  | PSet _ _, OMut raised after => raised && sn_eqb after dump
  | PDel _ _, OMut raised after => raised && sn_eqb after dump
  | _, _ => false
  end.

Definition snap_holds_b (c : C17_snap) : bool :=
  c_built c && mirrors (c_tree c) (c_dump c) &&
  forallb (fun '(pr, ob) => probe_holds (c_dump c) pr ob) (c_probes c).
Definition snap_holds (c : C17_snap) : Prop := snap_holds_b c = true.

(* ---- input domain --------------------------------------------------------------------------- *)
(* members of every snapshot object (dir() of the snapshot of an empty map,
   CPython 3.12); a resource of that name would shadow or be shadowed by the
   member *)
Definition members : list string :=
  ["get"; "_handle_names"; "__class__"; "__delattr__"; "__dir__"; "__doc__"; "__eq__";
   "__format__"; "__ge__"; "__getattribute__"; "__getitem__"; "__getstate__"; "__gt__";
   "__hash__"; "__init__"; "__init_subclass__"; "__le__"; "__lt__"; "__module__"; "__ne__";
   "__new__"; "__reduce__"; "__reduce_ex__"; "__repr__"; "__setattr__"; "__sizeof__";
   "__slots__"; "__str__"; "__subclasshook__"; "__dict__"; "__weakref__"; "__annotations__";
   "__firstlineno__"; "__static_attributes__"]%string.
Definition name_ok (k : string) : bool :=
  negb (smem k members) && all_chars (fun c => (nat_of_ascii c <? 128)%nat) k.

Fixpoint nodup_names (l : list string) : bool :=
  match l with [] => true | k :: l => negb (smem k l) && nodup_names l end.

(* per map: names are not members, a dict has no key twice, and no name is
   both a handle and a sub-map (C11) *)
Fixpoint wf_tree (t : rtree) : bool :=
  match t with
  | Node layers subs =>
      forallb (fun l => nodup_names (map fst l) && forallb name_ok (map fst l)) layers &&
      nodup_names (map fst subs) && forallb name_ok (map fst subs) &&
      forallb (fun k => match cmlookup k layers with Some _ => false | None => true end)
              (map fst subs) &&
      (fix go (l : list (string * rtree)) : bool :=
         match l with [] => true | (_, c) :: l => wf_tree c && go l end) subs
  end.

Definition probe_wf (pr : probe) : bool :=
  match pr with
  | PPath _ p => forallb name_ok p
  | PSet p _ => forallb name_ok p
  | PDel p _ => forallb name_ok p
  end.

Definition snap_wf_b (c : C17_snap) : bool :=
  wf_tree (c_tree c) && forallb (fun x => probe_wf (fst x)) (c_probes c).

(* ---- a case: a sequence of snapshots of one live map ------------------------------------------ *)
(* The harness builds a map, takes a snapshot, probes it, modifies the live
   map (at any depth, through the root with composed keys or directly on
   sub-maps, clear and layer insertion included), takes another snapshot,
   probes both, and so on.  Each element records one snapshot: the structure
   of the live map when get_static_map() was called, the structure of the
   snapshot, and every probe made on THAT snapshot - also those made after
   later modifications of the live map - with the map's answer at that
   snapshot's time.  get_static_map is a function of the map as it is when
   called: the model builds each snapshot afresh from its tree. *)
Definition C17_case := list C17_snap.
Definition accepts (c : C17_case) : bool := forallb snap_accepts c.
Definition holds_b (c : C17_case) : bool := forallb snap_holds_b c.
Definition holds (c : C17_case) : Prop := holds_b c = true.
Definition wf_b (c : C17_case) : bool := forallb snap_wf_b c.
Definition known_b (c : C17_case) : bool := false.

Definition bit (b : bool) (n : nat) : nat := if b then n else 0%nat.
Definition C17_verdict (c : C17_case) : nat :=
  (bit (wf_b c) 1 + bit (known_b c) 2 + bit (accepts c) 4 + bit (holds_b c) 8)%nat.
