(* C16, general case: what one entry of the enumeration does when names may
   have changed sides since earlier populations. *)
From Coq Require Import ZArith List Bool String Lia.
From Desper Require Import Lib.Alist Tree.C11Model Tree.C11Lemmas Tree.C11Inv Tree.C16Model
     Tree.C16Proofs Tree.C16Paths Tree.C16Full Tree.C16GPaths.
Import ListNotations.
Open Scope Z_scope.

Record GInv (st : pstate) : Prop := mkGInv {
  G_p : PInv st;
  G_root : RootNone (p_store st);
  G_unused : forall c, p_nm st < c -> sm (p_store st) c = m_default;
}.

(* the key is a step of the walk along [pre]: its path is a non-empty prefix *)
Definition mid_prefix (pre : list Z) (key : list Z * Z) : bool :=
  existsb (fun j => list_eqb Z.eqb (kpath key) (firstn j pre)) (seq 1 (List.length pre)).

Lemma firstn_S_nth (l : list Z) : forall j, (j < List.length l)%nat ->
  firstn (S j) l = firstn j l ++ [nth j l 0].
Proof.
  induction l as [|x l IH]; intros j Hj; [cbn in Hj; lia|].
  destruct j as [|j]; [reflexivity|]. cbn [firstn nth app]. f_equal. apply IH. cbn in Hj. lia.
Qed.

Lemma mid_prefix_spec pre q n :
  mid_prefix pre (q, n) = true <->
  exists j, (j < List.length pre)%nat /\ q = firstn j pre /\ n = nth j pre 0.
Proof.
  unfold mid_prefix, kpath. cbn [fst snd]. rewrite existsb_exists. split.
  - intros (j & Hj & HE). apply in_seq in Hj. apply list_eqb_Z_eq in HE.
    destruct j as [|j]; [lia|]. exists j. split; [lia|].
    rewrite firstn_S_nth in HE by lia. apply app_inj_tail in HE. exact HE.
  - intros (j & Hj & -> & ->). exists (S j). split; [apply in_seq; lia|].
    rewrite firstn_S_nth by lia. apply list_eqb_refl_Z.
Qed.

Lemma walk_prefix s : forall a m b y, walk s m (a ++ b) = Some y -> exists x, walk s m a = Some x.
Proof.
  intros a m b y H. rewrite walk_app in H. destruct (walk s m a); [eauto|discriminate].
Qed.

Lemma firstn_lt_ne (pre : list Z) j : (j < List.length pre)%nat -> firstn j pre <> pre.
Proof.
  intros Hj H. apply (f_equal (@List.length Z)) in H. rewrite firstn_length in H. lia.
Qed.

Lemma is_prefix_longer (f q : list Z) :
  (List.length q < List.length f)%nat -> is_prefix f q = false.
Proof.
  intros HL. destruct (is_prefix f q) eqn:E; [|reflexivity].
  destruct (is_prefix_split _ _ E) as (r & ->). rewrite app_length in HL. lia.
Qed.

(* the conflict test, whatever is under the key *)
Lemma nest_cases_g used s pre last :
  Inv used s -> LNE s ->
  exists s1, nest_step s (py_get s 0 pre last RNone) = inl s1 /\
    ((s1 = s /\ forall t, walk s 0 pre = Some t -> lay0 s t last = None) \/
     (exists t, walk s 0 pre = Some t /\ s1 = py_push s t)).
Proof.
  intros HI HL. unfold py_get.
  destruct (walk s 0 pre) as [t|] eqn:EW.
  2:{ exists s. split; [reflexivity|]. left. split; [reflexivity|]. intros t; discriminate. }
  destruct (cm_lookup last (m_layers (sm s t))) as [h0|] eqn:EC.
  - cbn [nest_step]. pose proof EC as EC'. apply cm_lookup_in in EC'.
    rewrite (I_bh _ _ HI t last h0 EC'). cbn [h_parent h_key].
    pose proof (HL t) as HT. unfold lay0.
    destruct (m_layers (sm s t)) as [|l0 ls] eqn:EL; [contradiction|].
    cbn [cm_lookup] in EC. destruct (alookup last l0) as [h1|] eqn:E0.
    + injection EC as ->. rewrite Z.eqb_refl. exists (py_push s t). split; [reflexivity|].
      right. exists t. auto.
    + exists s. split; [reflexivity|]. left. split; [reflexivity|].
      intros t' [= <-]. rewrite EL. exact E0.
  - assert (HLay : forall t', Some t = Some t' -> lay0 s t' last = None).
    { intros t' [= <-]. apply lay0_of_ncol. unfold ncol. now apply column_empty_lookup. }
    destruct (alookup last (m_maps (sm s t))) as [c|] eqn:EM.
    + cbn [nest_step]. destruct (I_bm _ _ HI t last c EM) as [P _]. rewrite P.
      pose proof (HL t) as HT. destruct (m_layers (sm s t)); [contradiction|].
      exists s. split; [reflexivity|]. left. auto.
    + exists s. split; [reflexivity|]. left. auto.
Qed.

Lemma file_stage1_g nest K st pre last :
  GInv st ->
  (nest = false -> k8free (p_store st) K /\ In (pre, last) K) ->
  let s := p_store st in
  exists s1,
    (if nest then nest_step s (py_get s 0 pre last RNone) else inl s) = inl s1 /\
    PInv (PS s1 (p_nh st) (p_nm st) (p_log st) (p_exc st)) /\
    RootNone s1 /\
    (forall q, walk s1 0 q = walk s 0 q) /\
    (forall x n, ncol s1 x n = ncol s x n) /\
    (forall key, scol s1 key = scol s key) /\
    (forall c, p_nm st < c -> sm s1 c = m_default) /\
    (nest = false -> s1 = s) /\
    (forall t, walk s 0 pre = Some t ->
       col_rest nest (scol s (pre, last)) = column last (List.tl (m_layers (sm s1 t)))).
Proof.
  intros [HP HRn HU] HK8. cbv zeta. set (s := p_store st) in *.
  destruct nest.
  - pose proof HP as [(used & sp & HI & HR & HB) _ _ HL].
    destruct (nest_cases_g used s pre last HI HL) as (s1 & E1 & [[-> HLay]|(t & HW & ->)]).
    + exists s. split; [exact E1|]. split; [destruct st; exact HP|]. split; [exact HRn|].
      split; [reflexivity|]. split; [reflexivity|]. split; [reflexivity|].
      split; [exact HU|]. split; [reflexivity|].
      intros t HW. unfold col_rest. rewrite (scol_walk s pre last t HW).
      symmetry. apply tl_col_none. now apply HLay.
    + destruct (push_paths s t) as (A1 & A2 & A3 & A4 & A5 & A6 & A7 & A8).
      exists (py_push s t). split; [exact E1|].
      split; [apply PInv_push; [exact HP|]; fold s; eapply walk_alloc; eauto|].
      split; [now apply A7|]. split; [exact A1|]. split; [exact A2|]. split; [exact A3|].
      split.
      { intros c Hc. rewrite A5; [now apply HU|].
        pose proof (walk_le st HP pre t HW). lia. }
      split; [discriminate|].
      intros t' HW'. rewrite HW in HW'. injection HW' as <-. unfold col_rest.
      rewrite A6. cbn [List.tl]. now rewrite (scol_walk s pre last t HW).
  - destruct (HK8 eq_refl) as [HF HIn].
    exists s. split; [reflexivity|]. split; [destruct st; exact HP|]. split; [exact HRn|].
    split; [reflexivity|]. split; [reflexivity|]. split; [reflexivity|].
    split; [exact HU|]. split; [reflexivity|].
    intros t HW. unfold col_rest. rewrite (scol_walk s pre last t HW).
    destruct (lay0 s t last) as [h0|] eqn:E0.
    + rewrite (tl_col_some s t last h0 E0). reflexivity.
    + rewrite (HF pre last HIn t HW E0). rewrite (tl_col_none s t last E0).
      now rewrite (HF pre last HIn t HW E0).
Qed.

Local Notation KEY q n := (@pair (list Z) Z q n) (only parsing).

Lemma file_step_g tbl root nest trim r K st e pre last :
  GInv st -> p_exc st = XNone -> e_kind e = KFile -> ext_ok r e = true ->
  entry_key tbl root trim e = Some (pre, last) ->
  (nest = false -> k8free (p_store st) K /\ In (pre, last) K) ->
  let st' := pop_entry tbl root nest trim r st e in
  GInv st' /\ p_exc st' = XNone /\
  (forall key, scol (p_store st') key =
               if key_eqb key (pre, last) then col_step nest (scol (p_store st) key) (p_nh st)
               else if mid_prefix pre key then []
               else if is_prefix (pre ++ [last]) (fst key) then []
               else scol (p_store st) key) /\
  (forall q x, walk (p_store st) 0 q = Some x -> is_prefix (pre ++ [last]) q = false ->
               walk (p_store st') 0 q = Some x) /\
  (forall q, is_prefix (pre ++ [last]) q = true -> walk (p_store st') 0 q = None) /\
  (forall q, walk (p_store st') 0 q <> None ->
             walk (p_store st) 0 q <> None \/ exists j, q = firstn j pre) /\
  (nest = false -> k8free (p_store st') K).
Proof.
  intros HQ HX HKind HExt HKey HK8. cbv zeta.
  destruct (file_stage1_g nest K st pre last HQ HK8)
    as (s1 & E1 & HP1 & HRn1 & W1 & N1 & C1 & U1 & S1 & T1).
  pose proof HQ as [HP HRn HU].
  set (s := p_store st) in *. set (h := p_nh st).
  assert (HSt : pop_entry tbl root nest trim r st e =
                PS (py_setitem s1 0 pre last (RH h)) (h + 1) (p_nm st)
                   ((h, (e_comps e, r_sig r)) :: p_log st) XNone).
  { unfold pop_entry. rewrite HX, HExt, HKey, HKind. fold s. rewrite E1. reflexivity. }
  rewrite HSt. cbn [p_store p_exc].
  pose proof HP1 as [(used & sp & HI1 & HR1 & HB1) _ _ HL1]. cbn [p_store] in *.
  assert (HW0 : walk s1 0 [] = Some 0) by reflexivity.
  destruct (set_walk_paths_g used pre s1 sp [] 0 HI1 HR1 HRn1 HW0)
    as (I1 & (sp2 & I2) & I3 & I4 & I5 & I6 & I7 & I8 & I9 & I10).
  cbn [app] in I4, I6, I7, I8.
  set (s2 := fst (set_walk s1 0 pre)) in *. set (t1 := snd (set_walk s1 0 pre)) in *.
  destruct (set_handle_paths_g used s2 pre t1 last h I1 I3 I4)
    as (J1 & J2 & J3 & J4 & J5 & J6 & J7).
  rewrite py_setitem_eq. fold s2 t1. set (s3 := set_final s2 t1 last (RH h)) in *.
  set (f := pre ++ [last]).
  (* new objects of the walk were unallocated: empty *)
  assert (HNewEmpty : forall x, x < - snext s1 -> forall n, ncol s1 x n = [] /\ lay0 s1 x n = None).
  { intros x Hx n. unfold ncol, lay0. rewrite (I_fresh _ _ HI1 x Hx). auto. }
  assert (HU2 : forall q1 q2 x, walk s2 0 q1 = Some x -> walk s2 0 q2 = Some x -> q1 = q2)
    by (intros q1 q2 x; apply (unique_path used s2 0 I1 I3)).
  (* the last object of the walk is not one of its earlier steps *)
  assert (Ht1F : forall n, ncol s2 t1 n = ncol s1 t1 n /\ lay0 s2 t1 n = lay0 s1 t1 n).
  { intros n. apply I7. intros j Hj Hw. exfalso.
    apply (firstn_lt_ne pre j Hj). exact (HU2 _ _ _ Hw I4). }
  assert (HTop : column last (List.tl (m_layers (sm s2 t1))) = col_rest nest (scol s (pre, last))).
  { destruct (walk s 0 pre) as [t|] eqn:EW.
    - assert (Ht : t1 = t).
      { pose proof (I5 pre t) as A. rewrite W1 in A. specialize (A EW). congruence. }
      rewrite Ht, (T1 t eq_refl). rewrite Ht in Ht1F. apply tl_col_eq; apply Ht1F.
    - destruct (I6 pre t1 I4) as [A|(_ & Ax & _)]; [rewrite W1 in A; congruence|].
      rewrite (scol_nowalk s pre last EW).
      assert (HE : column last (List.tl (m_layers (sm s2 t1))) = []).
      { destruct (Ht1F last) as [A _]. destruct (HNewEmpty t1 Ax last) as [B _].
        rewrite B in A. rewrite ncol_lay0 in A. now apply app_eq_nil in A. }
      rewrite HE. unfold col_rest. destruct nest; reflexivity. }
  assert (HfP : is_prefix f pre = false).
  { apply is_prefix_longer. unfold f. rewrite app_length. cbn. lia. }
  assert (HW3 : walk s3 0 pre = Some t1) by (apply J2; auto).
  (* node-level facts for an object reached by q in the store before the final step *)
  assert (HNode : forall q n x, walk s2 0 q = Some x -> mid_prefix pre (KEY q n) = false ->
                  ncol s2 x n = scol s (KEY q n) /\
                  (walk s 0 q = Some x \/ walk s 0 q = None) /\
                  (walk s 0 q = Some x -> lay0 s2 x n = lay0 s1 x n) /\
                  (walk s 0 q = None -> ncol s2 x n = [])).
  { intros q n x Hw Hmid.
    destruct (I7 x n) as [A B].
    { intros j Hj Hw' ->. rewrite (HU2 _ _ _ Hw Hw') in Hmid.
      assert (mid_prefix pre (KEY (firstn j pre) (nth j pre 0)) = true).
      { apply mid_prefix_spec. exists j. auto. }
      unfold name in *. congruence. }
    destruct (I6 q x Hw) as [C|(C & Cx & _)].
    - split; [|split; [left; now rewrite <- W1|split; [auto|]]].
      + rewrite A, <- C1. now rewrite (scol_walk s1 q n x C).
      + intros Hn. rewrite W1 in C. congruence.
    - destruct (HNewEmpty x Cx n) as [D1 D2]. rewrite W1 in C.
      split; [|split; [now right|split; [intros Hs; congruence|]]].
      + rewrite A, D1. now rewrite (scol_nowalk s q n C).
      + intros _. now rewrite A. }
  assert (HCol : forall key, scol s3 key =
            if key_eqb key (pre, last) then col_step nest (scol s key) h
            else if mid_prefix pre key then []
            else if is_prefix f (fst key) then [] else scol s key).
  { intros [q n]. cbn [fst].
    match goal with |- _ = (if ?b then _ else _) => destruct b eqn:EK end.
    - apply key_eqb_true in EK. injection EK as -> ->.
      rewrite (scol_walk s3 pre last t1 HW3), J4, !Z.eqb_refl.
      cbn [andb]. rewrite col_step_rest. f_equal. exact HTop.
    - match goal with |- _ = (if ?b then _ else _) => destruct b eqn:EM end.
      + apply mid_prefix_spec in EM. destruct EM as (j & Hj & -> & ->).
        assert (Hpre : pre = firstn j pre ++ skipn j pre) by (symmetry; apply firstn_skipn).
        assert (Hex : exists x, walk s2 0 (firstn j pre) = Some x).
        { rewrite Hpre in I4. eapply walk_prefix; eauto. }
        destruct Hex as (x & Hx).
        assert (Hfq : is_prefix f (firstn j pre) = false).
        { apply is_prefix_longer. unfold f. rewrite app_length, firstn_length. cbn. lia. }
        rewrite (scol_walk s3 _ _ x (J2 _ _ Hx Hfq)), J4.
        destruct (x =? t1) eqn:Ex.
        * apply Z.eqb_eq in Ex. subst x. exfalso. apply (firstn_lt_ne pre j Hj).
          exact (HU2 _ _ _ Hx I4).
        * cbn [andb]. now destruct (I8 j x Hj Hx).
      + destruct (is_prefix f q) eqn:EP.
        * now rewrite (scol_nowalk s3 q n (J3 q EP)).
        * destruct (walk s2 0 q) as [x|] eqn:Ew.
          -- rewrite (scol_walk s3 q n x (J2 _ _ Ew EP)), J4.
             destruct ((x =? t1) && (n =? last)) eqn:Ex.
             ++ exfalso. apply andb_true_iff in Ex. destruct Ex as [Ex1 Ex2].
                apply Z.eqb_eq in Ex1. apply Z.eqb_eq in Ex2. subst x n.
                rewrite (HU2 _ _ _ Ew I4) in EK. unfold key_eqb in EK. cbn [fst snd] in EK.
                now rewrite list_eqb_refl_Z, Z.eqb_refl in EK.
             ++ now destruct (HNode q n x Ew EM) as [A _].
          -- assert (walk s3 0 q = None).
             { destruct (walk s3 0 q) as [x|] eqn:E3; [|reflexivity].
               rewrite (J1 q x E3) in Ew. discriminate. }
             assert (walk s 0 q = None).
             { destruct (walk s 0 q) as [x|] eqn:E0; [|reflexivity].
               rewrite <- W1 in E0. rewrite (I5 q x E0) in Ew. discriminate. }
             now rewrite (scol_nowalk s3 q n), (scol_nowalk s q n). }
  split; [|split; [reflexivity|split; [exact HCol|split; [|split; [exact J3|split]]]]].
  - constructor; cbn [p_store p_nm].
    + pose proof (PInv_set_handle (PS s1 (p_nh st) (p_nm st) (p_log st) (p_exc st)) pre last
                                  ((h, (e_comps e, r_sig r)) :: p_log st) XNone HP1) as A.
      cbn [p_store p_nh p_nm] in A. rewrite py_setitem_eq in A. exact A.
    + exact J6.
    + intros c Hc.
      assert (Ht1 : t1 <= p_nm st).
      { assert (HPI : PInv (PS s2 (p_nh st) (p_nm st) (p_log st) (p_exc st))).
        { destruct HP1 as [_ A B _]. constructor; cbn; auto.
          - exists used, sp2. split; [exact I1|]. split; [exact I2|]. exact HB1.
          - now apply set_walk_lne. }
        exact (walk_le _ HPI pre t1 I4). }
      rewrite J7 by lia.
      rewrite (I9 (p_nm st)); [now apply U1| |exact (walk_le _ HP1)|exact Hc].
      destruct HP as [_ _ A _]. exact A.
  - intros q x Hq HPf. apply J2; auto. apply I5. now rewrite W1.
  - intros q Hq. destruct (walk s3 0 q) as [x|] eqn:E; [|congruence].
    destruct (I6 q x (J1 q x E)) as [A|(_ & _ & A)]; [left; rewrite <- W1; congruence|now right].
  - intros Hnest. destruct (HK8 Hnest) as [HF _]. specialize (S1 Hnest). subst s1.
    intros p n HIn t Hw Hl. rewrite J5 in Hl. rewrite J4.
    destruct ((t =? t1) && (n =? last)); [discriminate|].
    pose proof (J1 p t Hw) as Hw2.
    destruct (mid_prefix pre (KEY p n)) eqn:EM.
    + apply mid_prefix_spec in EM. destruct EM as (j & Hj & -> & ->).
      now destruct (I8 j t Hj Hw2).
    + destruct (HNode p n t Hw2 EM) as (A & [B|B] & C & D).
      * rewrite A, (scol_walk s p n t B). apply (HF p n HIn t B). now rewrite <- (C B).
      * now apply D.
Qed.

Lemma dir_step_g tbl root nest trim r K st e pre last :
  GInv st -> p_exc st = XNone -> e_kind e = KDir -> ext_ok r e = true ->
  entry_key tbl root trim e = Some (pre, last) ->
  let st' := pop_entry tbl root nest trim r st e in
  GInv st' /\ p_exc st' = XNone /\ p_log st' = p_log st /\
  ((st' = st) \/
   ((forall key, scol (p_store st') key =
                 if mid_prefix pre key then [] else scol (p_store st) key) /\
    (forall q x, walk (p_store st) 0 q = Some x -> walk (p_store st') 0 q = Some x) /\
    (forall q, walk (p_store st') 0 q <> None ->
               walk (p_store st) 0 q <> None \/ exists j, q = firstn j (pre ++ [last])))) /\
  (k8free (p_store st) K -> k8free (p_store st') K).
Proof.
  intros HQ HX HKind HExt HKey. cbv zeta.
  pose proof HQ as [HP HRn HU].
  set (s := p_store st) in *.
  unfold pop_entry. rewrite HX, HExt, HKey, HKind. fold s.
  destruct (py_get s 0 pre last RNone) eqn:EG;
    try (split; [exact HQ|]; split; [exact HX|]; split; [reflexivity|];
         split; [now left|]; auto).
  cbn [p_store p_exc p_log].
  pose proof HP as [(used & sp & HI & HR & HB) Hnh Hnm HL].
  assert (HW0 : walk s 0 [] = Some 0) by reflexivity.
  destruct (set_walk_paths_g used pre s sp [] 0 HI HR HRn HW0)
    as (I1 & (sp2 & I2) & I3 & I4 & I5 & I6 & I7 & I8 & I9 & I10).
  cbn [app] in I4, I6, I7, I8.
  set (s2 := fst (set_walk s 0 pre)) in *. set (t1 := snd (set_walk s 0 pre)) in *.
  assert (HU2 : forall q1 q2 x, walk s2 0 q1 = Some x -> walk s2 0 q2 = Some x -> q1 = q2)
    by (intros q1 q2 x; apply (unique_path used s2 0 I1 I3)).
  assert (HNewEmpty : forall x, x < - snext s -> forall n, ncol s x n = [] /\ lay0 s x n = None).
  { intros x Hx n. assert (E : sm s x = m_default) by exact (I_fresh _ _ HI x Hx).
    unfold ncol, lay0. rewrite E. auto. }
  assert (Ht1F : forall n, ncol s2 t1 n = ncol s t1 n /\ lay0 s2 t1 n = lay0 s t1 n).
  { intros n. apply I7. intros j Hj Hw. exfalso.
    apply (firstn_lt_ne pre j Hj). exact (HU2 _ _ _ Hw I4). }
  (* get found nothing under the key *)
  assert (HNo : walk s 0 (pre ++ [last]) = None).
  { unfold py_get in EG. rewrite walk_app. destruct (walk s 0 pre) as [t|]; [|reflexivity].
    cbn [walk]. destruct (cm_lookup last (m_layers (sm s t))); [discriminate|].
    destruct (alookup last (m_maps (sm s t))); [discriminate|reflexivity]. }
  assert (HN2 : alookup last (m_maps (sm s2 t1)) = None).
  { destruct (alookup last (m_maps (sm s2 t1))) as [c|] eqn:E; [|reflexivity]. exfalso.
    assert (HWc : walk s2 0 (pre ++ [last]) = Some c).
    { rewrite walk_app, I4. cbn [walk]. now rewrite E. }
    destruct (I6 _ _ HWc) as [A|(_ & _ & (j & A))].
    - congruence.
    - symmetry in A. now apply firstn_snoc_len in A. }
  assert (HC2 : ncol s2 t1 last = []).
  { destruct (Ht1F last) as [A _]. rewrite A.
    destruct (I6 pre t1 I4) as [B|(_ & Bx & _)].
    - unfold py_get in EG. rewrite B in EG.
      destruct (cm_lookup last (m_layers (sm s t1))) eqn:EC; [discriminate|].
      unfold ncol. now apply column_empty_lookup.
    - now destruct (HNewEmpty t1 Bx last). }
  assert (HPI2 : PInv (PS s2 (p_nh st) (p_nm st) (p_log st) (p_exc st))).
  { constructor; cbn; auto.
    - exists used, sp2. split; [exact I1|]. split; [exact I2|]. exact HB.
    - now apply set_walk_lne. }
  assert (Ht1 : t1 <= p_nm st) by exact (walk_le _ HPI2 pre t1 I4).
  set (c := p_nm st + 1).
  assert (Hcd : sm s2 c = m_default).
  { rewrite (I9 (p_nm st)); [apply HU; unfold c; lia|exact Hnm|exact (walk_le _ HP)|unfold c; lia]. }
  assert (HNC : forall M n, ~ child_m s2 M n c).
  { intros M n HCh. destruct (I_cm _ _ I1 _ _ _ HCh) as [_ A].
    assert (0 <= c) by (unfold c; lia). specialize (HB _ (A H)). cbn in HB. unfold c in HB. lia. }
  assert (Hct : c <> t1) by (unfold c; lia).
  assert (Hc0 : c <> 0) by (unfold c; lia).
  destruct (set_map_paths used s2 pre t1 last c I1 I3 I4 HN2 HC2 Hcd HNC Hct Hc0)
    as (J1 & J2 & J3 & J4 & J5 & J6 & J7 & J8).
  rewrite py_setitem_eq. fold s2 t1. set (s3 := set_final s2 t1 last (RM c)) in *.
  assert (HNode : forall q n x, walk s2 0 q = Some x -> mid_prefix pre (KEY q n) = false ->
                  ncol s2 x n = scol s (KEY q n) /\
                  (walk s 0 q = Some x \/ walk s 0 q = None) /\
                  (walk s 0 q = Some x -> lay0 s2 x n = lay0 s x n) /\
                  (walk s 0 q = None -> ncol s2 x n = [])).
  { intros q n x Hw Hmid.
    destruct (I7 x n) as [A B].
    { intros j Hj Hw' ->. rewrite (HU2 _ _ _ Hw Hw') in Hmid.
      assert (mid_prefix pre (KEY (firstn j pre) (nth j pre 0)) = true).
      { apply mid_prefix_spec. exists j. auto. }
      unfold name in *. congruence. }
    destruct (I6 q x Hw) as [C|(C & Cx & _)].
    - split; [|split; [now left|split; [auto|]]].
      + rewrite A. now rewrite (scol_walk s q n x C).
      + intros Hn. congruence.
    - destruct (HNewEmpty x Cx n) as [D1 D2].
      split; [|split; [now right|split; [intros Hs; congruence|]]].
      + rewrite A, D1. now rewrite (scol_nowalk s q n C).
      + intros _. now rewrite A. }
  assert (HCol : forall key, scol s3 key = if mid_prefix pre key then [] else scol s key).
  { intros [q n].
    match goal with |- _ = (if ?b then _ else _) => destruct b eqn:EM end.
    - apply mid_prefix_spec in EM. destruct EM as (j & Hj & -> & ->).
      assert (Hpre : pre = firstn j pre ++ skipn j pre) by (symmetry; apply firstn_skipn).
      assert (Hex : exists x, walk s2 0 (firstn j pre) = Some x).
      { rewrite Hpre in I4. eapply walk_prefix; eauto. }
      destruct Hex as (x & Hx).
      rewrite (scol_walk s3 _ _ x (J1 _ _ Hx)), J4. now destruct (I8 j x Hj Hx).
    - destruct (walk s3 0 q) as [x|] eqn:E3.
      + rewrite (scol_walk s3 q n x E3), J4.
        destruct (J2 q x E3) as [A|(-> & A & ->)].
        * now destruct (HNode q n x A EM) as [B _].
        * unfold ncol. rewrite Hcd. cbn. symmetry.
          exact (scol_nowalk s (pre ++ [last]) n HNo).
      + assert (walk s 0 q = None).
        { destruct (walk s 0 q) as [x|] eqn:E0; [|reflexivity].
          rewrite (J1 q x (I5 q x E0)) in E3. discriminate. }
        now rewrite (scol_nowalk s3 q n), (scol_nowalk s q n). }
  assert (HNew : forall q, walk s3 0 q <> None ->
                           walk s 0 q <> None \/ exists j, q = firstn j (pre ++ [last])).
  { intros q Hq. destruct (walk s3 0 q) as [x|] eqn:E; [|congruence].
    destruct (J2 q x E) as [A|(-> & _ & _)].
    - destruct (I6 q x A) as [B|(_ & _ & (j & ->))]; [left; congruence|].
      right. apply firstn_pre_app.
    - right. exists (List.length (pre ++ [last])). now rewrite firstn_all. }
  split; [|split; [reflexivity|split; [reflexivity|split]]].
  - constructor; cbn [p_store p_nm].
    + pose proof (PInv_set_map st pre last HP) as A. fold s c in A.
      rewrite py_setitem_eq in A. exact A.
    + exact J6.
    + intros x Hx. rewrite J7 by (unfold c in *; lia).
      rewrite (I9 (p_nm st)); [apply HU; lia|exact Hnm|exact (walk_le _ HP)|lia].
  - right. split; [exact HCol|]. split; [intros q x Hq; apply J1, I5, Hq|exact HNew].
  - intros HF p n HIn t Hw Hl. rewrite J5 in Hl. rewrite J4.
    destruct (J2 p t Hw) as [A|(_ & _ & ->)].
    + destruct (mid_prefix pre (KEY p n)) eqn:EM.
      * apply mid_prefix_spec in EM. destruct EM as (j & Hj & -> & ->).
        now destruct (I8 j t Hj A).
      * destruct (HNode p n t A EM) as (B & [C|C] & D & E).
        -- rewrite B, (scol_walk s p n t C). apply (HF p n HIn t C). now rewrite <- (D C).
        -- now apply E.
    + unfold ncol. now rewrite Hcd.
Qed.
