(* C16, general case: every accepted well-formed case outside the known
   findings satisfies the whole property, also when names change sides
   between file and directory from one population to the next. *)
From Coq Require Import ZArith List Bool String Lia Permutation.
From Desper Require Import Lib.Alist Tree.C11Model Tree.C11Lemmas Tree.C11Inv Tree.C16Model
     Tree.C16Proofs Tree.C16Log Tree.C16Main Tree.C16Paths Tree.C16Full Tree.C16Call
     Tree.C16Bridge Tree.C16Static Tree.C16Final Tree.C16GPaths Tree.C16GFull Tree.C16GCall.
Import ListNotations.
Open Scope Z_scope.

(* ---- the keys of the log are the keys of the accepted files -------------------------- *)
Lemma norm_idem l : norm (norm l) = norm l.
Proof.
  unfold norm. induction l as [|c l IH]; cbn [filter]; [reflexivity|].
  destruct (negb (String.eqb c "" || String.eqb c ".")) eqn:E; cbn [filter]; [|exact IH].
  now rewrite E, IH.
Qed.

Definition pkey (tbl : list (string * Z)) (root : list string) (trim : bool)
                (p : list string * Z) : list (list Z * Z) :=
  match entry_key tbl root trim (E KFile (fst p)) with Some k => [k] | None => [] end.

Lemma pkey_norm tbl root trim comps sg :
  pkey tbl root trim (norm comps, sg) = pkey tbl root trim (comps, sg).
Proof.
  unfold pkey, entry_key, key_comps. cbn [fst e_comps e_kind]. now rewrite norm_idem.
Qed.

Lemma logkeys_flat tbl root trim log :
  logkeys tbl root trim log =
  flat_map (pkey tbl root trim) (map (fun x => (norm (fst (snd x)), snd (snd x))) log).
Proof.
  unfold logkeys. induction log as [|[h [comps sg]] log IH]; [reflexivity|].
  cbn [flat_map map fst snd]. rewrite IH, pkey_norm. reflexivity.
Qed.

Lemma accepted_keys_flat tbl c :
  accepted_keys tbl c =
  flat_map (pkey tbl (k_root c) (eff_trim c)) (map fst (accepted_files tbl c)).
Proof.
  unfold accepted_keys, accepted_files.
  induction (active (k_rules c) (k_truth c)) as [|[r truth] l IH]; [reflexivity|].
  cbn [flat_map]. rewrite map_app, !flat_map_app, IH. f_equal. clear.
  induction truth as [|e truth IH]; [reflexivity|]. cbn [flat_map].
  destruct (e_kind e) eqn:EK; [|exact IH|exact IH].
  destruct (ext_ok r e); [|exact IH]. cbn [app map flat_map fst snd]. rewrite IH. f_equal.
  rewrite pkey_norm. unfold pkey. cbn [fst].
  assert (E : entry_key tbl (k_root c) (eff_trim c) (E KFile (e_comps e)) =
              entry_key tbl (k_root c) (eff_trim c) e).
  { unfold entry_key. cbn [e_kind e_comps]. now rewrite EK. }
  rewrite E. destruct (entry_key tbl (k_root c) (eff_trim c) e); reflexivity.
Qed.

Lemma GInv_reset st : GInv st -> GInv (PS (p_store st) (p_nh st) (p_nm st) [] XNone).
Proof. intros [[P1 P2 P3 P4] A B]. constructor; auto. constructor; auto. Qed.

Lemma call_ok_full_g tbl st c st' prev :
  GInv st -> tree_match (p_store st) 0 prev = true ->
  call_wf tbl c = true -> call_noclash tbl c = true ->
  k7_call c = false -> k8_call tbl prev c = false ->
  call_ok tbl st c = Some st' ->
  GInv st' /\ tree_match (p_store st') 0 (k_tree c) = true /\
  call_holds tbl prev (p_nh st) c = true /\
  p_nh st' = p_nh st + Z.of_nat (List.length (k_log c)).
Proof.
  intros HQ HM0 HW HNC HK7 HK8 HOK.
  destruct (call_ok_core tbl st c st' (G_p _ HQ) HW HK7 HOK) as (_ & HCore & HNh).
  unfold call_ok in HOK. set (st1 := pop_call tbl st c) in *.
  destruct (exc_eqb (k_exc c) (p_exc st1) && log_eqb (k_log c) (rev (p_log st1)) &&
            tree_match (p_store st1) 0 (k_tree c)) eqn:HB; [|discriminate].
  injection HOK as <-.
  apply andb_true_iff in HB. destruct HB as [HB HM1].
  apply andb_true_iff in HB. destruct HB as [_ HL]. apply log_eqb_eq in HL.
  set (s0 := p_store st) in *.
  set (FK := file_keys tbl c). set (DK := [] :: dir_keys tbl c).
  set (K := keysK tbl c). set (AM := allowed_maps tbl c).
  assert (Disj : forall k, In k FK -> In k DK -> False).
  { intros k HF [<-|HD]; [now apply file_keys_nonempty in HF|].
    unfold call_noclash in HNC. rewrite forallb_forall in HNC. specialize (HNC k HF).
    apply negb_true_iff in HNC.
    assert (existsb (list_eqb Z.eqb k) (dir_keys tbl c) = true).
    { apply existsb_exists. exists k. split; [exact HD|apply list_eqb_refl_Z]. }
    congruence. }
  assert (DKclosed : forall p f, In p DK -> is_prefix f p = true -> In f DK).
  { intros p f [<-|HI] HP; [destruct f; [now left|discriminate]|].
    right. eapply dir_keys_closed; eauto. }
  assert (HFK : forall k, In k (file_keys tbl c) -> In k FK) by auto.
  assert (HDK : forall k, In k (dir_keys tbl c) -> In k DK) by (intros k Hk; now right).
  (* the invariant of the call, at its start *)
  assert (HC0 : CInvG FK DK tbl (k_root c) (eff_nest c) (eff_trim c) AM K s0 []
                      (PS (p_store st) (p_nh st) (p_nm st) [] XNone)).
  { constructor; cbn [p_store p_log rev].
    - now apply GInv_reset.
    - intros w [].
    - intros k [].
    - intros key. unfold killed, newsL. cbn. now rewrite expected_col_nil.
    - intros q x Hq. now right.
    - intros q Hq. now left.
    - intros f q [].
    - intros q Hq. now left.
    - intros Hn p n HIn t Hw Hl.
      unfold k8_call in HK8. rewrite Hn in HK8. cbn [negb andb] in HK8.
      unfold K, keysK, accepted_keys in HIn. apply in_flat_map in HIn.
      destruct HIn as (x & Hx & Hk).
      destruct (snd x) as [k|] eqn:Ex; [|destruct Hk]. destruct Hk as [->|[]].
      assert (HT : top_below_first prev (p, n) = false).
      { destruct (top_below_first prev (p, n)) eqn:ET; [|reflexivity].
        assert (existsb (fun x => match snd x with
                                  | Some k => top_below_first prev k | None => false end)
                        (accepted_files tbl c) = true).
        { apply existsb_exists. exists x. split; [exact Hx|]. now rewrite Ex. }
        congruence. }
      exact (bridge_k8 s0 prev (p, n) HM0 HT t Hw Hl). }
  pose proof HW as HW'. unfold call_wf in HW'. apply andb_true_iff in HW'.
  destruct HW' as [_ HF].
  assert (HG : good_rules FK DK tbl (k_root c) (eff_trim c) AM K
                          (k_rules c) (k_truth c) (k_seqs c)).
  { apply (good_rules_of_wf tbl c FK DK HFK HDK); auto. }
  destruct (rules_inv_g FK DK Disj DKclosed tbl (k_root c) (eff_nest c) (eff_trim c) AM K s0
                        (k_rules c) (k_truth c) (k_seqs c) [] _ HC0 eq_refl HG) as (Ws & HC1).
  fold (pop_call tbl st c) in HC1. fold st1 in HC1.
  destruct HC1 as [HQ1 HWs HLk HCol HOld HNew HCut _ _].
  rewrite <- HL in HLk, HCol, HOld, HCut.
  (* the files of the log are the accepted files *)
  assert (HPerm : Permutation (map (fun x => (norm (fst (snd x)), snd (snd x))) (k_log c))
                              (map fst (accepted_files tbl c))).
  { assert (HP0 : PInv (PS (p_store st) (p_nh st) (p_nm st) [] XNone))
      by (apply G_p; now apply GInv_reset).
    assert (HL0 : LogOK (p_nh st) (PS (p_store st) (p_nh st) (p_nm st) [] XNone))
      by (split; cbn; [reflexivity|lia]).
    pose proof (pop_rules_log tbl c (eff_nest c) (p_nh st) (k_rules c) (k_truth c) (k_seqs c)
                              _ HP0 HL0 eq_refl HF) as HLog.
    fold (pop_call tbl st c) in HLog. fold st1 in HLog. cbn [p_log rev map app] in HLog.
    rewrite accepted_files_fst.
    replace (map (fun x => (norm (fst (snd x)), snd (snd x))) (k_log c))
      with (map (fun y : list string * Z => (norm (fst y), snd y)) (map snd (k_log c)))
      by (rewrite map_map; reflexivity).
    rewrite HL, HLog. apply (built_perm tbl c); auto. }
  assert (HKeys : forall k, In k (logkeys tbl (k_root c) (eff_trim c) (k_log c)) <->
                            In k (accepted_keys tbl c)).
  { intros k. rewrite logkeys_flat, accepted_keys_flat.
    pose proof (Permutation_flat_map (pkey tbl (k_root c) (eff_trim c)) HPerm) as HP2.
    split; intros H; [eapply Permutation_in; eauto|].
    eapply Permutation_in; [apply Permutation_sym; exact HP2|exact H]. }
  assert (HFs : forall g, existsb g (map kpath (logkeys tbl (k_root c) (eff_trim c) (k_log c))) =
                          existsb g (map kpath (accepted_keys tbl c))).
  { intros g. apply eq_true_iff_eq. rewrite !existsb_exists.
    split; intros (f & Hf & Hg); exists f; (split; [|exact Hg]);
      apply in_map_iff in Hf; destruct Hf as (k & <- & Hk); apply in_map; now apply HKeys. }
  split; [exact HQ1|]. split; [exact HM1|]. split; [|exact HNh].
  unfold call_holds_core in HCore.
  apply andb_true_iff in HCore. destruct HCore as [HCore K5].
  apply andb_true_iff in HCore. destruct HCore as [HCore K4].
  apply andb_true_iff in HCore. destruct HCore as [HCore K3].
  apply andb_true_iff in HCore. destruct HCore as [K1 K2].
  unfold call_holds. rewrite K1, K2, K3, K4, K5. cbn [andb]. rewrite andb_true_r.
  apply andb_true_iff; split; [apply andb_true_iff; split; [apply andb_true_iff; split|]|].
  - (* columns *)
    apply forallb_forall. intros key _. unfold col_ok.
    rewrite (bridge_col _ _ HM1 key), (bridge_col _ _ HM0 key), news_of_newsL.
    fold s0. rewrite HCol. unfold killed. rewrite HFs.
    destruct (existsb (fun f => proper_prefix (kpath key) f) (map kpath (accepted_keys tbl c)))
      eqn:EA.
    + (* a directory on the way to an accepted file: one of the steps *)
      cbn [orb].
      apply existsb_exists in EA. destruct EA as (f & Hf & HP).
      apply in_map_iff in Hf. destruct Hf as ([pre last] & <- & Hk).
      apply HKeys in Hk. destruct (HLk _ Hk) as [_ HSt]. cbn [fst] in HSt.
      unfold kpath at 2 in HP. cbn [fst snd] in HP.
      assert (HIn : In (kpath key) Ws).
      { pose proof HP as HP'. unfold proper_prefix in HP'. apply andb_true_iff in HP'.
        destruct HP' as [HP1 HP2].
        pose proof (is_prefix_firstn _ _ HP1) as E.
        assert (HLen : (1 <= List.length (kpath key) <= List.length pre)%nat).
        { split.
          - unfold kpath. rewrite app_length. cbn. lia.
          - destruct (Nat.le_gt_cases (List.length (kpath key)) (List.length pre)); [assumption|].
            exfalso. rewrite firstn_all2 in E by (rewrite app_length; cbn; lia).
            rewrite E, list_eqb_refl_Z in HP2. discriminate. }
        rewrite E, firstn_app.
        replace (List.length (kpath key) - List.length pre)%nat with 0%nat by lia.
        cbn [firstn]. rewrite app_nil_r. now apply HSt. }
      assert (E : existsb (list_eqb Z.eqb (kpath key)) Ws = true).
      { apply existsb_exists. exists (kpath key). split; [exact HIn|apply list_eqb_refl_Z]. }
      rewrite E. reflexivity.
    + cbn [orb].
      destruct (existsb (fun f => is_prefix f (fst key)) (map kpath (accepted_keys tbl c))) eqn:EB.
      * now rewrite orb_true_r.
      * rewrite orb_false_r.
        destruct (existsb (list_eqb Z.eqb (kpath key)) Ws) eqn:EW.
        -- (* killed as a step of some walk: then its path may become a sub-map *)
           apply existsb_exists in EW. destruct EW as (w & Hw & E). apply list_eqb_Z_eq in E.
           subst w. destruct (HWs _ Hw) as [_ HAM].
           assert (E : existsb (list_eqb Z.eqb (kpath key)) (allowed_maps tbl c) = true).
           { apply existsb_exists. exists (kpath key). split; [exact HAM|apply list_eqb_refl_Z]. }
           rewrite E. reflexivity.
        -- destruct (existsb (list_eqb Z.eqb (kpath key)) (allowed_maps tbl c));
             rewrite list_eqb_refl_Z; [apply orb_true_r|reflexivity].
  - (* old sub-maps *)
    apply forallb_forall. intros p Hp.
    pose proof (omaps_store s0 prev 0 p HM0 Hp) as Hw.
    destruct (walk s0 0 p) as [x|] eqn:E; [|congruence].
    destruct (HOld p x E) as [A|A].
    + rewrite HFs in A. now rewrite A.
    + apply orb_true_iff. right. apply (bridge_map _ _ HM1). rewrite A. discriminate.
  - apply forallb_forall. intros p Hp.
    pose proof (omaps_store _ _ 0 p HM1 Hp) as Hw.
    destruct (HNew p Hw) as [A|A].
    + apply (bridge_map _ _ HM0) in A. now rewrite A.
    + apply orb_true_iff. right. apply existsb_exists. exists p. split; [exact A|].
      apply list_eqb_refl_Z.
  - apply forallb_forall. intros p Hp. apply negb_true_iff.
    destruct (existsb (fun f => is_prefix f p) (map kpath (accepted_keys tbl c))) eqn:EX;
      [|reflexivity]. exfalso.
    rewrite <- HFs in EX. apply existsb_exists in EX. destruct EX as (f & Hf & HP).
    pose proof (omaps_store _ _ 0 p HM1 Hp) as Hw. apply Hw. now apply (HCut f p).
Qed.

Lemma run_calls_full_g tbl cs : forall st prev,
  GInv st -> tree_match (p_store st) 0 prev = true ->
  forallb (call_wf tbl) cs = true -> forallb (call_noclash tbl) cs = true ->
  known_from tbl prev cs = false ->
  run_calls tbl st cs = true -> holds_from tbl prev (p_nh st) cs = true.
Proof.
  induction cs as [|c cs IH]; intros st prev HQ HM HW HN HK HR; [reflexivity|].
  cbn [forallb] in HW, HN. apply andb_true_iff in HW. destruct HW as [HW1 HW2].
  apply andb_true_iff in HN. destruct HN as [HN1 HN2].
  cbn [known_from] in HK. apply orb_false_iff in HK. destruct HK as [HK HK3].
  apply orb_false_iff in HK. destruct HK as [HK1 HK2].
  cbn [run_calls] in HR. destruct (call_ok tbl st c) as [st'|] eqn:E; [|discriminate].
  destruct (call_ok_full_g tbl st c st' prev HQ HM HW1 HN1 HK1 HK2 E) as (A & B & C & D).
  cbn [holds_from]. rewrite C. cbn [andb]. rewrite <- D.
  now apply (IH st' (k_tree c)).
Qed.

Lemma GInv_init : GInv ps_init.
Proof.
  constructor; cbn [ps_init p_store p_nm]; [exact PInv_init|reflexivity|reflexivity].
Qed.

Theorem accepts_holds_general c :
  wf_b c = true -> known_b c = false -> accepts c = true -> holds c.
Proof.
  unfold wf_b, known_b, accepts, holds, holds_b. intros HW HK HA.
  apply andb_true_iff in HW. destruct HW as [HW HN].
  apply andb_true_iff in HW. destruct HW as [_ HWc].
  apply (run_calls_full_g (c_names c) (c_calls c) ps_init o_empty); auto.
  exact GInv_init.
Qed.
