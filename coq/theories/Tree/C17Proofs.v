(* C17: the snapshot built by get_static_map mirrors the tree along every
   path; the construction never fails; accepted cases satisfy the property. *)
From Coq Require Import ZArith List Bool String Ascii Lia.
From Desper Require Import Tree.C17Model.
Import ListNotations.
Open Scope Z_scope.

(* ---- induction over trees ------------------------------------------------------ *)
Section rtree_induction.
  Variable P : rtree -> Prop.
  Hypothesis H : forall layers subs,
      Forall (fun kc => P (snd kc)) subs -> P (Node layers subs).
  Fixpoint rtree_ind2 (t : rtree) : P t :=
    match t with
    | Node layers subs =>
        H layers subs
          ((fix go (l : list (string * rtree)) : Forall (fun kc => P (snd kc)) l :=
              match l with
              | [] => Forall_nil _
              | kc :: l => Forall_cons kc (rtree_ind2 (snd kc)) (go l)
              end) subs)
    end.
End rtree_induction.

(* ---- string dicts ------------------------------------------------------------------ *)
Lemma smem_In k l : smem k l = true <-> In k l.
Proof.
  unfold smem. rewrite existsb_exists. split.
  - intros (x & HI & HE). apply String.eqb_eq in HE. now subst.
  - intros HI. exists k. split; auto. apply String.eqb_refl.
Qed.

Lemma smem_false k l : smem k l = false <-> ~ In k l.
Proof.
  rewrite <- smem_In. destruct (smem k l); split; congruence.
Qed.

Lemma slookup_In {A} k (v : A) l : slookup k l = Some v -> In (k, v) l.
Proof.
  induction l as [|[k' v'] l IH]; cbn [slookup]; [discriminate|].
  destruct (String.eqb k k') eqn:E.
  - apply String.eqb_eq in E. subst. intros [= ->]. now left.
  - intros H. right. auto.
Qed.

Lemma slookup_none {A} k (l : list (string * A)) : slookup k l = None <-> ~ In k (map fst l).
Proof.
  induction l as [|[k' v'] l IH]; cbn [slookup map fst In]; [tauto|].
  destruct (String.eqb k k') eqn:E.
  - apply String.eqb_eq in E. subst. split; [discriminate|]. intros H. exfalso. apply H. now left.
  - apply String.eqb_neq in E. rewrite IH. split; intros H.
    + intros [H1|H1]; [congruence|contradiction].
    + intros H1. apply H. now right.
Qed.

Lemma In_slookup {A} k (v : A) l :
  nodup_names (map fst l) = true -> In (k, v) l -> slookup k l = Some v.
Proof.
  induction l as [|[k' v'] l IH]; cbn [slookup map fst In nodup_names]; [tauto|].
  intros HN [HI|HI].
  - injection HI as -> ->. now rewrite String.eqb_refl.
  - apply andb_true_iff in HN. destruct HN as [HN1 HN2].
    destruct (String.eqb k k') eqn:E; [|auto].
    apply String.eqb_eq in E. subst k'. apply negb_true_iff, smem_false in HN1.
    exfalso. apply HN1. change k with (fst (k, v)). now apply in_map.
Qed.

(* ---- ChainMap ------------------------------------------------------------------------- *)
Lemma cmlookup_names k ls h : cmlookup k ls = Some h -> In k (chain_names ls).
Proof.
  induction ls as [|l ls IH]; cbn [cmlookup chain_names]; [discriminate|].
  destruct (slookup k l) as [v|] eqn:E.
  - intros _. apply in_or_app.
    destruct (smem k (chain_names ls)) eqn:E2; [left; now apply smem_In|].
    right. apply filter_In. split; [|now rewrite E2].
    apply slookup_In in E. change k with (fst (k, v)). now apply in_map.
  - intros H. apply in_or_app. left. auto.
Qed.

Lemma slookup_flat k (ls : list (list (string * hid))) names :
  slookup k (flat_map (fun k => match cmlookup k ls with Some h => [(k, h)] | None => [] end)
                      names) =
  if smem k names then cmlookup k ls else None.
Proof.
  induction names as [|n names IH]; cbn [flat_map smem existsb]; [reflexivity|].
  fold (smem k names).
  destruct (String.eqb k n) eqn:E.
  - apply String.eqb_eq in E. subst n. cbn [orb].
    destruct (cmlookup k ls) as [h|] eqn:E2.
    + cbn [app slookup]. now rewrite String.eqb_refl.
    + cbn [app]. rewrite IH. destruct (smem k names); auto.
  - cbn [orb]. destruct (cmlookup n ls) as [h|]; cbn [app slookup]; [rewrite E|]; apply IH.
Qed.

Lemma slookup_chain_items k ls : slookup k (chain_items ls) = cmlookup k ls.
Proof.
  unfold chain_items. rewrite slookup_flat.
  destruct (smem k (chain_names ls)) eqn:E; auto.
  destruct (cmlookup k ls) eqn:E2; auto.
  apply cmlookup_names, smem_In in E2. congruence.
Qed.

Lemma smem_items k ls :
  smem k (map fst (chain_items ls)) = match cmlookup k ls with Some _ => true | None => false end.
Proof.
  rewrite <- slookup_chain_items.
  destruct (slookup k (chain_items ls)) as [v|] eqn:E.
  - apply smem_In. apply slookup_In in E. change k with (fst (k, v)). now apply in_map.
  - apply smem_false. now apply slookup_none.
Qed.

Lemma layer_entry_cmlookup ls : forall l k (x : hid),
  In l ls -> In (k, x) l -> exists h, cmlookup k ls = Some h.
Proof.
  induction ls as [|l0 ls IH]; intros l k x HL HE; [destruct HL|].
  cbn [cmlookup]. destruct (slookup k l0) eqn:E; [eauto|].
  destruct HL as [<-|HL].
  - apply slookup_none in E. exfalso. apply E. change k with (fst (k, x)). now apply in_map.
  - eapply IH; eauto.
Qed.

(* ---- the construction --------------------------------------------------------------------- *)
Fixpoint build_list (l : list (string * rtree)) : option (list (string * snode)) :=
  match l with
  | [] => Some []
  | (k, c) :: l =>
      match build c, build_list l with
      | Some n, Some r => Some ((k, n) :: r)
      | _, _ => None
      end
  end.

Definition node_keys (layers : list (list (string * hid))) (subs : list (string * rtree)) :=
  map fst (chain_items layers) ++ map fst subs.

Lemma build_eq layers subs :
  build (Node layers subs) =
  let items := chain_items layers in
  let keys := node_keys layers subs in
  let slots := filter is_slot keys in
  let has_dict := (List.length slots <? List.length items + List.length subs)%nat in
  if forallb (can_store slots has_dict) keys then
    match build_list subs with
    | Some ss => Some (SNode (map fst items) items ss)
    | None => None
    end
  else None.
Proof. reflexivity. Qed.

Lemma mangle_slot k : is_slot k = true -> mangle k = k.
Proof.
  unfold is_slot, mangle. intros H. apply andb_true_iff in H. destruct H as [_ H].
  destruct (starts2 k); destruct (ends2 k); cbn in *; auto; discriminate.
Qed.

Lemma filter_len_le {A} (f : A -> bool) l : (List.length (filter f l) <= List.length l)%nat.
Proof.
  induction l as [|y l IH]; cbn [filter List.length]; auto.
  destruct (f y); cbn [List.length]; lia.
Qed.

Lemma filter_length_lt {A} (f : A -> bool) l x :
  In x l -> f x = false -> (List.length (filter f l) < List.length l)%nat.
Proof.
  induction l as [|y l IH]; cbn [In filter List.length]; [tauto|].
  intros [->|HI] Hf.
  - rewrite Hf. pose proof (filter_len_le f l). lia.
  - destruct (f y); cbn [List.length]; specialize (IH HI Hf); lia.
Qed.

(* every key can be stored: slot names are stored in their slot, and one
   name that is not a slot name is enough for the class to get a __dict__ *)
Lemma can_store_all keys n : n = List.length keys ->
  forallb (can_store (filter is_slot keys) (List.length (filter is_slot keys) <? n)%nat) keys = true.
Proof.
  intros ->. apply forallb_forall. intros k HI. unfold can_store.
  destruct (is_slot k) eqn:E.
  - apply orb_true_iff. left. apply smem_In.
    rewrite <- (mangle_slot k E). apply in_map. apply filter_In. auto.
  - apply orb_true_iff. right. apply Nat.ltb_lt. eapply filter_length_lt; eauto.
Qed.

Theorem build_total : forall t, build t <> None.
Proof.
  apply rtree_ind2. intros layers subs HF. rewrite build_eq. cbv zeta.
  rewrite can_store_all.
  2:{ unfold node_keys. rewrite app_length, !map_length. reflexivity. }
  assert (HL : build_list subs <> None).
  { induction subs as [|[k c] subs IH]; cbn [build_list]; [discriminate|].
    inversion HF as [|? ? H1 H2]; subst. cbn [snd] in H1.
    destruct (build c); [|contradiction]. specialize (IH H2).
    destruct (build_list subs); [discriminate|contradiction]. }
  destruct (build_list subs); [discriminate|contradiction].
Qed.

Lemma build_inv layers subs sn :
  build (Node layers subs) = Some sn ->
  exists ss, build_list subs = Some ss /\
             sn = SNode (map fst (chain_items layers)) (chain_items layers) ss.
Proof.
  rewrite build_eq. cbv zeta.
  destruct (forallb _ _); [|discriminate].
  destruct (build_list subs) as [ss|]; [|discriminate].
  intros [= <-]. eauto.
Qed.

Lemma build_list_lookup subs : forall ss k,
  build_list subs = Some ss ->
  match slookup k subs with
  | Some c => exists c', slookup k ss = Some c' /\ build c = Some c'
  | None => slookup k ss = None
  end.
Proof.
  induction subs as [|[k0 c0] subs IH]; intros ss k; cbn [build_list slookup].
  - now intros [= <-].
  - destruct (build c0) as [n|] eqn:E1; [|discriminate].
    destruct (build_list subs) as [r|] eqn:E2; [|discriminate].
    intros [= <-]. cbn [slookup]. destruct (String.eqb k k0); [eauto|].
    now apply IH.
Qed.

Lemma build_list_keys subs : forall ss,
  build_list subs = Some ss -> map fst ss = map fst subs.
Proof.
  induction subs as [|[k0 c0] subs IH]; intros ss; cbn [build_list].
  - now intros [= <-].
  - destruct (build c0) as [n|]; [|discriminate].
    destruct (build_list subs) as [r|]; [|discriminate].
    intros [= <-]. cbn [map fst]. now rewrite (IH r).
Qed.

(* ---- access along every path ------------------------------------------------------------------ *)
Lemma step_mirror md t sn k :
  build t = Some sn ->
  match tree_step md t k with
  | inl r => snap_step md sn k = inl r
  | inr c => exists c', snap_step md sn k = inr c' /\ build c = Some c'
  end.
Proof.
  destruct t as [layers subs]. intros HB.
  destruct (build_inv _ _ _ HB) as (ss & HL & ->).
  unfold tree_step, snap_step, raw_attr. cbn [t_layers t_subs s_hnames s_hattrs s_sattrs].
  rewrite smem_items, slookup_chain_items.
  pose proof (build_list_lookup subs ss k HL) as HK.
  destruct (cmlookup k layers) as [h|].
  - destruct md; reflexivity.
  - destruct (slookup k subs) as [c|].
    + destruct HK as (c' & -> & HC). destruct md; eauto.
    + rewrite HK. destruct md; reflexivity.
Qed.

Theorem path_mirror md : forall p t sn,
  build t = Some sn -> snap_path md sn p = tree_path md t p.
Proof.
  induction p as [|k p IH]; intros t sn HB; [reflexivity|].
  cbn [snap_path tree_path].
  pose proof (step_mirror md t sn k HB) as HS.
  destruct (tree_step md t k) as [r|c].
  - now rewrite HS.
  - destruct HS as (c' & -> & HC). now apply IH.
Qed.

(* ---- the observed structure mirrors the tree ---------------------------------------------------- *)
Definition mirrors_list (sa : list (string * snode)) :=
  fix go (l : list (string * rtree)) : bool :=
    match l with
    | [] => true
    | (k, c) :: l =>
        match slookup k sa with Some o' => mirrors c o' | None => false end && go l
    end.
Lemma mirrors_list_cons sa k c l :
  mirrors_list sa ((k, c) :: l) =
  match slookup k sa with Some o' => mirrors c o' | None => false end && mirrors_list sa l.
Proof. reflexivity. Qed.
Lemma mirrors_eq layers subs hn ha sa :
  mirrors (Node layers subs) (SNode hn ha sa) =
  visible_ok layers hn ha &&
  forallb (fun '(k, _) => match slookup k subs with Some _ => true | None => false end) sa &&
  mirrors_list sa subs.
Proof. reflexivity. Qed.

Definition sn_match_list (sm : list (string * snode)) :=
  fix go (l : list (string * snode)) : bool :=
    match l with
    | [] => true
    | (k, c) :: l =>
        match slookup k sm with Some c' => sn_match c c' | None => false end && go l
    end.
Lemma sn_match_list_cons sm k c l :
  sn_match_list sm ((k, c) :: l) =
  match slookup k sm with Some c' => sn_match c c' | None => false end && sn_match_list sm l.
Proof. reflexivity. Qed.
Lemma sn_match_eq ho ao so hm am sm :
  sn_match (SNode ho ao so) (SNode hm am sm) =
  same_names ho hm && sub_hattrs ao am && sub_hattrs am ao &&
  forallb (fun '(k, _) => match slookup k so with Some _ => true | None => false end) sm &&
  sn_match_list sm so.
Proof. reflexivity. Qed.

Fixpoint wf_list (l : list (string * rtree)) : bool :=
  match l with [] => true | (_, c) :: l => wf_tree c && wf_list l end.
Lemma wf_tree_eq layers subs :
  wf_tree (Node layers subs) =
  forallb (fun l => nodup_names (map fst l) && forallb name_ok (map fst l)) layers &&
  nodup_names (map fst subs) && forallb name_ok (map fst subs) &&
  forallb (fun k => match cmlookup k layers with Some _ => false | None => true end)
          (map fst subs) &&
  wf_list subs.
Proof. reflexivity. Qed.

Lemma sn_match_list_spec sm l : sn_match_list sm l = true ->
  forall k c, In (k, c) l -> exists c', slookup k sm = Some c' /\ sn_match c c' = true.
Proof.
  induction l as [|[k0 c0] l IH]; [intros _ k c []|].
  rewrite sn_match_list_cons. intros H k c [HI|HI].
  - injection HI as -> ->. apply andb_true_iff in H. destruct H as [H _].
    destruct (slookup k sm) as [c'|]; [eauto|discriminate].
  - apply andb_true_iff in H. destruct H as [_ H]. eauto.
Qed.

Lemma wf_list_spec l : wf_list l = true -> forall k c, In (k, c) l -> wf_tree c = true.
Proof.
  induction l as [|[k0 c0] l IH]; cbn [wf_list In]; [tauto|].
  intros H k c [HI|HI]; apply andb_true_iff in H; destruct H as [H1 H2].
  - now injection HI as -> ->.
  - eauto.
Qed.

Lemma sub_hattrs_spec a b : sub_hattrs a b = true ->
  forall k h, In (k, h) a -> slookup k b = Some h.
Proof.
  unfold sub_hattrs. rewrite forallb_forall. intros H k h HI. specialize (H _ HI). cbn in H.
  destruct (slookup k b) as [h'|]; [|discriminate]. apply Z.eqb_eq in H. now subst.
Qed.

Lemma mirrors_list_all sa l :
  (forall k c, In (k, c) l ->
     match slookup k sa with Some o' => mirrors c o' = true | None => False end) ->
  mirrors_list sa l = true.
Proof.
  induction l as [|[k c] l IH]; intros HA; [reflexivity|].
  rewrite mirrors_list_cons. pose proof (HA k c (or_introl eq_refl)) as H1.
  destruct (slookup k sa) as [o'|]; [|contradiction]. rewrite H1. cbn [andb].
  apply IH. intros k' c' HI. apply HA. now right.
Qed.

Lemma match_mirrors : forall t o sn,
  wf_tree t = true -> build t = Some sn -> sn_match o sn = true -> mirrors t o = true.
Proof.
  apply (rtree_ind2 (fun t => forall o sn, wf_tree t = true -> build t = Some sn ->
                                           sn_match o sn = true -> mirrors t o = true)).
  intros layers subs HF [hn ha sa] sn HW HB HM.
  destruct (build_inv _ _ _ HB) as (ss & HL & ->).
  rewrite sn_match_eq in HM.
  apply andb_true_iff in HM. destruct HM as [HM M5].
  apply andb_true_iff in HM. destruct HM as [HM M4].
  apply andb_true_iff in HM. destruct HM as [HM M3].
  apply andb_true_iff in HM. destruct HM as [M1 M2].
  unfold same_names in M1. apply andb_true_iff in M1. destruct M1 as [M1a M1b].
  unfold sub_names in M1a, M1b. rewrite forallb_forall in M1a, M1b.
  rewrite wf_tree_eq in HW.
  apply andb_true_iff in HW. destruct HW as [HW W5].
  apply andb_true_iff in HW. destruct HW as [HW _].
  apply andb_true_iff in HW. destruct HW as [HW _].
  apply andb_true_iff in HW. destruct HW as [_ W2].
  rewrite mirrors_eq. apply andb_true_iff. split; [apply andb_true_iff; split|].
  - unfold visible_ok. apply andb_true_iff. split; [apply andb_true_iff; split|].
    + apply forallb_forall. intros [k h] HI.
      pose proof (sub_hattrs_spec _ _ M2 k h HI) as E. rewrite slookup_chain_items in E.
      rewrite E. apply Z.eqb_refl.
    + apply forallb_forall. intros l Hl. apply forallb_forall. intros [k x] HI.
      destruct (layer_entry_cmlookup layers l k x Hl HI) as (h & E). rewrite E.
      assert (E2 : slookup k (chain_items layers) = Some h) by now rewrite slookup_chain_items.
      pose proof (sub_hattrs_spec _ _ M3 k h (slookup_In _ _ _ E2)) as E3. rewrite E3.
      rewrite Z.eqb_refl. cbn [andb]. apply M1b.
      apply slookup_In in E2. change k with (fst (k, h)). now apply in_map.
    + apply forallb_forall. intros k HI. specialize (M1a _ HI).
      rewrite smem_items in M1a. destruct (cmlookup k layers) as [h|] eqn:E; [|discriminate].
      assert (E2 : slookup k (chain_items layers) = Some h) by now rewrite slookup_chain_items.
      now rewrite (sub_hattrs_spec _ _ M3 k h (slookup_In _ _ _ E2)).
  - apply forallb_forall. intros [k co] HI.
    destruct (sn_match_list_spec _ _ M5 k co HI) as (c' & E & _).
    pose proof (build_list_lookup subs ss k HL) as HK.
    destruct (slookup k subs); [reflexivity|]. congruence.
  - assert (HA : forall k c, In (k, c) subs ->
              match slookup k sa with Some o' => mirrors c o' = true | None => False end).
    { intros k c HI. pose proof (In_slookup k c subs W2 HI) as E.
      pose proof (build_list_lookup subs ss k HL) as HK. rewrite E in HK.
      destruct HK as (c' & E1 & HC).
      rewrite forallb_forall in M4. pose proof (M4 _ (slookup_In _ _ _ E1)) as E2. cbn in E2.
      destruct (slookup k sa) as [o'|] eqn:E3; [|discriminate].
      destruct (sn_match_list_spec _ _ M5 k o' (slookup_In _ _ _ E3)) as (c'' & E4 & HM').
      rewrite E1 in E4. injection E4 as <-.
      rewrite Forall_forall in HF. apply (HF (k, c) HI o' c'); auto.
      eapply wf_list_spec; eauto. }
    now apply mirrors_list_all.
Qed.

(* ---- accepted cases satisfy the property ------------------------------------------------------------ *)
Lemma res_eqb_eq a b : res_eqb a b = true -> a = b.
Proof.
  destruct a, b; cbn; try discriminate; auto; intros H; apply Z.eqb_eq in H; now subst.
Qed.

Theorem snap_accepts_holds c : snap_wf_b c = true -> snap_accepts c = true -> snap_holds c.
Proof.
  unfold snap_wf_b, snap_accepts, snap_holds, snap_holds_b. intros HW HA.
  apply andb_true_iff in HW. destruct HW as [HW _].
  destruct (build (c_tree c)) as [sn|] eqn:HB; [|exfalso; now apply (build_total (c_tree c))].
  apply andb_true_iff in HA. destruct HA as [HA HP].
  apply andb_true_iff in HA. destruct HA as [HBt HM].
  rewrite HBt, (match_mirrors _ _ _ HW HB HM). cbn [andb].
  apply forallb_forall. intros [pr ob] HI. rewrite forallb_forall in HP.
  specialize (HP _ HI). cbn in HP. unfold probe_ok in HP. unfold probe_holds.
  destruct pr as [md p|p name|p name]; destruct ob as [rs rm|raised after]; try discriminate.
  - apply andb_true_iff in HP. destruct HP as [H1 H2].
    rewrite (path_mirror md p _ _ HB) in H1.
    pose proof (res_eqb_eq _ _ H2) as ->. exact H1.
  - destruct (snap_node sn p); [exact HP|discriminate].
  - destruct (snap_node sn p); [exact HP|discriminate].
Qed.

(* every snapshot of the sequence *)
Theorem accepts_holds c : wf_b c = true -> accepts c = true -> holds c.
Proof.
  unfold wf_b, accepts, holds, holds_b. rewrite !forallb_forall.
  intros HW HA x HI. apply snap_accepts_holds; auto.
Qed.
