(* C11: every accepted well-formed trace satisfies the property; the
   path-indexed reading of the store invariant. *)
From Coq Require Import ZArith List Bool Lia.
From Desper Require Import Lib.Alist Tree.C11Model Tree.C11Lemmas Tree.C11Inv.
Import ListNotations.
Open Scope Z_scope.

(* ---- what an accepted dump says about the store ------------------------------ *)
Lemma mrec_matches_spec ro rm :
  mrec_matches ro rm = true ->
  m_parent ro = m_parent rm /\ m_key ro = m_key rm /\
  (forall n, alookup n (m_maps ro) = alookup n (m_maps rm)) /\
  (forall n c, In (n, c) (m_maps ro) -> alookup n (m_maps rm) = Some c) /\
  (forall n, cm_lookup n (m_layers ro) = cm_lookup n (m_layers rm)) /\
  (forall n h, entry_in (m_layers ro) n h -> in_layers (m_layers rm) n h) /\
  (m_maps rm = [] -> m_maps ro = []) /\
  (forallb is_empty (m_layers rm) = true -> forallb is_empty (m_layers ro) = true).
Proof.
  unfold mrec_matches. intros H.
  apply andb_true_iff in H. destruct H as [H H4].
  apply andb_true_iff in H. destruct H as [H H3].
  apply andb_true_iff in H. destruct H as [H1 H2].
  apply opt_eqb_eq in H1. apply opt_eqb_eq in H2.
  split; auto. split; auto. split; [now apply same_dict_lookup|].
  split.
  { intros n c HI. unfold same_dict in H3. apply andb_true_iff in H3.
    destruct H3 as [H3 _]. eapply sub_dict_spec; eauto. }
  split; [now apply layers_equiv_lookup|].
  split; [now apply layers_equiv_entry|].
  split.
  { intros E. rewrite E in H3. now apply same_dict_nil. }
  now apply layers_equiv_empty.
Qed.

Lemma hrec_matches_spec ro rm : hrec_matches ro rm = true -> ro = rm.
Proof.
  unfold hrec_matches. intros H. apply andb_true_iff in H. destruct H as [H1 H2].
  apply opt_eqb_eq in H1. apply opt_eqb_eq in H2. destruct ro, rm. cbn in *. congruence.
Qed.

Lemma dump_matches_m s ob m r :
  dump_matches s ob = true -> In (m, r) (o_maps ob) -> mrec_matches r (sm s m) = true.
Proof.
  unfold dump_matches. intros H HI. apply andb_true_iff in H. destruct H as [H _].
  rewrite forallb_forall in H. specialize (H _ HI). cbn in H.
  apply andb_true_iff in H. tauto.
Qed.

Lemma dump_matches_h s ob h r :
  dump_matches s ob = true -> In (h, r) (o_handles ob) -> r = sh s h.
Proof.
  unfold dump_matches. intros H HI. apply andb_true_iff in H. destruct H as [_ H].
  rewrite forallb_forall in H. specialize (H _ HI). cbn in H.
  now apply hrec_matches_spec.
Qed.

Lemma vis_matches ro rm n : mrec_matches ro rm = true -> vis ro n = vis rm n.
Proof.
  intros H. destruct (mrec_matches_spec _ _ H) as (_ & _ & A & _ & B & _).
  unfold vis. now rewrite A, B.
Qed.

(* ---- queries --------------------------------------------------------------------- *)
Lemma walk_rel used s sp : Inv used s -> Rel s sp ->
  forall pre m, walk s m pre = sp_walk sp m pre.
Proof.
  intros HI [_ HR]. induction pre as [|k pre IH]; intros m; cbn [walk sp_walk]; auto.
  rewrite <- HR. destruct (alookup k (m_maps (sm s m))) as [c|] eqn:E.
  - rewrite (child_m_vis _ _ _ _ _ HI E). apply IH.
  - pose proof (vis_not_map s m k E) as HN.
    destruct (vis (sm s m) k) as [[c|h]|]; auto. exfalso. now apply (HN c).
Qed.

Lemma vis_cases s t last :
  vis (sm s t) last =
  match cm_lookup last (m_layers (sm s t)) with
  | Some h => Some (RH h)
  | None => match alookup last (m_maps (sm s t)) with Some c => Some (RM c) | None => None end
  end.
Proof. reflexivity. Qed.

Lemma py_getitem_rel used s sp m pre last : Inv used s -> Rel s sp ->
  py_getitem s m pre last = expected QItem (sp_find sp m pre last).
Proof.
  intros HI HR. unfold py_getitem, sp_find. rewrite (walk_rel _ _ _ HI HR).
  destruct (sp_walk sp m pre) as [t|]; [|reflexivity].
  destruct HR as [_ HR]. rewrite <- HR, vis_cases.
  destruct (cm_lookup last (m_layers (sm s t))); [reflexivity|].
  destruct (alookup last (m_maps (sm s t))); reflexivity.
Qed.

Lemma py_get_rel used s sp m pre last d : Inv used s -> Rel s sp ->
  py_get s m pre last d =
  match sp_find sp m pre last with
  | Some (RM c) => RMapR c | Some (RH h) => RHandleR h | None => d end.
Proof.
  intros HI HR. unfold py_get, sp_find. rewrite (walk_rel _ _ _ HI HR).
  destruct (sp_walk sp m pre) as [t|]; [|reflexivity].
  destruct HR as [_ HR]. rewrite <- HR, vis_cases.
  destruct (cm_lookup last (m_layers (sm s t))); [reflexivity|].
  destruct (alookup last (m_maps (sm s t))); reflexivity.
Qed.

Lemma py_chain_rel used s sp : Inv used s -> Rel s sp ->
  forall p m last, py_chain s m p last = sp_chain sp m p last.
Proof.
  intros HI HR. induction p as [|k p IH]; intros m last; cbn [py_chain sp_chain].
  - rewrite (py_getitem_rel _ _ _ _ _ _ HI HR). unfold sp_find. cbn [sp_walk].
    destruct (look sp m last) as [[c|h]|]; reflexivity.
  - rewrite (py_getitem_rel _ _ _ _ _ _ HI HR). unfold sp_find. cbn [sp_walk].
    destruct (look sp m k) as [[c|h]|]; cbn [expected]; auto.
Qed.

Lemma query_ok_ok used s sp q r : Inv used s -> Rel s sp ->
  qres_eqb r (run_query s q) = true -> query_ok sp q r = true.
Proof.
  intros HI HR. unfold run_query, query_ok. destruct (q_kind q).
  - now rewrite (py_getitem_rel _ _ _ _ _ _ HI HR).
  - now rewrite (py_chain_rel _ _ _ HI HR).
  - rewrite (py_get_rel _ _ _ _ _ _ _ HI HR).
    destruct (sp_find sp (q_map q) (q_pre q) (q_last q)) as [[c|h]|]; auto.
  - rewrite (py_get_rel _ _ _ _ _ _ _ HI HR).
    destruct (sp_find sp (q_map q) (q_pre q) (q_last q)) as [[c|h]|]; auto.
  - rewrite (py_get_rel _ _ _ _ _ _ _ HI HR).
    destruct (sp_find sp (q_map q) (q_pre q) (q_last q)) as [[c|h]|]; auto.
Qed.

(* ---- the dump clauses --------------------------------------------------------------- *)
Lemma latest_wins_ok used s sp m r : Inv used s -> Rel s sp ->
  mrec_matches r (sm s m) = true -> latest_wins sp m r = true.
Proof.
  intros HI HR HM. unfold latest_wins. apply andb_true_iff. split.
  - apply forallb_forall. intros n _. rewrite (vis_matches _ _ n HM).
    destruct HR as [_ HR]. rewrite HR. apply oref_eqb_refl.
  - apply forallb_forall. intros [n c] HIn.
    destruct (mrec_matches_spec _ _ HM) as (_ & _ & _ & A & B & _).
    rewrite B. destruct (cm_lookup n (m_layers (sm s m))) as [h|] eqn:E; auto.
    exfalso. apply cm_lookup_in in E. eapply I_xor; eauto. exact (A _ _ HIn).
Qed.

Lemma backlinks_ok_ok used s ob m r : Inv used s ->
  dump_matches s ob = true -> closed_rec ob r = true ->
  mrec_matches r (sm s m) = true -> backlinks_ok ob m r = true.
Proof.
  intros HI HD HC HM. unfold backlinks_ok.
  destruct (mrec_matches_spec _ _ HM) as (_ & _ & _ & A & _ & B & _).
  unfold closed_rec in HC. apply andb_true_iff in HC. destruct HC as [HC1 HC2].
  rewrite forallb_forall in HC1. rewrite forallb_forall in HC2.
  apply andb_true_iff. split.
  - apply forallb_forall. intros [n c] HIn. specialize (HC1 _ HIn). cbn in HC1.
    destruct (has_id_find _ _ HC1) as (rc & E & HIc). unfold dfind. rewrite E.
    destruct (mrec_matches_spec _ _ (dump_matches_m _ _ _ _ HD HIc)) as (P & K & _).
    destruct (I_bm _ _ HI m n c (A _ _ HIn)) as [P' K'].
    rewrite P, K, P', K'. cbn. now rewrite !Z.eqb_refl.
  - apply forallb_forall. intros l Hl. apply forallb_forall. intros [n h] HIn.
    specialize (HC2 _ Hl). rewrite forallb_forall in HC2. specialize (HC2 _ HIn). cbn in HC2.
    destruct (has_id_find _ _ HC2) as (rh & E & HIh). unfold dfind. rewrite E.
    rewrite (dump_matches_h _ _ _ _ HD HIh).
    assert (HCh : child_h s m n h) by (apply B; exists l; auto).
    rewrite (I_bh _ _ HI _ _ _ HCh). cbn. now rewrite !Z.eqb_refl.
Qed.

Lemma dump_closed_rec ob m r : dump_closed ob = true -> In (m, r) (o_maps ob) ->
  closed_rec ob r = true.
Proof.
  unfold dump_closed. rewrite forallb_forall. intros H HI. exact (H _ HI).
Qed.

Lemma covers_m prev ob c : dump_covers prev ob = true -> has_id c (o_maps prev) = true ->
  has_id c (o_maps ob) = true.
Proof.
  unfold dump_covers. intros H HC. apply andb_true_iff in H. destruct H as [H _].
  rewrite forallb_forall in H. destruct (has_id_find _ _ HC) as (r & _ & HI).
  exact (H _ HI).
Qed.

Lemma covers_h prev ob c : dump_covers prev ob = true -> has_id c (o_handles prev) = true ->
  has_id c (o_handles ob) = true.
Proof.
  unfold dump_covers. intros H HC. apply andb_true_iff in H. destruct H as [_ H].
  rewrite forallb_forall in H. destruct (has_id_find _ _ HC) as (r & _ & HI).
  exact (H _ HI).
Qed.

Lemma cleared_ok_ok used s prev ob m : Inv used s ->
  dump_matches s prev = true -> dump_closed prev = true ->
  dump_matches (py_clear s m) ob = true -> dump_covers prev ob = true ->
  has_id m (o_maps ob) = true ->
  cleared_ok prev ob m = true.
Proof.
  intros HI HD0 HC0 HD HCov Hm.
  destruct (py_clear_char used s m HI) as (_ & C1 & C2 & _ & _ & C5 & C6).
  unfold cleared_ok. apply andb_true_iff. split.
  - destruct (has_id_find _ _ Hm) as (r & E & HIr). unfold dfind. rewrite E.
    destruct (mrec_matches_spec _ _ (dump_matches_m _ _ _ _ HD HIr))
      as (_ & _ & _ & _ & _ & _ & A & B).
    rewrite A; [|rewrite C1, Z.eqb_refl; reflexivity].
    rewrite B; [reflexivity|rewrite C2, Z.eqb_refl; reflexivity].
  - unfold dfind. destruct (alookup m (o_maps prev)) as [r0|] eqn:E0; [|reflexivity].
    apply alookup_In in E0.
    pose proof (dump_matches_m _ _ _ _ HD0 E0) as HM0.
    destruct (mrec_matches_spec _ _ HM0) as (_ & _ & _ & A & _ & B & _).
    pose proof (dump_closed_rec _ _ _ HC0 E0) as HCr. unfold closed_rec in HCr.
    apply andb_true_iff in HCr. destruct HCr as [HC1 HC2].
    rewrite forallb_forall in HC1. rewrite forallb_forall in HC2.
    apply andb_true_iff. split.
    + apply forallb_forall. intros [n c] HIn. specialize (HC1 _ HIn). cbn in HC1.
      pose proof (covers_m _ _ _ HCov HC1) as Hc.
      destruct (has_id_find _ _ Hc) as (rc & E & HIc). unfold detached_m, dfind. rewrite E.
      destruct (mrec_matches_spec _ _ (dump_matches_m _ _ _ _ HD HIc)) as (P & K & _).
      destruct (C5 n c (A _ _ HIn)) as [P' K']. rewrite P, K, P', K'. reflexivity.
    + apply forallb_forall. intros l Hl. apply forallb_forall. intros [n h] HIn.
      specialize (HC2 _ Hl). rewrite forallb_forall in HC2. specialize (HC2 _ HIn). cbn in HC2.
      pose proof (covers_h _ _ _ HCov HC2) as Hh.
      destruct (has_id_find _ _ Hh) as (rh & E & HIh). unfold detached_h, dfind. rewrite E.
      rewrite (dump_matches_h _ _ _ _ HD HIh).
      assert (HCh : child_h s m n h) by (apply B; exists l; auto).
      rewrite (C6 n h HCh). reflexivity.
Qed.

(* ---- one accepted step ----------------------------------------------------------------- *)
Lemma step_ok used s sp prev o ob s' :
  Inv used s -> Rel s sp -> dump_matches s prev = true -> dump_closed prev = true ->
  (forall v, In v (op_value o) -> 0 <= ref_id v /\ ~ In v used) ->
  step s prev o ob = Some s' ->
  s' = exec s o /\ Inv (op_value o ++ used) s' /\ Rel s' (sp_exec sp o) /\
  dump_matches s' ob = true /\ dump_closed ob = true /\
  obs_ok (sp_exec sp o) prev o ob = true.
Proof.
  intros HI HR HD0 HC0 HV. unfold step.
  destruct (op_guard s o) eqn:HG; [|discriminate].
  destruct (dump_ok prev o ob && dump_matches (exec s o) ob && queries_match (exec s o) ob)
    eqn:HB; [|discriminate].
  intros [= <-].
  apply andb_true_iff in HB. destruct HB as [HB HQ].
  apply andb_true_iff in HB. destruct HB as [HOK HD].
  destruct (exec_inv used s sp o HI HR HG HV) as [HI' HR'].
  pose proof HOK as HOK'. unfold dump_ok in HOK'.
  apply andb_true_iff in HOK'. destruct HOK' as [HOK' Ht].
  apply andb_true_iff in HOK'. destruct HOK' as [HC HCov].
  split; [reflexivity|]. split; [exact HI'|]. split; [exact HR'|].
  split; [exact HD|]. split; [exact HC|].
  unfold obs_ok. rewrite HOK. cbn [andb].
  apply andb_true_iff. split; [apply andb_true_iff; split|].
  - apply forallb_forall. intros [m r] HIn.
    pose proof (dump_matches_m _ _ _ _ HD HIn) as HM.
    apply andb_true_iff. split.
    + eapply latest_wins_ok; eauto.
    + eapply backlinks_ok_ok; eauto. eapply dump_closed_rec; eauto.
  - apply forallb_forall. intros [q r] HIn. unfold queries_match in HQ.
    rewrite forallb_forall in HQ. specialize (HQ _ HIn). cbn in HQ.
    apply andb_true_iff in HQ. destruct HQ as [_ HQ].
    eapply query_ok_ok; eauto.
  - destruct o as [m pre last v|m|m]; auto.
    cbn [exec op_target] in *.
    exact (cleared_ok_ok used s prev ob m HI HD0 HC0 HD HCov Ht).
Qed.

(* ---- all traces -------------------------------------------------------------------------- *)
Definition fresh_values (used : list ref) (tr : C11_case) : Prop :=
  (forall v, In v (values tr) -> 0 <= ref_id v /\ ~ In v used) /\ NoDup (values tr).

Lemma values_cons o ob tr : values ((o, ob) :: tr) = op_value o ++ values tr.
Proof. reflexivity. Qed.

Lemma fresh_values_step used o ob tr :
  fresh_values used ((o, ob) :: tr) ->
  (forall v, In v (op_value o) -> 0 <= ref_id v /\ ~ In v used) /\
  fresh_values (op_value o ++ used) tr.
Proof.
  unfold fresh_values. rewrite values_cons. intros [H1 H2]. split.
  - intros v Hv. apply H1. apply in_or_app. now left.
  - split.
    + intros v Hv. destruct (H1 v) as [A B]; [apply in_or_app; now right|].
      split; auto. intros HIn. apply in_app_or in HIn. destruct HIn as [HIn|HIn]; auto.
      destruct o; cbn [op_value] in *; try contradiction.
      destruct HIn as [<-|[]]. cbn [app] in H2. inversion H2; subst. contradiction.
    + destruct o; cbn [op_value app] in H2; auto. now inversion H2.
Qed.

Lemma run_holds tr : forall used s sp prev,
  Inv used s -> Rel s sp -> dump_matches s prev = true -> dump_closed prev = true ->
  fresh_values used tr -> run s prev tr <> None -> sp_run sp prev tr = true.
Proof.
  induction tr as [|[o ob] tr IH]; intros used s sp prev HI HR HD HC HF HRun; [reflexivity|].
  cbn [run] in HRun. cbn [sp_run].
  destruct (step s prev o ob) as [s'|] eqn:ES; [|congruence].
  destruct (fresh_values_step _ _ _ _ HF) as [HV HF'].
  destruct (step_ok used s sp prev o ob s' HI HR HD HC HV ES) as (_ & A & B & C & D & E).
  rewrite E. cbn [andb]. eapply IH; eauto.
Qed.

Lemma nodup_refs_NoDup l : nodup_refs l = true -> NoDup l.
Proof.
  induction l as [|v l IH]; cbn [nodup_refs]; [constructor|].
  intros H. apply andb_true_iff in H. destruct H as [H1 H2]. constructor; auto.
  intros HIn. apply negb_true_iff in H1.
  assert (existsb (ref_eqb v) l = true).
  { apply existsb_exists. exists v. split; auto. now apply ref_eqb_eq. }
  congruence.
Qed.

Lemma wf_fresh tr : wf_b tr = true -> fresh_values [] tr.
Proof.
  unfold wf_b. intros H. apply andb_true_iff in H. destruct H as [H1 H2]. split.
  - intros v Hv. rewrite forallb_forall in H1. specialize (H1 _ Hv).
    apply Z.leb_le in H1. auto.
  - now apply nodup_refs_NoDup.
Qed.

Theorem accepts_holds tr : wf_b tr = true -> accepts tr = true -> holds tr.
Proof.
  intros HW HA. unfold holds, holds_b. unfold accepts in HA.
  eapply (run_holds tr [] st_init sp_init obs_empty).
  - exact Inv_init.
  - exact Rel_init.
  - reflexivity.
  - reflexivity.
  - now apply wf_fresh.
  - destruct (run st_init obs_empty tr); [discriminate|discriminate HA].
Qed.

(* ---- the invariant read along paths ------------------------------------------------------ *)
Lemma run_inv tr : forall used s sp prev s',
  Inv used s -> Rel s sp -> dump_matches s prev = true -> dump_closed prev = true ->
  fresh_values used tr -> run s prev tr = Some s' ->
  exists used' sp', Inv used' s' /\ Rel s' sp'.
Proof.
  induction tr as [|[o ob] tr IH]; intros used s sp prev s' HI HR HD HC HF HRun.
  - cbn [run] in HRun. injection HRun as <-. eauto.
  - cbn [run] in HRun. destruct (step s prev o ob) as [s1|] eqn:ES; [|discriminate].
    destruct (fresh_values_step _ _ _ _ HF) as [HV HF'].
    destruct (step_ok used s sp prev o ob s1 HI HR HD HC HV ES) as (_ & A & B & C & D & E).
    eapply IH; eauto.
Qed.

Definition reachable (s : store) : Prop :=
  exists tr, wf_b tr = true /\ run st_init obs_empty tr = Some s.

Lemma reachable_inv s : reachable s -> exists used, Inv used s.
Proof.
  intros (tr & HW & HR).
  destruct (run_inv tr [] st_init sp_init obs_empty s Inv_init Rel_init eq_refl eq_refl
                    (wf_fresh _ HW) HR) as (used & sp & A & _).
  eauto.
Qed.

(* get and [] are the same walk: default exactly when KeyError, and
   get(p)() is m[p] *)
Lemma get_vs_getitem s m pre last d :
  match py_getitem s m pre last with
  | RKeyError => py_get s m pre last d = d
  | r => call_handle (py_get s m pre last d) = r
  end.
Proof.
  unfold py_getitem, py_get. destruct (walk s m pre) as [t|]; [|reflexivity].
  destruct (cm_lookup last (m_layers (sm s t))); [reflexivity|].
  destruct (alookup last (m_maps (sm s t))); reflexivity.
Qed.

Lemma get_default_iff_keyerror s m pre last :
  py_get s m pre last RDefault = RDefault <-> py_getitem s m pre last = RKeyError.
Proof.
  unfold py_getitem, py_get. destruct (walk s m pre) as [t|]; [|tauto].
  destruct (cm_lookup last (m_layers (sm s t))); [split; discriminate|].
  destruct (alookup last (m_maps (sm s t))); [split; discriminate|tauto].
Qed.

(* m[k1]...[kn][last] against m['k1/.../kn/last'] *)
Lemma py_getitem_cons s m k pre last :
  py_getitem s m (k :: pre) last =
  match alookup k (m_maps (sm s m)) with
  | Some c => py_getitem s c pre last
  | None => RKeyError
  end.
Proof.
  unfold py_getitem. cbn [walk]. destruct (alookup k (m_maps (sm s m))); reflexivity.
Qed.

Lemma py_getitem_one s m k :
  py_getitem s m [] k =
  match cm_lookup k (m_layers (sm s m)) with
  | Some h => RValR h
  | None => match alookup k (m_maps (sm s m)) with Some c => RMapR c | None => RKeyError end
  end.
Proof. reflexivity. Qed.

Lemma chain_vs_getitem used s : Inv used s -> forall pre m last,
  py_chain s m pre last = py_getitem s m pre last \/
  (py_chain s m pre last = RNotMap /\ py_getitem s m pre last = RKeyError).
Proof.
  intros HI. induction pre as [|k pre IH]; intros m last; [now left|].
  cbn [py_chain]. rewrite py_getitem_one, py_getitem_cons.
  destruct (cm_lookup k (m_layers (sm s m))) as [h|] eqn:E1.
  - (* k is a handle: the composed key finds no map k *)
    destruct (alookup k (m_maps (sm s m))) as [c|] eqn:E2.
    + exfalso. apply cm_lookup_in in E1. eapply I_xor; eauto.
    + now right.
  - destruct (alookup k (m_maps (sm s m))) as [c|] eqn:E2; [|now left].
    apply IH.
Qed.

(* back-links along every path *)
Lemma backlinks_along_paths used s : Inv used s -> forall m pre last t d,
  walk s m pre = Some t ->
  (forall c, py_get s m pre last d = RMapR c ->
             d <> RMapR c -> m_parent (sm s c) = Some t /\ m_key (sm s c) = Some last) /\
  (forall h, py_get s m pre last d = RHandleR h ->
             d <> RHandleR h -> sh s h = HR (Some t) (Some last)).
Proof.
  intros HI m pre last t d HW. unfold py_get. rewrite HW.
  destruct (cm_lookup last (m_layers (sm s t))) as [h|] eqn:E1.
  - split; [discriminate|]. intros h' [= <-] _. apply cm_lookup_in in E1.
    eapply I_bh; eauto.
  - destruct (alookup last (m_maps (sm s t))) as [c|] eqn:E2.
    + split; [|discriminate]. intros c' [= <-] _. eapply I_bm; eauto.
    + split; intros x -> Hd; contradiction.
Qed.

(* climbing .parent from the map a path leads to comes back to the start
   (the root-map walk of resource_dict_transformer) *)
Fixpoint climb (s : store) (c : mid) (n : nat) : option mid :=
  match n with
  | O => Some c
  | S n => match m_parent (sm s c) with Some p => climb s p n | None => None end
  end.

Lemma climb_app s : forall n1 c n2 p,
  climb s c n1 = Some p -> climb s c (n1 + n2) = climb s p n2.
Proof.
  induction n1 as [|n1 IH]; intros c n2 p; cbn [climb plus].
  - now intros [= ->].
  - destruct (m_parent (sm s c)); [apply IH|discriminate].
Qed.

Lemma climb_back used s : Inv used s -> forall pre m t,
  walk s m pre = Some t -> climb s t (length pre) = Some m.
Proof.
  intros HI pre. induction pre as [|k pre IH] using rev_ind; intros m t.
  - cbn. now intros [= ->].
  - intros HW. rewrite app_length. cbn [length]. rewrite Nat.add_comm. cbn [plus climb].
    (* split the walk at the last step *)
    assert (HS : exists u, walk s m pre = Some u /\ alookup k (m_maps (sm s u)) = Some t).
    { clear IH. revert m HW. induction pre as [|k' pre IH']; intros m; cbn [app walk].
      - destruct (alookup k (m_maps (sm s m))) eqn:E; [|discriminate].
        intros [= ->]. eauto.
      - destruct (alookup k' (m_maps (sm s m))); [apply IH'|discriminate]. }
    destruct HS as (u & HU & HK). destruct (I_bm _ _ HI _ _ _ HK) as [P _].
    rewrite P. now apply IH.
Qed.

(* clear() leaves nothing reachable in the map *)
Lemma clear_nothing_reachable used s m pre last : Inv used s ->
  py_getitem (py_clear s m) m pre last = RKeyError /\
  forall d, py_get (py_clear s m) m pre last d = d.
Proof.
  intros HI. destruct (py_clear_char used s m HI) as (_ & C1 & C2 & _).
  unfold py_getitem, py_get. destruct pre as [|k pre]; cbn [walk].
  - rewrite C1, C2, Z.eqb_refl. cbn. auto.
  - rewrite C1, Z.eqb_refl. cbn. auto.
Qed.

(* the assigned value is what its name denotes afterwards; the value's own
   content is not touched by the assignment (spec level) *)
Lemma latest_assignment_wins sp m pre last v :
  let '(sp1, t) := sp_set_walk sp m pre in
  look (sp_exec sp (OSet m pre last v)) t last = Some v.
Proof.
  cbn [sp_exec]. destruct (sp_set_walk sp m pre) as [sp1 t].
  unfold look, tput. cbn [sp_tbl]. rewrite Z.eqb_refl. apply alookup_aset_eq.
Qed.
