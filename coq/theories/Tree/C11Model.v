(* C11 - resource paths, shadowing and back-links stay consistent.

   Model of desper/model/tree.py: ResourceMap.get / __getitem__ /
   __setitem__ / clear, the ChainMap of handle layers and the parent / key
   back-links of maps and handles.  Objects have identity, so the model is a
   *store*: one record per ResourceMap object (its four attributes) and one
   per Handle object (its two).  All functions recurse on the *path* (the
   list of key parts), never on the tree.

   Object ids: maps and handles created by the caller carry ids >= 0 (chosen
   by the harness); the k-th map that __setitem__ creates implicitly for an
   intermediate key part has id -k (serial number of first appearance).

   Models only: no proofs in this file. *)
From Coq Require Import ZArith List Bool.
From Desper Require Import Lib.Alist.
Import ListNotations.
Open Scope Z_scope.

Definition name := Z.     (* one part of a '/'-composed key *)
Definition mid := Z.      (* identity of a ResourceMap object *)
Definition hid := Z.      (* identity of a Handle object *)

Inductive ref := RM (m : mid) | RH (h : hid).

(* the attributes of a ResourceMap object *)
Record mrec := MR {
  m_parent : option mid;                 (* .parent *)
  m_key    : option name;                (* .key *)
  m_maps   : list (name * mid);          (* .maps : dict *)
  m_layers : list (list (name * hid));   (* .handles.maps : the ChainMap's layers *)
}.
(* the attributes of a Handle object that C11 is about *)
Record hrec := HR { h_parent : option mid; h_key : option name }.

Definition m_default := MR None None [] [[]].     (* ResourceMap() *)
Definition h_default := HR None None.              (* a new Handle *)

Record store := ST {
  sm : mid -> mrec;
  sh : hid -> hrec;
  snext : Z;              (* number of implicitly created maps so far *)
}.
Definition st_init := ST (fun _ => m_default) (fun _ => h_default) 0.

Definition mput (s : store) (m : mid) (r : mrec) : store :=
  ST (fun x => if x =? m then r else sm s x) (sh s) (snext s).
Definition hput (s : store) (h : hid) (r : hrec) : store :=
  ST (sm s) (fun x => if x =? h then r else sh s x) (snext s).

(* ---- collections.ChainMap over the layers ------------------------------ *)
Fixpoint cm_lookup {A} (n : name) (ls : list (list (name * A))) : option A :=
  match ls with
  | [] => None
  | l :: ls => match alookup n l with Some v => Some v | None => cm_lookup n ls end
  end.
(* ChainMap.__setitem__ : first layer only *)
Definition cm_set {A} (n : name) (v : A) (ls : list (list (name * A))) :=
  match ls with
  | [] => [[(n, v)]]
  | l :: ls => aset n v l :: ls
  end.
(* for layer in handles.maps: layer.pop(n, None) *)
Definition cm_pop_all {A} (n : name) (ls : list (list (name * A))) :=
  map (adel n) ls.

(* ---- results of queries -------------------------------------------------- *)
Inductive qres :=
| RMapR (m : mid)        (* the ResourceMap object m *)
| RValR (h : hid)        (* the resource loaded by handle h, i.e. h() *)
| RHandleR (h : hid)     (* the Handle object h itself *)
| RKeyError
| RDefault               (* the default object passed to get *)
| RNone                  (* None *)
| RNotMap                (* chained access reached a loaded resource before the end *)
| RBad.                  (* anything else: other exception, hang, foreign object *)

(* ---- ResourceMap.get / __getitem__ --------------------------------------- *)
(* for subkey in keys[:-1]: value = value.maps[subkey] *)
Fixpoint walk (s : store) (m : mid) (pre : list name) : option mid :=
  match pre with
  | [] => Some m
  | k :: pre' =>
      match alookup k (m_maps (sm s m)) with
      | Some c => walk s c pre'
      | None => None                                   (* KeyError *)
      end
  end.

Definition py_getitem (s : store) (m : mid) (pre : list name) (last : name) : qres :=
  match walk s m pre with
  | None => RKeyError
  | Some t =>
      match cm_lookup last (m_layers (sm s t)) with
      | Some h => RValR h                              (* value.handles[last_key]() *)
      | None =>
          match alookup last (m_maps (sm s t)) with
          | Some c => RMapR c
          | None => RKeyError
          end
      end
  end.

Definition py_get (s : store) (m : mid) (pre : list name) (last : name)
                  (default : qres) : qres :=
  match walk s m pre with
  | None => default                                    (* except KeyError *)
  | Some t =>
      match cm_lookup last (m_layers (sm s t)) with
      | Some h => RHandleR h
      | None =>
          match alookup last (m_maps (sm s t)) with
          | Some c => RMapR c
          | None => default
          end
      end
  end.

(* m[k1][k2]...[last] : one __getitem__ with a plain key per part *)
Fixpoint py_chain (s : store) (cur : mid) (p : list name) (last : name) : qres :=
  match p with
  | [] => py_getitem s cur [] last
  | k :: p' =>
      match py_getitem s cur [] k with
      | RMapR c => py_chain s c p' last
      | RValR _ => RNotMap
      | r => r
      end
  end.

(* m.get(key, D)() when the result is a handle *)
Definition call_handle (r : qres) : qres :=
  match r with RHandleR h => RValR h | r => r end.

(* ---- ResourceMap.__setitem__ --------------------------------------------- *)
Definition new_id (s : store) : mid := - snext s - 1.

(* the loop over keys[:-1]; returns the store and target_map *)
Fixpoint set_walk (s : store) (t : mid) (pre : list name) : store * mid :=
  match pre with
  | [] => (s, t)
  | k :: pre' =>
      let r := sm s t in
      (* for layer in target_map.handles.maps: layer.pop(subkey, None) *)
      let r1 := MR (m_parent r) (m_key r) (m_maps r) (cm_pop_all k (m_layers r)) in
      match alookup k (m_maps r1) with
      | Some c => set_walk (mput s t r1) c pre'
      | None =>
          (* new_map = ResourceMap(); new_map.parent = target_map;
             new_map.key = subkey; target_map.maps[subkey] = new_map *)
          let c := new_id s in
          let s1 := mput s t (MR (m_parent r1) (m_key r1) (aset k c (m_maps r1)) (m_layers r1)) in
          let s2 := mput s1 c (MR (Some t) (Some k) [] [[]]) in
          set_walk (ST (sm s2) (sh s2) (snext s + 1)) c pre'
      end
  end.

Definition py_setitem (s : store) (m : mid) (pre : list name) (last : name) (v : ref) : store :=
  let '(s1, t) := set_walk s m pre in
  let r := sm s1 t in
  match v with
  | RM c =>
      (* pop last_key from every layer; target_map.maps[last_key] = value *)
      let s2 := mput s1 t (MR (m_parent r) (m_key r) (aset last c (m_maps r))
                              (cm_pop_all last (m_layers r))) in
      (* value.parent = target_map; value.key = last_key *)
      let rc := sm s2 c in
      mput s2 c (MR (Some t) (Some last) (m_maps rc) (m_layers rc))
  | RH h =>
      (* target_map.maps.pop(last_key, None); target_map.handles[last_key] = value *)
      let s2 := mput s1 t (MR (m_parent r) (m_key r) (adel last (m_maps r))
                              (cm_set last h (m_layers r))) in
      hput s2 h (HR (Some t) (Some last))
  end.

(* ---- ResourceMap.clear ----------------------------------------------------- *)
Definition detach_h (m : mid) (s : store) (h : hid) : store :=
  match h_parent (sh s h) with
  | Some p => if p =? m then hput s h (HR None None) else s
  | None => s
  end.
Definition detach_m (m : mid) (s : store) (c : mid) : store :=
  match m_parent (sm s c) with
  | Some p => if p =? m
              then mput s c (MR None None (m_maps (sm s c)) (m_layers (sm s c)))
              else s
  | None => s
  end.

Definition py_clear (s : store) (m : mid) : store :=
  let r := sm s m in
  (* for layer in self.handles.maps: for handle in layer.values(): ... *)
  let s1 := fold_left (detach_h m) (concat (map (map snd) (m_layers r))) s in
  (* for map_ in self.maps.values(): ... *)
  let s2 := fold_left (detach_m m) (map snd (m_maps r)) s1 in
  (* self.maps.clear(); self.handles.maps[:] = [{}] *)
  let r2 := sm s2 m in
  mput s2 m (MR (m_parent r2) (m_key r2) [] [[]]).

(* m.handles.maps.insert(0, {}) : what DirectoryResourcePopulator does before
   it stores a conflicting handle *)
Definition py_push (s : store) (m : mid) : store :=
  let r := sm s m in
  mput s m (MR (m_parent r) (m_key r) (m_maps r) ([] :: m_layers r)).

(* ---- operations and observations ------------------------------------------- *)
Inductive op :=
| OSet (m : mid) (pre : list name) (last : name) (v : ref)   (* m['pre/last'] = v *)
| OClear (m : mid)
| OPush (m : mid).

Inductive qkind :=
| QItem       (* m[key] *)
| QChain      (* m[k1][k2]...[kn] *)
| QGet        (* m.get(key, D) *)
| QGetCall    (* m.get(key, D), called when it is a handle *)
| QGetNone.   (* m.get(key) *)

Record query := Q { q_map : mid; q_kind : qkind; q_pre : list name; q_last : name }.

(* after every operation: the attributes of every known object (a dump that
   is closed under children) and the results of sampled queries *)
Record obs := OBS {
  o_maps : list (mid * mrec);
  o_handles : list (hid * hrec);
  o_queries : list (query * qres);
}.

Definition C11_case := list (op * obs).

(* ---- helpers on observed dumps (used by the model and by the property) ----- *)
Definition opt_eqb (a b : option Z) : bool :=
  match a, b with
  | Some x, Some y => x =? y
  | None, None => true
  | _, _ => false
  end.
Definition ref_eqb (a b : ref) : bool :=
  match a, b with
  | RM x, RM y => x =? y
  | RH x, RH y => x =? y
  | _, _ => false
  end.
Definition oref_eqb (a b : option ref) : bool :=
  match a, b with
  | Some x, Some y => ref_eqb x y
  | None, None => true
  | _, _ => false
  end.
Definition qres_eqb (a b : qres) : bool :=
  match a, b with
  | RMapR x, RMapR y => x =? y
  | RValR x, RValR y => x =? y
  | RHandleR x, RHandleR y => x =? y
  | RKeyError, RKeyError => true
  | RDefault, RDefault => true
  | RNone, RNone => true
  | RNotMap, RNotMap => true
  | _, _ => false                         (* RBad equals nothing *)
  end.

(* two dicts hold the same items (order of insertion is not compared) *)
Definition sub_dict (a b : list (Z * Z)) : bool :=
  forallb (fun '(n, c) => opt_eqb (alookup n b) (Some c)) a.
Definition same_dict (a b : list (Z * Z)) : bool := sub_dict a b && sub_dict b a.

Definition nonempty {A} (l : list A) : bool := match l with [] => false | _ => true end.
(* layers are compared up to empty layers *)
Fixpoint same_layers (a b : list (list (Z * Z))) : bool :=
  match a, b with
  | [], [] => true
  | x :: a, y :: b => same_dict x y && same_layers a b
  | _, _ => false
  end.
Definition layers_equiv (a b : list (list (Z * Z))) : bool :=
  same_layers (filter nonempty a) (filter nonempty b).

Definition has_id {A} (x : Z) (l : list (Z * A)) : bool := amem x l.

(* every child named in a record of the dump has a record itself *)
Definition closed_rec (ob : obs) (r : mrec) : bool :=
  forallb (fun '(_, c) => has_id c (o_maps ob)) (m_maps r) &&
  forallb (fun l => forallb (fun '(_, h) => has_id h (o_handles ob)) l) (m_layers r).
Definition dump_closed (ob : obs) : bool :=
  forallb (fun '(_, r) => closed_rec ob r) (o_maps ob).
(* an object once listed stays listed *)
Definition dump_covers (prev ob : obs) : bool :=
  forallb (fun '(m, _) => has_id m (o_maps ob)) (o_maps prev) &&
  forallb (fun '(h, _) => has_id h (o_handles ob)) (o_handles prev).
Definition op_target (o : op) : mid :=
  match o with OSet m _ _ _ => m | OClear m => m | OPush m => m end.
(* the dump lists the map operated on, is closed, and forgets nothing *)
Definition dump_ok (prev : obs) (o : op) (ob : obs) : bool :=
  dump_closed ob && dump_covers prev ob && has_id (op_target o) (o_maps ob).

Definition obs_empty := OBS [] [] [].

(* ---- the model as an acceptor ------------------------------------------------ *)
Definition exec (s : store) (o : op) : store :=
  match o with
  | OSet m pre last v => py_setitem s m pre last v
  | OClear m => py_clear s m
  | OPush m => py_push s m
  end.

(* objects named by an operation exist: implicit maps only once created *)
Definition allocated (s : store) (m : mid) : bool := - snext s <=? m.
Definition op_guard (s : store) (o : op) : bool := allocated s (op_target o).

Definition mrec_matches (ro rm : mrec) : bool :=
  opt_eqb (m_parent ro) (m_parent rm) && opt_eqb (m_key ro) (m_key rm) &&
  same_dict (m_maps ro) (m_maps rm) && layers_equiv (m_layers ro) (m_layers rm).
Definition hrec_matches (ro rm : hrec) : bool :=
  opt_eqb (h_parent ro) (h_parent rm) && opt_eqb (h_key ro) (h_key rm).

Definition dump_matches (s : store) (ob : obs) : bool :=
  forallb (fun '(m, r) => allocated s m && mrec_matches r (sm s m)) (o_maps ob) &&
  forallb (fun '(h, r) => hrec_matches r (sh s h)) (o_handles ob).

Definition run_query (s : store) (q : query) : qres :=
  match q_kind q with
  | QItem => py_getitem s (q_map q) (q_pre q) (q_last q)
  | QChain => py_chain s (q_map q) (q_pre q) (q_last q)
  | QGet => py_get s (q_map q) (q_pre q) (q_last q) RDefault
  | QGetCall => call_handle (py_get s (q_map q) (q_pre q) (q_last q) RDefault)
  | QGetNone => py_get s (q_map q) (q_pre q) (q_last q) RNone
  end.
Definition queries_match (s : store) (ob : obs) : bool :=
  forallb (fun '(q, r) => allocated s (q_map q) && qres_eqb r (run_query s q)) (o_queries ob).

Definition step (s : store) (prev : obs) (o : op) (ob : obs) : option store :=
  if op_guard s o then
    let s' := exec s o in
    if dump_ok prev o ob && dump_matches s' ob && queries_match s' ob
    then Some s' else None
  else None.

Fixpoint run (s : store) (prev : obs) (tr : C11_case) : option store :=
  match tr with
  | [] => Some s
  | (o, ob) :: tr =>
      match step s prev o ob with Some s' => run s' ob tr | None => None end
  end.

Definition accepts (tr : C11_case) : bool :=
  match run st_init obs_empty tr with Some _ => true | None => false end.

(* ---- the property, over observations only ------------------------------------ *)
(* Abstract state: what each name under each map denotes according to the
   history of assignments ("the latest assignment wins"), and how many maps
   have been created implicitly.  No layers, no back-links. *)
Record spec := SP { sp_tbl : mid -> list (name * ref); sp_n : Z }.
Definition sp_init := SP (fun _ => []) 0.
Definition tput (t : mid -> list (name * ref)) (m : mid) (l : list (name * ref)) :=
  fun x => if x =? m then l else t x.
Definition look (sp : spec) (m : mid) (n : name) : option ref := alookup n (sp_tbl sp m).

(* m['k1/../kn/last'] = v : every ki that is not a sub-map becomes a new,
   empty sub-map (the next unseen object); then last := v *)
Fixpoint sp_set_walk (sp : spec) (m : mid) (pre : list name) : spec * mid :=
  match pre with
  | [] => (sp, m)
  | k :: pre' =>
      match look sp m k with
      | Some (RM c) => sp_set_walk sp c pre'
      | _ => let c := - sp_n sp - 1 in
             sp_set_walk (SP (tput (sp_tbl sp) m (aset k (RM c) (sp_tbl sp m))) (sp_n sp + 1))
                         c pre'
      end
  end.

Definition sp_exec (sp : spec) (o : op) : spec :=
  match o with
  | OSet m pre last v =>
      let '(sp1, t) := sp_set_walk sp m pre in
      SP (tput (sp_tbl sp1) t (aset last v (sp_tbl sp1 t))) (sp_n sp1)
  | OClear m => SP (tput (sp_tbl sp) m []) (sp_n sp)
  | OPush m => sp
  end.

(* what a path denotes *)
Fixpoint sp_walk (sp : spec) (m : mid) (pre : list name) : option mid :=
  match pre with
  | [] => Some m
  | k :: pre' => match look sp m k with Some (RM c) => sp_walk sp c pre' | _ => None end
  end.
Definition sp_find (sp : spec) (m : mid) (pre : list name) (last : name) : option ref :=
  match sp_walk sp m pre with Some t => look sp t last | None => None end.
Fixpoint sp_chain (sp : spec) (cur : mid) (p : list name) (last : name) : qres :=
  match p with
  | [] => match look sp cur last with
          | Some (RM c) => RMapR c | Some (RH h) => RValR h | None => RKeyError end
  | k :: p' => match look sp cur k with
               | Some (RM c) => sp_chain sp c p' last
               | Some (RH _) => RNotMap
               | None => RKeyError
               end
  end.

(* the answer each kind of query must give when the path denotes [x] *)
Definition expected (k : qkind) (x : option ref) : qres :=
  match k, x with
  | (QItem | QChain), Some (RM c) => RMapR c
  | (QItem | QChain), Some (RH h) => RValR h       (* the loaded resource *)
  | (QItem | QChain), None => RKeyError
  | QGetCall, Some (RM c) => RMapR c
  | QGetCall, Some (RH h) => RValR h               (* m.get(p)() is m[p] *)
  | QGetCall, None => RDefault                     (* default exactly when [] raises *)
  | QGet, Some (RM c) => RMapR c
  | QGet, Some (RH h) => RHandleR h
  | QGet, None => RDefault
  | QGetNone, Some (RM c) => RMapR c
  | QGetNone, Some (RH h) => RHandleR h
  | QGetNone, None => RNone
  end.
Definition query_ok (sp : spec) (q : query) (r : qres) : bool :=
  match q_kind q with
  | QChain => qres_eqb r (sp_chain sp (q_map q) (q_pre q) (q_last q))
  | k => qres_eqb r (expected k (sp_find sp (q_map q) (q_pre q) (q_last q)))
  end.

(* what a name visibly denotes in an observed record: a handle of the first
   layer that has it, else a sub-map *)
Definition vis (r : mrec) (n : name) : option ref :=
  match cm_lookup n (m_layers r) with
  | Some h => Some (RH h)
  | None => match alookup n (m_maps r) with Some c => Some (RM c) | None => None end
  end.
Definition rec_names (r : mrec) : list name :=
  map fst (m_maps r) ++ concat (map (map fst) (m_layers r)).

(* the record shows exactly the latest assignments: no name missing, none
   surviving, a name is a handle or a sub-map and never both *)
Definition latest_wins (sp : spec) (m : mid) (r : mrec) : bool :=
  forallb (fun n => oref_eqb (vis r n) (look sp m n)) (rec_names r ++ map fst (sp_tbl sp m)) &&
  forallb (fun '(n, _) => match cm_lookup n (m_layers r) with Some _ => false | None => true end)
          (m_maps r).

Definition dfind {A} (x : Z) (l : list (Z * A)) : option A := alookup x l.

(* every sub-map and every handle of every layer records the containing map
   and the name it is stored under *)
Definition backlinks_ok (ob : obs) (m : mid) (r : mrec) : bool :=
  forallb (fun '(n, c) =>
             match dfind c (o_maps ob) with
             | Some rc => opt_eqb (m_parent rc) (Some m) && opt_eqb (m_key rc) (Some n)
             | None => false
             end) (m_maps r) &&
  forallb (fun l => forallb (fun '(n, h) =>
             match dfind h (o_handles ob) with
             | Some rh => opt_eqb (h_parent rh) (Some m) && opt_eqb (h_key rh) (Some n)
             | None => false
             end) l) (m_layers r).

(* after m.clear(): nothing in m, in any layer; the former direct children
   (as listed by the previous dump) record no parent and no key *)
Definition is_empty {A} (l : list A) : bool := match l with [] => true | _ => false end.
Definition detached_m (ob : obs) (c : mid) : bool :=
  match dfind c (o_maps ob) with
  | Some rc => opt_eqb (m_parent rc) None && opt_eqb (m_key rc) None
  | None => false
  end.
Definition detached_h (ob : obs) (h : hid) : bool :=
  match dfind h (o_handles ob) with
  | Some rh => opt_eqb (h_parent rh) None && opt_eqb (h_key rh) None
  | None => false
  end.
Definition cleared_ok (prev ob : obs) (m : mid) : bool :=
  match dfind m (o_maps ob) with
  | Some r => is_empty (m_maps r) && forallb is_empty (m_layers r)
  | None => false
  end &&
  match dfind m (o_maps prev) with
  | Some r0 => forallb (fun '(_, c) => detached_m ob c) (m_maps r0) &&
               forallb (fun l => forallb (fun '(_, h) => detached_h ob h) l) (m_layers r0)
  | None => true
  end.

Definition obs_ok (sp : spec) (prev : obs) (o : op) (ob : obs) : bool :=
  dump_ok prev o ob &&
  forallb (fun '(m, r) => latest_wins sp m r && backlinks_ok ob m r) (o_maps ob) &&
  forallb (fun '(q, r) => query_ok sp q r) (o_queries ob) &&
  match o with OClear m => cleared_ok prev ob m | _ => true end.

Fixpoint sp_run (sp : spec) (prev : obs) (tr : C11_case) : bool :=
  match tr with
  | [] => true
  | (o, ob) :: tr =>
      let sp' := sp_exec sp o in
      obs_ok sp' prev o ob && sp_run sp' ob tr
  end.

Definition holds_b (tr : C11_case) : bool := sp_run sp_init obs_empty tr.
Definition holds (tr : C11_case) : Prop := holds_b tr = true.

(* ---- input domain ---------------------------------------------------------- *)
(* values are objects created by the caller (ids >= 0) and each object is
   inserted at most once: the tree stays a tree *)
Definition op_value (o : op) : list ref :=
  match o with OSet _ _ _ v => [v] | _ => [] end.
Definition ref_id (v : ref) : Z := match v with RM c => c | RH h => h end.
Fixpoint nodup_refs (l : list ref) : bool :=
  match l with
  | [] => true
  | v :: l => negb (existsb (ref_eqb v) l) && nodup_refs l
  end.
Definition values (tr : C11_case) : list ref := concat (map (fun x => op_value (fst x)) tr).
Definition wf_b (tr : C11_case) : bool :=
  forallb (fun v => 0 <=? ref_id v) (values tr) && nodup_refs (values tr).
Definition known_b (tr : C11_case) : bool := false.

Definition bit (b : bool) (n : nat) : nat := if b then n else 0%nat.
Definition C11_verdict (tr : C11_case) : nat :=
  (bit (wf_b tr) 1 + bit (known_b tr) 2 + bit (accepts tr) 4 + bit (holds_b tr) 8)%nat.
