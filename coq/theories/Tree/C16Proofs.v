(* C16: invariants of the populator model (the C11 store invariant is kept,
   no step fails on a well-formed input) and the clauses of the property
   that follow from them. *)
From Coq Require Import ZArith List Bool String Ascii Lia.
From Desper Require Import Lib.Alist Tree.C11Model Tree.C11Lemmas Tree.C11Inv Tree.C16Model.
Import ListNotations.
Open Scope Z_scope.

(* ---- induction over observed trees ------------------------------------------------ *)
Section otree_induction.
  Variable P : otree -> Prop.
  Hypothesis H : forall layers subs links,
      Forall (fun kc => P (snd kc)) subs -> P (ONode layers subs links).
  Fixpoint otree_ind2 (o : otree) : P o :=
    match o with
    | ONode layers subs links =>
        H layers subs links
          ((fix go (l : list (Z * otree)) : Forall (fun kc => P (snd kc)) l :=
              match l with
              | [] => Forall_nil _
              | kc :: l => Forall_cons kc (otree_ind2 (snd kc)) (go l)
              end) subs)
    end.
End otree_induction.

(* ---- every map keeps at least one handle layer -------------------------------------- *)
Definition LNE (s : store) : Prop := forall M, m_layers (sm s M) <> [].

Lemma LNE_init : LNE st_init.
Proof. intros M. cbn. discriminate. Qed.

Lemma map_nonnil {A B} (f : A -> B) l : l <> [] -> map f l <> [].
Proof. destruct l; [congruence|discriminate]. Qed.

Lemma walk_step_lne s t k : LNE s -> LNE (fst (walk_step s t k)).
Proof.
  intros HL. unfold walk_step. cbn [m_maps m_layers m_parent m_key].
  destruct (alookup k (m_maps (sm s t))) as [c|]; cbn [fst]; intros M; cbn [sm mput].
  - destruct (M =? t); [|apply HL]. cbn [m_layers]. apply map_nonnil, HL.
  - destruct (M =? new_id s); [cbn; discriminate|].
    destruct (M =? t); [|apply HL]. cbn [m_layers]. apply map_nonnil, HL.
Qed.

Lemma set_walk_lne pre : forall s t, LNE s -> LNE (fst (set_walk s t pre)).
Proof.
  induction pre as [|k pre IH]; intros s t HL; [exact HL|].
  rewrite set_walk_cons. pose proof (walk_step_lne s t k HL) as H1.
  destruct (walk_step s t k) as [s' c]. cbn [fst] in H1. now apply IH.
Qed.

Lemma set_final_lne s t last v : LNE s -> LNE (set_final s t last v).
Proof.
  intros HL. unfold set_final. destruct v as [c|h]; intros M; cbn [sm mput hput].
  - destruct (M =? c).
    + cbn [m_layers]. destruct (c =? t); [cbn [m_layers]; apply map_nonnil, HL|apply HL].
    + destruct (M =? t); [cbn [m_layers]; apply map_nonnil, HL|apply HL].
  - destruct (M =? t); [|apply HL]. cbn [m_layers].
    destruct (m_layers (sm s t)); cbn [cm_set]; discriminate.
Qed.

Lemma py_setitem_lne s m pre last v : LNE s -> LNE (py_setitem s m pre last v).
Proof. intros HL. rewrite py_setitem_eq. apply set_final_lne, set_walk_lne, HL. Qed.

Lemma py_push_lne s m : LNE s -> LNE (py_push s m).
Proof.
  intros HL M. unfold py_push. cbn [sm mput]. destruct (M =? m); [cbn; discriminate|apply HL].
Qed.

(* ---- the invariant of the populator ---------------------------------------------------- *)
Definition bounded (st : pstate) (v : ref) : Prop :=
  match v with RH h => 0 <= h < p_nh st | RM c => 1 <= c <= p_nm st end.

Record PInv (st : pstate) : Prop := mkPInv {
  P_inv : exists used sp, Inv used (p_store st) /\ Rel (p_store st) sp /\
                          forall v, In v used -> bounded st v;
  P_nh : 0 <= p_nh st;
  P_nm : 0 <= p_nm st;
  P_lne : LNE (p_store st);
}.

Lemma PInv_init : PInv ps_init.
Proof.
  constructor; cbn; try lia; [|exact LNE_init].
  exists [], sp_init. split; [exact Inv_init|]. split; [exact Rel_init|]. intros v [].
Qed.

Lemma child_alloc used s M n h : Inv used s -> child_h s M n h -> - snext s <= M.
Proof.
  intros HI HC. destruct (Z_lt_le_dec M (- snext s)) as [Hlt|]; auto.
  exfalso. unfold child_h in HC. rewrite (I_fresh _ _ HI M Hlt) in HC.
  now apply no_child_h_default in HC.
Qed.

(* what get found tells about the store *)
Lemma py_get_handle s pre last h0 :
  py_get s 0 pre last RNone = RHandleR h0 ->
  exists t, walk s 0 pre = Some t /\ cm_lookup last (m_layers (sm s t)) = Some h0.
Proof.
  unfold py_get. destruct (walk s 0 pre) as [t|]; [|discriminate].
  destruct (cm_lookup last (m_layers (sm s t))) as [h|] eqn:E.
  - intros [= ->]. eauto.
  - destruct (alookup last (m_maps (sm s t))); discriminate.
Qed.

Lemma py_get_map s pre last c :
  py_get s 0 pre last RNone = RMapR c ->
  exists t, walk s 0 pre = Some t /\ alookup last (m_maps (sm s t)) = Some c.
Proof.
  unfold py_get. destruct (walk s 0 pre) as [t|]; [|discriminate].
  destruct (cm_lookup last (m_layers (sm s t))) as [h|]; [discriminate|].
  destruct (alookup last (m_maps (sm s t))) as [c'|] eqn:E; [|discriminate].
  intros [= ->]. eauto.
Qed.

(* the conflict test never fails, and it yields the store itself or the
   store with a new first layer on an existing map *)
Lemma nest_step_ok used s pre last :
  Inv used s -> LNE s ->
  exists s1, nest_step s (py_get s 0 pre last RNone) = inl s1 /\
             (s1 = s \/ exists p, - snext s <= p /\ s1 = py_push s p).
Proof.
  intros HI HL. destruct (py_get s 0 pre last RNone) as [c|h|h0| | | | | ] eqn:EG;
    cbn [nest_step]; try (exists s; split; [reflexivity|now left]).
  - destruct (py_get_map _ _ _ _ EG) as (t & _ & HC).
    destruct (I_bm _ _ HI t last c HC) as [P _]. rewrite P.
    pose proof (HL t) as HT. destruct (m_layers (sm s t)); [contradiction|].
    exists s. split; [reflexivity|now left].
  - destruct (py_get_handle _ _ _ _ EG) as (t & _ & HC).
    apply cm_lookup_in in HC. pose proof (I_bh _ _ HI t last h0 HC) as E. rewrite E.
    cbn [h_parent h_key]. pose proof (HL t) as HT.
    pose proof (child_alloc _ _ _ _ _ HI HC) as HA.
    destruct (m_layers (sm s t)) as [|l0 ls] eqn:EL; [contradiction|].
    destruct (alookup last l0) as [h1|].
    + destruct (h1 =? h0).
      * exists (py_push s t). split; [reflexivity|]. right. exists t. split; [exact HA|reflexivity].
      * exists s. split; [reflexivity|now left].
    + exists s. split; [reflexivity|now left].
Qed.

Lemma PInv_push st p :
  PInv st -> - snext (p_store st) <= p ->
  PInv (PS (py_push (p_store st) p) (p_nh st) (p_nm st) (p_log st) (p_exc st)).
Proof.
  intros [(used & sp & HI & HR & HB) H1 H2 H3] Hp. constructor; cbn; auto.
  - destruct (py_push_inv used _ sp p HI HR Hp) as [A B]. exists used, sp. auto.
  - now apply py_push_lne.
Qed.

Lemma alloc_root used s : Inv used s -> op_guard s (OSet 0 [] 0 (RH 0)) = true.
Proof.
  intros HI. unfold op_guard, allocated. cbn [op_target]. apply Z.leb_le.
  pose proof (I_next _ _ HI). lia.
Qed.

Lemma PInv_set_handle st pre last lg x :
  PInv st ->
  PInv (PS (py_setitem (p_store st) 0 pre last (RH (p_nh st))) (p_nh st + 1) (p_nm st) lg x).
Proof.
  intros [(used & sp & HI & HR & HB) H1 H2 H3]. constructor; cbn; try lia.
  - destruct (exec_inv used _ sp (OSet 0 pre last (RH (p_nh st))) HI HR) as [A B].
    + unfold op_guard, allocated. cbn [op_target]. apply Z.leb_le.
      pose proof (I_next _ _ HI). lia.
    + intros v [<-|[]]. cbn [ref_id]. split; auto. intros HIn. specialize (HB _ HIn).
      cbn in HB. lia.
    + cbn [op_value app exec] in A, B. eexists _, _. split; [exact A|]. split; [exact B|].
      intros v [<-|HIn]; cbn; [lia|]. specialize (HB _ HIn). destruct v; cbn in *; lia.
  - now apply py_setitem_lne.
Qed.

Lemma PInv_set_map st pre last :
  PInv st ->
  PInv (PS (py_setitem (p_store st) 0 pre last (RM (p_nm st + 1))) (p_nh st) (p_nm st + 1)
           (p_log st) XNone).
Proof.
  intros [(used & sp & HI & HR & HB) H1 H2 H3]. constructor; cbn; try lia.
  - destruct (exec_inv used _ sp (OSet 0 pre last (RM (p_nm st + 1))) HI HR) as [A B].
    + unfold op_guard, allocated. cbn [op_target]. apply Z.leb_le.
      pose proof (I_next _ _ HI). lia.
    + intros v [<-|[]]. cbn [ref_id]. split; [lia|]. intros HIn. specialize (HB _ HIn).
      cbn in HB. lia.
    + cbn [op_value app exec] in A, B. eexists _, _. split; [exact A|]. split; [exact B|].
      intros v [<-|HIn]; cbn; [lia|]. specialize (HB _ HIn). destruct v; cbn in *; lia.
  - now apply py_setitem_lne.
Qed.

(* ---- boolean equalities ----------------------------------------------------------------- *)
Lemma list_eqb_eq {A} (f : A -> A -> bool) :
  (forall x y, f x y = true -> x = y) -> forall a b, list_eqb f a b = true -> a = b.
Proof.
  intros Hf. induction a as [|x a IH]; intros [|y b]; cbn [list_eqb]; try discriminate; auto.
  intros H. apply andb_true_iff in H. destruct H as [H1 H2].
  rewrite (Hf _ _ H1), (IH _ H2). reflexivity.
Qed.

Lemma list_eqb_refl {A} (f : A -> A -> bool) :
  (forall x, f x x = true) -> forall a, list_eqb f a a = true.
Proof. intros Hf. induction a as [|x a IH]; cbn [list_eqb]; auto. now rewrite Hf, IH. Qed.

Lemma str_list_eqb_eq a b : list_eqb String.eqb a b = true -> a = b.
Proof. apply list_eqb_eq. intros x y H. now apply String.eqb_eq. Qed.

Lemma kind_eqb_eq a b : kind_eqb a b = true -> a = b.
Proof. destruct a, b; cbn; congruence. Qed.

Lemma entry_eqb_refl e : entry_eqb e e = true.
Proof.
  unfold entry_eqb. rewrite (list_eqb_refl String.eqb String.eqb_refl).
  destruct (e_kind e); reflexivity.
Qed.

Lemma entry_key_eqb tbl root trim e e' :
  entry_eqb e e' = true -> entry_key tbl root trim e = entry_key tbl root trim e'.
Proof.
  unfold entry_eqb. intros H. apply andb_true_iff in H. destruct H as [H1 H2].
  apply kind_eqb_eq in H1. apply str_list_eqb_eq in H2.
  unfold entry_key, key_comps. now rewrite H1, H2.
Qed.

Lemma perm_b_in {A} (f : A -> A -> bool) a b x :
  (forall y, f y y = true) -> perm_b f a b = true -> In x a ->
  exists y, In y b /\ f x y = true.
Proof.
  intros Hf H HI. unfold perm_b in H. apply andb_true_iff in H. destruct H as [_ H].
  rewrite forallb_forall in H. specialize (H _ HI). apply Nat.eqb_eq in H.
  unfold count_occ_b in H.
  assert (HA : In x (filter (f x) a)) by (apply filter_In; auto).
  destruct (filter (f x) b) as [|y l] eqn:E.
  - cbn in H. destruct (filter (f x) a); [destruct HA|discriminate].
  - exists y. apply filter_In. rewrite E. now left.
Qed.

(* ---- one entry ------------------------------------------------------------------------------ *)
(* the handles of one call are numbered consecutively from n0 *)
Definition LogOK (n0 : Z) (st : pstate) : Prop :=
  seq_from n0 (map fst (rev (p_log st))) = true /\
  p_nh st = n0 + Z.of_nat (List.length (p_log st)).

Lemma seq_from_snoc l : forall n x,
  seq_from n (l ++ [x]) = seq_from n l && (x =? n + Z.of_nat (List.length l)).
Proof.
  induction l as [|y l IH]; intros n x; cbn [app seq_from List.length].
  - rewrite Z.add_0_r. now rewrite andb_true_r.
  - rewrite IH. rewrite Nat2Z.inj_succ. rewrite <- andb_assoc.
    replace (n + 1 + Z.of_nat (List.length l)) with (n + Z.succ (Z.of_nat (List.length l))) by lia.
    reflexivity.
Qed.

Lemma LogOK_cons n0 st s' nm x y :
  LogOK n0 st ->
  LogOK n0 (PS s' (p_nh st + 1) nm ((p_nh st, y) :: p_log st) x).
Proof.
  intros [H1 H2]. split; cbn [p_log p_nh].
  - cbn [rev]. rewrite map_app. cbn [map fst]. rewrite seq_from_snoc, H1. cbn [andb].
    rewrite map_length, rev_length. apply Z.eqb_eq. exact H2.
  - cbn [List.length]. rewrite Nat2Z.inj_succ. lia.
Qed.

Lemma pop_entry_ok tbl root nest trim r n0 st e :
  PInv st -> LogOK n0 st -> p_exc st = XNone ->
  entry_key tbl root trim e <> None ->
  PInv (pop_entry tbl root nest trim r st e) /\
  LogOK n0 (pop_entry tbl root nest trim r st e) /\
  p_exc (pop_entry tbl root nest trim r st e) = XNone.
Proof.
  intros HP HLg HX HK. unfold pop_entry. rewrite HX.
  destruct (ext_ok r e); [|auto].
  destruct (entry_key tbl root trim e) as [[pre last]|]; [|contradiction].
  destruct (e_kind e).
  - (* a file *)
    assert (HN : exists s1, (if nest then nest_step (p_store st)
                                                  (py_get (p_store st) 0 pre last RNone)
                             else inl (p_store st)) = inl s1 /\
                            (s1 = p_store st \/
                             exists p, - snext (p_store st) <= p /\ s1 = py_push (p_store st) p)).
    { destruct nest; [|exists (p_store st); split; [reflexivity|now left]].
      destruct HP as [(used & sp & HI & _) _ _ HL]. eapply nest_step_ok; eauto. }
    destruct HN as (s1 & -> & HS).
    assert (HP1 : PInv (PS s1 (p_nh st) (p_nm st) (p_log st) (p_exc st))).
    { destruct HS as [->|(p & Hp & ->)]; [destruct st; exact HP|now apply PInv_push]. }
    split; [|split; [|reflexivity]].
    + exact (PInv_set_handle (PS s1 (p_nh st) (p_nm st) (p_log st) (p_exc st)) pre last _ _ HP1).
    + now apply LogOK_cons.
  - (* a directory *)
    destruct (py_get (p_store st) 0 pre last RNone); auto.
    split; [now apply PInv_set_map|]. split; [exact HLg|reflexivity].
  - auto.
Qed.

Lemma pop_entries_ok tbl root nest trim r n0 seq : forall st,
  PInv st -> LogOK n0 st -> p_exc st = XNone ->
  (forall e, In e seq -> entry_key tbl root trim e <> None) ->
  PInv (fold_left (pop_entry tbl root nest trim r) seq st) /\
  LogOK n0 (fold_left (pop_entry tbl root nest trim r) seq st) /\
  p_exc (fold_left (pop_entry tbl root nest trim r) seq st) = XNone.
Proof.
  induction seq as [|e seq IH]; intros st HP HL HX HK; cbn [fold_left]; [auto|].
  destruct (pop_entry_ok tbl root nest trim r n0 st e HP HL HX (HK e (or_introl eq_refl)))
    as (A & B & C).
  apply IH; auto. intros e' HI. apply HK. now right.
Qed.

(* ---- the rules of one call -------------------------------------------------------------------- *)
Lemma truth_ok_keys tbl c r truth seq trim :
  truth_ok tbl c r (TDir truth) seq = true ->
  forall e, In e seq -> entry_key tbl (k_root c) trim e <> None.
Proof.
  unfold truth_ok. intros H e HI.
  apply andb_true_iff in H. destruct H as [H HPerm].
  apply andb_true_iff in H. destruct H as [_ HKeys].
  destruct (perm_b_in entry_eqb _ _ e entry_eqb_refl HPerm HI) as (e' & HI' & HE).
  apply filter_In in HI'. destruct HI' as [HI' _].
  rewrite forallb_forall in HKeys. specialize (HKeys _ HI').
  rewrite (entry_key_eqb _ _ trim _ _ HE).
  destruct (entry_key tbl (k_root c) true e') eqn:E1; [|discriminate].
  destruct (entry_key tbl (k_root c) false e') eqn:E2; [|discriminate].
  destruct trim; congruence.
Qed.

Definition exc_after (x : exc) (ts : list tstat) : exc :=
  match x with XNone => if first_notdir ts then XValueError else XNone | _ => x end.

Lemma pop_rules_ok tbl c nest n0 : forall rs ts qs st,
  PInv st -> LogOK n0 st -> (p_exc st = XNone \/ p_exc st = XValueError) ->
  forall3 (truth_ok tbl c) rs ts qs = true ->
  PInv (pop_rules tbl (k_root c) nest (eff_trim c) st rs ts qs) /\
  LogOK n0 (pop_rules tbl (k_root c) nest (eff_trim c) st rs ts qs) /\
  p_exc (pop_rules tbl (k_root c) nest (eff_trim c) st rs ts qs) = exc_after (p_exc st) ts.
Proof.
  induction rs as [|r rs IH]; intros ts qs st HP HL HX HF.
  - destruct ts; cbn [pop_rules].
    + split; auto. split; auto. unfold exc_after. cbn. destruct (p_exc st); auto.
    + destruct qs; discriminate.
  - destruct ts as [|t ts]; [discriminate|]. destruct qs as [|q qs]; [discriminate|].
    cbn [forall3] in HF. apply andb_true_iff in HF. destruct HF as [HT HF].
    cbn [pop_rules List.tl].
    assert (HS : PInv (pop_rule tbl (k_root c) nest (eff_trim c) st r t q) /\
                 LogOK n0 (pop_rule tbl (k_root c) nest (eff_trim c) st r t q) /\
                 p_exc (pop_rule tbl (k_root c) nest (eff_trim c) st r t q) =
                 match p_exc st with
                 | XNone => match t with TNotDir => XValueError | _ => XNone end
                 | x => x
                 end).
    { unfold pop_rule. destruct HX as [HX|HX]; rewrite HX; [|auto].
      destruct t as [| |truth]; [auto| |].
      - split; [|split; [exact HL|reflexivity]].
        destruct HP as [A B C D]. constructor; auto.
      - apply pop_entries_ok; auto. now apply (truth_ok_keys tbl c r truth q). }
    destruct HS as (A & B & C).
    destruct (IH ts qs _ A B) as (A' & B' & C'); auto.
    { rewrite C. destruct HX as [->| ->]; [destruct t; auto|auto]. }
    split; auto. split; auto. rewrite C', C. unfold exc_after.
    destruct HX as [->| ->]; [|reflexivity].
    destruct t; cbn [first_notdir]; reflexivity.
Qed.

(* ---- back-links of the observed tree ------------------------------------------------------------ *)
Lemma links_of_true used s m : Inv used s -> links_of s m = true.
Proof.
  intros HI. unfold links_of. apply andb_true_iff. split.
  - apply forallb_forall. intros [n c0] _.
    destruct (alookup n (m_maps (sm s m))) as [c|] eqn:E; [|reflexivity].
    destruct (I_bm _ _ HI m n c E) as [-> ->]. cbn. now rewrite !Z.eqb_refl.
  - apply forallb_forall. intros l Hl. apply forallb_forall. intros [n h0] _.
    destruct (alookup n l) as [h|] eqn:E; [|reflexivity].
    assert (HC : child_h s m n h) by (exists l; auto).
    rewrite (I_bh _ _ HI _ _ _ HC). cbn. now rewrite !Z.eqb_refl.
Qed.

Definition tm_list (s : store) (m : mid) (tm : store -> mid -> otree -> bool) :=
  fix go (l : list (Z * otree)) : bool :=
    match l with
    | [] => true
    | (n, o') :: l =>
        match alookup n (m_maps (sm s m)) with
        | Some c => tm s c o'
        | None => false
        end && go l
    end.
Lemma tree_match_eq s m layers subs links :
  tree_match s m (ONode layers subs links) =
  same_layers layers (m_layers (sm s m)) && Bool.eqb links (links_of s m) &&
  forallb (fun '(n, _) => amem n subs) (m_maps (sm s m)) &&
  tm_list s m tree_match subs.
Proof. reflexivity. Qed.

Definition olinks_list :=
  fix go (l : list (Z * otree)) : bool :=
    match l with [] => true | (_, o') :: l => olinks o' && go l end.
Lemma olinks_eq layers subs b : olinks (ONode layers subs b) = b && olinks_list subs.
Proof. reflexivity. Qed.

Lemma tree_match_links used s : Inv used s ->
  forall o m, tree_match s m o = true -> olinks o = true.
Proof.
  intros HI. apply (otree_ind2 (fun o => forall m, tree_match s m o = true -> olinks o = true)).
  intros layers subs links HF m HM. rewrite tree_match_eq in HM.
  apply andb_true_iff in HM. destruct HM as [HM M4].
  apply andb_true_iff in HM. destruct HM as [HM _].
  apply andb_true_iff in HM. destruct HM as [_ M2].
  rewrite (links_of_true _ _ m HI) in M2. apply Bool.eqb_prop in M2. subst links.
  rewrite olinks_eq. cbn [andb].
  induction subs as [|[n o'] subs IH]; [reflexivity|].
  inversion HF as [|? ? H1 H2]; subst. cbn [snd] in H1.
  change (olinks o' && olinks_list subs = true).
  change ((match alookup n (m_maps (sm s m)) with
           | Some c => tree_match s c o' | None => false end) &&
          tm_list s m tree_match subs = true) in M4.
  apply andb_true_iff in M4. destruct M4 as [M4a M4b].
  destruct (alookup n (m_maps (sm s m))) as [c|]; [|discriminate].
  rewrite (H1 c M4a). cbn [andb]. now apply IH.
Qed.

