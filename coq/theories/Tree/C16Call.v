(* C16: one call of the populator, seen along paths: the columns under every
   key and the sub-map paths afterwards, in terms of those before and of the
   factory calls. *)
From Coq Require Import ZArith List Bool String Lia.
From Desper Require Import Lib.Alist Tree.C11Model Tree.C11Lemmas Tree.C11Inv Tree.C16Model
     Tree.C16Proofs Tree.C16Log Tree.C16Paths Tree.C16Full.
Import ListNotations.
Open Scope Z_scope.

Section Call.
  Variables FK DK : list (list Z).
  Hypothesis Disj : forall k, In k FK -> In k DK -> False.
  Variable tbl : list (string * Z).
  Variable root : list string.
  Variables nest trim : bool.
  Variable AM : list (list Z).          (* paths that may become sub-maps in this call *)
  Variable K : list (list Z * Z).       (* keys of the files accepted in this call *)
  Variable s0 : store.                  (* the store when the call starts *)

  (* the handles built for a key, oldest first *)
  Definition newsL (key : list Z * Z) (log : list (Z * (list string * Z))) : list Z :=
    flat_map (fun x => match entry_key tbl root trim (E KFile (fst (snd x))) with
                       | Some k => if key_eqb k key then [fst x] else []
                       | None => []
                       end) log.

  Record CInv (st : pstate) : Prop := mkCInv {
    C_q : QInv FK DK st;
    C_col : forall key, scol (p_store st) key =
                        expected_col nest (scol s0 key) (newsL key (rev (p_log st)));
    C_old : forall q x, walk s0 0 q = Some x -> walk (p_store st) 0 q = Some x;
    C_new : forall q, walk (p_store st) 0 q <> None -> walk s0 0 q <> None \/ In q AM;
    C_k8 : nest = false -> k8free (p_store st) K;
  }.

  Definition Good (r : rule) (e : entry) : Prop :=
    exists pre last, entry_key tbl root trim e = Some (pre, last) /\
      match e_kind e with
      | KFile => In (pre ++ [last]) FK /\
                 (forall j, In (firstn j pre) DK /\ In (firstn j pre) AM) /\
                 (ext_ok r e = true -> In (pre, last) K)
      | KDir => forall j, In (firstn j (pre ++ [last])) DK /\ In (firstn j (pre ++ [last])) AM
      | KOther => True
      end.

  Lemma key_eqb_sym (a b : list Z * Z) : key_eqb a b = key_eqb b a.
  Proof.
    destruct (key_eqb a b) eqn:E1; destruct (key_eqb b a) eqn:E2; auto.
    - apply key_eqb_true in E1. subst. rewrite key_eqb_refl in E2. discriminate.
    - apply key_eqb_true in E2. subst. rewrite key_eqb_refl in E1. discriminate.
  Qed.

  Lemma entry_inv r st e :
    CInv st -> p_exc st = XNone -> Good r e ->
    CInv (pop_entry tbl root nest trim r st e) /\
    p_exc (pop_entry tbl root nest trim r st e) = XNone.
  Proof.
    intros [HQ HCol HOld HNew HK8] HX (pre & last & HKey & HG).
    destruct (ext_ok r e) eqn:HExt.
    2:{ unfold pop_entry. rewrite HX, HExt. split; [constructor; auto|exact HX]. }
    destruct (e_kind e) eqn:HKind.
    - (* a file *)
      destruct HG as (G1 & G2 & G3).
      assert (G2a : forall j, In (firstn j pre) DK) by (intros j; apply G2).
      assert (GK : nest = false -> k8free (p_store st) K /\ In (pre, last) K).
      { intros Hn. split; [now apply HK8|now apply G3]. }
      destruct (file_step FK DK Disj tbl root nest trim r K st e pre last
                          HQ HX HKind HExt HKey G1 G2a GK) as (A & B & C & D & F & G).
      split; [|exact B]. constructor; auto.
      + intros key. rewrite C.
        assert (HLog : p_log (pop_entry tbl root nest trim r st e) =
                       (p_nh st, (e_comps e, r_sig r)) :: p_log st).
        { pose proof (pop_entry_log tbl root nest trim r st e (Q_p _ _ _ HQ) HX) as HL.
          rewrite HL; [|congruence]. unfold accepted. now rewrite HKind, HExt. }
        rewrite HLog. cbn [rev]. unfold newsL at 1. rewrite flat_map_app. cbn [flat_map fst snd].
        fold (newsL key (rev (p_log st))). rewrite app_nil_r.
        assert (HK' : entry_key tbl root trim (E KFile (e_comps e)) = Some (pre, last)).
        { rewrite <- HKey. unfold entry_key. cbn [e_kind e_comps]. now rewrite HKind. }
        rewrite HK'. rewrite (key_eqb_sym (pre, last) key).
        destruct (key_eqb key (pre, last)).
        * rewrite expected_col_snoc. now rewrite HCol.
        * rewrite app_nil_r. apply HCol.
      + intros q Hq. destruct (F q Hq) as [F1|(j & ->)]; [now apply HNew|right; apply G2].
    - (* a directory *)
      destruct (dir_step FK DK Disj tbl root nest trim r K st e pre last HQ HX HKind HExt HKey)
        as (A & B & C & D & F & G & H).
      { intros j. apply HG. }
      split; [|exact B]. constructor; auto.
      + intros key. rewrite D, C. apply HCol.
      + intros q Hq. destruct (G q Hq) as [G1|(j & ->)]; [now apply HNew|right; apply HG].
    - unfold pop_entry. rewrite HX, HExt, HKey, HKind. split; [constructor; auto|exact HX].
  Qed.

  Lemma entries_inv r seq : forall st,
    CInv st -> p_exc st = XNone -> Forall (Good r) seq ->
    CInv (fold_left (pop_entry tbl root nest trim r) seq st) /\
    p_exc (fold_left (pop_entry tbl root nest trim r) seq st) = XNone.
  Proof.
    induction seq as [|e seq IH]; intros st HC HX HF; cbn [fold_left]; [auto|].
    inversion HF as [|? ? H1 H2]; subst.
    destruct (entry_inv r st e HC HX H1) as [A B]. now apply IH.
  Qed.

  Fixpoint good_rules (rs : list rule) (ts : list tstat) (qs : list (list entry)) : Prop :=
    match rs, ts, qs with
    | r :: rs, TDir _ :: ts, q :: qs => Forall (Good r) q /\ good_rules rs ts qs
    | _ :: rs, TMissing :: ts, _ :: qs => good_rules rs ts qs
    | _, _, _ => True
    end.

  Lemma pop_rules_stuck : forall rs ts qs st, p_exc st <> XNone ->
    pop_rules tbl root nest trim st rs ts qs = st.
  Proof.
    induction rs as [|r rs IH]; intros ts qs st HX; [destruct ts; reflexivity|].
    destruct ts as [|t ts]; [reflexivity|]. cbn [pop_rules].
    assert (E : pop_rule tbl root nest trim st r t (match qs with q :: _ => q | [] => [] end) = st).
    { unfold pop_rule. destruct (p_exc st); [contradiction|reflexivity|reflexivity]. }
    rewrite E. now apply IH.
  Qed.

  Lemma CInv_exc st x : CInv st ->
    CInv (PS (p_store st) (p_nh st) (p_nm st) (p_log st) x).
  Proof.
    intros [[HP A B C D] HCol HOld HNew HK8]. constructor; auto.
    constructor; auto. destruct HP as [P1 P2 P3 P4]. constructor; auto.
  Qed.

  Lemma rules_inv : forall rs ts qs st,
    CInv st -> p_exc st = XNone -> good_rules rs ts qs ->
    CInv (pop_rules tbl root nest trim st rs ts qs).
  Proof.
    induction rs as [|r rs IH]; intros ts qs st HC HX HG; [destruct ts; exact HC|].
    destruct ts as [|t ts]; [exact HC|]. cbn [pop_rules]. unfold pop_rule at 1. rewrite HX.
    destruct t as [| |truth].
    - destruct qs as [|q qs]; cbn [List.tl].
      + destruct rs; [destruct ts; exact HC|]. destruct ts; [exact HC|].
        apply IH; auto. destruct t; exact I.
      + apply IH; auto.
    - rewrite pop_rules_stuck by (cbn; discriminate). now apply CInv_exc.
    - destruct qs as [|q qs]; cbn [List.tl fold_left].
      + apply IH; auto. destruct rs; [exact I|]. destruct ts as [|[]]; exact I.
      + cbn [good_rules] in HG. destruct HG as [HG1 HG2].
        destruct (entries_inv r q st HC HX HG1) as [A B]. now apply IH.
  Qed.
End Call.
