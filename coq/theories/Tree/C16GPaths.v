(* C16, general frame lemmas: the steps of __setitem__ on a store in which
   the names on the way may hold handles (they are removed, in every layer)
   and the final name may be a sub-map (it is cut off with all below it). *)
From Coq Require Import ZArith List Bool Lia.
From Desper Require Import Lib.Alist Tree.C11Model Tree.C11Lemmas Tree.C11Inv Tree.C16Model
     Tree.C16Proofs Tree.C16Paths.
Import ListNotations.
Open Scope Z_scope.

Lemma ncol_pop_g s t k n :
  column n (cm_pop_all k (m_layers (sm s t))) = if n =? k then [] else ncol s t n.
Proof. apply column_pop_all. Qed.

Lemma lay0_pop_g s t k n :
  match cm_pop_all k (m_layers (sm s t)) with l0 :: _ => alookup n l0 | [] => None end =
  if n =? k then None else lay0 s t n.
Proof.
  unfold lay0. destruct (m_layers (sm s t)) as [|l0 ls]; cbn [cm_pop_all map].
  - now destruct (n =? k).
  - apply alookup_adel.
Qed.

(* one iteration of the loop over keys[:-1], no assumption on the name *)
Lemma walk_step_frame_g used s t k :
  Inv used s -> - snext s <= t ->
  let s' := fst (walk_step s t k) in
  let c := snd (walk_step s t k) in
  (forall x n, ncol s' x n = if (x =? t) && (n =? k) then [] else ncol s x n) /\
  (forall x n, lay0 s' x n = if (x =? t) && (n =? k) then None else lay0 s x n) /\
  (forall x, x <> c -> m_parent (sm s' x) = m_parent (sm s x)) /\
  (forall x, x <> t -> x <> new_id s -> sm s' x = sm s x) /\
  ((alookup k (m_maps (sm s t)) = Some c /\ (forall x, m_maps (sm s' x) = m_maps (sm s x))) \/
   (alookup k (m_maps (sm s t)) = None /\ c = new_id s /\ c <> t /\ c <> 0 /\
    (forall M n, ~ child_m s M n c) /\
    (forall x, m_maps (sm s' x) =
               if x =? t then aset k c (m_maps (sm s t))
               else if x =? c then [] else m_maps (sm s x)))).
Proof.
  intros HI Ht. pose proof (walk_step_records s t k) as HR. cbv zeta in HR.
  pose proof (I_next _ _ HI) as Hn.
  destruct (alookup k (m_maps (sm s t))) as [c|] eqn:E; rewrite HR; cbn [fst snd].
  - repeat split.
    + intros x n. unfold ncol at 1. cbn [sm mput]. destruct (x =? t) eqn:Ex; [|reflexivity].
      apply Z.eqb_eq in Ex. subst x. cbn [m_layers andb]. apply ncol_pop_g.
    + intros x n. unfold lay0 at 1. cbn [sm mput]. destruct (x =? t) eqn:Ex; [|reflexivity].
      apply Z.eqb_eq in Ex. subst x. cbn [m_layers andb]. apply lay0_pop_g.
    + intros x _. cbn [sm mput]. destruct (x =? t) eqn:Ex; [|reflexivity].
      apply Z.eqb_eq in Ex. now subst x.
    + intros x Hx _. cbn [sm mput]. destruct (x =? t) eqn:Ex; [|reflexivity].
      apply Z.eqb_eq in Ex. contradiction.
    + left. split; [reflexivity|]. intros x. cbn [sm mput].
      destruct (x =? t) eqn:Ex; [|reflexivity]. apply Z.eqb_eq in Ex. now subst x.
  - assert (Hct : new_id s <> t) by (unfold new_id; lia).
    assert (Hc0 : new_id s <> 0) by (unfold new_id; lia).
    assert (Hcd : sm s (new_id s) = m_default) by (apply (I_fresh _ _ HI); unfold new_id; lia).
    repeat split.
    + intros x n. unfold ncol at 1. cbn [sm]. destruct (x =? new_id s) eqn:Ec.
      * apply Z.eqb_eq in Ec. subst x.
        destruct (new_id s =? t) eqn:E2; [apply Z.eqb_eq in E2; contradiction|].
        cbn [andb]. unfold ncol. now rewrite Hcd.
      * destruct (x =? t) eqn:Ex; [|reflexivity].
        apply Z.eqb_eq in Ex. subst x. cbn [m_layers andb]. apply ncol_pop_g.
    + intros x n. unfold lay0 at 1. cbn [sm]. destruct (x =? new_id s) eqn:Ec.
      * apply Z.eqb_eq in Ec. subst x.
        destruct (new_id s =? t) eqn:E2; [apply Z.eqb_eq in E2; contradiction|].
        cbn [andb]. unfold lay0. now rewrite Hcd.
      * destruct (x =? t) eqn:Ex; [|reflexivity].
        apply Z.eqb_eq in Ex. subst x. cbn [m_layers andb]. apply lay0_pop_g.
    + intros x Hx. cbn [sm]. destruct (x =? new_id s) eqn:Ec;
        [apply Z.eqb_eq in Ec; contradiction|].
      destruct (x =? t) eqn:Ex; [|reflexivity]. apply Z.eqb_eq in Ex. now subst x.
    + intros x Hx Hx'. cbn [sm]. destruct (x =? new_id s) eqn:Ec;
        [apply Z.eqb_eq in Ec; contradiction|].
      destruct (x =? t) eqn:Ex; [apply Z.eqb_eq in Ex; contradiction|reflexivity].
    + right. split; [reflexivity|]. split; [reflexivity|]. split; [exact Hct|].
      split; [exact Hc0|]. split.
      * intros M n HCh. destruct (I_cm _ _ HI _ _ _ HCh) as [A _]. unfold new_id in A. lia.
      * intros x. cbn [sm]. destruct (x =? t) eqn:Ex.
        -- apply Z.eqb_eq in Ex. subst x.
           destruct (t =? new_id s) eqn:Ec; [apply Z.eqb_eq in Ec; congruence|]. reflexivity.
        -- destruct (x =? new_id s); reflexivity.
Qed.

Lemma walk_step_paths_g used s done t k :
  Inv used s -> RootNone s -> walk s 0 done = Some t ->
  let s' := fst (walk_step s t k) in
  let c := snd (walk_step s t k) in
  walk s' 0 (done ++ [k]) = Some c /\
  (forall q x, walk s 0 q = Some x -> walk s' 0 q = Some x) /\
  (forall q x, walk s' 0 q = Some x ->
     walk s 0 q = Some x \/ (q = done ++ [k] /\ walk s 0 q = None /\ x < - snext s)) /\
  (forall x n, ncol s' x n = if (x =? t) && (n =? k) then [] else ncol s x n) /\
  (forall x n, lay0 s' x n = if (x =? t) && (n =? k) then None else lay0 s x n) /\
  RootNone s' /\
  (forall x, x <> t -> 0 <= x -> sm s' x = sm s x) /\
  snext s <= snext s'.
Proof.
  intros HI HR HW.
  pose proof (walk_alloc _ _ HI _ _ HW) as Ht.
  destruct (walk_step_frame_g used s t k HI Ht) as (F1 & F2 & F3 & F4 & F6).
  cbv zeta. set (s' := fst (walk_step s t k)) in *. set (c := snd (walk_step s t k)) in *.
  pose proof (I_next _ _ HI) as Hn.
  assert (F4' : forall x, x <> t -> 0 <= x -> sm s' x = sm s x).
  { intros x Hx H0. apply F4; auto. unfold new_id. lia. }
  destruct F6 as [[E HM]|(E & Ec & Hct & Hc0 & HNC & HM)].
  - pose proof (walk_same_maps s s' HM) as HWs.
    assert (c <> 0).
    { intros ->. destruct (I_bm _ _ HI t k 0 E) as [P _]. unfold RootNone in HR. congruence. }
    assert (HSn : snext s <= snext s').
    { pose proof (walk_step_records s t k) as HRr. cbv zeta in HRr. rewrite E in HRr.
      unfold s'. rewrite HRr. cbn. lia. }
    split; [|split; [|split; [|split; [|split; [|split; [|split]]]]]]; auto.
    + rewrite HWs, walk_app, HW. cbn [walk]. now rewrite E.
    + intros q x. now rewrite HWs.
    + intros q x. rewrite HWs. now left.
    + unfold RootNone. rewrite F3; auto.
  - pose proof (walk_plus s s' t k c HM E Hct HNC) as HP.
    assert (HNone : walk s 0 (done ++ [k]) = None).
    { rewrite walk_app, HW. cbn [walk]. now rewrite E. }
    assert (HSn : snext s <= snext s').
    { pose proof (walk_step_records s t k) as HRr. cbv zeta in HRr. rewrite E in HRr.
      unfold s'. rewrite HRr. cbn. lia. }
    split; [|split; [|split; [|split; [|split; [|split; [|split]]]]]]; auto.
    + apply HP; [congruence|]. right. exists done. auto.
    + intros q x Hq. apply HP; [congruence|]. now left.
    + intros q x Hq. apply HP in Hq; [|congruence].
      destruct Hq as [Hq|(q1 & -> & H1 & ->)]; [now left|]. right.
      rewrite (unique_path used s 0 HI HR q1 done t H1 HW).
      split; [reflexivity|]. split; [exact HNone|]. rewrite Ec. unfold new_id. lia.
    + unfold RootNone. rewrite F3; auto.
Qed.

Lemma app_inv_len_ne {A} (l r : list A) : r <> [] -> l <> l ++ r.
Proof.
  intros Hr H. apply (f_equal (@List.length A)) in H. rewrite app_length in H.
  destruct r; [contradiction|]. cbn in H. lia.
Qed.

Lemma set_walk_paths_g used pre : forall s sp done t,
  Inv used s -> Rel s sp -> RootNone s -> walk s 0 done = Some t ->
  let s1 := fst (set_walk s t pre) in
  let t1 := snd (set_walk s t pre) in
  Inv used s1 /\ (exists sp1, Rel s1 sp1) /\ RootNone s1 /\
  walk s1 0 (done ++ pre) = Some t1 /\
  (forall q x, walk s 0 q = Some x -> walk s1 0 q = Some x) /\
  (forall q x, walk s1 0 q = Some x ->
     walk s 0 q = Some x \/
     (walk s 0 q = None /\ x < - snext s /\ exists j, q = done ++ firstn j pre)) /\
  (* untouched: every (object, name) that is not a step of the path *)
  (forall x n,
     (forall j, (j < List.length pre)%nat ->
                walk s1 0 (done ++ firstn j pre) = Some x -> n <> nth j pre 0) ->
     ncol s1 x n = ncol s x n /\ lay0 s1 x n = lay0 s x n) /\
  (* the steps of the path hold no handle any more, in any layer *)
  (forall j x, (j < List.length pre)%nat -> walk s1 0 (done ++ firstn j pre) = Some x ->
     ncol s1 x (nth j pre 0) = [] /\ lay0 s1 x (nth j pre 0) = None) /\
  (forall B, 0 <= B -> (forall q y, walk s 0 q = Some y -> y <= B) ->
             forall x, B < x -> sm s1 x = sm s x) /\
  snext s <= snext s1.
Proof.
  induction pre as [|k pre IH]; intros s sp done t HI HR HRn HW.
  - cbn [set_walk fst snd]. rewrite app_nil_r.
    split; [exact HI|]. split; [eauto|]. split; [exact HRn|]. split; [exact HW|].
    split; [auto|]. split; [intros q x H; now left|]. split; [auto|].
    split; [intros j x Hj; cbn in Hj; lia|]. split; [auto|lia].
  - rewrite set_walk_cons.
    destruct (walk_step_paths_g used s done t k HI HRn HW)
      as (W1 & W2 & W3 & W4 & W5 & W6 & W7 & W8).
    assert (HInv : Inv used (fst (walk_step s t k)) /\ exists sp', Rel (fst (walk_step s t k)) sp').
    { pose proof (walk_alloc _ _ HI _ _ HW) as Ht.
      destruct (alookup k (m_maps (sm s t))) as [c|] eqn:E.
      - destruct (walk_step_old used s sp t k c HI HR E) as (_ & A & B & _). eauto.
      - destruct (walk_step_new used s sp t k HI HR Ht E) as (_ & A & (sp' & _ & B) & _). eauto. }
    destruct HInv as [HI' [sp' HR']].
    destruct (walk_step s t k) as [s' c] eqn:EW. cbn [fst snd] in *.
    specialize (IH s' sp' (done ++ [k]) c HI' HR' W6 W1). cbv zeta in IH.
    destruct IH as (I1 & I2 & I3 & I4 & I5 & I6 & I7 & I8 & I9 & I10).
    rewrite <- app_assoc in I4. cbn [app] in I4.
    set (s1 := fst (set_walk s' c pre)) in *.
    assert (HWt : walk s1 0 done = Some t) by (apply I5, W2, HW).
    assert (Hshift : forall j, (done ++ [k]) ++ firstn j pre = done ++ firstn (S j) (k :: pre)).
    { intros j. rewrite <- app_assoc. reflexivity. }
    split; [exact I1|]. split; [exact I2|]. split; [exact I3|]. split; [exact I4|].
    split; [intros q x H; apply I5, W2, H|].
    split; [|split; [|split]].
    + intros q x Hq. destruct (I6 q x Hq) as [A|(A & Ax & (j & ->))].
      * destruct (W3 q x A) as [A'|(-> & A' & Ax)]; [now left|]. right.
        split; auto. split; auto. exists 1%nat. reflexivity.
      * right. split.
        -- destruct (walk s 0 ((done ++ [k]) ++ firstn j pre)) as [y|] eqn:E; [|reflexivity].
           rewrite (W2 _ _ E) in A. discriminate.
        -- split; [lia|]. exists (S j). apply Hshift.
    + intros x n Hx.
      assert (H0 : ncol s' x n = ncol s x n /\ lay0 s' x n = lay0 s x n).
      { rewrite W4, W5. destruct (x =? t) eqn:Ex; [|auto]. apply Z.eqb_eq in Ex. subst x.
        assert (Hn : n <> k).
        { apply (Hx 0%nat); [cbn; lia|]. cbn [firstn]. now rewrite app_nil_r. }
        apply Z.eqb_neq in Hn. rewrite Hn. auto. }
      destruct (I7 x n) as [A B].
      { intros j Hj Hw. rewrite Hshift in Hw. apply (Hx (S j)); [cbn; lia|exact Hw]. }
      destruct H0 as [C D]. split; congruence.
    + intros j x Hj Hw. destruct j as [|j].
      * cbn [firstn nth] in *. rewrite app_nil_r in Hw. rewrite HWt in Hw. injection Hw as <-.
        destruct (I7 t k) as [A B].
        { intros j' Hj' Hw' _.
          pose proof (unique_path used s1 0 I1 I3 _ _ t Hw' HWt) as E.
          rewrite <- app_assoc in E. symmetry in E. revert E. apply app_inv_len_ne. discriminate. }
        rewrite A, B, W4, W5, !Z.eqb_refl. auto.
      * cbn [nth]. apply (I8 j x); [cbn in Hj; lia|]. now rewrite Hshift.
    + split; [|lia]. intros B HB0 HB x Hx. rewrite (I9 B HB0); auto.
      * apply W7; [|lia]. specialize (HB done t HW). lia.
      * intros q y Hq. destruct (W3 q y Hq) as [A|(_ & _ & A)]; [eauto|].
        pose proof (I_next _ _ HI). lia.
Qed.

Lemma is_prefix_refl p : is_prefix p p = true.
Proof. induction p as [|x p IH]; cbn [is_prefix]; [reflexivity|]. now rewrite Z.eqb_refl. Qed.

Lemma is_prefix_app p r : is_prefix p (p ++ r) = true.
Proof. induction p as [|x p IH]; cbn [is_prefix app]; [reflexivity|]. now rewrite Z.eqb_refl. Qed.

Lemma is_prefix_split p l : is_prefix p l = true -> exists r, l = p ++ r.
Proof.
  revert l. induction p as [|x p IH]; intros l H; [exists l; reflexivity|].
  destruct l as [|y l]; [discriminate|]. cbn [is_prefix] in H.
  apply andb_true_iff in H. destruct H as [H1 H2]. apply Z.eqb_eq in H1. subst y.
  destruct (IH l H2) as (r & ->). exists r. reflexivity.
Qed.

Lemma is_prefix_snoc p q k : is_prefix p (q ++ [k]) = true ->
  is_prefix p q = true \/ p = q ++ [k].
Proof.
  revert q. induction p as [|x p IH]; intros q H; [now left|].
  destruct q as [|y q]; cbn [app is_prefix] in H |- *.
  - apply andb_true_iff in H. destruct H as [H1 H2]. apply Z.eqb_eq in H1. subst x.
    destruct p; [now right|discriminate].
  - apply andb_true_iff in H. destruct H as [H1 H2]. apply Z.eqb_eq in H1. subst y.
    destruct (IH q H2) as [A| ->]; [left; now rewrite Z.eqb_refl|now right].
Qed.

(* the final assignment of a handle, whatever was under the name *)
Lemma set_handle_paths_g used s P t last h :
  Inv used s -> RootNone s -> walk s 0 P = Some t ->
  let s' := set_final s t last (RH h) in
  (forall q x, walk s' 0 q = Some x -> walk s 0 q = Some x) /\
  (forall q x, walk s 0 q = Some x -> is_prefix (P ++ [last]) q = false -> walk s' 0 q = Some x) /\
  (forall q, is_prefix (P ++ [last]) q = true -> walk s' 0 q = None) /\
  (forall x n, ncol s' x n =
               if (x =? t) && (n =? last) then h :: column last (List.tl (m_layers (sm s t)))
               else ncol s x n) /\
  (forall x n, lay0 s' x n = if (x =? t) && (n =? last) then Some h else lay0 s x n) /\
  RootNone s' /\
  (forall x, x <> t -> sm s' x = sm s x).
Proof.
  intros HI HRn HW. cbv zeta. unfold set_final.
  set (r := sm s t).
  set (rt := MR (m_parent r) (m_key r) (adel last (m_maps r)) (cm_set last h (m_layers r))).
  set (s' := hput (mput s t rt) h (HR (Some t) (Some last))).
  assert (Hsm : forall x, sm s' x = if x =? t then rt else sm s x) by reflexivity.
  assert (HM : forall x k, alookup k (m_maps (sm s' x)) =
            if (x =? t) && (k =? last) then None else alookup k (m_maps (sm s x))).
  { intros x k. rewrite Hsm. destruct (x =? t) eqn:E; [|reflexivity].
    apply Z.eqb_eq in E. subst x. cbn [rt m_maps andb]. apply alookup_adel. }
  assert (HSub : forall q m x, walk s' m q = Some x -> walk s m q = Some x).
  { induction q as [|k q IH]; intros m x; cbn [walk]; [auto|]. rewrite HM.
    destruct ((m =? t) && (k =? last)); [discriminate|].
    destruct (alookup k (m_maps (sm s m))); [apply IH|discriminate]. }
  assert (HKeep : forall q x, walk s 0 q = Some x -> is_prefix (P ++ [last]) q = false ->
                              walk s' 0 q = Some x).
  { induction q as [|k q IH] using rev_ind; intros x Hq HP; [exact Hq|].
    rewrite walk_app in Hq |- *. destruct (walk s 0 q) as [y|] eqn:Ey; [|discriminate].
    assert (HPq : is_prefix (P ++ [last]) q = false).
    { destruct (is_prefix (P ++ [last]) q) eqn:E; [|reflexivity].
      destruct (is_prefix_split _ _ E) as (r0 & ->). rewrite <- app_assoc in HP.
      now rewrite is_prefix_app in HP. }
    rewrite (IH y eq_refl HPq). cbn [walk] in *. rewrite HM.
    destruct ((y =? t) && (k =? last)) eqn:E; [|exact Hq]. exfalso.
    apply andb_true_iff in E. destruct E as [E1 E2]. apply Z.eqb_eq in E1. apply Z.eqb_eq in E2.
    subst y k. rewrite (unique_path used s 0 HI HRn q P t Ey HW) in HP.
    now rewrite is_prefix_refl in HP. }
  assert (HCut : forall q, is_prefix (P ++ [last]) q = true -> walk s' 0 q = None).
  { intros q Hq. destruct (is_prefix_split _ _ Hq) as (r0 & ->).
    rewrite <- app_assoc, walk_app.
    assert (HPP : walk s' 0 P = Some t).
    { apply HKeep; [exact HW|]. destruct (is_prefix (P ++ [last]) P) eqn:E; [|reflexivity].
      destruct (is_prefix_split _ _ E) as (r1 & E1). rewrite <- app_assoc in E1.
      exfalso. revert E1. apply app_inv_len_ne. discriminate. }
    rewrite HPP. cbn [app walk]. rewrite HM, !Z.eqb_refl. reflexivity. }
  split; [intros q x; apply HSub|]. split; [exact HKeep|]. split; [exact HCut|].
  split; [|split; [|split]].
  - intros x n. unfold ncol. rewrite Hsm. destruct (x =? t) eqn:E; [|reflexivity].
    apply Z.eqb_eq in E. subst x. cbn [rt m_layers andb]. fold r.
    destruct (m_layers r) as [|l0 ls]; cbn [cm_set List.tl].
    + rewrite column_cons. cbn [alookup]. destruct (n =? last); reflexivity.
    + rewrite !column_cons, alookup_aset. destruct (n =? last) eqn:E2; [|reflexivity].
      apply Z.eqb_eq in E2. now subst n.
  - intros x n. unfold lay0. rewrite Hsm. destruct (x =? t) eqn:E; [|reflexivity].
    apply Z.eqb_eq in E. subst x. cbn [rt m_layers andb]. fold r.
    destruct (m_layers r) as [|l0 ls]; cbn [cm_set].
    + cbn [alookup]. destruct (n =? last); reflexivity.
    + rewrite alookup_aset. destruct (n =? last); reflexivity.
  - unfold RootNone. rewrite Hsm. destruct (0 =? t) eqn:E; [|exact HRn].
    apply Z.eqb_eq in E. subst t. cbn [rt m_parent]. exact HRn.
  - intros x Hx. rewrite Hsm. destruct (x =? t) eqn:E; [apply Z.eqb_eq in E; contradiction|].
    reflexivity.
Qed.
