(* C16: what the input domain (wf_b) says about the keys of the entries that
   are enumerated: file keys, directory paths, allowed sub-maps. *)
From Coq Require Import ZArith List Bool String Lia.
From Desper Require Import Lib.Alist Tree.C11Model Tree.C11Lemmas Tree.C11Inv Tree.C16Model
     Tree.C16Proofs Tree.C16Log Tree.C16Paths Tree.C16Full Tree.C16Call.
Import ListNotations.
Open Scope Z_scope.

Lemma split_last_app {A} (ks : list A) : forall pre last,
  split_last ks = Some (pre, last) -> ks = pre ++ [last].
Proof.
  induction ks as [|x ks IH]; intros pre last; cbn [split_last]; [discriminate|].
  destruct ks as [|y ks].
  - intros [= <- <-]. reflexivity.
  - destruct (split_last (y :: ks)) as [[a b]|] eqn:E; [|discriminate].
    intros [= <- <-]. cbn [app]. f_equal. now apply IH.
Qed.

Lemma intern_removelast tbl : forall cs ks,
  intern tbl cs = Some ks -> intern tbl (removelast cs) = Some (removelast ks).
Proof.
  induction cs as [|c cs IH]; intros ks; cbn [intern].
  - intros [= <-]. reflexivity.
  - destruct (slookup c tbl) as [n|] eqn:E1; [|discriminate].
    destruct (intern tbl cs) as [r|] eqn:E2; [|discriminate].
    intros [= <-]. destruct cs as [|c2 cs].
    + cbn in E2. injection E2 as <-. reflexivity.
    + cbn [removelast]. specialize (IH r eq_refl).
      destruct r as [|r0 r]; [cbn in E2; destruct (slookup c2 tbl); [destruct (intern tbl cs)|];
                              discriminate|].
      cbn [intern] in IH |- *. cbn [removelast] in IH. rewrite E1.
      change (removelast (n :: r0 :: r)) with (n :: removelast (r0 :: r)).
      cbn [removelast] in IH |- *. now rewrite IH.
Qed.

Lemma removelast_trim : forall kc, removelast (trim_last kc) = removelast kc.
Proof.
  induction kc as [|c kc IH]; [reflexivity|]. destruct kc as [|c2 kc]; [reflexivity|].
  change (trim_last (c :: c2 :: kc)) with (c :: trim_last (c2 :: kc)).
  change (removelast (c :: c2 :: kc)) with (c :: removelast (c2 :: kc)).
  rewrite <- IH. destruct (trim_last (c2 :: kc)) eqn:E; [|reflexivity].
  destruct kc; discriminate.
Qed.

Lemma prefixes_firstn {A} (l : list A) : forall j, In (firstn j l) (prefixes l).
Proof.
  induction l as [|x l IH]; intros j; cbn [prefixes].
  - destruct j; now left.
  - destruct j as [|j]; [now left|]. right. cbn [firstn]. apply in_map. apply IH.
Qed.

Lemma removelast_snoc {A} (l : list A) x : removelast (l ++ [x]) = l.
Proof. apply removelast_last. Qed.

(* the directory paths an entry stands for *)
Definition entry_dirs (tbl : list (string * Z)) (root : list string) (e : entry) : list (list Z) :=
  match key_comps root (e_comps e) with
  | Some kc =>
      match intern tbl (match e_kind e with KDir => kc | _ => removelast kc end) with
      | Some ks => prefixes ks
      | None => []
      end
  | None => []
  end.

Lemma dir_keys_eq tbl c :
  dir_keys tbl c =
  flat_map (fun t => match t with TDir truth => flat_map (entry_dirs tbl (k_root c)) truth
                                | _ => [] end) (k_truth c).
Proof. reflexivity. Qed.

Lemma allowed_maps_eq tbl c :
  allowed_maps tbl c =
  flat_map (fun '(r, truth) => flat_map (entry_dirs tbl (k_root c)) truth)
           (active (k_rules c) (k_truth c)).
Proof. reflexivity. Qed.

Lemma entry_dirs_spec tbl root trim e pre last :
  entry_key tbl root trim e = Some (pre, last) ->
  match e_kind e with
  | KDir => forall j, In (firstn j (pre ++ [last])) (entry_dirs tbl root e)
  | _ => forall j, In (firstn j pre) (entry_dirs tbl root e)
  end.
Proof.
  unfold entry_key, entry_dirs. destruct (key_comps root (e_comps e)) as [kc|]; [|discriminate].
  destruct (e_kind e) eqn:EK.
  - (* a file: only the last part may have been trimmed *)
    set (kc' := if trim then trim_last kc else kc).
    destruct (intern tbl kc') as [ks|] eqn:EI; [|discriminate]. intros HS.
    apply split_last_app in HS. subst ks.
    pose proof (intern_removelast tbl kc' _ EI) as HR. rewrite removelast_snoc in HR.
    assert (HK : removelast kc' = removelast kc).
    { unfold kc'. destruct trim; [apply removelast_trim|reflexivity]. }
    rewrite HK in HR. rewrite HR. apply prefixes_firstn.
  - destruct (intern tbl kc) as [ks|] eqn:EI; [|discriminate]. intros HS.
    apply split_last_app in HS. subst ks. apply prefixes_firstn.
  - destruct (intern tbl kc) as [ks|] eqn:EI; [|discriminate]. intros HS.
    apply split_last_app in HS. subst ks.
    pose proof (intern_removelast tbl kc _ EI) as HR. rewrite removelast_snoc in HR.
    rewrite HR. apply prefixes_firstn.
Qed.

(* the keys of the files accepted in a call (the list [keys] of call_holds) *)
Definition keysK (tbl : list (string * Z)) (c : call) : list (list Z * Z) :=
  accepted_keys tbl c.

Section Static.
  Variable tbl : list (string * Z).
  Variable c : call.
  Variables FK DK : list (list Z).
  Hypothesis HFK : forall k, In k (file_keys tbl c) -> In k FK.
  Hypothesis HDK : forall k, In k (dir_keys tbl c) -> In k DK.

  Lemma ext_ok_eqb r e e' :
    entry_eqb e e' = true -> file_named e = true -> file_named e' = true ->
    e_kind e = KFile -> ext_ok r e = ext_ok r e'.
  Proof.
    intros HE H1 H2 HK. pose proof (proj1 (entry_eqb_nrm e e') HE) as HN.
    pose proof (accepted_nrm r e H1) as A1. pose proof (accepted_nrm r e' H2) as A2.
    rewrite HN in A1. unfold accepted in A1, A2. rewrite HK in A1.
    assert (HK' : e_kind e' = KFile).
    { unfold nrm in HN. injection HN as HN _. congruence. }
    rewrite HK' in A2. congruence.
  Qed.

  Lemma good_entry r truth q e :
    In (TDir truth) (k_truth c) ->
    In (r, truth) (active (k_rules c) (k_truth c)) ->
    truth_ok tbl c r (TDir truth) q = true -> In e q ->
    Good FK DK tbl (k_root c) (eff_trim c) (allowed_maps tbl c) (keysK tbl c) r e.
  Proof.
    intros HT HA HOK HI. pose proof HOK as HOK'. unfold truth_ok in HOK'.
    apply andb_true_iff in HOK'. destruct HOK' as [H HPerm].
    apply andb_true_iff in H. destruct H as [H HKeys].
    apply andb_true_iff in H. destruct H as [H _].
    apply andb_true_iff in H. destruct H as [H _].
    apply andb_true_iff in H. destruct H as [H _].
    apply andb_true_iff in H. destruct H as [HN1 HN2].
    destruct (perm_b_in entry_eqb _ _ e entry_eqb_refl HPerm HI) as (e' & HI' & HE).
    apply filter_In in HI'. destruct HI' as [HI' _].
    rewrite forallb_forall in HKeys, HN1, HN2.
    pose proof (HKeys _ HI') as HK'.
    assert (HKind : e_kind e = e_kind e').
    { apply entry_eqb_nrm in HE. unfold nrm in HE. now injection HE. }
    destruct (entry_key tbl (k_root c) (eff_trim c) e') as [[pre last]|] eqn:EK.
    2:{ destruct (eff_trim c); destruct (entry_key tbl (k_root c) true e');
          destruct (entry_key tbl (k_root c) false e'); discriminate. }
    exists pre, last. split; [rewrite (entry_key_eqb _ _ (eff_trim c) _ _ HE); exact EK|].
    pose proof (entry_dirs_spec tbl (k_root c) (eff_trim c) e' pre last EK) as HD.
    (* where the directory paths of e' are listed *)
    assert (HinDK : forall p, In p (entry_dirs tbl (k_root c) e') -> In p DK).
    { intros p Hp. apply HDK. rewrite dir_keys_eq. apply in_flat_map.
      exists (TDir truth). split; [exact HT|]. apply in_flat_map. eauto. }
    assert (HinAM : forall p, In p (entry_dirs tbl (k_root c) e') -> In p (allowed_maps tbl c)).
    { intros p Hp. rewrite allowed_maps_eq. apply in_flat_map.
      exists (r, truth). split; [exact HA|]. apply in_flat_map. eauto. }
    rewrite HKind. destruct (e_kind e') eqn:EK'.
    - split; [|split].
      + apply HFK. unfold file_keys. apply in_flat_map. exists (TDir truth). split; [exact HT|].
        apply in_flat_map. exists e'. split; [exact HI'|]. rewrite EK', EK. now left.
      + intros j. split; [apply HinDK|apply HinAM]; apply HD.
      + intros HX. unfold keysK, accepted_keys. apply in_flat_map.
        exists ((norm (e_comps e'), r_sig r), Some (pre, last)). split; [|now left].
        unfold accepted_files. apply in_flat_map. exists (r, truth). split; [exact HA|].
        apply in_flat_map. exists e'. split; [exact HI'|]. rewrite EK'.
        rewrite <- (ext_ok_eqb r e e' HE (HN2 _ HI) (HN1 _ HI')) by congruence.
        rewrite HX, EK. now left.
    - intros j. split; [apply HinDK|apply HinAM]; apply HD.
    - exact I.
  Qed.

  Lemma good_rules_of_wf : forall rs ts qs,
    forall3 (truth_ok tbl c) rs ts qs = true ->
    (forall t, In t ts -> In t (k_truth c)) ->
    (forall x, In x (active rs ts) -> In x (active (k_rules c) (k_truth c))) ->
    good_rules FK DK tbl (k_root c) (eff_trim c) (allowed_maps tbl c) (keysK tbl c) rs ts qs.
  Proof.
    induction rs as [|r rs IH]; intros ts qs HF HT HA; [exact I|].
    destruct ts as [|t ts]; [exact I|]. destruct qs as [|q qs]; [destruct t; exact I|].
    cbn [forall3] in HF. apply andb_true_iff in HF. destruct HF as [HF1 HF2].
    destruct t as [| |truth]; cbn [good_rules]; [|exact I|].
    - apply IH; auto. intros t Ht. apply HT. now right.
    - split.
      + apply Forall_forall. intros e He.
        apply (good_entry r truth q e); auto.
        * apply HT. now left.
        * apply HA. cbn [active]. now left.
      + apply IH; auto.
        * intros t Ht. apply HT. now right.
        * intros x Hx. apply HA. cbn [active]. now right.
  Qed.

  Lemma active_truth : forall (rs : list rule) ts (r : rule) truth,
      In (r, truth) (active rs ts) -> In (TDir truth) ts.
  Proof.
    induction rs as [|r0 rs IH]; intros ts r truth HI; [destruct ts; destruct HI|].
    destruct ts as [|t ts]; [destruct HI|]. destruct t as [| |tr]; cbn [active] in HI.
    - right. eapply IH; eauto.
    - destruct HI.
    - destruct HI as [HI|HI]; [injection HI as _ ->; now left|right; eapply IH; eauto].
  Qed.

  (* the key of an accepted file: a file key, below directory paths *)
  Lemma accepted_key_static pre last :
    forallb (call_wf tbl) [c] = true ->
    In (pre, last) (accepted_keys tbl c) ->
    In (pre ++ [last]) FK /\ forall j, In (firstn j pre) DK.
  Proof.
    intros HW HI. unfold accepted_keys in HI. apply in_flat_map in HI.
    destruct HI as (x & Hx & Hk). destruct (snd x) as [k|] eqn:Ex; [|destruct Hk].
    destruct Hk as [->|[]]. unfold accepted_files in Hx. apply in_flat_map in Hx.
    destruct Hx as ([r truth] & HA & Hx). apply in_flat_map in Hx. destruct Hx as (e & He & Hx).
    destruct (e_kind e) eqn:EK; [|destruct Hx|destruct Hx].
    destruct (ext_ok r e); [|destruct Hx]. destruct Hx as [<-|[]]. cbn [snd] in Ex.
    pose proof (active_truth _ _ _ _ HA) as HT.
    split.
    - apply HFK. unfold file_keys. apply in_flat_map. exists (TDir truth). split; [exact HT|].
      apply in_flat_map. exists e. split; [exact He|]. rewrite EK, Ex. now left.
    - intros j. apply HDK. rewrite dir_keys_eq. apply in_flat_map. exists (TDir truth).
      split; [exact HT|]. apply in_flat_map. exists e. split; [exact He|].
      pose proof (entry_dirs_spec tbl (k_root c) (eff_trim c) e pre last Ex) as HD.
      rewrite EK in HD. apply HD.
  Qed.
End Static.

(* directory paths are closed under prefixes *)
Lemma is_prefix_firstn : forall f p, is_prefix f p = true -> f = firstn (List.length f) p.
Proof.
  induction f as [|x f IH]; intros p H; [reflexivity|].
  destruct p as [|y p]; [discriminate|]. cbn [is_prefix] in H.
  apply andb_true_iff in H. destruct H as [H1 H2]. apply Z.eqb_eq in H1. subst y.
  cbn [List.length firstn]. now rewrite <- (IH p H2).
Qed.

Lemma prefixes_closed {A} (ks : list A) : forall p, In p (prefixes ks) ->
  forall j, In (firstn j p) (prefixes ks).
Proof.
  induction ks as [|x ks IH]; intros p HI j; cbn [prefixes] in *.
  - destruct HI as [<-|[]]. destruct j; now left.
  - destruct HI as [<-|HI]; [destruct j; now left|].
    apply in_map_iff in HI. destruct HI as (p' & <- & HI).
    destruct j as [|j]; [now left|]. right. cbn [firstn]. apply in_map. now apply IH.
Qed.

Lemma dir_keys_closed tbl c p f :
  In p (dir_keys tbl c) -> is_prefix f p = true -> In f (dir_keys tbl c).
Proof.
  intros HI HP. rewrite (is_prefix_firstn f p HP). rewrite dir_keys_eq in *.
  apply in_flat_map in HI. destruct HI as (t & Ht & HI). apply in_flat_map. exists t.
  split; [exact Ht|]. destruct t as [| |truth]; [destruct HI|destruct HI|].
  apply in_flat_map in HI. destruct HI as (e & He & HI). apply in_flat_map. exists e.
  split; [exact He|]. unfold entry_dirs in *.
  destruct (key_comps (k_root c) (e_comps e)); [|destruct HI].
  destruct (intern tbl _); [|destruct HI]. now apply prefixes_closed.
Qed.
