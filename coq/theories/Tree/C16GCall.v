(* C16, general case: one call of the populator on a map that earlier
   populations (of other directory trees) may have filled differently. *)
From Coq Require Import ZArith List Bool String Lia.
From Desper Require Import Lib.Alist Tree.C11Model Tree.C11Lemmas Tree.C11Inv Tree.C16Model
     Tree.C16Proofs Tree.C16Log Tree.C16Paths Tree.C16Full Tree.C16Call Tree.C16GPaths
     Tree.C16GFull.
Import ListNotations.
Open Scope Z_scope.

Lemma existsb_app {A} (f : A -> bool) l1 l2 : existsb f (l1 ++ l2) = existsb f l1 || existsb f l2.
Proof. induction l1 as [|x l1 IH]; cbn [app existsb]; [reflexivity|]. now rewrite IH, orb_assoc. Qed.

Lemma existsb_map {A B} (f : B -> bool) (g : A -> B) l :
  existsb f (map g l) = existsb (fun x => f (g x)) l.
Proof. induction l as [|x l IH]; cbn [map existsb]; [reflexivity|]. now rewrite IH. Qed.

(* the paths of the steps of a walk along [pre] *)
Definition steps (pre : list Z) : list (list Z) := map (fun j => firstn j pre) (seq 1 (List.length pre)).

Lemma steps_mid pre key : existsb (list_eqb Z.eqb (kpath key)) (steps pre) = mid_prefix pre key.
Proof. unfold steps, mid_prefix. apply existsb_map. Qed.

Lemma steps_in pre w : In w (steps pre) -> exists j, w = firstn j pre.
Proof. unfold steps. intros H. apply in_map_iff in H. destruct H as (j & <- & _). eauto. Qed.

Lemma steps_has pre j : (1 <= j <= List.length pre)%nat -> In (firstn j pre) (steps pre).
Proof.
  intros Hj. unfold steps. apply (in_map (fun j0 => firstn j0 pre)). apply in_seq. lia.
Qed.

Section GCall.
  Variables FK DK : list (list Z).
  Hypothesis Disj : forall k, In k FK -> In k DK -> False.
  Hypothesis DKclosed : forall p f, In p DK -> is_prefix f p = true -> In f DK.
  Variable tbl : list (string * Z).
  Variable root : list string.
  Variables nest trim : bool.
  Variable AM : list (list Z).
  Variable K : list (list Z * Z).
  Variable s0 : store.

  (* the keys of the files stored so far in this call *)
  Definition logkeys (log : list (Z * (list string * Z))) : list (list Z * Z) :=
    flat_map (fun x => match entry_key tbl root trim (E KFile (fst (snd x))) with
                       | Some k => [k] | None => [] end) log.
  Definition killed (Ws : list (list Z)) (log : list (Z * (list string * Z)))
                    (key : list Z * Z) : bool :=
    existsb (list_eqb Z.eqb (kpath key)) Ws ||
    existsb (fun f => is_prefix f (fst key)) (map kpath (logkeys log)).

  Record CInvG (Ws : list (list Z)) (st : pstate) : Prop := mkCInvG {
    CG_g : GInv st;
    CG_w : forall w, In w Ws -> In w DK /\ In w AM;
    CG_lk : forall k, In k (logkeys (rev (p_log st))) ->
                      In (kpath k) FK /\ forall j, (1 <= j <= List.length (fst k))%nat ->
                                                   In (firstn j (fst k)) Ws;
    CG_col : forall key, scol (p_store st) key =
               if killed Ws (rev (p_log st)) key then []
               else expected_col nest (scol s0 key)
                                 (newsL tbl root trim key (rev (p_log st)));
    CG_old : forall q x, walk s0 0 q = Some x ->
               existsb (fun f => is_prefix f q) (map kpath (logkeys (rev (p_log st)))) = true \/
               walk (p_store st) 0 q = Some x;
    CG_new : forall q, walk (p_store st) 0 q <> None -> walk s0 0 q <> None \/ In q AM;
    CG_cut : forall f q, In f (map kpath (logkeys (rev (p_log st)))) ->
                         is_prefix f q = true -> walk (p_store st) 0 q = None;
    CG_mapdk : forall q, walk (p_store st) 0 q <> None -> walk s0 0 q <> None \/ In q DK;
    CG_k8 : nest = false -> k8free (p_store st) K;
  }.

  Lemma in_FK_not_DK_prefix f q : In f FK -> In q DK -> is_prefix f q = true -> False.
  Proof. intros HF HD HP. apply (Disj f); auto. now apply (DKclosed q). Qed.

  Lemma file_entry_g r Ws st e pre last :
    CInvG Ws st -> p_exc st = XNone -> e_kind e = KFile -> ext_ok r e = true ->
    entry_key tbl root trim e = Some (pre, last) ->
    In (pre ++ [last]) FK -> (forall j, In (firstn j pre) DK /\ In (firstn j pre) AM) ->
    In (pre, last) K ->
    CInvG (Ws ++ steps pre) (pop_entry tbl root nest trim r st e) /\
    p_exc (pop_entry tbl root nest trim r st e) = XNone.
  Proof.
    intros [HG HWs HLk HCol HOld HNew HCut HMd HK8] HX HKind HExt HKey HFK HDK HInK.
    assert (GK : nest = false -> k8free (p_store st) K /\ In (pre, last) K).
    { intros Hn. split; [now apply HK8|exact HInK]. }
    destruct (file_step_g tbl root nest trim r K st e pre last HG HX HKind HExt HKey GK)
      as (A & B & C & D & F & G & H).
    assert (HLog : p_log (pop_entry tbl root nest trim r st e) =
                   (p_nh st, (e_comps e, r_sig r)) :: p_log st).
    { pose proof (pop_entry_log tbl root nest trim r st e (G_p _ HG) HX) as HL.
      rewrite HL; [|congruence]. unfold accepted. now rewrite HKind, HExt. }
    assert (HK' : entry_key tbl root trim (E KFile (e_comps e)) = Some (pre, last)).
    { rewrite <- HKey. unfold entry_key. cbn [e_kind e_comps]. now rewrite HKind. }
    assert (HLK : logkeys (rev (p_log (pop_entry tbl root nest trim r st e))) =
                  logkeys (rev (p_log st)) ++ [(pre, last)]).
    { rewrite HLog. cbn [rev]. unfold logkeys. rewrite flat_map_app. cbn [flat_map fst snd].
      now rewrite HK'. }
    assert (HNews : forall key, newsL tbl root trim key
                       (rev (p_log (pop_entry tbl root nest trim r st e))) =
                     newsL tbl root trim key (rev (p_log st)) ++
                     (if key_eqb key (pre, last) then [p_nh st] else [])).
    { intros key. rewrite HLog. cbn [rev]. unfold newsL. rewrite flat_map_app.
      cbn [flat_map fst snd]. rewrite HK', app_nil_r.
      rewrite (key_eqb_sym (pre, last) key). reflexivity. }
    split; [|exact B]. constructor.
    - exact A.
    - intros w Hw. apply in_app_or in Hw. destruct Hw as [Hw|Hw]; [now apply HWs|].
      destruct (steps_in pre w Hw) as (j & ->). apply HDK.
    - intros k Hk. rewrite HLK in Hk. apply in_app_or in Hk. destruct Hk as [Hk|[<-|[]]].
      + destruct (HLk k Hk) as [P1 P2]. split; [exact P1|]. intros j Hj. apply in_or_app.
        left. now apply P2.
      + cbn [kpath fst snd]. split; [exact HFK|]. intros j Hj. apply in_or_app. right.
        now apply steps_has.
    - intros key. rewrite C. unfold killed. rewrite HLK, map_app, !existsb_app, steps_mid.
      cbn [map existsb kpath fst snd]. rewrite orb_false_r. rewrite HNews.
      destruct (key_eqb key (pre, last)) eqn:EK.
      + (* the key of the file itself is not killed *)
        apply key_eqb_true in EK. subst key. cbn [kpath fst snd].
        assert (N1 : existsb (list_eqb Z.eqb (pre ++ [last])) Ws = false).
        { destruct (existsb (list_eqb Z.eqb (pre ++ [last])) Ws) eqn:E; [|reflexivity]. exfalso.
          apply existsb_exists in E. destruct E as (w & Hw & E). apply list_eqb_Z_eq in E.
          subst w. apply (Disj (pre ++ [last])); auto. now apply HWs. }
        assert (N2 : mid_prefix pre (pre, last) = false).
        { destruct (mid_prefix pre (pre, last)) eqn:E; [|reflexivity]. exfalso.
          apply mid_prefix_spec in E. destruct E as (j & Hj & E & _).
          symmetry in E. now apply firstn_lt_ne in E. }
        assert (N3 : existsb (fun f => is_prefix f pre) (map kpath (logkeys (rev (p_log st)))) = false).
        { destruct (existsb (fun f => is_prefix f pre)
                            (map kpath (logkeys (rev (p_log st))))) eqn:E; [|reflexivity]. exfalso.
          apply existsb_exists in E. destruct E as (f & Hf & E).
          apply in_map_iff in Hf. destruct Hf as (k & <- & Hk).
          apply (in_FK_not_DK_prefix (kpath k) pre); auto; [now apply HLk|].
          rewrite <- (firstn_all pre). apply HDK. }
        assert (N4 : is_prefix (pre ++ [last]) pre = false).
        { apply is_prefix_longer. rewrite app_length. cbn. lia. }
        replace (kpath (pre, last)) with (pre ++ [last]) by reflexivity.
        rewrite N1, N2, N3, N4. cbn [orb].
        rewrite HCol. unfold killed. cbn [fst].
        replace (kpath (pre, last)) with (pre ++ [last]) by reflexivity.
        rewrite N1, N3. cbn [orb].
        now rewrite expected_col_snoc.
      + rewrite app_nil_r.
        destruct (mid_prefix pre key) eqn:EM.
        { destruct (existsb (list_eqb Z.eqb (kpath key)) Ws); reflexivity. }
        rewrite orb_false_r.
        replace (kpath (pre, last)) with (pre ++ [last]) by reflexivity.
        destruct (is_prefix (pre ++ [last]) (fst key)) eqn:EP.
        * now rewrite !orb_true_r.
        * rewrite orb_false_r. apply HCol.
    - intros q x Hq. rewrite HLK, map_app, existsb_app. cbn [map existsb kpath fst snd].
      rewrite orb_false_r. destruct (HOld q x Hq) as [P|P]; [left; now rewrite P|].
      replace (kpath (pre, last)) with (pre ++ [last]) by reflexivity.
      destruct (is_prefix (pre ++ [last]) q) eqn:EP; [left; apply orb_true_r|].
      right. now apply D.
    - intros q Hq. destruct (G q Hq) as [P|(j & ->)]; [now apply HNew|right; apply HDK].
    - intros f q Hf HP. rewrite HLK, map_app in Hf. apply in_app_or in Hf.
      destruct Hf as [Hf|[<-|[]]].
      + destruct (walk (p_store (pop_entry tbl root nest trim r st e)) 0 q) eqn:E; [|reflexivity].
        exfalso. assert (Hne : walk (p_store (pop_entry tbl root nest trim r st e)) 0 q <> None)
          by congruence.
        destruct (G q Hne) as [P|(j & ->)].
        * rewrite (HCut f q Hf HP) in P. congruence.
        * apply in_map_iff in Hf. destruct Hf as (k & <- & Hk).
          apply (in_FK_not_DK_prefix (kpath k) (firstn j pre)); auto; [now apply HLk|apply HDK].
      + cbn [kpath fst snd] in HP. now apply F.
    - intros q Hq. destruct (G q Hq) as [P|(j & ->)]; [now apply HMd|right; apply HDK].
    - exact H.
  Qed.

  Lemma dir_entry_g r Ws st e pre last :
    CInvG Ws st -> p_exc st = XNone -> e_kind e = KDir -> ext_ok r e = true ->
    entry_key tbl root trim e = Some (pre, last) ->
    (forall j, In (firstn j (pre ++ [last])) DK /\ In (firstn j (pre ++ [last])) AM) ->
    exists Ws', CInvG Ws' (pop_entry tbl root nest trim r st e) /\
                p_exc (pop_entry tbl root nest trim r st e) = XNone.
  Proof.
    intros HC HX HKind HExt HKey HDK.
    pose proof HC as [HG HWs HLk HCol HOld HNew HCut HMd HK8].
    destruct (dir_step_g tbl root nest trim r K st e pre last HG HX HKind HExt HKey)
      as (A & B & C & [D|(D1 & D2 & D3)] & F).
    { exists Ws. rewrite D. auto. }
    assert (HDKpre : forall j, In (firstn j pre) DK /\ In (firstn j pre) AM).
    { intros j. destruct (firstn_pre_app pre last j) as (j' & ->). apply HDK. }
    exists (Ws ++ steps pre). split; [|exact B]. constructor.
    - exact A.
    - intros w Hw. apply in_app_or in Hw. destruct Hw as [Hw|Hw]; [now apply HWs|].
      destruct (steps_in pre w Hw) as (j & ->). apply HDKpre.
    - rewrite C. intros k Hk. destruct (HLk k Hk) as [P1 P2]. split; [exact P1|].
      intros j Hj. apply in_or_app. left. now apply P2.
    - intros key. rewrite D1, C. unfold killed. rewrite existsb_app, steps_mid.
      destruct (mid_prefix pre key) eqn:EM.
      + now rewrite orb_true_r.
      + rewrite orb_false_r. apply HCol.
    - rewrite C. intros q x Hq. destruct (HOld q x Hq) as [P|P]; [now left|right; now apply D2].
    - intros q Hq. destruct (D3 q Hq) as [P|(j & ->)]; [now apply HNew|right; apply HDK].
    - rewrite C. intros f q Hf HP.
      destruct (walk (p_store (pop_entry tbl root nest trim r st e)) 0 q) eqn:E; [|reflexivity].
      exfalso. assert (Hne : walk (p_store (pop_entry tbl root nest trim r st e)) 0 q <> None)
        by congruence.
      destruct (D3 q Hne) as [P|(j & ->)].
      + rewrite (HCut f q Hf HP) in P. congruence.
      + apply in_map_iff in Hf. destruct Hf as (k & <- & Hk).
        apply (in_FK_not_DK_prefix (kpath k) (firstn j (pre ++ [last]))); auto;
          [now apply HLk|apply HDK].
    - intros q Hq. destruct (D3 q Hq) as [P|(j & ->)]; [now apply HMd|right; apply HDK].
    - intros Hn. apply F. now apply HK8.
  Qed.

  Lemma entry_inv_g r Ws st e :
    CInvG Ws st -> p_exc st = XNone -> Good FK DK tbl root trim AM K r e ->
    exists Ws', CInvG Ws' (pop_entry tbl root nest trim r st e) /\
                p_exc (pop_entry tbl root nest trim r st e) = XNone.
  Proof.
    intros HC HX (pre & last & HKey & HG).
    destruct (ext_ok r e) eqn:HExt.
    2:{ exists Ws. unfold pop_entry. rewrite HX, HExt. auto. }
    destruct (e_kind e) eqn:HKind.
    - destruct HG as (G1 & G2 & G3). exists (Ws ++ steps pre).
      apply (file_entry_g r Ws st e pre last); auto.
    - apply (dir_entry_g r Ws st e pre last); auto.
    - exists Ws. unfold pop_entry. rewrite HX, HExt, HKey, HKind. auto.
  Qed.

  Lemma entries_inv_g r seq : forall Ws st,
    CInvG Ws st -> p_exc st = XNone -> Forall (Good FK DK tbl root trim AM K r) seq ->
    exists Ws', CInvG Ws' (fold_left (pop_entry tbl root nest trim r) seq st) /\
                p_exc (fold_left (pop_entry tbl root nest trim r) seq st) = XNone.
  Proof.
    induction seq as [|e seq IH]; intros Ws st HC HX HF; cbn [fold_left]; [eauto|].
    inversion HF as [|? ? H1 H2]; subst.
    destruct (entry_inv_g r Ws st e HC HX H1) as (Ws1 & A & B). now apply (IH Ws1).
  Qed.

  Lemma CInvG_exc Ws st x : CInvG Ws st ->
    CInvG Ws (PS (p_store st) (p_nh st) (p_nm st) (p_log st) x).
  Proof.
    intros [[HP A B] H2 H3 H4 H5 H6 H7 H8 H9]. constructor; auto.
    constructor; auto. destruct HP as [P1 P2 P3 P4]. constructor; auto.
  Qed.

  Lemma rules_inv_g : forall rs ts qs Ws st,
    CInvG Ws st -> p_exc st = XNone -> good_rules FK DK tbl root trim AM K rs ts qs ->
    exists Ws', CInvG Ws' (pop_rules tbl root nest trim st rs ts qs).
  Proof.
    induction rs as [|r rs IH]; intros ts qs Ws st HC HX HG; [destruct ts; eauto|].
    destruct ts as [|t ts]; [eauto|]. cbn [pop_rules]. unfold pop_rule at 1. rewrite HX.
    destruct t as [| |truth].
    - destruct qs as [|q qs]; cbn [List.tl].
      + destruct rs; [destruct ts; eauto|]. destruct ts; [eauto|].
        apply (IH _ _ Ws); auto. destruct t; exact I.
      + apply (IH _ _ Ws); auto.
    - rewrite pop_rules_stuck by (cbn; discriminate). exists Ws. now apply CInvG_exc.
    - destruct qs as [|q qs]; cbn [List.tl fold_left].
      + apply (IH _ _ Ws); auto. destruct rs; [exact I|]. destruct ts as [|[]]; exact I.
      + cbn [good_rules] in HG. destruct HG as [HG1 HG2].
        destruct (entries_inv_g r q Ws st HC HX HG1) as (Ws1 & A & B). now apply (IH _ _ Ws1).
  Qed.
End GCall.
