(* C12 - a handle loads its resource at most once between clears.

   Model of desper/model/tree.py: Handle.__call__ / clear / cached and the
   access paths that reach a handle (ResourceMap.__getitem__ / get,
   StaticResourceMap.__getattribute__ / __getitem__ / get, Loop.switch of
   desper/loop.py).  Values are identified by the serial number of the load
   event that produced them; what the value *is* (None, 0, '', an object
   with unusual __eq__/__bool__) is an attribute of the case that the model
   provably never looks at (it is not even an input of [step]).

   Models only: no proofs in this file. *)
From Coq Require Import ZArith List Bool.
From Desper Require Import Lib.Alist.
Import ListNotations.
Open Scope Z_scope.

(* how the handle is reached *)
Inductive path :=
| PCall        (* h() *)
| PItem        (* m['a/b'] on an enclosing ResourceMap *)
| PSAttr       (* static.a.b *)
| PSItem       (* static['a']['b'] *)
| PGet         (* m.get('a/b')      -> the handle, nothing is loaded *)
| PSGet.       (* static.a.get('b') -> the handle, nothing is loaded *)

Inductive op :=
| OAccess (h : Z) (p : path) (fail : bool)
  (* fail: the harness scripted load() to raise if this access triggers a load *)
| OClear (h : Z)
| OCached (h : Z)
| OSwitch (h : Z) (cc cn : bool) (fail : bool).
  (* SimpleLoop.switch(h, clear_current=cc, clear_next=cn) of desper/loop.py:
     Loop.switch clears the current handle (if any) when cc, clears h when cn,
     makes h current and calls h(); SimpleLoop.switch calls h() again *)

(* what the harness observes after each operation:
   o_loads : how many times load() of that handle has run so far;
   o_flag  : access through a loading path: "the result is (identical to)
             the object returned by the most recent load() of this handle";
             PGet/PSGet: "the result is the handle object itself";
             OCached: the value of .cached;  OClear: true;
             OSwitch: "loop.current_world is the object of the most recent
             load of h" *)
Record obs := { o_loads : Z; o_flag : bool; o_exc : bool }.
(* o_loads counts load() ATTEMPTS (a load that raises is an attempt);
   o_exc: the operation raised the scripted load error (o_flag is then true
   by convention) *)

Definition trace := list (op * obs).

(* ---- model state: the fields of Handle, per handle --------------------- *)
Record hstate := {
  h_cached : bool;          (* _cached *)
  h_cache  : option Z;      (* _cache: serial of the load that produced it *)
  h_loads  : Z;             (* number of load() calls so far (the double's counter) *)
}.

Definition h_init := {| h_cached := false; h_cache := None; h_loads := 0 |}.
Definition hstates := list (Z * hstate).
Definition hget (s : hstates) (h : Z) : hstate :=
  match alookup h s with Some x => x | None => h_init end.
(* the handles, and Loop._current_world_handle *)
Record state := { st_h : hstates; st_cur : option Z }.
Definition st_init := {| st_h := []; st_cur := None |}.

(* Handle.__call__ : returns (new handle state, serial of the returned value,
   whether load() raised).  `self._cache = self.load(); self._cached = True`:
   when load raises neither field is assigned. *)
Definition call (x : hstate) (fail : bool) : hstate * option Z * bool :=
  if h_cached x then (x, h_cache x, false)
  else
    let n := h_loads x + 1 in            (* self.load() *)
    if fail then ({| h_cached := h_cached x; h_cache := h_cache x; h_loads := n |}, None, true)
    else
      let x' := {| h_cached := true; h_cache := Some n; h_loads := n |} in
      (x', h_cache x', false).

(* Handle.clear *)
Definition clear (x : hstate) : hstate :=
  {| h_cached := false; h_cache := None; h_loads := h_loads x |}.

Definition is_latest (x : hstate) (v : option Z) : bool :=
  match v with Some n => n =? h_loads x | None => false end.

Definition obs_ok (ob : obs) (x : hstate) (v : option Z) (raised : bool) : bool :=
  (o_loads ob =? h_loads x) && Bool.eqb (o_exc ob) raised &&
  Bool.eqb (o_flag ob) (if raised then true else is_latest x v).

(* one step: the code's result compared with the observation *)
Definition step (st : state) (o : op) (ob : obs) : option state :=
  let s := st_h st in
  match o with
  | OAccess h p fail =>
      let x := hget s h in
      match p with
      | PCall | PItem | PSAttr | PSItem =>
          let '(x', v, r) := call x fail in
          if obs_ok ob x' v r
          then Some {| st_h := aset h x' s; st_cur := st_cur st |} else None
      | PGet | PSGet =>
          if (o_loads ob =? h_loads x) && o_flag ob && negb (o_exc ob) then Some st else None
      end
  | OClear h =>
      let x' := clear (hget s h) in
      if (o_loads ob =? h_loads x') && o_flag ob && negb (o_exc ob)
      then Some {| st_h := aset h x' s; st_cur := st_cur st |} else None
  | OCached h =>
      let x := hget s h in
      if (o_loads ob =? h_loads x) && Bool.eqb (o_flag ob) (h_cached x) && negb (o_exc ob)
      then Some st else None
  | OSwitch h cc cn fail =>
      (* if clear_current and self._current_world_handle is not None: clear *)
      let s1 := match st_cur st with
                | Some c => if cc then aset c (clear (hget s c)) s else s
                | None => s end in
      (* if clear_next: world_handle.clear() *)
      let s2 := if cn then aset h (clear (hget s1 h)) s1 else s1 in
      (* self._current_world_handle = world_handle   (before the call) *)
      (* self._current_world = world_handle() ; world_handle().dispatch_enabled = True *)
      let '(x1, v1, r1) := call (hget s2 h) fail in
      if r1 then
        if obs_ok ob x1 v1 true then Some {| st_h := aset h x1 s2; st_cur := Some h |} else None
      else
        let '(x2, v, r2) := call x1 false in
        if obs_ok ob x2 v r2
        then Some {| st_h := aset h x2 s2; st_cur := Some h |} else None
  end.

Fixpoint run (s : state) (tr : trace) : option state :=
  match tr with
  | [] => Some s
  | (o, ob) :: tr => match step s o ob with Some s' => run s' tr | None => None end
  end.

Definition accepts (tr : trace) : bool :=
  match run st_init tr with Some _ => true | None => false end.

(* ---- the property, over observations only ------------------------------ *)
(* spec state per handle: number of loads seen, and whether an access has
   happened since the last clear *)
Definition shandles := list (Z * (Z * bool)).
Definition sget (s : shandles) (h : Z) : Z * bool :=
  match alookup h s with Some x => x | None => (0, false) end.
(* per handle (loads, accessed since last clear), and the handle the loop
   switched to last *)
Record sstate := { sp_h : shandles; sp_cur : option Z }.
Definition sp_init := {| sp_h := []; sp_cur := None |}.

Definition loading (p : path) : bool :=
  match p with PGet | PSGet => false | _ => true end.

Definition sclear (h : Z) (s : shandles) : shandles := aset h (fst (sget s h), false) s.

(* a loading access of a handle in spec state (n, since): what must be
   observed, and the next spec state of that handle *)
Definition spec_access (n : Z) (since fail : bool) (ob : obs) : option (Z * bool) :=
  if since then
    (* already loaded since the last clear: no load, no error, same object *)
    if (o_loads ob =? n) && o_flag ob && negb (o_exc ob) then Some (n, true) else None
  else
    (* the first access after a clear (or ever, or after a failed load) loads *)
    if fail then
      (* load() raised: the error reaches the caller, nothing is cached, the
         next access will load again *)
      if (o_loads ob =? n + 1) && o_flag ob && o_exc ob then Some (n + 1, false) else None
    else
      if (o_loads ob =? n + 1) && o_flag ob && negb (o_exc ob) then Some (n + 1, true) else None.

Definition spec_step (st : sstate) (o : op) (ob : obs) : option sstate :=
  let s := sp_h st in
  match o with
  | OAccess h p fail =>
      let '(n, since) := sget s h in
      if loading p then
        match spec_access n since fail ob with
        | Some y => Some {| sp_h := aset h y s; sp_cur := sp_cur st |}
        | None => None
        end
      else
        if (o_loads ob =? n) && o_flag ob && negb (o_exc ob) then Some st else None
  | OClear h =>
      let '(n, _) := sget s h in
      if (o_loads ob =? n) && o_flag ob && negb (o_exc ob)
      then Some {| sp_h := sclear h s; sp_cur := sp_cur st |} else None
  | OCached h =>
      (* cached tells whether the next access will NOT load *)
      let '(n, since) := sget s h in
      if (o_loads ob =? n) && Bool.eqb (o_flag ob) since && negb (o_exc ob) then Some st else None
  | OSwitch h cc cn fail =>
      (* a switch is: a clear of the handle being left (if asked and if there
         is one), a clear of the target (if asked), then an access of the
         target, which becomes the current handle (also when its load raises) *)
      let s1 := match sp_cur st with
                | Some c => if cc then sclear c s else s
                | None => s end in
      let s2 := if cn then sclear h s1 else s1 in
      let '(n, since) := sget s2 h in
      match spec_access n since fail ob with
      | Some y => Some {| sp_h := aset h y s2; sp_cur := Some h |}
      | None => None
      end
  end.

Fixpoint spec_run (s : sstate) (tr : trace) : option sstate :=
  match tr with
  | [] => Some s
  | (o, ob) :: tr => match spec_step s o ob with Some s' => spec_run s' tr | None => None end
  end.

Definition holds_b (tr : trace) : bool :=
  match spec_run sp_init tr with Some _ => true | None => false end.
Definition holds (tr : trace) : Prop := holds_b tr = true.

(* every finite trace is in the domain; no known finding for C12 *)
Definition wf_b (tr : trace) : bool := true.
Definition known_b (tr : trace) : bool := false.

Definition bit (b : bool) (n : nat) : nat := if b then n else 0%nat.
Definition C12_case := trace.
Definition C12_verdict (tr : C12_case) : nat :=
  (bit (wf_b tr) 1 + bit (known_b tr) 2 + bit (accepts tr) 4 + bit (holds_b tr) 8)%nat.
