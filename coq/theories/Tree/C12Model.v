(* C12 - a handle loads its resource at most once between clears.

   Model of desper/model/tree.py: Handle.__call__ / clear / cached and the
   access paths that reach a handle (ResourceMap.__getitem__ / get,
   StaticResourceMap.__getattribute__ / __getitem__ / get, Loop.switch of
   desper/loop.py).  Values are identified by the serial number of the load
   event that produced them; what the value *is* (None, 0, '', an object
   with unusual __eq__/__bool__) is an attribute of the case that the model
   provably never looks at (it is not even an input of [step]).

   Models only: no proofs in this file. *)
From Coq Require Import ZArith List Bool.
From Desper Require Import Lib.Alist.
Import ListNotations.
Open Scope Z_scope.

(* how the handle is reached *)
Inductive path :=
| PCall        (* h() *)
| PItem        (* m['a/b'] on an enclosing ResourceMap *)
| PSAttr       (* static.a.b *)
| PSItem       (* static['a']['b'] *)
| PGet         (* m.get('a/b')      -> the handle, nothing is loaded *)
| PSGet.       (* static.a.get('b') -> the handle, nothing is loaded *)

Inductive op :=
| OAccess (h : Z) (p : path)
| OClear (h : Z)
| OCached (h : Z)
| OSwitch (h : Z) (cc cn : bool).
  (* SimpleLoop.switch(h, clear_current=cc, clear_next=cn) of desper/loop.py:
     Loop.switch clears the current handle (if any) when cc, clears h when cn,
     makes h current and calls h(); SimpleLoop.switch calls h() again *)

(* what the harness observes after each operation:
   o_loads : how many times load() of that handle has run so far;
   o_flag  : access through a loading path: "the result is (identical to)
             the object returned by the most recent load() of this handle";
             PGet/PSGet: "the result is the handle object itself";
             OCached: the value of .cached;  OClear: true;
             OSwitch: "loop.current_world is the object of the most recent
             load of h" *)
Record obs := { o_loads : Z; o_flag : bool }.

Definition trace := list (op * obs).

(* ---- model state: the fields of Handle, per handle --------------------- *)
Record hstate := {
  h_cached : bool;          (* _cached *)
  h_cache  : option Z;      (* _cache: serial of the load that produced it *)
  h_loads  : Z;             (* number of load() calls so far (the double's counter) *)
}.

Definition h_init := {| h_cached := false; h_cache := None; h_loads := 0 |}.
Definition hstates := list (Z * hstate).
Definition hget (s : hstates) (h : Z) : hstate :=
  match alookup h s with Some x => x | None => h_init end.
(* the handles, and Loop._current_world_handle *)
Record state := { st_h : hstates; st_cur : option Z }.
Definition st_init := {| st_h := []; st_cur := None |}.

(* Handle.__call__ : returns (new handle state, serial of the returned value) *)
Definition call (x : hstate) : hstate * option Z :=
  if h_cached x then (x, h_cache x)
  else
    let n := h_loads x + 1 in            (* self.load() *)
    let x' := {| h_cached := true; h_cache := Some n; h_loads := n |} in
    (x', h_cache x').

(* Handle.clear *)
Definition clear (x : hstate) : hstate :=
  {| h_cached := false; h_cache := None; h_loads := h_loads x |}.

Definition is_latest (x : hstate) (v : option Z) : bool :=
  match v with Some n => n =? h_loads x | None => false end.

(* one step: the code's result compared with the observation *)
Definition step (st : state) (o : op) (ob : obs) : option state :=
  let s := st_h st in
  match o with
  | OAccess h p =>
      let x := hget s h in
      match p with
      | PCall | PItem | PSAttr | PSItem =>
          let '(x', v) := call x in
          if (o_loads ob =? h_loads x') && Bool.eqb (o_flag ob) (is_latest x' v)
          then Some {| st_h := aset h x' s; st_cur := st_cur st |} else None
      | PGet | PSGet =>
          if (o_loads ob =? h_loads x) && o_flag ob then Some st else None
      end
  | OClear h =>
      let x' := clear (hget s h) in
      if (o_loads ob =? h_loads x') && o_flag ob
      then Some {| st_h := aset h x' s; st_cur := st_cur st |} else None
  | OCached h =>
      let x := hget s h in
      if (o_loads ob =? h_loads x) && Bool.eqb (o_flag ob) (h_cached x)
      then Some st else None
  | OSwitch h cc cn =>
      (* if clear_current and self._current_world_handle is not None: clear *)
      let s1 := match st_cur st with
                | Some c => if cc then aset c (clear (hget s c)) s else s
                | None => s end in
      (* if clear_next: world_handle.clear() *)
      let s2 := if cn then aset h (clear (hget s1 h)) s1 else s1 in
      (* self._current_world = world_handle() ; world_handle().dispatch_enabled = True *)
      let '(x1, _) := call (hget s2 h) in
      let '(x2, v) := call x1 in
      if (o_loads ob =? h_loads x2) && Bool.eqb (o_flag ob) (is_latest x2 v)
      then Some {| st_h := aset h x2 s2; st_cur := Some h |} else None
  end.

Fixpoint run (s : state) (tr : trace) : option state :=
  match tr with
  | [] => Some s
  | (o, ob) :: tr => match step s o ob with Some s' => run s' tr | None => None end
  end.

Definition accepts (tr : trace) : bool :=
  match run st_init tr with Some _ => true | None => false end.

(* ---- the property, over observations only ------------------------------ *)
(* spec state per handle: number of loads seen, and whether an access has
   happened since the last clear *)
Definition shandles := list (Z * (Z * bool)).
Definition sget (s : shandles) (h : Z) : Z * bool :=
  match alookup h s with Some x => x | None => (0, false) end.
(* per handle (loads, accessed since last clear), and the handle the loop
   switched to last *)
Record sstate := { sp_h : shandles; sp_cur : option Z }.
Definition sp_init := {| sp_h := []; sp_cur := None |}.

Definition loading (p : path) : bool :=
  match p with PGet | PSGet => false | _ => true end.

Definition sclear (h : Z) (s : shandles) : shandles := aset h (fst (sget s h), false) s.

Definition spec_step (st : sstate) (o : op) (ob : obs) : option sstate :=
  let s := sp_h st in
  match o with
  | OAccess h p =>
      let '(n, since) := sget s h in
      if loading p then
        (* at most one load between clears; the first access after a clear
           loads; the result is the object of that one load *)
        let n' := if since then n else n + 1 in
        if (o_loads ob =? n') && o_flag ob
        then Some {| sp_h := aset h (n', true) s; sp_cur := sp_cur st |} else None
      else
        if (o_loads ob =? n) && o_flag ob then Some st else None
  | OClear h =>
      let '(n, _) := sget s h in
      if (o_loads ob =? n) && o_flag ob
      then Some {| sp_h := sclear h s; sp_cur := sp_cur st |} else None
  | OCached h =>
      (* cached tells whether the next access will NOT load *)
      let '(n, since) := sget s h in
      if (o_loads ob =? n) && Bool.eqb (o_flag ob) since then Some st else None
  | OSwitch h cc cn =>
      (* a switch is: a clear of the handle being left (if asked and if there
         is one), a clear of the target (if asked), then an access of the
         target, whose world becomes the current one *)
      let s1 := match sp_cur st with
                | Some c => if cc then sclear c s else s
                | None => s end in
      let s2 := if cn then sclear h s1 else s1 in
      let '(n, since) := sget s2 h in
      let n' := if since then n else n + 1 in
      if (o_loads ob =? n') && o_flag ob
      then Some {| sp_h := aset h (n', true) s2; sp_cur := Some h |} else None
  end.

Fixpoint spec_run (s : sstate) (tr : trace) : option sstate :=
  match tr with
  | [] => Some s
  | (o, ob) :: tr => match spec_step s o ob with Some s' => spec_run s' tr | None => None end
  end.

Definition holds_b (tr : trace) : bool :=
  match spec_run sp_init tr with Some _ => true | None => false end.
Definition holds (tr : trace) : Prop := holds_b tr = true.

(* every finite trace is in the domain; no known finding for C12 *)
Definition wf_b (tr : trace) : bool := true.
Definition known_b (tr : trace) : bool := false.

Definition bit (b : bool) (n : nat) : nat := if b then n else 0%nat.
Definition C12_case := trace.
Definition C12_verdict (tr : C12_case) : nat :=
  (bit (wf_b tr) 1 + bit (known_b tr) 2 + bit (accepts tr) 4 + bit (holds_b tr) 8)%nat.
