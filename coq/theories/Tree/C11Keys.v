(* C11 - keys as written: str.split(self.split_char).

   ResourceMap.get / __getitem__ / __setitem__ split the key on the
   split_char of the map the operation is called on (a class attribute that a
   subclass or an instance may override; maps created implicitly for
   intermediate key parts are plain ResourceMaps, separator '/').  Here a key
   is the list of its characters: a name (>= 0, one path component) or a
   separator (< 0); an operation on map m splits on m's separator.  Empty
   parts ('a//b', a leading or trailing separator) are the empty name.

   Models only: no proofs in this file. *)
From Coq Require Import ZArith List Bool.
From Desper Require Import Lib.Alist.
From Desper Require Export Tree.C11Model.
Import ListNotations.
Open Scope Z_scope.

Definition SLASH : Z := -1.          (* '/' *)
Definition EMPTY : name := 4.        (* the empty string as a name *)

(* key.split(sep) *)
Fixpoint split (sep : Z) (key : list Z) : list (list Z) :=
  match key with
  | [] => [[]]
  | c :: key' =>
      if c =? sep then [] :: split sep key'
      else match split sep key' with
           | seg :: rest => (c :: seg) :: rest
           | [] => [[c]]
           end
  end.

(* a part is the empty name or one name; a foreign separator inside a part
   is outside the domain *)
Definition seg_name (seg : list Z) : option name :=
  match seg with
  | [] => Some EMPTY
  | [n] => if (0 <=? n) && negb (n =? EMPTY) then Some n else None
  | _ => None
  end.
Fixpoint seg_names (l : list (list Z)) : option (list name) :=
  match l with
  | [] => Some []
  | seg :: l => match seg_name seg, seg_names l with
                | Some n, Some r => Some (n :: r)
                | _, _ => None
                end
  end.
Fixpoint split_last {A} (l : list A) : option (list A * A) :=
  match l with
  | [] => None
  | [x] => Some ([], x)
  | x :: l => match split_last l with Some (a, b) => Some (x :: a, b) | None => None end
  end.

(* the separator of a map: given for the maps the caller created, '/' for
   the maps __setitem__ creates (ids < 0) *)
Definition sep_of (seps : list (mid * Z)) (m : mid) : Z :=
  if m <? 0 then SLASH
  else match alookup m seps with Some c => c | None => SLASH end.

(* keys = key.split(self.split_char); last_key = keys[-1] *)
Definition key_path (seps : list (mid * Z)) (m : mid) (key : list Z) : option (list name * name) :=
  match seg_names (split (sep_of seps m) key) with
  | Some ns => split_last ns
  | None => None
  end.

Inductive rop :=
| ROSet (m : mid) (key : list Z) (v : ref)
| ROClear (m : mid)
| ROPush (m : mid).
Record rquery := RQ { rq_map : mid; rq_kind : qkind; rq_key : list Z }.
Record robs := ROBS {
  ro_maps : list (mid * mrec);
  ro_handles : list (hid * hrec);
  ro_queries : list (rquery * qres);
}.
Record C11_rcase := RCASE { rc_seps : list (mid * Z); rc_ops : list (rop * robs) }.

Definition cook_op (seps : list (mid * Z)) (o : rop) : option op :=
  match o with
  | ROSet m key v => match key_path seps m key with
                     | Some (pre, last) => Some (OSet m pre last v)
                     | None => None
                     end
  | ROClear m => Some (OClear m)
  | ROPush m => Some (OPush m)
  end.
Definition cook_query (seps : list (mid * Z)) (q : rquery * qres) : option (query * qres) :=
  match key_path seps (rq_map (fst q)) (rq_key (fst q)) with
  | Some (pre, last) => Some (Q (rq_map (fst q)) (rq_kind (fst q)) pre last, snd q)
  | None => None
  end.
Fixpoint all_some {A} (l : list (option A)) : option (list A) :=
  match l with
  | [] => Some []
  | Some x :: l => match all_some l with Some r => Some (x :: r) | None => None end
  | None :: _ => None
  end.
Definition cook_step (seps : list (mid * Z)) (x : rop * robs) : option (op * obs) :=
  match cook_op seps (fst x), all_some (map (cook_query seps) (ro_queries (snd x))) with
  | Some o, Some qs => Some (o, OBS (ro_maps (snd x)) (ro_handles (snd x)) qs)
  | _, _ => None
  end.
Definition cook (c : C11_rcase) : option C11_case :=
  all_some (map (cook_step (rc_seps c)) (rc_ops c)).

(* keys whose parts are names; then the domain, the model and the property
   of C11 on the operations the keys denote *)
Definition rwf_b (c : C11_rcase) : bool :=
  match cook c with Some c' => wf_b c' | None => false end.
Definition rknown_b (c : C11_rcase) : bool := false.
Definition raccepts (c : C11_rcase) : bool :=
  match cook c with Some c' => accepts c' | None => false end.
Definition rholds_b (c : C11_rcase) : bool :=
  match cook c with Some c' => holds_b c' | None => false end.
Definition rholds (c : C11_rcase) : Prop := rholds_b c = true.

Definition C11_rverdict (c : C11_rcase) : nat :=
  (bit (rwf_b c) 1 + bit (rknown_b c) 2 + bit (raccepts c) 4 + bit (rholds_b c) 8)%nat.
