(* C16: what one entry of the enumeration does to the columns of handles
   and to the set of sub-map paths of the populated map. *)
From Coq Require Import ZArith List Bool String Lia.
From Desper Require Import Lib.Alist Tree.C11Model Tree.C11Lemmas Tree.C11Inv Tree.C16Model
     Tree.C16Proofs Tree.C16Paths.
Import ListNotations.
Open Scope Z_scope.

(* what one new handle does to a column *)
Definition col_step (nest : bool) (col : list Z) (h : Z) : list Z :=
  if nest then h :: col else h :: List.tl col.

Definition col_rest (nest : bool) (col : list Z) : list Z :=
  if nest then col else List.tl col.
Lemma col_step_rest nest col h : col_step nest col h = h :: col_rest nest col.
Proof. unfold col_step, col_rest. destruct nest; reflexivity. Qed.

Lemma expected_col_snoc nest b n h :
  expected_col nest b (n ++ [h]) = col_step nest (expected_col nest b n) h.
Proof.
  unfold expected_col, col_step. destruct nest.
  - rewrite rev_app_distr. reflexivity.
  - rewrite last_last. destruct n as [|x n]; cbn [app]; [reflexivity|].
    destruct (n ++ [h]) eqn:E; [destruct n; discriminate|]. reflexivity.
Qed.

Lemma tl_col_none s x n : lay0 s x n = None -> column n (List.tl (m_layers (sm s x))) = ncol s x n.
Proof. intros H. rewrite (ncol_lay0 s x n), H. reflexivity. Qed.

Lemma tl_col_some s x n h0 :
  lay0 s x n = Some h0 -> ncol s x n = h0 :: column n (List.tl (m_layers (sm s x))).
Proof. intros H. rewrite (ncol_lay0 s x n), H. reflexivity. Qed.

Lemma firstn_snoc_len {A} (l : list A) x j : firstn j l <> l ++ [x].
Proof.
  intros H. apply (f_equal (@List.length A)) in H. rewrite app_length in H.
  change (List.length [x]) with 1%nat in H.
  rewrite firstn_length in H. lia.
Qed.

Section Keys.
  (* the keys of all files / the paths of all directories of the case *)
  Variables FK DK : list (list Z).
  Hypothesis Disj : forall k, In k FK -> In k DK -> False.

  Record QInv (st : pstate) : Prop := mkQInv {
    Q_p : PInv st;
    Q_root : RootNone (p_store st);
    Q_unused : forall c, p_nm st < c -> sm (p_store st) c = m_default;
    Q_ncf : forall p n, scol (p_store st) (p, n) <> [] -> In (p ++ [n]) FK;
    Q_ncd : forall p, walk (p_store st) 0 p <> None -> In p DK;
  }.

  Lemma clean_of_nc s : (forall p n, scol s (p, n) <> [] -> In (p ++ [n]) FK) ->
    forall pre done, (forall j, In (done ++ firstn j pre) DK) -> clean s done pre.
  Proof.
    intros HN. induction pre as [|k pre IH]; intros done HD; cbn [clean]; [exact I|].
    split.
    - destruct (scol s (done, k)) eqn:E; [reflexivity|]. exfalso.
      apply (Disj (done ++ [k])).
      + apply HN. rewrite E. discriminate.
      + exact (HD 1%nat).
    - apply IH. intros j. rewrite <- app_assoc. exact (HD (S j)).
  Qed.

  (* objects on a walk are the root, implicit maps or maps created so far *)
  Lemma walk_le st : PInv st -> forall q y, walk (p_store st) 0 q = Some y -> y <= p_nm st.
  Proof.
    intros [(used & sp & HI & _ & HB) _ Hnm _] q y HW.
    destruct (walk_child _ q 0 y HW) as [[_ ->]|(M & n & HC)]; [exact Hnm|].
    destruct (I_cm _ _ HI _ _ _ HC) as [_ A].
    destruct (Z_lt_le_dec y 0); [lia|]. specialize (HB _ (A l)). cbn in HB. lia.
  Qed.

  (* the conflict test: a new first layer exactly when the first layer of the
     map the key leads to holds the name *)
  Lemma nest_cases used s pre last :
    Inv used s -> LNE s -> walk s 0 (pre ++ [last]) = None ->
    exists s1, nest_step s (py_get s 0 pre last RNone) = inl s1 /\
      ((s1 = s /\ forall t, walk s 0 pre = Some t -> lay0 s t last = None) \/
       (exists t, walk s 0 pre = Some t /\ s1 = py_push s t)).
  Proof.
    intros HI HL HNo. rewrite walk_app in HNo. unfold py_get.
    destruct (walk s 0 pre) as [t|] eqn:EW.
    2:{ exists s. split; [reflexivity|]. left. split; [reflexivity|]. intros t; discriminate. }
    cbn [walk] in HNo.
    destruct (alookup last (m_maps (sm s t))) as [c|] eqn:EM; [discriminate|].
    destruct (cm_lookup last (m_layers (sm s t))) as [h0|] eqn:EC.
    - cbn [nest_step]. pose proof EC as EC'. apply cm_lookup_in in EC'.
      rewrite (I_bh _ _ HI t last h0 EC'). cbn [h_parent h_key].
      pose proof (HL t) as HT. unfold lay0.
      destruct (m_layers (sm s t)) as [|l0 ls] eqn:EL; [contradiction|].
      cbn [cm_lookup] in EC. destruct (alookup last l0) as [h1|] eqn:E0.
      + injection EC as ->. rewrite Z.eqb_refl. exists (py_push s t). split; [reflexivity|].
        right. exists t. auto.
      + exists s. split; [reflexivity|]. left. split; [reflexivity|].
        intros t' [= <-]. rewrite EL. exact E0.
    - exists s. split; [reflexivity|]. left. split; [reflexivity|].
      intros t' [= <-]. apply lay0_of_ncol. unfold ncol. now apply column_empty_lookup.
  Qed.

  (* no key of the set has its visible handle below the first layer *)
  Definition k8free (s : store) (K : list (list Z * Z)) : Prop :=
    forall p n, In (p, n) K -> forall t, walk s 0 p = Some t ->
                lay0 s t n = None -> ncol s t n = [].

  Lemma scol_walk s (p : list Z) (n : Z) t :
    walk s 0 p = Some t -> scol s (@pair (list Z) Z p n) = ncol s t n.
  Proof. intros H. unfold scol. cbn [fst snd]. now rewrite H. Qed.

  Lemma scol_nowalk s (p : list Z) (n : Z) :
    walk s 0 p = None -> scol s (@pair (list Z) Z p n) = [].
  Proof. intros H. unfold scol. cbn [fst snd]. now rewrite H. Qed.

  Lemma tl_col_eq a b x y n :
    ncol a x n = ncol b y n -> lay0 a x n = lay0 b y n ->
    column n (List.tl (m_layers (sm a x))) = column n (List.tl (m_layers (sm b y))).
  Proof.
    intros H1 H2. rewrite (ncol_lay0 a x n), (ncol_lay0 b y n), H2 in H1.
    now apply app_inv_head in H1.
  Qed.

  (* stage 1 of a file entry: the conflict test *)
  Lemma file_stage1 nest K st pre last :
    QInv st -> In (pre ++ [last]) FK ->
    (nest = false -> k8free (p_store st) K /\ In (pre, last) K) ->
    let s := p_store st in
    exists s1,
      (if nest then nest_step s (py_get s 0 pre last RNone) else inl s) = inl s1 /\
      PInv (PS s1 (p_nh st) (p_nm st) (p_log st) (p_exc st)) /\
      RootNone s1 /\
      (forall q, walk s1 0 q = walk s 0 q) /\
      (forall x n, ncol s1 x n = ncol s x n) /\
      (forall key, scol s1 key = scol s key) /\
      (forall c, p_nm st < c -> sm s1 c = m_default) /\
      (nest = false -> s1 = s) /\
      (forall t, walk s 0 pre = Some t ->
         col_rest nest (scol s (pre, last)) = column last (List.tl (m_layers (sm s1 t)))).
  Proof.
    intros [HP HRn HU HNF HND] HFK HK8. cbv zeta.
    set (s := p_store st) in *.
    assert (HNo : walk s 0 (pre ++ [last]) = None).
    { destruct (walk s 0 (pre ++ [last])) eqn:E; [|reflexivity]. exfalso.
      apply (Disj (pre ++ [last])); [exact HFK|]. apply HND. fold s. rewrite E. discriminate. }
    destruct nest.
    - (* nest_on_conflict *)
      pose proof HP as [(used & sp & HI & HR & HB) _ _ HL].
      destruct (nest_cases used s pre last HI HL HNo) as (s1 & E1 & [[-> HLay]|(t & HW & ->)]).
      + exists s. split; [exact E1|]. split; [destruct st; exact HP|]. split; [exact HRn|].
        split; [reflexivity|]. split; [reflexivity|]. split; [reflexivity|].
        split; [exact HU|]. split; [reflexivity|].
        intros t HW. unfold col_rest. rewrite (scol_walk s pre last t HW).
        symmetry. apply tl_col_none. now apply HLay.
      + destruct (push_paths s t) as (A1 & A2 & A3 & A4 & A5 & A6 & A7 & A8).
        exists (py_push s t). split; [exact E1|].
        split; [apply PInv_push; [exact HP|]; fold s; eapply walk_alloc; eauto|].
        split; [now apply A7|]. split; [exact A1|]. split; [exact A2|]. split; [exact A3|].
        split.
        { intros c Hc. rewrite A5; [now apply HU|].
          pose proof (walk_le st HP pre t HW). lia. }
        split; [discriminate|].
        intros t' HW'. rewrite HW in HW'. injection HW' as <-. unfold col_rest.
        rewrite A6. cbn [List.tl]. now rewrite (scol_walk s pre last t HW).
    - (* plain replacement *)
      destruct (HK8 eq_refl) as [HF HIn].
      exists s. split; [reflexivity|]. split; [destruct st; exact HP|]. split; [exact HRn|].
      split; [reflexivity|]. split; [reflexivity|]. split; [reflexivity|].
      split; [exact HU|]. split; [reflexivity|].
      intros t HW. unfold col_rest. rewrite (scol_walk s pre last t HW).
      destruct (lay0 s t last) as [h0|] eqn:E0.
      + rewrite (tl_col_some s t last h0 E0). reflexivity.
      + rewrite (HF pre last HIn t HW E0). rewrite (tl_col_none s t last E0).
        now rewrite (HF pre last HIn t HW E0).
  Qed.

  Lemma key_eqb_true (a b : list Z * Z) : key_eqb a b = true -> a = b.
  Proof.
    unfold key_eqb. destruct a as [p n], b as [q m]. cbn [fst snd]. intros H.
    apply andb_true_iff in H. destruct H as [H1 H2]. apply list_eqb_Z_eq in H1.
    apply Z.eqb_eq in H2. congruence.
  Qed.
  Lemma key_eqb_refl (a : list Z * Z) : key_eqb a a = true.
  Proof. unfold key_eqb. now rewrite list_eqb_refl_Z, Z.eqb_refl. Qed.

  (* a file of the enumeration whose extension the rule accepts *)
  Lemma file_step tbl root nest trim r K st e pre last :
    QInv st -> p_exc st = XNone -> e_kind e = KFile -> ext_ok r e = true ->
    entry_key tbl root trim e = Some (pre, last) ->
    In (pre ++ [last]) FK -> (forall j, In (firstn j pre) DK) ->
    (nest = false -> k8free (p_store st) K /\ In (pre, last) K) ->
    let st' := pop_entry tbl root nest trim r st e in
    QInv st' /\ p_exc st' = XNone /\
    (forall key, scol (p_store st') key =
                 if key_eqb key (pre, last)
                 then col_step nest (scol (p_store st) key) (p_nh st)
                 else scol (p_store st) key) /\
    (forall q x, walk (p_store st) 0 q = Some x -> walk (p_store st') 0 q = Some x) /\
    (forall q, walk (p_store st') 0 q <> None ->
               walk (p_store st) 0 q <> None \/ exists j, q = firstn j pre) /\
    (nest = false -> k8free (p_store st') K).
  Proof.
    intros HQ HX HKind HExt HKey HFK HDK HK8. cbv zeta.
    destruct (file_stage1 nest K st pre last HQ HFK HK8)
      as (s1 & E1 & HP1 & HRn1 & W1 & N1 & C1 & U1 & S1 & T1).
    pose proof HQ as [HP HRn HU HNF HND].
    set (s := p_store st) in *. set (h := p_nh st).
    (* the result of the entry *)
    assert (HSt : pop_entry tbl root nest trim r st e =
                  PS (py_setitem s1 0 pre last (RH h)) (h + 1) (p_nm st)
                     ((h, (e_comps e, r_sig r)) :: p_log st) XNone).
    { unfold pop_entry. rewrite HX, HExt, HKey, HKind. fold s. rewrite E1. reflexivity. }
    rewrite HSt. cbn [p_store p_exc].
    pose proof HP1 as [(used & sp & HI1 & HR1 & HB1) _ _ HL1]. cbn [p_store] in *.
    (* stage 2: the loop over the key parts *)
    assert (HCl : clean s1 [] pre).
    { apply (clean_ext s s1); [exact C1|].
      apply (clean_of_nc s HNF). exact HDK. }
    assert (HW0 : walk s1 0 [] = Some 0) by reflexivity.
    destruct (set_walk_paths used pre s1 sp [] 0 HI1 HR1 HRn1 HW0 HCl)
      as (I1 & (sp2 & I2) & I3 & I4 & I5 & I6 & I7 & I8 & I9 & I10).
    cbn [app] in I4, I6.
    set (s2 := fst (set_walk s1 0 pre)) in *. set (t1 := snd (set_walk s1 0 pre)) in *.
    assert (HNo : walk s 0 (pre ++ [last]) = None).
    { destruct (walk s 0 (pre ++ [last])) eqn:E; [|reflexivity]. exfalso.
      apply (Disj (pre ++ [last])); [exact HFK|]. apply HND. fold s. rewrite E. discriminate. }
    assert (HN2 : alookup last (m_maps (sm s2 t1)) = None).
    { destruct (alookup last (m_maps (sm s2 t1))) as [c|] eqn:E; [|reflexivity]. exfalso.
      assert (HWc : walk s2 0 (pre ++ [last]) = Some c).
      { rewrite walk_app, I4. cbn [walk]. now rewrite E. }
      destruct (I6 _ _ HWc) as [A|(_ & _ & (j & A) & _)].
      - rewrite W1 in A. congruence.
      - symmetry in A. now apply firstn_snoc_len in A. }
    destruct (set_handle_paths used s2 pre t1 last h I1 I3 I4 HN2)
      as (J1 & J2 & J3 & J4 & J5 & J6).
    rewrite py_setitem_eq. fold s2 t1. set (s3 := set_final s2 t1 last (RH h)) in *.
    assert (HS2 : forall key, scol s2 key = scol s1 key).
    { apply scol_transfer; auto. intros q x Hq.
      destruct (I6 q x Hq) as [A|(A & _ & _ & B)]; auto. }
    (* the new column *)
    assert (HTop : column last (List.tl (m_layers (sm s2 t1))) = col_rest nest (scol s (pre, last))).
    { destruct (walk s 0 pre) as [t|] eqn:EW.
      - assert (Ht : t1 = t).
        { pose proof (I5 pre t) as A. rewrite W1 in A. specialize (A EW). congruence. }
        rewrite Ht, (T1 t eq_refl). apply tl_col_eq; [apply I7|apply I8].
      - destruct (I6 pre t1 I4) as [A|(_ & _ & _ & B)]; [rewrite W1 in A; congruence|].
        rewrite (scol_nowalk s pre last EW).
        assert (column last (List.tl (m_layers (sm s2 t1))) = []).
        { specialize (B last). rewrite ncol_lay0 in B. now apply app_eq_nil in B. }
        rewrite H. unfold col_rest. destruct nest; reflexivity. }
    assert (HCol : forall key, scol s3 key =
              if key_eqb key (pre, last) then col_step nest (scol s key) h else scol s key).
    { intros key. rewrite J2.
      destruct (key_eqb key (@pair (list Z) Z pre last)) eqn:EK.
      - apply key_eqb_true in EK. subst key.
        change (key_eqb (pre, last) (pre, last)) with
          (key_eqb (@pair (list Z) Z pre last) (@pair (list Z) Z pre last)).
        rewrite ?key_eqb_refl, col_step_rest. f_equal. exact HTop.
      - change (key_eqb key (pre, last)) with (key_eqb key (@pair (list Z) Z pre last)).
        rewrite ?EK. now rewrite HS2, C1. }
    assert (HOld : forall q x, walk s 0 q = Some x -> walk s3 0 q = Some x).
    { intros q x Hq. rewrite J1. apply I5. now rewrite W1. }
    assert (HNew : forall q, walk s3 0 q <> None ->
                             walk s 0 q <> None \/ exists j, q = firstn j pre).
    { intros q Hq. rewrite J1 in Hq. destruct (walk s2 0 q) as [x|] eqn:E; [|congruence].
      destruct (I6 q x E) as [A|(_ & _ & A & _)]; [left; rewrite <- W1; congruence|now right]. }
    split; [|split; [reflexivity|split; [exact HCol|split; [exact HOld|split; [exact HNew|]]]]].
    - (* the invariant *)
      constructor; cbn [p_store p_nm].
      + pose proof (PInv_set_handle (PS s1 (p_nh st) (p_nm st) (p_log st) (p_exc st)) pre last
                                    ((h, (e_comps e, r_sig r)) :: p_log st) XNone HP1) as A.
        cbn [p_store p_nh p_nm] in A. rewrite py_setitem_eq in A. exact A.
      + exact J4.
      + intros c Hc.
        assert (Ht1 : t1 <= p_nm st).
        { assert (HPI : PInv (PS s2 (p_nh st) (p_nm st) (p_log st) (p_exc st))).
          { destruct HP1 as [_ A B _]. constructor; cbn; auto.
            - exists used, sp2. split; [exact I1|]. split; [exact I2|]. exact HB1.
            - now apply set_walk_lne. }
          exact (walk_le _ HPI pre t1 I4). }
        rewrite J5 by lia.
        rewrite (I9 (p_nm st)); [now apply U1| |exact (walk_le _ HP1)|exact Hc].
        destruct HP as [_ _ A _]. exact A.
      + intros p n Hne. rewrite HCol in Hne. destruct (key_eqb (p, n) (pre, last)) eqn:EK.
        * apply key_eqb_true in EK. injection EK as -> ->. exact HFK.
        * now apply HNF.
      + intros p Hp. destruct (HNew p Hp) as [A|(j & ->)]; [now apply HND|apply HDK].
    - (* nothing below a first layer, for plain replacement *)
      intros Hnest. destruct (HK8 Hnest) as [HF _]. specialize (S1 Hnest). subst s1.
      intros p n HIn t Hw Hl. rewrite J1 in Hw. rewrite J3 in Hl. rewrite J6.
      destruct ((t =? t1) && (n =? last)); [discriminate|].
      rewrite I8 in Hl. rewrite I7.
      destruct (I6 p t Hw) as [A|(_ & _ & _ & B)].
      + exact (HF p n HIn t A Hl).
      + rewrite <- I7. apply B.
  Qed.

  Lemma firstn_pre_app {A} (pre : list A) x j :
    exists j', firstn j pre = firstn j' (pre ++ [x]).
  Proof.
    exists (Nat.min j (List.length pre)). rewrite firstn_app.
    replace (Nat.min j (List.length pre) - List.length pre)%nat with 0%nat by lia.
    cbn [firstn]. rewrite app_nil_r.
    destruct (Nat.le_ge_cases j (List.length pre)).
    - now rewrite Nat.min_l.
    - rewrite Nat.min_r by assumption. now rewrite !firstn_all2 by lia.
  Qed.

  (* a directory of the enumeration that passes the filter *)
  Lemma dir_step tbl root nest trim r K st e pre last :
    QInv st -> p_exc st = XNone -> e_kind e = KDir -> ext_ok r e = true ->
    entry_key tbl root trim e = Some (pre, last) ->
    (forall j, In (firstn j (pre ++ [last])) DK) ->
    let st' := pop_entry tbl root nest trim r st e in
    QInv st' /\ p_exc st' = XNone /\ p_log st' = p_log st /\
    (forall key, scol (p_store st') key = scol (p_store st) key) /\
    (forall q x, walk (p_store st) 0 q = Some x -> walk (p_store st') 0 q = Some x) /\
    (forall q, walk (p_store st') 0 q <> None ->
               walk (p_store st) 0 q <> None \/ exists j, q = firstn j (pre ++ [last])) /\
    (k8free (p_store st) K -> k8free (p_store st') K).
  Proof.
    intros HQ HX HKind HExt HKey HDK. cbv zeta.
    pose proof HQ as [HP HRn HU HNF HND].
    set (s := p_store st) in *.
    unfold pop_entry. rewrite HX, HExt, HKey, HKind. fold s.
    destruct (py_get s 0 pre last RNone) eqn:EG;
      try (split; [exact HQ|]; split; [exact HX|]; split; [reflexivity|];
           split; [reflexivity|]; split; [auto|]; split; [auto|]; auto).
    (* get found nothing: a new sub-map is stored *)
    cbn [p_store p_exc p_log].
    pose proof HP as [(used & sp & HI & HR & HB) Hnh Hnm HL].
    assert (HDKpre : forall j, In (firstn j pre) DK).
    { intros j. destruct (firstn_pre_app pre last j) as (j' & ->). apply HDK. }
    assert (HCl : clean s [] pre) by (apply (clean_of_nc s HNF); exact HDKpre).
    assert (HW0 : walk s 0 [] = Some 0) by reflexivity.
    destruct (set_walk_paths used pre s sp [] 0 HI HR HRn HW0 HCl)
      as (I1 & (sp2 & I2) & I3 & I4 & I5 & I6 & I7 & I8 & I9 & I10).
    cbn [app] in I4, I6.
    set (s2 := fst (set_walk s 0 pre)) in *. set (t1 := snd (set_walk s 0 pre)) in *.
    assert (HS2 : forall key, scol s2 key = scol s key).
    { apply scol_transfer; auto. intros q x Hq.
      destruct (I6 q x Hq) as [A|(A & _ & _ & B)]; auto. }
    (* the key itself holds no handle and is not yet a map *)
    assert (HC0 : scol s (@pair (list Z) Z pre last) = []).
    { destruct (scol s (@pair (list Z) Z pre last)) eqn:E; [reflexivity|]. exfalso.
      apply (Disj (pre ++ [last])).
      - apply HNF. rewrite E. discriminate.
      - rewrite <- (firstn_all (pre ++ [last])). apply HDK. }
    assert (HNo : walk s 0 (pre ++ [last]) = None).
    { unfold py_get in EG. rewrite walk_app. destruct (walk s 0 pre) as [t|]; [|reflexivity].
      cbn [walk]. destruct (cm_lookup last (m_layers (sm s t))); [discriminate|].
      destruct (alookup last (m_maps (sm s t))); [discriminate|reflexivity]. }
    assert (HN2 : alookup last (m_maps (sm s2 t1)) = None).
    { destruct (alookup last (m_maps (sm s2 t1))) as [c|] eqn:E; [|reflexivity]. exfalso.
      assert (HWc : walk s2 0 (pre ++ [last]) = Some c).
      { rewrite walk_app, I4. cbn [walk]. now rewrite E. }
      destruct (I6 _ _ HWc) as [A|(_ & _ & (j & A) & _)].
      - congruence.
      - symmetry in A. now apply firstn_snoc_len in A. }
    assert (HC2 : ncol s2 t1 last = []).
    { rewrite <- (scol_walk s2 pre last t1 I4), HS2. exact HC0. }
    assert (HPI2 : PInv (PS s2 (p_nh st) (p_nm st) (p_log st) (p_exc st))).
    { constructor; cbn; auto.
      - exists used, sp2. split; [exact I1|]. split; [exact I2|]. exact HB.
      - now apply set_walk_lne. }
    assert (Ht1 : t1 <= p_nm st) by exact (walk_le _ HPI2 pre t1 I4).
    set (c := p_nm st + 1).
    assert (Hcd : sm s2 c = m_default).
    { rewrite (I9 (p_nm st)); [apply HU; unfold c; lia|exact Hnm|exact (walk_le _ HP)|unfold c; lia]. }
    assert (HNC : forall M n, ~ child_m s2 M n c).
    { intros M n HCh. destruct (I_cm _ _ I1 _ _ _ HCh) as [_ A].
      assert (0 <= c) by (unfold c; lia). specialize (HB _ (A H)). cbn in HB. unfold c in HB. lia. }
    assert (Hct : c <> t1) by (unfold c; lia).
    assert (Hc0 : c <> 0) by (unfold c; lia).
    destruct (set_map_paths used s2 pre t1 last c I1 I3 I4 HN2 HC2 Hcd HNC Hct Hc0)
      as (J1 & J2 & J3 & J4 & J5 & J6 & J7 & J8).
    rewrite py_setitem_eq. fold s2 t1. set (s3 := set_final s2 t1 last (RM c)) in *.
    assert (HS3 : forall key, scol s3 key = scol s key).
    { intros key. rewrite <- HS2. apply scol_transfer; auto. intros q x Hq.
      destruct (J2 q x Hq) as [A|(_ & A & ->)]; [now left|]. right. split; [exact A|].
      intros n. rewrite J4. unfold ncol. now rewrite Hcd. }
    assert (HNew : forall q, walk s3 0 q <> None ->
                             walk s 0 q <> None \/ exists j, q = firstn j (pre ++ [last])).
    { intros q Hq. destruct (walk s3 0 q) as [x|] eqn:E; [|congruence].
      destruct (J2 q x E) as [A|(-> & _ & _)].
      - destruct (I6 q x A) as [B|(_ & _ & (j & ->) & _)]; [left; congruence|].
        right. apply firstn_pre_app.
      - right. exists (List.length (pre ++ [last])). now rewrite firstn_all. }
    split; [|split; [reflexivity|split; [reflexivity|split; [exact HS3|
            split; [intros q x Hq; apply J1, I5, Hq|split; [exact HNew|]]]]]].
    - constructor; cbn [p_store p_nm].
      + pose proof (PInv_set_map st pre last HP) as A. fold s c in A.
        rewrite py_setitem_eq in A. exact A.
      + exact J6.
      + intros x Hx. rewrite J7 by (unfold c in *; lia).
        rewrite (I9 (p_nm st)); [apply HU; lia|exact Hnm|exact (walk_le _ HP)|lia].
      + intros p n Hne. rewrite HS3 in Hne. now apply HNF.
      + intros p Hp. destruct (HNew p Hp) as [A|(j & ->)]; [now apply HND|apply HDK].
    - intros HF p n HIn t Hw Hl. rewrite J5 in Hl. rewrite J4.
      destruct (J2 p t Hw) as [A|(_ & _ & ->)].
      + rewrite I8 in Hl. rewrite I7. destruct (I6 p t A) as [B|(_ & _ & _ & B)].
        * exact (HF p n HIn t B Hl).
        * rewrite <- I7. apply B.
      + unfold ncol. now rewrite Hcd.
  Qed.
End Keys.
