(* C16: every accepted well-formed case outside the known findings satisfies
   the whole property. *)
From Coq Require Import ZArith List Bool String Lia.
From Desper Require Import Lib.Alist Tree.C11Model Tree.C11Lemmas Tree.C11Inv Tree.C16Model
     Tree.C16Proofs Tree.C16Log Tree.C16Main Tree.C16Paths Tree.C16Full Tree.C16Call
     Tree.C16Bridge Tree.C16Static.
Import ListNotations.
Open Scope Z_scope.

Lemma expected_col_nil nest b : expected_col nest b [] = b.
Proof. unfold expected_col. destruct nest; reflexivity. Qed.

Lemma news_of_newsL tbl c key :
  news_of tbl c key = newsL tbl (k_root c) (eff_trim c) key (k_log c).
Proof.
  unfold news_of, newsL. apply flat_map_ext. intros [h [comps sg]]. reflexivity.
Qed.

Section Full.
  Variable tbl : list (string * Z).
  Variables FK DK : list (list Z).
  Hypothesis Disj : forall k, In k FK -> In k DK -> False.
  Hypothesis DKclosed : forall p f, In p DK -> is_prefix f p = true -> In f DK.

  Lemma proper_prefix_snoc a pre last :
    proper_prefix a (pre ++ [last]) = true -> exists j, a = firstn j pre.
  Proof.
    unfold proper_prefix. intros H. apply andb_true_iff in H. destruct H as [H1 H2].
    pose proof (is_prefix_firstn _ _ H1) as E. exists (List.length a).
    rewrite E at 1. rewrite firstn_app.
    assert (HL : (List.length a <= List.length pre)%nat).
    { destruct (Nat.le_gt_cases (List.length a) (List.length pre)) as [|HG]; [assumption|].
      exfalso. assert (List.length (pre ++ [last]) <= List.length a)%nat.
      { rewrite app_length. cbn. lia. }
      rewrite firstn_all2 in E by assumption. subst a.
      rewrite list_eqb_refl_Z in H2. discriminate. }
    replace (List.length a - List.length pre)%nat with 0%nat by lia.
    cbn [firstn]. now rewrite app_nil_r.
  Qed.

  Lemma QInv_reset st :
    QInv FK DK st -> QInv FK DK (PS (p_store st) (p_nh st) (p_nm st) [] XNone).
  Proof.
    intros [[P1 P2 P3 P4] A B C D]. constructor; auto. constructor; auto.
  Qed.

  Lemma call_ok_full st c st' prev :
    QInv FK DK st -> tree_match (p_store st) 0 prev = true ->
    call_wf tbl c = true -> k7_call c = false -> k8_call tbl prev c = false ->
    (forall k, In k (file_keys tbl c) -> In k FK) ->
    (forall k, In k (dir_keys tbl c) -> In k DK) ->
    call_ok tbl st c = Some st' ->
    QInv FK DK st' /\ tree_match (p_store st') 0 (k_tree c) = true /\
    call_holds tbl prev (p_nh st) c = true /\
    p_nh st' = p_nh st + Z.of_nat (List.length (k_log c)).
  Proof.
    intros HQ HM0 HW HK7 HK8 HFK HDK HOK.
    destruct (call_ok_core tbl st c st' (Q_p _ _ _ HQ) HW HK7 HOK) as (_ & HCore & HNh).
    unfold call_ok in HOK. set (st1 := pop_call tbl st c) in *.
    destruct (exc_eqb (k_exc c) (p_exc st1) && log_eqb (k_log c) (rev (p_log st1)) &&
              tree_match (p_store st1) 0 (k_tree c)) eqn:HB; [|discriminate].
    injection HOK as <-.
    apply andb_true_iff in HB. destruct HB as [HB HM1].
    apply andb_true_iff in HB. destruct HB as [_ HL]. apply log_eqb_eq in HL.
    set (s0 := p_store st) in *.
    set (K := keysK tbl c). set (AM := allowed_maps tbl c).
    (* the invariant of the call, at its start *)
    assert (HC0 : CInv FK DK tbl (k_root c) (eff_nest c) (eff_trim c) AM K s0
                       (PS (p_store st) (p_nh st) (p_nm st) [] XNone)).
    { constructor; cbn [p_store p_log rev].
      - now apply QInv_reset.
      - intros key. unfold newsL. cbn [flat_map]. now rewrite expected_col_nil.
      - auto.
      - intros q Hq. now left.
      - intros Hn p n HIn t Hw Hl.
        unfold k8_call in HK8. rewrite Hn in HK8. cbn [negb andb] in HK8.
        unfold K, keysK in HIn. apply in_flat_map in HIn. destruct HIn as (x & Hx & Hk).
        destruct (snd x) as [k|] eqn:Ex; [|destruct Hk]. destruct Hk as [->|[]].
        assert (HT : top_below_first prev (p, n) = false).
        { destruct (top_below_first prev (p, n)) eqn:ET; [|reflexivity].
          assert (existsb (fun x => match snd x with
                                    | Some k => top_below_first prev k | None => false end)
                          (accepted_files tbl c) = true).
          { apply existsb_exists. exists x. split; [exact Hx|]. now rewrite Ex. }
          congruence. }
        exact (bridge_k8 s0 prev (p, n) HM0 HT t Hw Hl). }
    pose proof HW as HW'. unfold call_wf in HW'. apply andb_true_iff in HW'.
    destruct HW' as [_ HF].
    assert (HG : good_rules FK DK tbl (k_root c) (eff_trim c) AM K
                            (k_rules c) (k_truth c) (k_seqs c)).
    { apply (good_rules_of_wf tbl c FK DK HFK HDK); auto. }
    pose proof (rules_inv FK DK Disj tbl (k_root c) (eff_nest c) (eff_trim c) AM K s0
                          (k_rules c) (k_truth c) (k_seqs c) _ HC0 eq_refl HG) as HC1.
    fold (pop_call tbl st c) in HC1. fold st1 in HC1.
    destruct HC1 as [HQ1 HCol HOld HNew _].
    split; [exact HQ1|]. split; [exact HM1|]. split; [|exact HNh].
    (* the clauses of the property *)
    unfold call_holds_core in HCore.
    apply andb_true_iff in HCore. destruct HCore as [HCore K5].
    apply andb_true_iff in HCore. destruct HCore as [HCore K4].
    apply andb_true_iff in HCore. destruct HCore as [HCore K3].
    apply andb_true_iff in HCore. destruct HCore as [K1 K2].
    assert (HSt : forall pre last, In (pre, last) (accepted_keys tbl c) ->
                  In (pre ++ [last]) FK /\ forall j, In (firstn j pre) DK).
    { intros pre last HIn. apply (accepted_key_static tbl c FK DK HFK HDK); auto.
      cbn [forallb]. now rewrite HW. }
    assert (HAfk : forall f, In f (map kpath (accepted_keys tbl c)) ->
                   In f FK /\ exists pre last, f = pre ++ [last] /\ forall j, In (firstn j pre) DK).
    { intros f Hf. apply in_map_iff in Hf. destruct Hf as ([pre last] & <- & Hf).
      destruct (HSt pre last Hf) as [A B]. split; [exact A|]. exists pre, last. auto. }
    unfold call_holds. rewrite K1, K2, K3, K4, K5. cbn [andb]. rewrite andb_true_r.
    apply andb_true_iff; split; [apply andb_true_iff; split; [apply andb_true_iff; split|]|].
    - apply forallb_forall. intros key _. unfold col_ok.
      rewrite (bridge_col _ _ HM1 key), (bridge_col _ _ HM0 key), news_of_newsL, HL.
      fold s0. rewrite <- HCol.
      destruct (existsb (fun f => proper_prefix (kpath key) f) (map kpath (accepted_keys tbl c)) ||
                existsb (fun f => is_prefix f (fst key)) (map kpath (accepted_keys tbl c)))
        eqn:EKill.
      + destruct (scol (p_store st1) key) as [|h0 col] eqn:ES; [reflexivity|]. exfalso.
        destruct key as [p n].
        assert (HFp : In (p ++ [n]) FK).
        { apply (Q_ncf _ _ _ HQ1). rewrite ES. discriminate. }
        apply orb_true_iff in EKill. destruct EKill as [EK|EK];
          apply existsb_exists in EK; destruct EK as (f & Hf & HP);
          destruct (HAfk f Hf) as (HfF & pre & last & -> & HfD).
        * unfold kpath in HP. cbn [fst snd] in HP.
          destruct (proper_prefix_snoc _ _ _ HP) as (j & E). apply (Disj (p ++ [n])); auto.
          rewrite E. apply HfD.
        * cbn [fst] in HP. apply (Disj (pre ++ [last])); auto.
          apply (DKclosed p); auto. apply (Q_ncd _ _ _ HQ1).
          unfold scol in ES. cbn [fst snd] in ES. destruct (walk (p_store st1) 0 p); [|discriminate].
          discriminate.
      + destruct (existsb (list_eqb Z.eqb (kpath key)) (allowed_maps tbl c));
          rewrite list_eqb_refl_Z; [apply orb_true_r|reflexivity].
    - apply forallb_forall. intros p Hp. apply orb_true_iff. right. apply (bridge_map _ _ HM1).
      pose proof (omaps_store s0 prev 0 p HM0 Hp) as Hw.
      destruct (walk s0 0 p) as [x|] eqn:E; [|congruence]. rewrite (HOld p x E). discriminate.
    - apply forallb_forall. intros p Hp.
      pose proof (omaps_store _ _ 0 p HM1 Hp) as Hw.
      destruct (HNew p Hw) as [A|A].
      + apply (bridge_map _ _ HM0) in A. now rewrite A.
      + apply orb_true_iff. right. apply existsb_exists. exists p. split; [exact A|].
        apply list_eqb_refl_Z.
    - apply forallb_forall. intros p Hp. apply negb_true_iff.
      destruct (existsb (fun f => is_prefix f p) (map kpath (accepted_keys tbl c))) eqn:EX;
        [|reflexivity]. exfalso.
      apply existsb_exists in EX. destruct EX as (f & Hf & HP).
      destruct (HAfk f Hf) as (HfF & _). apply (Disj f); auto.
      apply (DKclosed p); auto. apply (Q_ncd _ _ _ HQ1). exact (omaps_store _ _ 0 p HM1 Hp).
  Qed.

  Lemma run_calls_full cs : forall st prev,
    QInv FK DK st -> tree_match (p_store st) 0 prev = true ->
    forallb (call_wf tbl) cs = true -> known_from tbl prev cs = false ->
    (forall c, In c cs -> (forall k, In k (file_keys tbl c) -> In k FK) /\
                          (forall k, In k (dir_keys tbl c) -> In k DK)) ->
    run_calls tbl st cs = true -> holds_from tbl prev (p_nh st) cs = true.
  Proof.
    induction cs as [|c cs IH]; intros st prev HQ HM HW HK HIn HR; [reflexivity|].
    cbn [forallb] in HW. apply andb_true_iff in HW. destruct HW as [HW1 HW2].
    cbn [known_from] in HK. apply orb_false_iff in HK. destruct HK as [HK HK3].
    apply orb_false_iff in HK. destruct HK as [HK1 HK2].
    cbn [run_calls] in HR. destruct (call_ok tbl st c) as [st'|] eqn:E; [|discriminate].
    destruct (HIn c (or_introl eq_refl)) as [HF HD].
    destruct (call_ok_full st c st' prev HQ HM HW1 HK1 HK2 HF HD E) as (A & B & C & D).
    cbn [holds_from]. rewrite C. cbn [andb]. rewrite <- D.
    apply (IH st' (k_tree c)); auto. intros c' Hc'. apply HIn. now right.
  Qed.
End Full.

Lemma QInv_init FK DK : In [] DK -> QInv FK DK ps_init.
Proof.
  intros HD. constructor; cbn [ps_init p_store p_nm].
  - exact PInv_init.
  - reflexivity.
  - reflexivity.
  - intros p n H. exfalso. apply H. unfold scol. cbn [fst snd].
    destruct (walk st_init 0 p); reflexivity.
  - intros p Hp. destruct p as [|k p]; [exact HD|]. cbn in Hp. congruence.
Qed.

Lemma file_keys_nonempty tbl c : ~ In [] (file_keys tbl c).
Proof.
  unfold file_keys. intros H. apply in_flat_map in H. destruct H as (t & _ & H).
  destruct t as [| |truth]; [destruct H|destruct H|].
  apply in_flat_map in H. destruct H as (e & _ & H).
  destruct (e_kind e); try destruct H.
  destruct (entry_key tbl (k_root c) (eff_trim c) e) as [[pre last]|]; [|destruct H].
  destruct H as [H|[]]. destruct pre; discriminate.
Qed.

Theorem accepts_holds_noclash c :
  wf_b c = true -> noclash_b c = true -> known_b c = false -> accepts c = true -> holds c.
Proof.
  unfold wf_b, noclash_b, known_b, accepts, holds, holds_b. intros HW HD HK HA.
  apply andb_true_iff in HW. destruct HW as [HW _].
  apply andb_true_iff in HW. destruct HW as [_ HWc].
  set (tbl := c_names c) in *.
  set (FK := flat_map (file_keys tbl) (c_calls c)) in *.
  set (DK := [] :: flat_map (dir_keys tbl) (c_calls c)).
  assert (Disj : forall k, In k FK -> In k DK -> False).
  { intros k HF [<-|HDk].
    - unfold FK in HF. apply in_flat_map in HF. destruct HF as (c0 & _ & HF).
      now apply file_keys_nonempty in HF.
    - rewrite forallb_forall in HD. specialize (HD k HF). apply negb_true_iff in HD.
      assert (existsb (list_eqb Z.eqb k) (flat_map (dir_keys tbl) (c_calls c)) = true).
      { apply existsb_exists. exists k. split; [exact HDk|apply list_eqb_refl_Z]. }
      congruence. }
  assert (DKclosed : forall p f, In p DK -> is_prefix f p = true -> In f DK).
  { intros p f [<-|HI] HP.
    - destruct f; [now left|discriminate].
    - right. apply in_flat_map in HI. destruct HI as (c0 & Hc0 & HI). apply in_flat_map.
      exists c0. split; [exact Hc0|]. eapply dir_keys_closed; eauto. }
  apply (run_calls_full tbl FK DK Disj DKclosed (c_calls c) ps_init o_empty); auto.
  - apply QInv_init. now left.
  - intros c0 Hc0. split; intros k Hk.
    + unfold FK. apply in_flat_map. eauto.
    + right. apply in_flat_map. eauto.
Qed.
