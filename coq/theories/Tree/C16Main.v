(* C16: the clauses of the property proved for all cases. *)
From Coq Require Import ZArith List Bool String Ascii Lia Permutation.
From Desper Require Import Lib.Alist Tree.C11Model Tree.C11Lemmas Tree.C11Inv
     Tree.C16Model Tree.C16Proofs Tree.C16Log.
Import ListNotations.
Open Scope Z_scope.

Lemma exc_eqb_eq a b : exc_eqb a b = true -> a = b.
Proof. destruct a, b; cbn; congruence. Qed.

Lemma log_eqb_eq a : forall b, log_eqb a b = true -> a = b.
Proof.
  unfold log_eqb. induction a as [|x a IH]; intros [|y b]; cbn [list_eqb]; try discriminate; auto.
  intros H. apply andb_true_iff in H. destruct H as [H1 H2].
  apply andb_true_iff in H1. destruct H1 as [H1 H3].
  apply andb_true_iff in H1. destruct H1 as [H1 H4].
  apply Z.eqb_eq in H1. apply Z.eqb_eq in H3. apply str_list_eqb_eq in H4.
  destruct x as [h [p sg]], y as [h' [p' sg']]. cbn [fst snd] in *. subst.
  now rewrite (IH b H2).
Qed.

Lemma call_ok_core tbl st c st' :
  PInv st -> call_wf tbl c = true -> k7_call c = false -> call_ok tbl st c = Some st' ->
  PInv st' /\ call_holds_core tbl (p_nh st) c = true /\
  p_nh st' = p_nh st + Z.of_nat (List.length (k_log c)).
Proof.
  intros HP HW HK7. unfold call_ok.
  set (st1 := pop_call tbl st c).
  destruct (exc_eqb (k_exc c) (p_exc st1) && log_eqb (k_log c) (rev (p_log st1)) &&
            tree_match (p_store st1) 0 (k_tree c)) eqn:HB; [|discriminate].
  intros [= <-].
  apply andb_true_iff in HB. destruct HB as [HB HT].
  apply andb_true_iff in HB. destruct HB as [HE HL].
  pose proof HW as HW'. unfold call_wf in HW'. apply andb_true_iff in HW'.
  destruct HW' as [_ HF].
  assert (HP0 : PInv (PS (p_store st) (p_nh st) (p_nm st) [] XNone)).
  { destruct HP as [A B C D]. constructor; auto. }
  assert (HL0 : LogOK (p_nh st) (PS (p_store st) (p_nh st) (p_nm st) [] XNone)).
  { split; cbn; [reflexivity|lia]. }
  destruct (pop_rules_ok tbl c (eff_nest c) (p_nh st) (k_rules c) (k_truth c) (k_seqs c)
                         _ HP0 HL0 (or_introl eq_refl) HF) as (A & [B1 B2] & C).
  pose proof (pop_rules_log tbl c (eff_nest c) (p_nh st) (k_rules c) (k_truth c) (k_seqs c)
                            _ HP0 HL0 eq_refl HF) as HLog.
  fold (pop_call tbl st c) in A, B1, B2, C, HLog. fold st1 in A, B1, B2, C, HLog.
  cbn [p_log rev map app] in HLog.
  apply log_eqb_eq in HL.
  assert (HLen : List.length (k_log c) = List.length (p_log st1)).
  { rewrite HL, rev_length. reflexivity. }
  split; [exact A|]. split; [|rewrite HLen; exact B2].
  unfold call_holds_core. apply exc_eqb_eq in HE.
  apply andb_true_iff; split; [apply andb_true_iff; split;
    [apply andb_true_iff; split; [apply andb_true_iff; split|]|]|].
  - rewrite HE, C. cbn [p_exc exc_after].
    destruct (first_notdir (k_truth c)); reflexivity.
  - apply (Permutation_perm_b built_eqb built_eqb_eq).
    rewrite accepted_files_fst.
    replace (map (fun x => (norm (fst (snd x)), snd (snd x))) (k_log c))
      with (map (fun y : list string * Z => (norm (fst y), snd y)) (map snd (k_log c)))
      by (rewrite map_map; reflexivity).
    rewrite HL, HLog. apply (built_perm tbl c); auto.
  - apply accepted_files_keys. cbn [forallb]. now rewrite HW.
  - rewrite HL. exact B1.
  - destruct A as [(used & sp & HI & _) _ _ _]. eapply tree_match_links; eauto.
Qed.

Lemma run_calls_core tbl cs : forall st prev,
  PInv st -> forallb (call_wf tbl) cs = true -> known_from tbl prev cs = false ->
  run_calls tbl st cs = true -> core_from tbl (p_nh st) cs = true.
Proof.
  induction cs as [|c cs IH]; intros st prev HP HW HK HR; [reflexivity|].
  cbn [forallb] in HW. apply andb_true_iff in HW. destruct HW as [HW1 HW2].
  cbn [known_from] in HK. apply orb_false_iff in HK. destruct HK as [HK HK3].
  apply orb_false_iff in HK. destruct HK as [HK1 _].
  cbn [run_calls] in HR. destruct (call_ok tbl st c) as [st'|] eqn:E; [|discriminate].
  destruct (call_ok_core tbl st c st' HP HW1 HK1 E) as (A & B & C).
  cbn [core_from]. rewrite B. cbn [andb]. rewrite <- C. now apply (IH st' (k_tree c)).
Qed.

Theorem accepts_core c :
  wf_b c = true -> known_b c = false -> accepts c = true -> holds_core_b c = true.
Proof.
  unfold wf_b, known_b, accepts, holds_core_b. intros HW HK HA.
  apply andb_true_iff in HW. destruct HW as [HW _].
  apply andb_true_iff in HW. destruct HW as [_ HW].
  exact (run_calls_core (c_names c) (c_calls c) ps_init o_empty PInv_init HW HK HA).
Qed.

(* the full property contains the proved part *)
Lemma holds_from_core tbl cs : forall prev nh,
  holds_from tbl prev nh cs = true -> core_from tbl nh cs = true.
Proof.
  induction cs as [|c cs IH]; intros prev nh H; [reflexivity|].
  cbn [holds_from] in H. apply andb_true_iff in H. destruct H as [H1 H2].
  cbn [core_from]. rewrite (IH _ _ H2), andb_true_r.
  unfold call_holds in H1. unfold call_holds_core.
  apply andb_true_iff in H1. destruct H1 as [H1 K9].
  apply andb_true_iff in H1. destruct H1 as [H1 K8].
  apply andb_true_iff in H1. destruct H1 as [H1 K7].
  apply andb_true_iff in H1. destruct H1 as [H1 K6].
  apply andb_true_iff in H1. destruct H1 as [H1 K5].
  apply andb_true_iff in H1. destruct H1 as [H1 K4].
  apply andb_true_iff in H1. destruct H1 as [H1 K3].
  apply andb_true_iff in H1. destruct H1 as [K1 K2].
  now rewrite K1, K2, K3, K4, K9.
Qed.
