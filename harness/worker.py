"""Child process: runs cases of one property against the real desper.

Reads one JSON case per line on stdin, writes 'T <json trace>' per case.
desper is imported from /repo's working tree (checked).  Every case runs
under an alarm; a case that does not finish is reported as a hang.
"""
import importlib
import json
import os
import signal
import sys
import traceback


class Hang(BaseException):
    pass


def _alarm(signum, frame):
    raise Hang()


def main():
    prop = importlib.import_module(sys.argv[1])
    import desper
    repo = os.environ.get('DESPER_REPO', '/repo')
    assert os.path.realpath(desper.__file__).startswith(os.path.realpath(repo) + os.sep), \
        'desper imported from %s, not from %s' % (desper.__file__, repo)
    signal.signal(signal.SIGALRM, _alarm)
    limit = getattr(prop, 'CASE_TIMEOUT', 5) * int(os.environ.get('VERIF_TIMEOUT_SCALE', '1'))
    real_out = sys.stdout
    sys.stdout = sys.stderr         # callbacks must not pollute the protocol
    for line in sys.stdin:
        line = line.strip()
        if not line:
            continue
        case = json.loads(line)
        signal.alarm(limit)
        try:
            trace = prop.run(case)
        except Hang:
            trace = {'hang': True}
        except BaseException as ex:      # a bug of the harness, not of desper
            trace = {'crash': '%s: %s' % (type(ex).__name__, ex),
                     'tb': traceback.format_exc()[-1500:]}
        finally:
            signal.alarm(0)
        real_out.write('T ' + json.dumps(trace) + '\n')
        real_out.flush()


if __name__ == '__main__':
    main()
