"""World lifecycle family, RE-ENTRANT stream: on_add / on_remove of a class run
a script of World operations (data in the case: case['scr'][t-1] =
[on_add script, on_remove script] of class t).  The callbacks log every
action before performing it and its outcome afterwards.

Cases of this stream carry the key 'scr'; cases without it are the cases of
harness/worldl_common.py (old stream, corpus, known-finding witnesses).
"""
import random

from harness.core import z, b, lst, opt
from harness import worldl_common as W

RPOOL = [1, 2, 3, -1]
RKINDS = ['r', 'ar', 'ar', 'arp', 'rp']
MAXDEPTH = 3
MAXCALLS = 40      # scripts stop running after that many callbacks in one operation


def run(case):
    if 'scr' not in case:
        return W.run(case)
    import desper
    ent_py, ent_z = W.ent_py, W.make_ent_z()
    log = []
    world = desper.World()
    depth = [0]
    ncalls = [0]
    insts = [None]
    classes = [None]
    lid = {}

    def perform(o):
        """one scripted / top-level World call; returns the observed return value"""
        if o[0] == 'create':
            comps = [insts[i] for i in o[2]]
            if o[1] is None:
                got = world.create_entity(*comps)
            else:
                got = world.create_entity(*comps, entity_id=ent_py(o[1]))
            return ent_z(got)
        if o[0] == 'add':
            r = world.add_component(ent_py(o[1]), insts[o[2]])
            return None if r is None else -99
        if o[0] == 'remove':
            r = world.remove_component(ent_py(o[1]), classes[o[2]])
            return None if r is None else lid.get(id(r), -99)
        if o[0] == 'delete':
            if o[2]:
                world.delete_entity(ent_py(o[1]), immediate=True)
            else:
                world.delete_entity(ent_py(o[1]))
            return None
        if o[0] == 'process':
            world.process(1)
            return None
        if o[0] == 'enable':
            world.dispatch_enabled = bool(o[1])
            return None
        if o[0] == 'addproc':
            world.add_processor(P())
            return None
        raise ValueError('bad op %r' % (o,))

    def snoop(me, entity, checked):
        # read-only queries from inside the callback; not guarded: an exception
        # leaves the callback and becomes the outcome of the enclosing operation
        for c in classes[1:]:
            world.get(c)
            world.has_component(entity, c)
            world.get_component(entity, c)
        tuple(world.entities)
        if checked:
            e = ent_z(entity)
            if e != -99:
                log.append(['q', ['exists', e, bool(world.entity_exists(entity))]])
                log.append(['q', ['comps', e, [lid.get(id(c), -99)
                                               for c in world.get_components(entity)]]])
            log.append(['q', ['ish', me._lid, bool(world.is_handler(me))]])
            t = case['cls'][me._lid - 1]
            if e != -99:
                log.append(['q', ['has', e, t, bool(world.has_component(entity, classes[t]))]])
                c = world.get_component(entity, classes[t])
                log.append(['q', ['getc', e, t, None if c is None else lid.get(id(c), -99)]])
            log.append(['q', ['get', t, [[ent_z(x), lid.get(id(c), -99)]
                                         for x, c in world.get(classes[t])]]])

    def callback(kind, script):
        def cb(self, entity, w):
            log.append(['call', kind, self._lid, ent_z(entity), w is world])
            snoop(self, entity, True)
            d = depth[0]
            n = ncalls[0]
            depth[0] += 1
            ncalls[0] += 1
            try:
                if d < MAXDEPTH and n < MAXCALLS:
                    for a in script:
                        log.append(['act', a])
                        ret, exc = None, 0
                        try:
                            ret = perform(a)
                        except KeyError:
                            exc = 1
                        except ValueError:
                            raise
                        except Exception:
                            exc = 2
                        log.append(['ret', ret, exc])
                        snoop(self, entity, False)
            finally:
                depth[0] -= 1
            log.append(['end'])
        return cb

    for t, kind in enumerate(case['kinds']):
        sa, sr = case['scr'][t]
        ns, names = {}, []
        if 'a' in kind:
            ns['on_add'] = callback('a', sa)
            names.append('on_add')
        if 'r' in kind:
            ns['on_remove'] = callback('r', sr)
            names.append('on_remove')
        if 'p' in kind:
            ns['probe'] = lambda self, tok: None
            names.append('probe')
        c = type('K%d' % (t + 1), (), ns)
        if names:
            c = desper.event_handler(*names)(c)
        classes.append(c)
    for i, t in enumerate(case['cls']):
        o = classes[t]()
        o._lid = i + 1
        insts.append(o)
        lid[id(o)] = i + 1

    class P(desper.Processor):
        def process(self, dt=1):
            log.append(['proc'])
    world.add_processor(P())

    known_ids = list(W.POOL) + list(W.NEVER)
    rng = random.Random(case.get('qseed', 0))

    def all_queries():
        qs = [['entities']]
        for e in known_ids:
            qs.append(['exists', e])
            qs.append(['comps', e])
        for i in range(1, len(insts)):
            qs.append(['ish', i])
        for t in range(1, len(classes)):
            qs.append(['get', t])
            for e in known_ids:
                qs.append(['has', e, t])
                qs.append(['getc', e, t])
        return qs

    def focus_queries(o):
        # the component queries about the entity the operation names
        if o[0] in ('create', 'add', 'remove', 'delete') and o[1] is not None:
            ts = list(range(1, len(classes)))
            rng.shuffle(ts)
            out = [['exists', o[1]]]
            for t in ts[:2]:
                out += [['has', o[1], t], ['getc', o[1], t]]
            out.append(['get', ts[0]])
            return out
        return []

    def ask(q):
        if q[0] == 'entities':
            return ['entities', [ent_z(e) for e in world.entities]]
        if q[0] == 'exists':
            return ['exists', q[1], bool(world.entity_exists(ent_py(q[1])))]
        if q[0] == 'comps':
            return ['comps', q[1], [lid.get(id(c), -99)
                                    for c in world.get_components(ent_py(q[1]))]]
        if q[0] == 'has':
            return ['has', q[1], q[2], bool(world.has_component(ent_py(q[1]), classes[q[2]]))]
        if q[0] == 'getc':
            c = world.get_component(ent_py(q[1]), classes[q[2]])
            return ['getc', q[1], q[2], None if c is None else lid.get(id(c), -99)]
        if q[0] == 'get':
            return ['get', q[1], [[ent_z(e), lid.get(id(c), -99)]
                                  for e, c in world.get(classes[q[1]])]]
        o = insts[q[1]]
        return ['ish', q[1], hasattr(o, '__events__') and bool(world.is_handler(o))]

    def rows():
        return {e: len(world.get_components(ent_py(e))) > 0 for e in known_ids}

    out = []
    nops = len(case['ops'])
    for k, o in enumerate(case['ops']):
        del log[:]
        depth[0] = 0
        ncalls[0] = 0
        ret, exc, done = None, 0, []
        before = rows() if o[0] == 'process' else None
        try:
            ret = perform(o)
            if o[0] == 'create' and ret not in known_ids and ret != -99:
                known_ids.append(ret)
        except KeyError as ex:
            exc = 1
            if o[0] == 'process':
                ret = ent_z(ex.args[0]) if ex.args else -99
                after = rows()
                done = [e for e in known_ids if before[e] and not after[e]]
        except ValueError:
            raise
        except Exception:
            exc = 2
        oplog = [x for x in log]
        del log[:]
        qs = all_queries()
        if k < nops - 1 and len(qs) > 6:
            qs = rng.sample(qs, 6) + focus_queries(o)
        answers = []
        for q in qs:
            try:
                answers.append(ask(q))
            except Exception:
                answers.append(['exists', 0, True])
        if log:
            exc = 2
        out.append(dict(ret=ret, exc=exc, done=done, log=oplog, qs=answers))
    return {'obs': out}


# ----------------------------------------------------------------- encoding
def enc_lent(x):
    if x[0] == 'act':
        return '(LAct %s)' % W.enc_op(x[1])
    if x[0] == 'ret':
        return '(LRet %s %s)' % (opt(None if x[1] is None else z(x[1])), z(x[2]))
    if x[0] == 'call':
        return '(LCall %s %s %s %s)' % (W.CK[x[1]], z(x[2]), z(x[3]), b(x[4]))
    if x[0] == 'q':
        return '(LQ %s)' % W.enc_q(x[1])
    return {'end': 'LEnd', 'proc': 'LProc'}[x[0]]


def enc_robs(ob):
    return '(mkrobs %s %s %s %s %s)' % (
        opt(None if ob['ret'] is None else z(ob['ret'])), z(ob['exc']),
        lst([z(e) for e in ob['done']]), lst([enc_lent(x) for x in ob['log']]),
        lst([W.enc_q(q) for q in ob['qs']]))


def enc_params(case):
    return '{| p_cls := %s; p_kinds := %s |}' % (
        lst(['(%s, %s)' % (z(i + 1), z(t)) for i, t in enumerate(case['cls'])]),
        lst(['(%s, %s)' % (z(t + 1), W.enc_kind(k)) for t, k in enumerate(case['kinds'])]))


def encode_r(case, trace):
    scr = lst(['(%s, (%s, %s))' % (z(t + 1), lst([W.enc_op(a) for a in s[0]]),
                                   lst([W.enc_op(a) for a in s[1]]))
               for t, s in enumerate(case['scr'])])
    if 'obs' not in trace or len(trace['obs']) != len(case['ops']):
        tr = '[(Process, mkrobs None 2 [] [] [])]'
    else:
        tr = lst(['(%s, %s)' % (W.enc_op(o), enc_robs(ob))
                  for o, ob in zip(case['ops'], trace['obs'])])
    return '{| r_p := %s; r_scr := %s; r_tr := %s |}' % (enc_params(case), scr, tr)


def encode(case, trace):
    """term of the sum type: old-format cases are wrapped unchanged"""
    if 'scr' not in case:
        return '(Old %s)' % W.encode(case, trace)
    return '(Re %s)' % encode_r(case, trace)


# --------------------------------------------------------------- generation
def gen_script(rng, ninst, nk, cls):
    acts = []
    for _ in range(rng.choice([0, 1, 1, 2])):
        r = rng.random()
        e = rng.choice(RPOOL)
        if r < 0.40:
            acts.append(['delete', e, True])
        elif r < 0.55:
            acts.append(['delete', e, False])
        elif r < 0.75:
            acts.append(['remove', e, rng.randint(1, nk)])
        elif r < 0.92:
            acts.append(['add', e, rng.randint(1, ninst)])
        else:
            acts.append(['create', e, [rng.randint(1, ninst)]])
    return acts


def gen_case_r(rng, nops_max=14):
    nk = rng.randint(2, 4)
    kinds = [rng.choice(RKINDS) for _ in range(nk)]
    ninst = rng.randint(4, 9)
    cls = [rng.randint(1, nk) for _ in range(ninst)]
    scr = []
    for t in range(nk):
        sa = gen_script(rng, ninst, nk, cls) if 'a' in kinds[t] and rng.random() < 0.5 else []
        sr = gen_script(rng, ninst, nk, cls) if rng.random() < 0.7 else []
        scr.append([sa, sr])
    case = dict(kinds=kinds, cls=cls, scr=scr, ops=gen_ops(rng, rng.randint(2, nops_max), nk, ninst, cls),
                qseed=rng.randrange(1 << 30))
    return case


def gen_ops(rng, n, nk, ninst, cls, toggles=True):
    ops = []
    enabled = True
    while len(ops) < n:
        r = rng.random()
        e = rng.choice(RPOOL)
        if r < 0.24:
            k = rng.randint(1, 2)
            comps, seen = [], set()
            for i in rng.sample(range(1, ninst + 1), k):
                if cls[i - 1] not in seen:
                    seen.add(cls[i - 1])
                    comps.append(i)
            ops.append(['create', e if rng.random() < 0.7 else None, comps])
        elif r < 0.40:
            ops.append(['add', e, rng.randint(1, ninst)])
        elif r < 0.50:
            ops.append(['remove', e, rng.randint(1, nk)])
        elif r < 0.72:
            if rng.random() < 0.06:
                e = rng.choice(W.NEVER)
            ops.append(['delete', e, rng.random() < 0.25])
        elif r < 0.88:
            ops.append(['process'])
        elif r < 0.97:
            if toggles:
                enabled = not enabled
                ops.append(['enable', enabled])
        else:
            ops.append(['addproc'])
    return ops


def gen_case_focus(rng):
    """several marked entities whose on_remove touch the other marked entities
    while the frame is draining the marks"""
    nk = rng.randint(2, 3)
    kinds = [rng.choice(['r', 'ar']) for _ in range(nk)]
    ninst = rng.randint(4, 8)
    cls = [rng.randint(1, nk) for _ in range(ninst)]
    ents = rng.sample(RPOOL, rng.randint(2, 4))
    scr = []
    for t in range(nk):
        sr = []
        for _ in range(rng.choice([1, 1, 2])):
            e = rng.choice(ents)
            r = rng.random()
            if r < 0.5:
                sr.append(['delete', e, True])
            elif r < 0.7:
                sr.append(['remove', e, rng.randint(1, nk)])
            elif r < 0.85:
                sr.append(['delete', e, False])
            else:
                sr.append(['add', e, rng.randint(1, ninst)])
        sa = gen_script(rng, ninst, nk, cls) if 'a' in kinds[t] and rng.random() < 0.3 else []
        scr.append([sa, sr])
    ops = []
    free = list(range(1, ninst + 1))
    rng.shuffle(free)
    for e in ents:
        if not free:
            break
        comps = [free.pop()]
        if free and rng.random() < 0.3 and cls[free[-1] - 1] != cls[comps[0] - 1]:
            comps.append(free.pop())
        ops.append(['create', e, comps])
    marks = [['delete', e, False] for e in ents if rng.random() < 0.85]
    rng.shuffle(marks)
    ops += marks
    if rng.random() < 0.3:
        ops.insert(rng.randrange(len(ops) + 1), ['enable', False])
        ops.append(['process'])
        ops.append(['enable', True])
    else:
        ops.append(['process'])
    if rng.random() < 0.5:
        ops.append(['process'])
    tail = gen_ops(rng, rng.randint(0, 4), nk, ninst, cls, toggles=False)
    case = dict(kinds=kinds, cls=cls, scr=scr, ops=ops + tail, qseed=rng.randrange(1 << 30))
    return case


def gen_r(rng, n):
    return [gen_case_focus(rng) if rng.random() < 0.4 else gen_case_r(rng) for _ in range(n)]


def stats_r(cases, traces):
    ops, excs = {}, {}
    ncall = nact = maxdepth = 0
    for c, t in zip(cases, traces):
        for o, ob in zip(c['ops'], t.get('obs', [])):
            ops[o[0]] = ops.get(o[0], 0) + 1
            if ob['exc']:
                key = '%s:%d' % (o[0], ob['exc'])
                excs[key] = excs.get(key, 0) + 1
            d = 0
            for x in ob['log']:
                if x[0] == 'call':
                    ncall += 1
                    d += 1
                    maxdepth = max(maxdepth, d)
                elif x[0] == 'end':
                    d -= 1
                elif x[0] == 'act':
                    nact += 1
                elif x[0] == 'ret' and x[2]:
                    key = 'scripted:%d' % x[2]
                    excs[key] = excs.get(key, 0) + 1
    return dict(operations=ops, exceptions=excs, callbacks=ncall, scripted_actions=nact,
                max_callback_depth=maxdepth)


def nontrivial_r(case, trace):
    obs = trace.get('obs', [])
    return sum(1 for ob in obs for x in ob['log'] if x[0] == 'act') >= 1
