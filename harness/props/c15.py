"""C15 - a loaded world contains exactly what its description says."""
import json

from harness.core import z, b, lst, opt

ID = 'C15'
COQ_MODULE = 'Desper.Loader.C15Model'
CASE_TYPE = 'C15_case'
VERDICT = 'C15_verdict'
PROPS_FILE = 'theories/Props/C15.v'
THEOREM = 'C15_load_is_spec'
RULE = ('three ways of loading (55% file, 25% custom handle, 20% direct dictionary). FILE: '
        'random world descriptions written to a JSON file and loaded through a '
        'WorldFromFileHandle placed 1-3 maps deep in a real ResourceMap: 0-3 processors, '
        '0-4 entities with 0-3 components, ids absent/null/int (overlapping the automatic '
        'range)/string, args and kwargs present/absent/empty, argument values arbitrary JSON; '
        '~35% of the arguments are exact references ${dotted.name} / $res{a.b} / $handle{a/b} '
        'into a generated module (classes, instances, nested namespaces, a real submodule, '
        'string/int/list-valued attributes) and a generated resource tree (handles and maps), '
        '~30% are marker look-alikes (x${a}, $${a}, ${a, ${a}tail, $res{a}x}, ${}, newline '
        'inside, nested lists/objects containing marker strings), the rest plain JSON; 5% of '
        'the cases contain one open-form string whose prefix match does not resolve (aborted '
        'load).  Doubles record constructor arguments, processors, entities, dispatch_enabled '
        'and, after enabling, the callback log.  HANDLE: a plain WorldHandle (inside the tree, '
        'or detached when it reads no file) whose transform_functions deque holds, in random '
        'order, default_processors_transformer (70%), 0-3 marking user functions, and 1-2 '
        'populating functions: a WorldFromFileTransformer with a custom pass list (half default, '
        'else any list with one type pass and 0-3 object/resource passes in any order, '
        'repetitions included) reading its own file, or a user function calling '
        'populate_world_from_dict with real classes.  DIRECT: populate_world_from_dict called '
        '1-2 times on a World with dispatching enabled or disabled (second call = world that '
        'already has entities/processors); arguments include real objects and strings of all '
        'marker forms (never substituted).  A handle is loaded 1-3 times (half of the cases '
        'more than once): h() with h.clear() in between, or h.load() directly; every load is '
        'observed separately (World identity, fresh instances, ids, callbacks, marks), the '
        'resource labels are taken at the end so that a resource loaded twice is seen.  Between '
        'the loads the files are rewritten under the same names (60% another description), and '
        '25% of the loads of a multi-load case (6% otherwise) read a description that must make '
        'the load raise: a constructor that refuses its first argument, a ${name} or a $res{path} '
        'that does not exist - before or after good loads; the exception type and '
        'handle.cached are observed.  '
        'distinct = different (case, trace); '
        'non-trivial = loaded, >= 2 constructor calls and >= 1 exact reference')
TRUSTED = [
    'Coq 8.16.1 kernel + vm_compute (evaluation of C15_verdict on the observed loads)',
    'hand-written model Loader/C15Model.v tied to /repo by this correspondence run '
    '(sampled, not exhaustive)',
    'harness doubles (recording component / processor classes, counting resource handles), '
    'object identity -> serial numbers, canonical order of entities/components by '
    'construction serial and of on_world_load callbacks by instance',
    'CPython re, json, importlib, copy.deepcopy, dict order',
]
ASSUMPTIONS = [
    'the namespace seen by object_from_string and the resource tree do not change during a load',
    'constructors of the described classes do not touch the world (they are user code)',
]
CASE_TIMEOUT = 10

MOD = 'vns'


# ------------------------------------------------------------------ generator
def _plain_str(rng):
    return rng.choice(['', 'hello', 'a b', 'x}y', '$', '{}', 'res{a}', '}', 'é中', 'line\nbreak',
                       '$ {a}', 'handle{r1}', '1', 'vns.o1', '$r', '$res', '$handl{a}'])


def _plain_json(rng, depth=0):
    r = rng.random()
    if r < 0.3:
        return rng.choice([0, 1, -1, 42, 2 ** 40, -7, 1.5, -0.0, 1.0, 1e300, 0.1])
    if r < 0.4:
        return rng.choice([True, False])
    if r < 0.5:
        return None
    if r < 0.75 or depth >= 2:
        return _plain_str(rng)
    if r < 0.9:
        return [_plain_json(rng, depth + 1) for _ in range(rng.randint(0, 3))]
    return {k: _plain_json(rng, depth + 1)
            for k in rng.sample(['k1', 'k2', 'a b', 'type', 'args'], rng.randint(0, 2))}


def _gen_ns(rng):
    """[dotted name, spec]; spec = ['comp', add, load] | ['proc'] | ['obj'] | ['ns'] |
    ['pkg'] | ['mod'] | ['val', json].  Containers precede their members."""
    ns = [[MOD, ['mod']]]
    ncomp = rng.randint(2, 4)
    for i in range(ncomp):
        ns.append(['%s.C%d' % (MOD, i), ['comp', rng.random() < 0.6, rng.random() < 0.6]])
    for i in range(rng.randint(1, 3)):
        ns.append(['%s.P%d' % (MOD, i), ['proc']])
    ns.append([MOD + '.sub', ['ns']])
    ns.append([MOD + '.sub.deep', ['ns']])
    ns.append([MOD + '.pk', ['pkg']])
    ns.append([MOD + '.pk.inner', ['ns']])
    homes = [MOD, MOD + '.sub', MOD + '.sub.deep', MOD + '.pk', MOD + '.pk.inner']
    for i in range(rng.randint(2, 4)):
        ns.append(['%s.o%d' % (rng.choice(homes), i), ['obj']])
    if rng.random() < 0.5:           # a component class living in a nested namespace
        ns.append(['%s.K' % rng.choice(homes[1:]), ['comp', rng.random() < 0.5, rng.random() < 0.5]])
    first_obj = [n for n, s in ns if s[0] == 'obj'][0]
    # string-valued attributes that themselves look like an object reference:
    # the object pass must not be applied to its own result
    vals = [7, 'plain text', '${%s}' % first_obj, ['${%s}' % first_obj, 1], '$ res{r}', '',
            {'k1': 1}, '${%s}' % first_obj, 'x$res{r1}']
    for i in range(rng.randint(1, 3)):
        ns.append(['%s.v%d' % (rng.choice(homes), i), ['val', rng.choice(vals)]])
    if rng.random() < 0.3:
        ns.append([MOD + '.m', ['mod']])
    return ns


def _gen_tree(rng):
    """[path, 'h' | 'm'] - handles and explicitly inserted (empty) maps."""
    parts = ['r1', 'r2', 'm1', 'm2', 'x']
    paths = set()
    tree = []
    for _ in range(rng.randint(2, 5)):
        p = '/'.join(rng.choice(parts) for _ in range(rng.randint(1, 3)))
        # a path may not run through an existing handle, nor shadow a map
        if any(q == p or q.startswith(p + '/') or p.startswith(q + '/') for q in paths):
            continue
        paths.add(p)
        tree.append([p, 'h'])
    if rng.random() < 0.3:
        p = 'em' + str(rng.randint(0, 3))
        tree.append([p, 'm'])
    return tree


def _map_paths(tree):
    out = set()
    for p, k in tree:
        ps = p.split('/')
        for i in range(1, len(ps)):
            out.add('/'.join(ps[:i]))
        if k == 'm':
            out.add(p)
    return sorted(out)


def _ref_path(rng, p):
    """a way of writing tree path p inside $res{..}: '.' and '/' are equivalent"""
    ps = p.split('/')
    out = ps[0]
    for x in ps[1:]:
        out += rng.choice(['.', '.', '/']) + x
    return out


def _gen_arg(rng, ns, tree, tags):
    copyable = [n for n, s in ns if s[0] in ('comp', 'proc', 'obj', 'ns', 'val')]
    hpaths = [p for p, k in tree if k == 'h']
    mpaths = _map_paths(tree)
    r = rng.random()
    if r < 0.35:
        q = rng.random()
        if q < 0.4 or not tree:
            tags['exact_obj'] += 1
            data = [n for n, s in ns if s[0] == 'val']
            if data and rng.random() < 0.3:
                return '${%s}' % rng.choice(data)
            return '${%s}' % rng.choice(copyable)
        if q < 0.7:
            tags['exact_res'] += 1
            p = rng.choice(hpaths + mpaths if rng.random() < 0.2 else hpaths or mpaths)
            return '$res{%s}' % _ref_path(rng, p)
        tags['exact_handle'] += 1
        p = rng.choice(hpaths + mpaths if rng.random() < 0.2 else hpaths or mpaths)
        return '$handle{%s}' % _ref_path(rng, p)
    if r < 0.65:
        a = rng.choice(copyable)
        p = _ref_path(rng, rng.choice(hpaths or mpaths or ['zz']))
        q = rng.randrange(20)
        tags['lookalike'] += 1
        return [
            'x${%s}' % a, '$${%s}' % a, '${%s' % a, ' ${%s}' % a, '${}', '$res{}', '$handle{}',
            '${%s}tail' % a,                    # open: prefix match, resolves
            '${%s}\n}' % a,                     # open: the group stops at the first line
            '${%s\n}' % a,                      # open: no match across a newline
            'x$res{%s}' % p, '$RES{%s}' % p, '$res {%s}' % p, '$res{%s' % p,
            '$res{%s}tail' % p,                 # open: resolves
            '$handle{%s}x}' % p,                # open: get() of a missing path -> None
            'a$handle{%s}' % p,
            ['${%s}' % a, '$res{%s}' % p],      # nested: never substituted
            {'k1': '${%s}' % a, 'k2': ['$handle{%s}' % p]},
            '$handle{%s}\n' % p,                # open: trailing newline after the brace
        ][q]
    tags['plain'] += 1
    return _plain_json(rng)


def _gen_dict(rng, tname, ns, tree, tags):
    d = {'type': tname}
    r = rng.random()
    if r < 0.75:
        d['args'] = [_gen_arg(rng, ns, tree, tags) for _ in range(rng.randint(0, 4))]
    r = rng.random()
    if r < 0.65:
        keys = rng.sample(['a', 'b', 'val', 'k1', 'a b', 'self_', 'type'], rng.randint(0, 3))
        d['kwargs'] = {k: _gen_arg(rng, ns, tree, tags) for k in keys}
    return d


PASS_NAMES = {'type': 'PType', 'obj': 'PObj', 'res': 'PRes'}


class _Ids:
    """mirror of the documented id rule, to keep given ids unused"""

    def __init__(self):
        self.used, self.nxt = [], 1

    def entity(self, rng, e):
        r = rng.random()
        if r < 0.4:
            given = 'absent'
        elif r < 0.5:
            given = None
            e['id'] = None
        else:
            cands = [1, 2, 3, 4, 5, 0, -3, 10 ** 12, 'hero', '1', '', 'x y', '2', 6, 7]
            cands = [c for c in cands if not any(c == u and type(c) is type(u) for u in self.used)]
            given = rng.choice(cands)
            e['id'] = given
        if given in ('absent', None):
            while any(self.nxt == u and type(u) is int for u in self.used):
                self.nxt += 1
            eid = self.nxt
            self.nxt += 1
        else:
            eid = given
        if e.get('components'):
            self.used.append(eid)


def _gen_desc(rng, ns, tree, tags, procs, ids, direct=False):
    """one description; procs = the processor classes it may list"""
    comps = [n for n, s in ns if s[0] == 'comp']
    objs = [n for n, s in ns if s[0] in ('obj', 'ns', 'comp', 'proc')]

    def gd(t):
        d = _gen_dict(rng, t, ns, tree, tags)
        if direct:           # real objects among the arguments
            for k in range(len(d.get('args', []))):
                if rng.random() < 0.15:
                    d['args'][k] = {'__ref__': rng.choice(objs)}
            for k in d.get('kwargs', {}):
                if rng.random() < 0.15:
                    d['kwargs'][k] = {'__ref__': rng.choice(objs)}
        return d
    desc = {}
    if rng.random() < 0.85:
        desc['processors'] = [gd(t) for t in procs]
    if rng.random() < 0.95:
        ents = []
        for _ in range(rng.randint(0, 4)):
            e = {}
            if rng.random() < 0.85:
                e['components'] = [gd(t) for t in rng.sample(comps, rng.randint(0, min(3, len(comps))))]
            ids.entity(rng, e)
            ents.append(e)
        desc['entities'] = ents
    return desc


def _gen_passes(rng):
    if rng.random() < 0.5:
        return ['type', 'obj', 'res']
    ps = [rng.choice(['obj', 'res']) for _ in range(rng.randint(0, 3))]
    ps.insert(rng.randint(0, len(ps)), 'type')
    return ps


def _fail(rng, desc, tags):
    """a copy of desc whose load must raise: a constructor that refuses, a name or a
    resource that does not exist"""
    d = json.loads(json.dumps(desc))
    ds = list(d.get('processors', [])) + [c for e in d.get('entities', [])
                                          for c in e.get('components', [])]
    if not ds:
        return None
    t = rng.choice(ds)
    how = rng.choice(['raise', 'name', 'res'])
    if how == 'raise':
        t.setdefault('args', []).insert(0, '!raise')
    else:
        bad = (rng.choice(['${%s.zz}' % MOD, '${zq.mod.x}', '${%s.sub.nope}' % MOD]) if how == 'name'
               else rng.choice(['$res{zz}', '$res{r1.zz}', '$res{m1/nope}']))
        if rng.random() < 0.5:
            t.setdefault('args', []).append(bad)
        else:
            t.setdefault('kwargs', {})['bad'] = bad
    tags['fail_' + how] = tags.get('fail_' + how, 0) + 1
    return d


def _vary_loads(rng, case, ns, tree, tags):
    """between the loads of one handle the files are rewritten: other descriptions,
    and descriptions that make the load raise (before or after a good one)"""
    ops = case['loads']
    many = len(ops) > 1
    has_dict = any(st[0] == 'dict' for st in case.get('steps', []))
    out = []
    for op in ops:
        ld = {'op': op}
        fresh = many and not has_dict and rng.random() < 0.6
        fail = rng.random() < (0.25 if many else 0.06)
        if case['kind'] == 'file':
            d = case['desc']
            if fresh:
                procs = [n for n, s in ns if s[0] == 'proc']
                d = _gen_desc(rng, ns, tree, tags, rng.sample(procs, rng.randint(0, len(procs))), _Ids())
            if fail:
                d = _fail(rng, d, tags) or d
            if d is not case['desc']:
                ld['desc'] = d
        else:
            files, ids = {}, _Ids()
            fsteps = [m for m, st in enumerate(case['steps']) if st[0] == 'file']
            for m in fsteps:
                st = case['steps'][m]
                if fresh:
                    share = [x['type'] for x in st[2].get('processors', [])]
                    files[str(m)] = _gen_desc(rng, ns, tree, tags, share, ids)
            if fail and fsteps:
                m = rng.choice(fsteps)
                d = _fail(rng, files.get(str(m), case['steps'][m][2]), tags)
                if d is not None:
                    files[str(m)] = d
            if files:
                ld['files'] = files
        out.append(ld if len(ld) > 1 else op)
    case['loads'] = out


def gen_case(rng, abort=False, kind=None):
    ns = _gen_ns(rng)
    tree = _gen_tree(rng)
    tags = dict(exact_obj=0, exact_res=0, exact_handle=0, lookalike=0, plain=0, abort=0)
    procs = [n for n, s in ns if s[0] == 'proc']
    ids = _Ids()
    if kind is None:
        r = rng.random()
        kind = 'file' if r < 0.55 else 'handle' if r < 0.8 else 'direct'
    case = dict(ns=ns, tree=tree, depth=rng.randint(1, 3), kind=kind, tags=tags)
    if kind != 'direct':
        # h() / h.clear(); h() ('call') or h.load() directly ('load'), 1-3 times
        case['loads'] = (['call'] if rng.random() < 0.5 else
                         [rng.choice(['call', 'load']) for _ in range(rng.randint(2, 3))])
    if kind == 'file':
        case['desc'] = _gen_desc(rng, ns, tree, tags, rng.sample(procs, rng.randint(0, len(procs))), ids)
        descs = [case['desc']]
    else:
        rng.shuffle(procs)
        npop = rng.randint(1, 2)
        cut = rng.randint(0, len(procs))
        shares = [procs[:cut], procs[cut:]] if npop == 2 else [procs[:cut]]
        steps, descs = [], []
        for sh in shares:
            if kind == 'direct' or rng.random() < 0.4:
                d = _gen_desc(rng, ns, tree, tags, sh, ids, direct=True)
                steps.append(['dict', d])
            else:
                d = _gen_desc(rng, ns, tree, tags, sh, ids)
                steps.append(['file', _gen_passes(rng), d])
                descs.append(d)
        if kind == 'handle':
            if rng.random() < 0.7:
                steps.insert(rng.randint(0, len(steps)), ['default'])
            for k in range(rng.randint(0, 3)):
                steps.insert(rng.randint(0, len(steps)), ['mark', k])
            if not any(st[0] == 'file' for st in steps) and rng.random() < 0.5:
                case['depth'] = 0            # a handle that is in no resource tree
        else:
            case['enabled'] = rng.random() < 0.5
        case['steps'] = steps
    if kind != 'direct':
        _vary_loads(rng, case, ns, tree, tags)
    if abort and descs:
        # one open-form string whose prefix match names nothing: the load is aborted
        desc = rng.choice(descs)
        ds = list(desc.get('processors', [])) + [c for e in desc.get('entities', [])
                                                  for c in e.get('components', [])]
        if ds:
            d = rng.choice(ds)
            d.setdefault('args', []).append(rng.choice(
                ['${%s.o0}}' % MOD, '${zq}x}', '$res{r1}}', '$res{zq}tail', '${}}']))
            tags['abort'] += 1
    return case


def gen(rng, tier):
    n = {'quick': 400, 'thorough': 4000, 'search': 300}[tier]
    return [gen_case(rng, abort=rng.random() < 0.05) for _ in range(n)]


# ------------------------------------------------------------------ runner
def _bits(x):
    import struct
    return int.from_bytes(struct.pack('>d', x), 'big')


def _canon(v, ident):
    """observed Python value -> tagged JSON"""
    if v is None:
        return ['n']
    if v is True or v is False:
        return ['b', v]
    if type(v) is int:
        return ['i', v]
    if type(v) is str:
        return ['s', v]
    if type(v) is float:
        return ['r', 'KFloat', _bits(v)]
    if id(v) in ident:
        return ['r'] + ident[id(v)]
    if type(v) in (list, tuple):
        return ['l', [_canon(x, ident) for x in v]]
    if type(v) is dict:
        return ['o', [[k if type(k) is str else '?', _canon(x, ident)] for k, x in v.items()]]
    return ['r', 'KOther', 0]


def run(case):
    import os
    import shutil
    import sys
    import tempfile
    import types
    import desper
    import desper.model.world as mw

    clear = getattr(mw.object_from_string, 'cache_clear', None)
    if clear:
        clear()
    for k in [k for k in sys.modules if k == MOD or k.startswith(MOD + '.')]:
        del sys.modules[k]

    ident = {}            # id(object) -> [kind, serial]
    keep = []             # keeps every identified object alive (ids stay unique)
    log = []              # constructor calls: [class serial, args, kwargs, instance]
    inst = {}             # id(instance) -> construction serial
    cbs = []
    state = {}

    class Boom(Exception):
        pass

    def make_class(serial, spec):
        def __init__(self, *a, **k):
            if a and type(a[0]) is str and a[0] == '!raise':
                raise Boom('constructor refused')
            inst[id(self)] = len(log)
            keep.append(self)
            log.append([serial, a, k])
        ns_ = {'__init__': __init__}
        if spec[0] == 'proc':
            ns_['process'] = lambda self, dt=1: None
            return type('P%d' % serial, (desper.Processor,), ns_)
        events = {}
        if spec[1]:
            def on_add(self, entity, world):
                cbs.append([inst.get(id(self), -9), 0, _canon(entity, ident),
                            world is state.get('world')])
            ns_['on_add'] = on_add
            events['on_add'] = 'on_add'
        if spec[2]:
            def on_world_load(self, handle, world):
                cbs.append([inst.get(id(self), -9), 1, ['n'],
                            handle is state.get('wh') and world is state.get('world')])
            ns_['on_world_load'] = on_world_load
            events['on_world_load'] = 'on_world_load'
        if events:
            ns_['__events__'] = events
        return type('C%d' % serial, (), ns_)

    class Obj:
        pass

    objs = {}
    for serial, (name, spec) in enumerate(case['ns']):
        kind = spec[0]
        if kind in ('comp', 'proc'):
            o = make_class(serial, spec)
        elif kind == 'obj':
            o = Obj()
        elif kind == 'ns':
            o = types.SimpleNamespace()
        elif kind in ('mod', 'pkg'):
            o = types.ModuleType(name)
        else:
            o = json.loads(json.dumps(spec[1]))
        objs[name] = o
        if kind != 'val':
            ident[id(o)] = ['KNoCopy' if kind in ('mod', 'pkg') else 'KObj', serial]
            keep.append(o)
        if kind == 'pkg' or name == MOD:
            sys.modules[name] = o
        if '.' in name:
            parent, attr = name.rsplit('.', 1)
            setattr(objs[parent], attr, o)

    class RH(desper.Handle):
        def __init__(self, serial):
            self.serial = serial
            self.loads = 0

        def load(self):
            self.loads += 1
            r = Obj()
            ident[id(r)] = ['KOther', 100 + self.serial]    # re-labelled below if it is the cached one
            keep.append(r)
            return r

    root = desper.ResourceMap()
    for i, (p, k) in enumerate(case['tree']):
        if k == 'h':
            h = RH(i)
            ident[id(h)] = ['KHandle', i]
            keep.append(h)
            root[p] = h
        else:
            root[p] = desper.ResourceMap()
    for i, p in enumerate(_map_paths(case['tree'])):
        m = root.get(p)
        ident[id(m)] = ['KMap', i]
        keep.append(m)

    def pydict(desc):
        """the dictionary populate_world_from_dict receives: real classes and objects"""
        def val(v):
            if isinstance(v, dict) and list(v) == ['__ref__']:
                return objs[v['__ref__']]
            return json.loads(json.dumps(v))

        def dd(d):
            out = {'type': objs[d['type']]}
            if 'args' in d:
                out['args'] = [val(x) for x in d['args']]
            if 'kwargs' in d:
                out['kwargs'] = {k: val(x) for k, x in d['kwargs'].items()}
            return out
        out = {}
        if 'processors' in desc:
            out['processors'] = [dd(d) for d in desc['processors']]
        if 'entities' in desc:
            out['entities'] = []
            for e in desc['entities']:
                pe = {}
                if 'id' in e:
                    pe['id'] = e['id']
                if 'components' in e:
                    pe['components'] = [dd(d) for d in e['components']]
                out['entities'].append(pe)
        return out

    PASSES = {'type': desper.type_dict_transformer, 'obj': desper.object_dict_transformer,
              'res': desper.resource_dict_transformer}
    marks = []
    kind = case.get('kind', 'file')
    tmp = tempfile.mkdtemp(prefix='c15_')
    try:
        def place(wh):
            if case['depth'] > 0:
                root['/'.join(['wh%d' % i for i in range(case['depth'] - 1)] + ['world'])] = wh

        if kind == 'file':
            fn = os.path.join(tmp, 'world.json')
            with open(fn, 'w') as f:
                json.dump(case['desc'], f)
            wh = desper.WorldFromFileHandle(fn)
            place(wh)
        elif kind == 'handle':
            wh = desper.WorldHandle()
            place(wh)
            for n, st in enumerate(case['steps']):
                if st[0] == 'default':
                    fun = desper.default_processors_transformer
                elif st[0] == 'file':
                    fn = os.path.join(tmp, 'world%d.json' % n)
                    with open(fn, 'w') as f:
                        json.dump(st[2], f)

                    def fun(h, w, fn=fn, tr=desper.WorldFromFileTransformer([PASSES[x] for x in st[1]])):
                        h.filename = fn
                        tr(h, w)
                elif st[0] == 'dict':
                    def fun(h, w, d=pydict(st[1])):
                        desper.populate_world_from_dict(w, d)
                else:
                    def fun(h, w, k=st[1]):
                        marks.append([k, h, w])
                wh.transform_functions.append(fun)
        else:
            wh = None
        state['wh'] = wh
        worlds = []           # (load number, World instance it returned)
        results = []
        for n, (op, view) in enumerate(_views(case)):
            # the files as they are at this load (same names, rewritten)
            if kind == 'file':
                with open(os.path.join(tmp, 'world.json'), 'w') as f:
                    json.dump(view['desc'], f)
            elif kind == 'handle':
                for m, st in enumerate(view['steps']):
                    if st[0] == 'file':
                        with open(os.path.join(tmp, 'world%d.json' % m), 'w') as f:
                            json.dump(st[2], f)
            del log[:], cbs[:], marks[:]
            inst.clear()
            state.pop('world', None)
            try:
                if kind == 'direct':
                    world = desper.World()
                    world.dispatch_enabled = case['enabled']
                    state['world'] = world
                    for st in case['steps']:
                        desper.populate_world_from_dict(world, pydict(st[1]))
                elif op == 'load':
                    world = wh.load()            # the loading code itself, no cache
                else:
                    if wh.cached:
                        wh.clear()
                    world = wh()
            except Exception as ex:
                # a load that raised leaves the handle uncached
                stale = wh is not None and op == 'call' and wh.cached
                results.append({'world': -1 if stale else n, 'err': type(ex).__name__,
                                'nconstr': len(log)})
                continue
            state['world'] = world
            # the number of the first load that returned this World instance
            serial = next((k for k, x in worlds if x is world), n)
            worlds.append((n, world))
            out = {'world': serial}
            out['raw'] = [[s, a, kw] for s, a, kw in log]
            procs = []
            for p in world.processors:
                if type(p) is desper.OnUpdateProcessor:
                    procs.append(-1)
                elif type(p) is desper.CoroutineProcessor:
                    procs.append(-2)
                else:
                    procs.append(inst.get(id(p), -99))
            out['procs'] = procs
            ents = []
            for e in world.entities:
                cs = sorted(inst.get(id(c), -99) for c in world.get_components(e))
                ents.append([_canon(e, ident), cs])
            ents.sort(key=lambda x: x[1][0] if x[1] else 10 ** 9)
            out['ents'] = ents
            en = world.dispatch_enabled
            out['enabled'] = en if en is True or en is False else True
            try:
                world.dispatch_enabled = True
            except Exception as ex:
                cbs.append([-8, 0, ['n'], False])
            # set iteration order inside one on_world_load dispatch is open
            canon_cbs, runl = [], []
            for c in cbs:
                if c[1] == 1:
                    runl.append(c)
                else:
                    canon_cbs += sorted(runl, key=lambda x: x[0])
                    runl = []
                    canon_cbs.append(c)
            canon_cbs += sorted(runl, key=lambda x: x[0])
            out['cbs'] = canon_cbs
            out['marks'] = [[k, h is wh and w is world] for k, h, w in marks]
            results.append(out)
        # "the loaded resource" of a handle is the value the handle holds now: a
        # resource that was loaded again for a later load is not it any more
        for i, (p, k) in enumerate(case['tree']):
            h = root.get(p)
            if k == 'h' and h.cached:
                ident[id(h())] = ['KRes', 100 + i]
        for out in results:
            if 'raw' in out:
                out['constr'] = [[s, [_canon(x, ident) for x in a],
                                  [[k, _canon(v, ident)] for k, v in kw.items()]]
                                 for s, a, kw in out.pop('raw')]
        return {'loads': results,
                'res_loads': [[i, root.get(p).loads] for i, (p, k) in enumerate(case['tree'])
                              if k == 'h']}
    finally:
        shutil.rmtree(tmp, ignore_errors=True)
        for k in [k for k in sys.modules if k == MOD or k.startswith(MOD + '.')]:
            del sys.modules[k]
        if clear:
            clear()


# ------------------------------------------------------------------ encoder
def _keys_of(v, acc):
    if isinstance(v, dict):
        for k, x in v.items():
            acc.add(k)
            _keys_of(x, acc)
    elif isinstance(v, list):
        for x in v:
            _keys_of(x, acc)


def _views(case):
    """[(operation, case as it is at that load)]: the files may have been rewritten"""
    if case.get('kind', 'file') == 'direct':
        return [('call', case)]
    out = []
    for ld in case.get('loads', ['call']):
        if isinstance(ld, str):
            out.append((ld, case))
            continue
        v = dict(case)
        if 'desc' in ld:
            v['desc'] = ld['desc']
        if 'files' in ld:
            v['steps'] = [[st[0], st[1], ld['files'][str(n)]]
                          if st[0] == 'file' and str(n) in ld['files'] else st
                          for n, st in enumerate(case['steps'])]
        out.append((ld['op'], v))
    return out


def _view_descs(v):
    if v.get('kind', 'file') == 'file':
        return [v['desc']]
    return [st[-1] for st in v['steps'] if st[0] in ('file', 'dict')]


def _descs(case):
    out, seen = [], set()
    for _, v in _views(case):
        for d in _view_descs(v):
            if id(d) not in seen:
                seen.add(id(d))
                out.append(d)
    return out


def key_table(case):
    acc = set()
    for d in _descs(case):
        _keys_of(d, acc)
    acc.discard('__ref__')
    for name, spec in case['ns']:
        if spec[0] == 'val':
            _keys_of(spec[1], acc)
    return {k: i for i, k in enumerate(sorted(acc))}


def s_(text):
    return lst([z(ord(c)) for c in text])


def enc_json(v, kt, refs=None):
    """a JSON value of the description -> val"""
    if refs is not None and isinstance(v, dict) and list(v) == ['__ref__']:
        return refs[v['__ref__']]
    if v is None:
        return 'JNull'
    if v is True or v is False:
        return '(JBool %s)' % b(v)
    if isinstance(v, int):
        return '(JNum %s)' % z(v)
    if isinstance(v, float):
        return '(JRef KFloat %s)' % z(_bits(v))
    if isinstance(v, str):
        return '(JStr %s)' % s_(v)
    if isinstance(v, list):
        return '(JList %s)' % lst([enc_json(x, kt, refs) for x in v])
    if isinstance(v, dict):
        return '(JObj %s)' % lst(['(%s, %s)' % (z(kt.get(k, -1)), enc_json(x, kt, refs))
                                  for k, x in v.items()])
    raise ValueError('not JSON: %r' % (v,))


def enc_canon(c, kt):
    """a tagged observed value -> val"""
    t = c[0]
    if t == 'n':
        return 'JNull'
    if t == 'b':
        return '(JBool %s)' % b(c[1])
    if t == 'i':
        return '(JNum %s)' % z(c[1])
    if t == 's':
        return '(JStr %s)' % s_(c[1])
    if t == 'l':
        return '(JList %s)' % lst([enc_canon(x, kt) for x in c[1]])
    if t == 'o':
        return '(JObj %s)' % lst(['(%s, %s)' % (z(kt.get(k, -1)), enc_canon(x, kt))
                                  for k, x in c[1]])
    return '(JRef %s %s)' % (c[1], z(c[2]))


def enc_dict(d, kt, refs=None):
    args = opt(lst([enc_json(x, kt, refs) for x in d['args']])) if 'args' in d else 'None'
    kw = (opt(lst(['(%s, %s)' % (z(kt[k]), enc_json(x, kt, refs)) for k, x in d['kwargs'].items()]))
          if 'kwargs' in d else 'None')
    return '(DD %s %s %s)' % (s_(d['type']), args, kw)


def _refs(case):
    out = {}
    for serial, (name, spec) in enumerate(case['ns']):
        if spec[0] != 'val':
            out[name] = '(JRef %s %s)' % ('KNoCopy' if spec[0] in ('mod', 'pkg') else 'KObj', z(serial))
    return out


def enc_env(case, kt):
    ns = []
    for serial, (name, spec) in enumerate(case['ns']):
        kind = spec[0]
        if kind == 'val':
            v, ck = enc_json(spec[1], kt), 'CNone'
        elif kind in ('mod', 'pkg'):
            v, ck = '(JRef KNoCopy %s)' % z(serial), 'CNone'
        else:
            v = '(JRef KObj %s)' % z(serial)
            ck = ('(CComp %s %s)' % (b(spec[1]), b(spec[2])) if kind == 'comp'
                  else 'CProc' if kind == 'proc' else 'CNone')
        ns.append('(%s, NS %s %s)' % (s_(name), v, ck))
    tree = []
    for i, (p, k) in enumerate(case['tree']):
        if k == 'h':
            tree.append('(%s, NHandle %s %s)' % (s_(p), z(i), z(100 + i)))
    for i, p in enumerate(_map_paths(case['tree'])):
        tree.append('(%s, NMap %s)' % (s_(p), z(i)))
    return '(Env %s %s %s)' % (lst(ns), lst(tree), z(case['depth']))


def enc_desc(d, kt, refs=None):
    procs = (opt(lst([enc_dict(x, kt, refs) for x in d['processors']]))
             if 'processors' in d else 'None')
    if 'entities' in d:
        es = []
        for e in d['entities']:
            i = opt(enc_json(e['id'], kt)) if 'id' in e else 'None'
            cs = (opt(lst([enc_dict(x, kt, refs) for x in e['components']]))
                  if 'components' in e else 'None')
            es.append('(ED %s %s)' % (i, cs))
        ents = opt(lst(es))
    else:
        ents = 'None'
    return '(DS %s %s)' % (procs, ents)


def enc_load(case, kt):
    kind = case.get('kind', 'file')
    if kind == 'file':
        return '(LFile %s)' % enc_desc(case['desc'], kt)
    steps = []
    for st in case['steps']:
        if st[0] == 'default':
            steps.append('SDefault')
        elif st[0] == 'file':
            steps.append('(SFile %s %s)' % (lst([PASS_NAMES[x] for x in st[1]]), enc_desc(st[2], kt)))
        elif st[0] == 'dict':
            steps.append('(SDict %s)' % enc_desc(st[1], kt, _refs(case)))
        else:
            steps.append('(SMark %s)' % z(st[1]))
    if kind == 'handle':
        return '(LHandle %s)' % lst(steps)
    return '(LDirect %s %s)' % (b(case['enabled']), lst(steps))


REJECT = '(OOk (WO [] [] [] true [CB (-7) 0 JNull false] [((-7), false)]))'   # hang / crash: never accepted


ERRORS = ('ModuleNotFoundError', 'AttributeError', 'KeyError', 'TypeError', 'Boom',
          'AssertionError', 'ValueError', 'ImportError')


def enc_obs(trace, kt):
    if 'err' in trace:
        # the exception of the cause reaches the caller with its own type
        return 'OErr' if trace['err'] in ERRORS else REJECT
    if 'constr' not in trace:
        return REJECT
    cons = ['(K %s %s %s)' % (z(s), lst([enc_canon(x, kt) for x in a]),
                              lst(['(%s, %s)' % (z(kt.get(k, -1)), enc_canon(v, kt))
                                   for k, v in kw]))
            for s, a, kw in trace['constr']]
    ents = ['(%s, %s)' % (enc_canon(i, kt), lst([z(x) for x in cs])) for i, cs in trace['ents']]
    cbs = ['(CB %s %s %s %s)' % (z(i), z(k), enc_canon(e, kt), b(ok))
           for i, k, e, ok in trace['cbs']]
    marks = ['(%s, %s)' % (z(k), b(ok)) for k, ok in trace.get('marks', [])]
    return '(OOk (WO %s %s %s %s %s %s))' % (lst(cons), lst([z(x) for x in trace['procs']]),
                                             lst(ents), b(trace['enabled']), lst(cbs), lst(marks))


def _loads(trace):
    return trace.get('loads') or []


def encode(case, trace):
    kt = key_table(case)
    views = _views(case)
    if 'loads' not in trace or len(trace['loads']) != len(views):   # hang / crash: never accepted
        runs = ['(%s, (0, %s))' % (enc_load(views[0][1], kt), REJECT)]
    else:
        runs = ['(%s, (%s, %s))' % (enc_load(v, kt), z(t['world']), enc_obs(t, kt))
                for (_, v), t in zip(views, trace['loads'])]
    return '(Case %s %s)' % (enc_env(case, kt), lst(runs))


# ------------------------------------------------------------------ evidence
def _dicts(case):
    out = []
    for d in _descs(case):
        out += list(d.get('processors', [])) + [c for e in d.get('entities', [])
                                               for c in e.get('components', [])]
    return out


def nontrivial(case, trace):
    t = case.get('tags', {})
    refs = t.get('exact_obj', 0) + t.get('exact_res', 0) + t.get('exact_handle', 0)
    ls = _loads(trace)
    return bool(ls) and 'constr' in ls[0] and len(ls[0]['constr']) >= 2 and refs >= 1


def stats(cases, traces):
    tot = {}
    for c in cases:
        for k, v in c.get('tags', {}).items():
            tot[k] = tot.get(k, 0) + v
    out = dict(arguments_by_form=tot)
    kinds, passes, steps = {}, {}, dict(default=0, file=0, dict=0, mark=0)
    for c in cases:
        k = c.get('kind', 'file')
        if k == 'direct':
            k = 'direct_enabled' if c['enabled'] else 'direct_disabled'
        kinds[k] = kinds.get(k, 0) + 1
        for st in c.get('steps', []):
            steps[st[0]] += 1
            if st[0] == 'file':
                key = ','.join(st[1])
                passes[key] = passes.get(key, 0) + 1
    out['load_kinds'] = kinds
    out['steps_of_custom_loads'] = steps
    out['custom_pass_lists'] = passes
    out['detached_handles'] = sum(1 for c in cases if c['depth'] == 0)
    every = [t for tr in traces for t in _loads(tr)]
    out['loads_per_case'] = {}
    for tr in traces:
        n = len(_loads(tr))
        out['loads_per_case'][n] = out['loads_per_case'].get(n, 0) + 1
    ops = {}
    for c in cases:
        if c.get('kind', 'file') != 'direct':
            for o in c.get('loads', ['call']):
                o = o if isinstance(o, str) else o['op'] + '+rewritten'
                ops[o] = ops.get(o, 0) + 1
    out['load_operations'] = ops
    out['resources_loaded_more_than_once'] = sum(1 for tr in traces
                                                 for i, n in tr.get('res_loads', []) if n > 1)
    out['loads_aborted'] = sum(1 for t in every if 'err' in t)
    out['constructor_calls'] = sum(len(t.get('constr', [])) for t in every)
    out['entities'] = sum(len(t.get('ents', [])) for t in every)
    out['callbacks'] = sum(len(t.get('cbs', [])) for t in every)
    ids = dict(absent=0, null=0, int=0, str=0)
    nproc = 0
    for c in cases:
        for d in _descs(c):
            nproc += len(d.get('processors', []))
            for e in d.get('entities', []):
                if 'id' not in e:
                    ids['absent'] += 1
                elif e['id'] is None:
                    ids['null'] += 1
                elif isinstance(e['id'], int):
                    ids['int'] += 1
                else:
                    ids['str'] += 1
    out['entity_ids'] = ids
    out['processors_listed'] = nproc
    return out


def _copy(case):
    return json.loads(json.dumps(case))


def _desc_getters(case):
    if case.get('kind', 'file') == 'file':
        out = [lambda c: c['desc']]
    else:
        out = [(lambda c, n=n: c['steps'][n][-1]) for n, st in enumerate(case['steps'])
               if st[0] in ('file', 'dict')]
    for i, ld in enumerate(case.get('loads', [])):
        if isinstance(ld, dict):
            if 'desc' in ld:
                out.append(lambda c, i=i: c['loads'][i]['desc'])
            for m in ld.get('files', {}):
                out.append(lambda c, i=i, m=m: c['loads'][i]['files'][m])
    return out


def shrink(case):
    for n in range(len(case.get('loads', []))):
        if len(case['loads']) > 1:
            c = _copy(case)
            del c['loads'][n]
            yield c
    for n in range(len(case.get('steps', []))):
        c = _copy(case)
        del c['steps'][n]
        if c['steps'] or c['kind'] == 'handle':
            yield c
    for n, st in enumerate(case.get('steps', [])):
        if st[0] == 'file' and st[1] != ['type', 'obj', 'res']:
            c = _copy(case)
            c['steps'][n][1] = ['type', 'obj', 'res']
            yield c
    for get in _desc_getters(case):
        d = get(case)
        for i in range(len(d.get('entities', []))):
            c = _copy(case)
            del get(c)['entities'][i]
            yield c
        for i in range(len(d.get('processors', []))):
            c = _copy(case)
            del get(c)['processors'][i]
            yield c
        for i, e in enumerate(d.get('entities', [])):
            for j in range(len(e.get('components', []))):
                c = _copy(case)
                del get(c)['entities'][i]['components'][j]
                yield c
            if 'id' in e:
                c = _copy(case)
                del get(c)['entities'][i]['id']
                yield c

        def dict_variants(getd):
            dd = getd(case)
            for j in range(len(dd.get('args', []))):
                c = _copy(case)
                del getd(c)['args'][j]
                yield c
            for k in list(dd.get('kwargs', {})):
                c = _copy(case)
                del getd(c)['kwargs'][k]
                yield c
        for i in range(len(d.get('processors', []))):
            yield from dict_variants(lambda c, i=i, get=get: get(c)['processors'][i])
        for i, e in enumerate(d.get('entities', [])):
            for j in range(len(e.get('components', []))):
                yield from dict_variants(
                    lambda c, i=i, j=j, get=get: get(c)['entities'][i]['components'][j])
    if case['depth'] > 1:
        c = _copy(case)
        c['depth'] = 1
        yield c


def mutate(case, rng):
    """neighbourhood: replace one argument by a freshly generated one"""
    for _ in range(200):
        c = _copy(case)
        ds = _dicts(c)
        if not ds:
            return
        d = rng.choice(ds)
        tags = dict(exact_obj=0, exact_res=0, exact_handle=0, lookalike=0, plain=0, abort=0)
        a = _gen_arg(rng, c['ns'], c['tree'], tags)
        if d.get('args') and rng.random() < 0.6:
            d['args'][rng.randrange(len(d['args']))] = a
        else:
            d.setdefault('kwargs', {})[rng.choice(['a', 'b', 'k1'])] = a
        yield c
