"""C19 - controllers, references and prototypes are faithful shorthands."""
from harness.core import z, b, lst, opt

ID = 'C19'
COQ_MODULE = 'Desper.Logic.C19Model'
CASE_TYPE = 'C19_case'
VERDICT = 'C19_verdict'
PROPS_FILE = 'theories/Props/C19.v'
THEOREM = 'C19_shorthands_faithful'
RULE = ('three kinds of cases. ctrl (60%): twin sides, each with two independent Worlds sharing '
        'the controller instances (45% of the cases use the second world: controllers are '
        'removed from one world and attached in the other and back), driven by the same history '
        '(create_entity / add_component / remove_component / delete_entity deferred+immediate / '
        'process / dispatch_enabled toggles / processors) over 2-5 component classes and 1-3 '
        'Controller subclasses (random DAGs), 1-4 entities, instances re-attached now and then '
        '(on_add runs again); 55% of the cases keep reading the same reference of one '
        'controller while its entity is changed directly / through other controllers / deleted and '
        'rebuilt / the controller moves; every shorthand (six methods, also '
        'as module-level functions, ComponentReference and ProcessorReference get/set/del, '
        'desper.controller()) is issued through a controller on world A and as the plain World '
        'call for the owner entity on world B; results, callbacks and a full public snapshot '
        '(entities, get_components and entity_exists of every entity, processors and their '
        'priority attributes, every '
        'controller\'s entity/world) of both are recorded after every op. proto (25%): Prototype '
        'class chains (subclass overriding component_types / init_methods / init_prefix / named '
        'methods / _default_init, instance attributes), 1-5 listed types whose three sources '
        '(init_methods entry, prefix+name method, nullary constructor) are present/absent in all '
        '8 combinations, equal __name__ for distinct types, three prefixes; iterated twice. '
        'upd (15%): handlers (listening to on_update or not, renamed callbacks) added/removed '
        'through add_handler or as components, OnUpdateProcessor added/removed (new instances, '
        'instances that already ran a frame in another world, instances removed earlier and '
        're-added; removed instances then run a frame in another world), frames with '
        'dyadic dt. non-trivial = ctrl: >= 3 shorthand ops; proto: a listed type with >= 2 '
        'sources; upd: a frame with >= 2 listeners')
TRUSTED = [
    'Coq 8.16.1 kernel + vm_compute (evaluation of C19_verdict on the observed traces)',
    'hand-written model Logic/C19Model.v (+ C07Model.v for the processor part) tied to /repo '
    'by this correspondence run (sampled, not exhaustive)',
    'harness doubles; the harness\'s own table "shorthand -> World call" used to drive world B; '
    'object identity -> serial numbers, sorting of tuple results, exception -> small enum',
    'CPython attribute lookup / descriptors / generator expressions; attribute names '
    'prefix+name are mapped to pairs of numbers (the strings used make the map injective)',
]
ASSUMPTIONS = [
    'a shorthand is used only through a controller whose on_add has been delivered (world '
    'enabled at or after its latest attachment); the World call it is compared with names the '
    'entity of that attachment',
    'part C: frames run while dispatching is enabled (deferral of events is C04)',
    'builders given to a Prototype return a new object on each call (they are user code)',
]
CASE_TIMEOUT = 10

DTS = [0, 1, 4, 8, 16, 24]
PREFIXES = ['init_', 'make_', 'build_']
NAMES = ['A', 'B', 'C', 'D']
CT0, KT0, PT0 = 0, 50, 100          # type numbers: components, controllers, processors


# =================================================================== generator
def _mro_ok(bases_list):
    cls = []
    try:
        for i, bs in enumerate(bases_list):
            cls.append(type('K%d' % i, tuple(cls[j] for j in bs) or (object,), {}))
    except TypeError:
        return None
    return cls


def _dag(rng, n):
    while True:
        bases = [[]]
        for i in range(1, n):
            r = rng.random()
            if r < 0.3:
                bs = [0]
            elif r < 0.75 or i < 2:
                bs = [rng.randrange(i)]
            else:
                bs = sorted(rng.sample(range(i), 2), reverse=True)
            bases.append(bs)
        cls = _mro_ok(bases)
        if cls:
            anc = [[j for j in range(n) if issubclass(cls[i], cls[j])] for i in range(n)]
            return bases, anc


EQ_MODES = [None, None, None, None, None, None, None, 'true', 'false', 'class']
FALSY = [None, None, None, None, None, 'bool', 'len']


def gen_ctrl(rng):
    """Twin-side history over two worlds.  The generator keeps a conservative picture of
    what is certainly true on the real worlds: on[c] = slots (world, entity) component c is
    certainly attached to; own[k] = (world, entity) of controller k's latest delivered
    on_add; pend[j] = on_add notifications waiting in world j."""
    nct = rng.randint(2, 5)
    nkt = rng.randint(1, 3)
    npt = rng.randint(1, 3)
    cb, canc = _dag(rng, nct)
    kb, kanc = _dag(rng, nkt)
    pb, panc = _dag(rng, npt)
    ne = rng.randint(1, 4)
    ents = list(range(1, ne + 1))
    two = rng.random() < 0.45                 # the second world takes part
    focus_mode = rng.random() < 0.55
    nops = rng.randint(10, 26) if focus_mode else rng.randint(4, 22)
    comps = []
    for _ in range(rng.randint(12, 22) if focus_mode else rng.randint(6, 16)):
        comps.append(['k', rng.randrange(nkt)] if rng.random() < 0.45 else
                     ['c', rng.randrange(nct)])
    comps += [['plain', 0]] * rng.randint(0, 2)
    procs = [rng.randrange(npt) for _ in range(rng.randint(1, 4))]
    fpt = rng.choice(procs)
    if focus_mode:
        procs += [fpt] * rng.randint(1, 2)
    pprio = [rng.choice([None, -2, -1, 0, 1, 2]) for _ in range(npt)]
    piprio = [rng.choice([-2, -1, 1, 2]) if rng.random() < 0.35 else None for _ in procs]
    peq = [rng.choice(EQ_MODES) for _ in range(npt)]
    pfalsy = [rng.choice(FALSY) for _ in range(npt)]
    plist = list(range(len(procs)))
    alltypes = [CT0 + i for i in range(nct)] + [KT0 + i for i in range(nkt)]

    def tyid(c):
        kind, i = comps[c]
        return KT0 + i if kind == 'k' else (CT0 + i if kind == 'c' else KT0 - 1)

    def issub(u, t):
        if KT0 <= u < PT0 and KT0 <= t < PT0:
            return (t - KT0) in kanc[u - KT0]
        if u < KT0 - 1 and t < KT0 - 1:
            return t in canc[u]
        return u == t

    unused = [i for i, c in enumerate(comps) if c[0] != 'plain']
    plain_unused = [i for i, c in enumerate(comps) if c[0] == 'plain']
    rng.shuffle(unused)
    used = []
    on, own = {}, {}
    pend = {1: [], 2: []}
    enabled = {1: True, 2: True}
    pendel = set()
    ops = []

    def emit(j, o):
        ops.append(o if j == 1 else ['w2', o])

    def world():
        return 2 if two and rng.random() < 0.4 else 1

    def detach(slot, pred):
        for c in on:
            if slot in on[c] and pred(tyid(c)):
                on[c].discard(slot)

    def attach(j, e, c):
        t = tyid(c)
        detach((j, e), lambda u: u == t)
        on.setdefault(c, set()).add((j, e))
        if comps[c][0] == 'k':
            if enabled[j]:
                own[c] = (j, e)
            else:
                pend[j].append((c, e))

    def enable(j, flag):
        enabled[j] = flag
        if flag:
            for c, e in pend[j]:
                own[c] = (j, e)
            pend[j] = []

    def waiting(k):
        return any(c == k for j in (1, 2) for c, _ in pend[j])

    def usable():
        return [k for k in own if not waiting(k) and
                (comps[k][0] == 'plain' or own[k] in on.get(k, ()))]

    def present(slot):
        return [c for c in on if slot in on[c]]

    def take(kind=None):
        if used and rng.random() < 0.15:      # an instance attached before: on_add runs again
            cands = [c for c in used if kind is None or comps[c][0] == kind]
            if cands:
                return rng.choice(cands)
        for i, c in enumerate(unused):
            if kind is None or comps[c][0] == kind:
                used.append(c)
                return unused.pop(i)
        return None

    def take_type(ty):
        for i, c in enumerate(unused):
            if tyid(c) == ty:
                used.append(c)
                return unused.pop(i)
        return None

    def short(k, sh, form='method'):
        j, e = own[k]
        emit(j, ['short', k, e, sh, form])

    def types_at(slot):
        return sorted({u for c in present(slot) for u in alltypes if issub(tyid(c), u)})

    def read_op(k):
        slot = own[k]
        plain = comps[k][0] == 'plain'
        tys = types_at(slot) or alltypes
        t = rng.choice(tys) if rng.random() < 0.85 else rng.choice(alltypes)
        z = rng.random()
        form = rng.choice(['method', 'function'])
        if z < 0.45 and not plain:
            return ['refget', t], 'method'
        if z < 0.58:
            return ['sget', t], form
        if z < 0.68:
            return ['sgetall'], form
        if z < 0.76 or plain:
            return ['shas', t], form
        pt = fpt if rng.random() < 0.8 else rng.randrange(npt)
        return ['prefget', PT0 + rng.choice(panc[pt])], 'method'

    def move(k):
        """the controller goes to another entity, possibly of the other world"""
        j, e = own[k]
        j2 = (3 - j) if two and rng.random() < 0.7 else j
        e2 = rng.choice(ents)
        if (j2, e2) == (j, e):
            return False
        if rng.random() < 0.6 and (j, e) in on.get(k, ()):
            t = tyid(k)                           # taken off where it is (exact type: certain)
            detach((j, e), lambda u: u == t)
            emit(j, ['remove', e, t])
        attach(j2, e2, k)
        emit(j2, ['add', e2, k])
        return True

    focus = [None]
    script = []

    def focused():
        k = focus[0]
        if k not in own:
            return False
        if waiting(k):
            for j in (1, 2):
                if any(c == k for c, _ in pend[j]):
                    enable(j, True)
                    emit(j, ['enable', True])
                    return True
        if own[k] not in on.get(k, ()):
            j, e = world(), rng.choice(ents)      # put it somewhere again
            cs = [k]
            c = take('c')
            if c is not None:
                cs.append(c)
            for c in cs:
                attach(j, e, c)
            emit(j, ['create', e, cs])
            return True
        j, e = own[k]
        slot = (j, e)
        if script:
            step = script.pop(0)
            if step == 'move':
                return move(k)
            short(k, step[0], step[1])
            return True
        here = [c for c in present(slot) if c != k]
        others = [c for c in here if c in usable() and own.get(c) == slot]
        q = rng.random()
        if q < 0.40:
            sh, form = read_op(k)
            short(k, sh, form)
            return True
        if q < 0.66 and here:                     # replace a component of the same exact type
            new = take_type(tyid(rng.choice(here)))
            if new is None:
                return False
            z = rng.random()
            if z < 0.4:
                attach(j, e, new)
                emit(j, ['add', e, new])
            elif z < 0.7 and others:
                k2 = rng.choice(others)
                attach(j, e, new)
                short(k2, ['sadd', new])
            else:
                attach(j, e, new)
                short(k, ['sadd', new], rng.choice(['method', 'function']))
            return True
        if q < 0.74 and here:                     # remove behind its back
            c0 = rng.choice(here)
            t = rng.choice([u for u in alltypes if issub(tyid(c0), u)] or alltypes)
            k2 = rng.choice(others) if others and rng.random() < 0.4 else None
            detach(slot, lambda u: issub(u, t))
            if k2 is not None and slot in on.get(k2, ()):
                short(k2, ['sremove', t])
            else:
                emit(j, ['remove', e, t])
            return True
        if q < 0.80:                              # another type joins
            new = take('c')
            if new is None:
                return False
            attach(j, e, new)
            emit(j, ['add', e, new])
            return True
        if q < 0.88:                              # processors change on that world
            if rng.random() < 0.35 and comps[k][0] != 'plain':
                p = rng.choice(plist)
                sups = [PT0 + x for x in panc[procs[p]]]
                strict = [t for t in sups if t != PT0 + procs[p]]
                short(k, ['prefset', rng.choice(strict or sups), p])
                return True
            z = rng.random()
            same = [p for p in plist if procs[p] == fpt]
            if z < 0.55 and same:
                emit(j, ['addproc', rng.choice(same)])
            elif z < 0.8:
                emit(j, ['addproc', rng.choice(plist)])
            else:
                emit(j, ['remproc', PT0 + (fpt if rng.random() < 0.6 else rng.randrange(npt))])
            return True
        if q < 0.97 and (len(ents) > 1 or two):   # read, move, read again
            sh, form = read_op(k)
            script.extend(['move', (sh, form)])
            short(k, sh, form)
            return True
        detach(slot, lambda u: True)              # the entity is deleted
        pendel.discard(slot)
        emit(j, ['delete', e, True])
        return True

    for _ in range(nops):
        r = rng.random()
        ctrls = [k for k in usable() if comps[k][0] == 'k']
        free = [k for k in usable() if comps[k][0] == 'plain']
        if focus_mode and focus[0] is None and ctrls:
            focus[0] = rng.choice(ctrls)
        if focus_mode and focus[0] is not None and rng.random() < 0.7:
            if focused():
                continue
        j = world()
        if r < 0.18 or not on:
            e = rng.choice(ents)
            cs, seen = [], set()
            for _ in range(rng.randint(1, 3)):
                c = take('k' if rng.random() < 0.6 else None)
                if c is None or tyid(c) in seen or c in cs:
                    continue
                seen.add(tyid(c))
                cs.append(c)
            if not cs:
                continue
            for c in cs:
                attach(j, e, c)
            emit(j, ['create', e, cs])
        elif r < 0.60 and (ctrls or free):
            k = rng.choice(free) if free and (not ctrls or rng.random() < 0.15) else \
                rng.choice(ctrls)
            kj, e = own[k]
            slot = own[k]
            plain = comps[k][0] == 'plain'
            form = rng.choice(['method', 'function'])
            q = rng.random()
            t = rng.choice(alltypes)
            if q < 0.2:
                c = take()
                if c is None:
                    continue
                if not plain and rng.random() < 0.4:
                    sups = [u for u in alltypes if issub(tyid(c), u)]
                    sh, form = ['refset', rng.choice(sups), c], 'method'
                else:
                    sh = ['sadd', c]
                attach(kj, e, c)
            elif q < 0.34:
                sh = ['sremove', t]
                if not plain and rng.random() < 0.4:
                    sh, form = ['refdel', t], 'method'
                detach(slot, lambda u: issub(u, t))
            elif q < 0.44:
                sh = ['shas', t]
            elif q < 0.58:
                sh = ['sget', t]
                if not plain and rng.random() < 0.5:
                    sh, form = ['refget', t], 'method'
            elif q < 0.68:
                sh = ['sgetall']
            elif q < 0.80 and present(slot):
                sh = ['sdelete']
                pendel.add(slot)
            elif plain:
                sh = ['sgetall']
            elif q < 0.87:
                sh, form = ['prefget', PT0 + rng.randrange(npt)], 'method'
            elif q < 0.95:
                p = rng.randrange(len(procs))
                sups = [PT0 + x for x in panc[procs[p]]]
                strict = [x for x in sups if x != PT0 + procs[p]]
                sh = ['prefset', rng.choice(strict if strict and rng.random() < 0.7 else sups), p]
                form = 'method'
            else:
                sh, form = ['prefdel', PT0 + rng.randrange(npt)], 'method'
            emit(kj, ['short', k, e, sh, form])
        elif r < 0.64 and ctrls and (two or len(ents) > 1):
            k = rng.choice(ctrls)
            sh, form = read_op(k)
            short(k, sh, form)
            if move(k) and not waiting(k):
                short(k, sh, form)
        elif r < 0.69:
            c = take()
            if c is None:
                continue
            e = rng.choice(ents)
            attach(j, e, c)
            emit(j, ['add', e, c])
        elif r < 0.74:
            e = rng.choice(ents)
            t = rng.choice(alltypes)
            detach((j, e), lambda u: issub(u, t))
            emit(j, ['remove', e, t])
        elif r < 0.78:
            emit(j, [rng.choice(['has', 'get']), rng.choice(ents), rng.choice(alltypes)])
        elif r < 0.81:
            e = rng.choice(ents)
            if rng.random() < 0.5:
                detach((j, e), lambda u: True)
                pendel.discard((j, e))
                emit(j, ['delete', e, True])
            elif present((j, e)):
                pendel.add((j, e))
                emit(j, ['delete', e, False])
        elif r < 0.88:
            for slot in [x for x in pendel if x[0] == j]:
                detach(slot, lambda u: True)
                pendel.discard(slot)
            emit(j, ['process', rng.choice(DTS)])
        elif r < 0.94:
            flag = rng.random() < 0.65
            enable(j, flag)
            emit(j, ['enable', flag])
        elif r < 0.97 and plain_unused:
            k = plain_unused.pop()
            e = rng.choice(ents)
            own[k] = (j, e)
            emit(j, ['mk', k, e])
        else:
            q = rng.random()
            if q < 0.6:
                emit(j, ['addproc', rng.randrange(len(procs))])
            elif q < 0.8:
                emit(j, ['getproc', PT0 + rng.randrange(npt)])
            else:
                emit(j, ['remproc', PT0 + rng.randrange(npt)])
    return dict(kind='ctrl', cbases=cb, kbases=kb, pbases=pb, pprio=pprio, piprio=piprio,
                peq=peq, pfalsy=pfalsy, comps=comps, procs=procs, ents=ents, ops=ops)


def gen_proto(rng):
    nt = rng.randint(1, 5)
    types = [dict(name=rng.randrange(len(NAMES)), nullary=rng.random() < 0.6) for _ in range(nt)]
    fid = [0]

    def newfid():
        fid[0] += 1
        return fid[0]

    def body(first):
        d = {}
        if first or rng.random() < 0.4:
            k = rng.randint(1, 5)
            d['types'] = [rng.randrange(nt) for _ in range(k)]
        if first and rng.random() < 0.7 or rng.random() < 0.4:
            d['methods'] = [[t, newfid()] for t in range(nt) if rng.random() < 0.5]
        if rng.random() < (0.5 if first else 0.35):
            d['prefix'] = rng.randrange(len(PREFIXES))
        named = []
        for q in range(len(PREFIXES)):
            for n in range(len(NAMES)):
                if rng.random() < (0.45 if q == 0 else 0.25):
                    named.append([q, n, newfid()])
        d['named'] = named
        if rng.random() < 0.15:
            d['default'] = newfid()
        return d
    classes = [dict(base=None, **body(True))]
    for i in range(rng.randint(0, 2)):
        classes.append(dict(base=rng.randrange(len(classes)), **body(False)))
    protos = []
    for _ in range(rng.randint(1, 2)):
        inst_attrs = []
        if rng.random() < 0.25:
            inst_attrs.append([rng.randrange(len(PREFIXES)), rng.randrange(len(NAMES)), newfid()])
        protos.append(dict(cls=rng.randrange(len(classes)), inst_attrs=inst_attrs))
    return dict(kind='proto', types=types, classes=classes, protos=protos, iters=2)


def gen_upd(rng):
    nh = rng.randint(1, 5)
    handlers = [dict(listens=rng.random() < 0.8, rename=rng.random() < 0.3) for _ in range(nh)]
    ops = []
    for _ in range(rng.choice([0, 1, 2, 3])):
        ops.append(['addh', rng.randrange(nh), rng.choice(['handler', 'component'])])
    if rng.random() < 0.7:
        ops.append(['addoup', rng.random() < 0.3, rng.choice([0, 0, 1, 2])])
    for _ in range(rng.randint(3, 16)):
        r = rng.random()
        if r < 0.33:
            ops.append(['addh', rng.randrange(nh), rng.choice(['handler', 'component'])])
        elif r < 0.43:
            ops.append(['remh', rng.randrange(nh)])
        elif r < 0.53:
            # third field: 0 a new instance, 1 an instance that already ran a
            # frame in another world, 2 an instance removed from this world
            # earlier (if any)
            ops.append(['addoup', rng.random() < 0.3, rng.choice([0, 0, 1, 2])])
        elif r < 0.59:
            # second field: the removed instance then runs a frame in another
            # world (it must not relay into this one any more)
            ops.append(['remoup', rng.random() < 0.5])
        else:
            ops.append(['process', rng.choice(DTS)])
    return dict(kind='upd', handlers=handlers, sub=rng.random() < 0.3, ops=ops)


def gen(rng, tier):
    n = {'quick': 400, 'thorough': 4000, 'search': 300}[tier]
    out = []
    for i in range(n):
        r = rng.random()
        out.append(gen_ctrl(rng) if r < 0.6 else gen_proto(rng) if r < 0.85 else gen_upd(rng))
    return out


# ================================================================ implementation
def exn_code(ex):
    if isinstance(ex, KeyError):
        return 1
    if isinstance(ex, AssertionError):
        return 2
    return 3


def run(case):
    return {'ctrl': run_ctrl, 'proto': run_proto, 'upd': run_upd}[case['kind']](case)


def hostile_ns(eq, falsy):
    """class attributes of a processor that is hostile to == and to truth tests"""
    ns = {}
    if eq == 'true':
        ns['__eq__'] = lambda self, other: True
        ns['__ne__'] = lambda self, other: False
    elif eq == 'false':
        ns['__eq__'] = lambda self, other: False
        ns['__ne__'] = lambda self, other: False
    elif eq == 'class':
        ns['__eq__'] = lambda self, other: type(self) is type(other)
    if eq:
        ns['__hash__'] = object.__hash__
    if falsy == 'bool':
        ns['__bool__'] = lambda self: False
    elif falsy == 'len':
        ns['__len__'] = lambda self: 0
    return ns


def unwrap(o):
    return (2, o[1]) if o[0] == 'w2' else (1, o)


def run_ctrl(case):
    import desper
    log = []
    nct, nkt, npt = len(case['cbases']), len(case['kbases']), len(case['pbases'])
    cclasses, kclasses, pclasses = [], [], []
    for i, bs in enumerate(case['cbases']):
        cclasses.append(type('C%d' % i, tuple(cclasses[j] for j in bs) or (object,), {}))
    for i, bs in enumerate(case['pbases']):
        ns = {'process': lambda self, dt=1: log.append([self.side, self.serial, dt])}
        if case['pprio'][i] is not None:
            ns['priority'] = case['pprio'][i]
        ns.update(hostile_ns((case.get('peq') or [None] * npt)[i],
                             (case.get('pfalsy') or [None] * npt)[i]))
        pclasses.append(type('P%d' % i, tuple(pclasses[j] for j in bs) or (desper.Processor,), ns))
    for i, bs in enumerate(case['kbases']):
        kclasses.append(type('K%d' % i, tuple(kclasses[j] for j in bs) or (desper.Controller,),
                             {}))
    for kc in kclasses:             # every controller class gets a reference per type
        for t, cls in enumerate(cclasses):
            setattr(kc, 'cref_%d' % (CT0 + t), desper.ComponentReference(cls))
        for t, cls in enumerate(kclasses):
            setattr(kc, 'cref_%d' % (KT0 + t), desper.ComponentReference(cls))
        for t, cls in enumerate(pclasses):
            setattr(kc, 'pref_%d' % (PT0 + t), desper.ProcessorReference(cls))
    tycls = {}
    for t, cls in enumerate(cclasses):
        tycls[CT0 + t] = cls
    for t, cls in enumerate(kclasses):
        tycls[KT0 + t] = cls
    for t, cls in enumerate(pclasses):
        tycls[PT0 + t] = cls
    tycls[KT0 - 1] = desper.Controller
    hier = [[t, sorted(u for u, cu in tycls.items() if issubclass(ct, cu))]
            for t, ct in sorted(tycls.items())]

    class Side:
        def __init__(self, name):
            self.name = name
            self.ws = {1: desper.World(), 2: desper.World()}
            self.comps = []
            for kind, i in case['comps']:
                self.comps.append(None if kind == 'plain' else
                                  (kclasses[i]() if kind == 'k' else cclasses[i]()))
            self.procs = []
            for k, i in enumerate(case['procs']):
                p = pclasses[i]()
                p.side, p.serial = name, k
                ip = (case.get('piprio') or [None] * len(case['procs']))[k]
                if ip is not None:
                    p.priority = ip
                self.procs.append(p)

        def cidx(self, obj):
            if obj is None:
                return None
            for k, c in enumerate(self.comps):
                if c is obj:
                    return k
            return -1

        def pidx(self, obj):
            if obj is None:
                return None
            for k, p in enumerate(self.procs):
                if p is obj:
                    return k
            return -1

        def snap(self, j):
            w = self.ws[j]
            cent, world_ok = [], True
            for k, (kind, _) in enumerate(case['comps']):
                if kind == 'c':
                    continue
                c = self.comps[k]
                ent = None if c is None else c.entity
                if ent is None:
                    cent.append([k, None])
                    continue
                widx = 1 if c.world is self.ws[1] else 2 if c.world is self.ws[2] else 0
                if widx == 0 and c.world is not None:
                    world_ok = False
                cent.append([k, [ent if isinstance(ent, int) else -99, widx]])
            return dict(
                entities=sorted(w.entities),
                comps=[sorted(self.cidx(c) for c in w.get_components(e)) for e in case['ents']],
                exists=[bool(w.entity_exists(e)) for e in case['ents']],
                procs=[self.pidx(p) for p in w.processors],
                prios=[p.priority if isinstance(p.priority, int) else -7777
                       for p in w.processors],
                cent=cent, world=world_ok)

    A, B = Side('A'), Side('B')

    def world_call(S, j, o):
        """a direct World call on world j; returns (res, pick)"""
        w, kind = S.ws[j], o[0]
        if kind == 'create':
            r = w.create_entity(*[S.comps[c] for c in o[2]], entity_id=o[1])
            return ['opt', r], None
        if kind == 'add':
            w.add_component(o[1], S.comps[o[2]])
            return ['none'], None
        if kind == 'remove':
            r = S.cidx(w.remove_component(o[1], tycls[o[2]]))
            return ['opt', r], r
        if kind == 'has':
            return ['bool', bool(w.has_component(o[1], tycls[o[2]]))], None
        if kind == 'get':
            r = S.cidx(w.get_component(o[1], tycls[o[2]]))
            return ['opt', r], r
        if kind == 'getall':
            return ['list', sorted(S.cidx(c) for c in w.get_components(o[1]))], None
        if kind == 'delete':
            if o[2]:
                w.delete_entity(o[1], immediate=True)
            else:
                w.delete_entity(o[1])
            return ['none'], None
        if kind == 'process':
            w.process(o[1] / 8)
            return ['none'], None
        if kind == 'enable':
            w.dispatch_enabled = o[1]
            return ['none'], None
        if kind == 'addproc':
            w.add_processor(S.procs[o[1]])
            return ['none'], None
        if kind == 'getproc':
            r = S.pidx(w.get_processor(tycls[o[1]]))
            return ['opt', r], r
        if kind == 'remproc':
            r = S.pidx(w.remove_processor(tycls[o[1]]))
            return ['opt', r], r
        raise ValueError(kind)

    def lower(e, s):
        """the World call a shorthand stands for, (op, discard result)"""
        k = s[0]
        if k in ('sadd',):
            return ['add', e, s[1]], False
        if k == 'refset':
            return ['add', e, s[2]], False
        if k == 'sremove':
            return ['remove', e, s[1]], False
        if k == 'refdel':
            return ['remove', e, s[1]], True
        if k == 'shas':
            return ['has', e, s[1]], False
        if k in ('sget', 'refget'):
            return ['get', e, s[1]], False
        if k == 'sgetall':
            return ['getall', e], False
        if k == 'sdelete':
            return ['delete', e, False], False
        if k == 'prefget':
            return ['getproc', s[1]], False
        if k == 'prefset':
            return ['addproc', s[2]], False
        if k == 'prefdel':
            return ['remproc', s[1]], True
        raise ValueError(k)

    def through(S, k, s, form):
        """the shorthand itself, through controller k"""
        ctl, kind = S.comps[k], s[0]
        meth = form == 'method'
        if kind == 'sadd':
            (ctl.add_component if meth else lambda c: desper.add_component(ctl, c))(S.comps[s[1]])
            return ['none'], None
        if kind == 'sremove':
            r = ctl.remove_component(tycls[s[1]]) if meth else \
                desper.remove_component(ctl, tycls[s[1]])
            r = S.cidx(r)
            return ['opt', r], r
        if kind == 'shas':
            r = ctl.has_component(tycls[s[1]]) if meth else desper.has_component(ctl, tycls[s[1]])
            return ['bool', bool(r)], None
        if kind == 'sget':
            r = ctl.get_component(tycls[s[1]]) if meth else desper.get_component(ctl, tycls[s[1]])
            r = S.cidx(r)
            return ['opt', r], r
        if kind == 'sgetall':
            r = ctl.get_components() if meth else desper.get_components(ctl)
            return ['list', sorted(S.cidx(c) for c in r)], None
        if kind == 'sdelete':
            r = ctl.delete() if meth else desper.delete(ctl)
            return ['none'], None
        if kind == 'refget':
            r = S.cidx(getattr(ctl, 'cref_%d' % s[1]))
            return ['opt', r], r
        if kind == 'refset':
            setattr(ctl, 'cref_%d' % s[1], S.comps[s[2]])
            return ['none'], None
        if kind == 'refdel':
            delattr(ctl, 'cref_%d' % s[1])
            return ['none'], None
        if kind == 'prefget':
            r = S.pidx(getattr(ctl, 'pref_%d' % s[1]))
            return ['opt', r], r
        if kind == 'prefset':
            setattr(ctl, 'pref_%d' % s[1], S.procs[s[2]])
            return ['none'], None
        if kind == 'prefdel':
            delattr(ctl, 'pref_%d' % s[1])
            return ['none'], None
        raise ValueError(kind)

    out = []
    for wrapped in case['ops']:
        j, o = unwrap(wrapped)
        del log[:]
        cur = 0
        picks = []
        sides = []
        for S in (A, B):
            try:
                if o[0] == 'mk':
                    S.comps[o[1]] = desper.controller(o[2], S.ws[j])
                    res, pick = ['none'], None
                elif o[0] == 'short' and S is A:
                    if o[3][0] == 'prefset':
                        cur = S.procs[o[3][2]].priority
                    res, pick = through(S, o[1], o[3], o[4])
                elif o[0] == 'short':
                    wo, discard = lower(o[2], o[3])
                    res, pick = world_call(S, j, wo)
                    if discard:
                        res = ['none']
                else:
                    if o[0] == 'addproc' and S is A:
                        cur = S.procs[o[1]].priority
                    res, pick = world_call(S, j, o)
            except Exception as ex:
                res, pick = ['exn', exn_code(ex)], None
            picks.append(pick)
            runs = [[e[1], e[2]] for e in log if e[0] == S.name]
            sides.append(dict(res=res, log=runs, snap=S.snap(j)))
        pick = picks[0] if picks[0] is not None else picks[1]
        out.append(dict(a=sides[0], b=sides[1], pick=pick, cur=cur))
    return dict(obs=out, hier=hier)


def run_proto(case):
    import desper
    log = []

    def mk_type(i, t):
        def init_nullary(self, tag=None):
            if tag is None:
                log.append([0, i, id(self)])

        def init_needs(self, tag):
            pass
        return type(NAMES[t['name']], (object,),
                    {'__init__': init_nullary if t['nullary'] else init_needs})
    types = [mk_type(i, t) for i, t in enumerate(case['types'])]
    tindex = {id(t): i for i, t in enumerate(types)}

    def builder(fid, bound):
        def build(comp_t):
            obj = comp_t(fid)
            log.append([fid, tindex.get(id(comp_t), -1), id(obj)])
            return obj
        if bound:
            f = lambda self, comp_t: build(comp_t)      # noqa: E731
        else:
            f = build
        f.fid = fid
        return f

    classes = []
    for i, c in enumerate(case['classes']):
        ns = {}
        if 'types' in c:
            ns['component_types'] = tuple(types[t] for t in c['types'])
        if 'methods' in c:
            ns['init_methods'] = {types[t]: builder(f, False) for t, f in c['methods']}
        if 'prefix' in c:
            ns['init_prefix'] = PREFIXES[c['prefix']]
        for q, n, f in c['named']:
            ns[PREFIXES[q] + NAMES[n]] = builder(f, True)
        if 'default' in c:
            ns['_default_init'] = builder(c['default'], True)
        base = desper.Prototype if c['base'] is None else classes[c['base']]
        classes.append(type('Proto%d' % i, (base,), ns))

    def fid_of(f):
        f = getattr(f, '__func__', f)
        if f is desper.Prototype._default_init:
            return 0
        return getattr(f, 'fid', -1)

    out = []
    keep, seen = [], set()
    for pr in case['protos']:
        p = classes[pr['cls']]()
        for q, n, f in pr['inst_attrs']:
            setattr(p, PREFIXES[q] + NAMES[n], builder(f, False))
        # the prototype as Python reports it
        facts = dict(
            types=[tindex.get(id(t), -1) for t in p.component_types],
            methods=[[tindex.get(id(t), -1), fid_of(f)] for t, f in p.init_methods.items()],
            prefix=PREFIXES.index(p.init_prefix) if p.init_prefix in PREFIXES else -1,
            attrs=[[q, [[n, fid_of(getattr(p, PREFIXES[q] + NAMES[n]))]
                        for n in range(len(NAMES)) if hasattr(p, PREFIXES[q] + NAMES[n])]]
                   for q in range(len(PREFIXES))],
            default=fid_of(p._default_init))
        iters = []
        for _ in range(case['iters']):
            made, exn = [], 0
            try:
                it = iter(p)
            except Exception:
                iters.append(dict(made=[], exn=3))
                continue
            while True:
                n0 = len(log)
                try:
                    obj = next(it)
                except StopIteration:
                    break
                except TypeError:
                    exn = 2
                    break
                except Exception:
                    exn = 3
                    break
                calls = log[n0:]
                last = calls[-1] if calls else [-1, -1, None]
                made.append([len(calls), last[0], last[1], id(obj) == last[2],
                             id(obj) not in seen])
                keep.append(obj)
                seen.add(id(obj))
            iters.append(dict(made=made, exn=exn))
        out.append(dict(facts=facts, iters=iters))
    return dict(protos=out)


def run_upd(case):
    import desper
    log = []

    def mk_handler(i, h):
        def cb(self, dt):
            log.append([i, dt])
        ev = 'on_update' if h['listens'] else 'on_other'
        if h['rename']:
            cls = type('H%d' % i, (object,), {'updated': cb})
            return desper.event_handler(**{ev: 'updated'})(cls)()
        cls = type('H%d' % i, (object,), {ev: cb})
        return desper.event_handler(ev)(cls)()
    hs = [mk_handler(i, h) for i, h in enumerate(case['handlers'])]
    oup_cls = desper.OnUpdateProcessor
    if case['sub']:
        oup_cls = type('MyUpdate', (desper.OnUpdateProcessor,), {})
    w = desper.World()
    as_comp = {}
    out = []
    serial = 0
    pool = []      # OnUpdateProcessor instances removed from w, in no world
    for o in case['ops']:
        del log[:]
        exn = 0
        moved = 0     # 1 ran elsewhere before, 2 re-added instance, 3 runs elsewhere after removal
        try:
            if o[0] == 'addh':
                if o[2] == 'component' and o[1] not in as_comp:
                    as_comp[o[1]] = w.create_entity(hs[o[1]], entity_id=1000 + o[1])
                else:
                    w.add_handler(hs[o[1]])
            elif o[0] == 'remh':
                if o[1] in as_comp:
                    w.delete_entity(as_comp.pop(o[1]), immediate=True)
                else:
                    w.remove_handler(hs[o[1]])
            elif o[0] == 'addoup':
                serial += 1
                how = o[2] if len(o) > 2 else 0
                if how == 2 and pool:
                    inst = pool.pop()
                    moved = 2
                else:
                    inst = oup_cls()
                    if how == 1:
                        moved = 1
                        side = desper.World()
                        side.add_processor(inst)
                        side.process(1 / 8)
                        side.remove_processor(type(inst))
                w.add_processor(inst, 3 if o[1] else None)
            elif o[0] == 'remoup':
                inst = w.get_processor(desper.OnUpdateProcessor)
                w.remove_processor(desper.OnUpdateProcessor)
                if inst is not None:
                    if len(o) > 1 and o[1]:
                        moved = 3
                        side = desper.World()
                        side.add_processor(inst)
                        side.process(1 / 8)
                        side.remove_processor(type(inst))
                    pool.append(inst)
            elif o[0] == 'process':
                w.process(o[1] / 8)
        except Exception as ex:
            exn = exn_code(ex)
        out.append(dict(exn=exn, calls=sorted(log), moved=moved))
    return dict(obs=out)


# ===================================================================== encoding
def d8(dt):
    v = dt * 8
    try:
        return z(int(v)) if v == int(v) else '(-7777)'
    except (TypeError, ValueError, OverflowError):
        return '(-7777)'


def enc_res(r):
    if r[0] == 'none':
        return 'RNone'
    if r[0] == 'opt':
        v = r[1]
        if v is not None and not isinstance(v, int):
            v = -98
        return '(ROpt %s)' % opt(None if v is None else z(v))
    if r[0] == 'bool':
        return '(RBool %s)' % b(r[1])
    if r[0] == 'list':
        return '(RList %s)' % lst([z(x) for x in r[1]])
    return '(RExn %s)' % z(r[1])


def enc_snap(s):
    return '(Build_snap %s %s %s %s %s %s %s)' % (
        lst([z(e) if isinstance(e, int) else '(-97)' for e in s['entities']]),
        lst([lst([z(c) for c in cs]) for cs in s['comps']]),
        lst([b(x) for x in s['exists']]),
        lst([z(p) for p in s['procs']]),
        lst([z(p) for p in s['prios']]),
        lst(['(%s, %s)' % (z(k), opt(None if e is None else '(%s, %s)' % (z(e[0]), z(e[1]))))
             for k, e in s['cent']]),
        b(s['world']))


BAD = '(CaseUpd {| uc_listens := []; uc_trace := [(UProcess 0, [(0, 0)])] |})'


def enc_wop(o, cur):
    k = o[0]
    if k == 'create':
        return '(WCreate %s %s)' % (z(o[1]), lst([z(c) for c in o[2]]))
    if k == 'add':
        return '(WAdd %s %s)' % (z(o[1]), z(o[2]))
    if k in ('remove', 'has', 'get'):
        return '(%s %s %s)' % ({'remove': 'WRemove', 'has': 'WHas', 'get': 'WGet'}[k],
                               z(o[1]), z(o[2]))
    if k == 'getall':
        return '(WGetAll %s)' % z(o[1])
    if k == 'delete':
        return '(WDelete %s %s)' % (z(o[1]), b(o[2]))
    if k == 'process':
        return '(WProcess %s)' % z(o[1])
    if k == 'enable':
        return '(WEnable %s)' % b(o[1])
    if k == 'addproc':
        return '(WAddProc %s %s)' % (z(o[1]), z(cur))
    if k == 'getproc':
        return '(WGetProc %s)' % z(o[1])
    if k == 'remproc':
        return '(WRemoveProc %s)' % z(o[1])
    raise ValueError(k)


def enc_sh(s, cur):
    k = s[0]
    one = {'sadd': 'SAdd', 'sremove': 'SRemove', 'shas': 'SHas', 'sget': 'SGet',
           'refget': 'SRefGet', 'refdel': 'SRefDel', 'prefget': 'SPRefGet', 'prefdel': 'SPRefDel'}
    if k in one:
        return '(%s %s)' % (one[k], z(s[1]))
    if k == 'sgetall':
        return 'SGetAll'
    if k == 'sdelete':
        return 'SDelete'
    if k == 'refset':
        return '(SRefSet %s %s)' % (z(s[1]), z(s[2]))
    if k == 'prefset':
        return '(SPRefSet %s %s %s)' % (z(s[1]), z(s[2]), z(cur))
    raise ValueError(k)


def tyid(case, c):
    kind, i = case['comps'][c]
    return KT0 + i if kind == 'k' else (CT0 + i if kind == 'c' else KT0 - 1)


def encode(case, trace):
    if trace.get('hang') or trace.get('crash'):
        return BAD
    if case['kind'] == 'ctrl':
        hier = lst(['(%s, %s)' % (z(t), lst([z(u) for u in anc])) for t, anc in trace['hier']])
        comps = lst(['(%s, Build_cinst %s %s)' % (z(k), z(tyid(case, k)), b(c[0] != 'c'))
                     for k, c in enumerate(case['comps'])])
        procs = lst(['(%s, Build_inst %s false false false)' % (z(k), z(PT0 + i))
                     for k, i in enumerate(case['procs'])])
        items = []
        for wrapped, ob in zip(case['ops'], trace['obs']):
            j, o = unwrap(wrapped)
            cur = ob['cur'] if isinstance(ob['cur'], int) else -7777
            if o[0] == 'short':
                op = '(OShort %s %s %s %s)' % (z(o[1]), z(o[2]), z(j), enc_sh(o[3], cur))
            elif o[0] == 'mk':
                op = '(OMkCtrl %s %s %s)' % (z(o[1]), z(o[2]), z(j))
            else:
                op = '(ODirect %s %s)' % (z(j), enc_wop(o, cur))
            sides = []
            for s in (ob['a'], ob['b']):
                sides.append('%s %s %s' % (
                    enc_res(s['res']),
                    lst(['(ERun %s %s)' % (z(p), d8(dt)) for p, dt in s['log']]),
                    enc_snap(s['snap'])))
            pick = ob['pick']
            items.append('(%s, Build_cobs %s %s %s)' % (
                op, sides[0], sides[1], opt(None if pick is None else z(pick))))
        return ('(CaseCtrl {| cc_hier := %s; cc_comps := %s; cc_procs := %s; cc_pool := %s; '
                'cc_trace := %s |})' % (hier, comps, procs, lst([z(e) for e in case['ents']]),
                                        lst(items)))
    if case['kind'] == 'proto':
        tinfos = lst(['(%s, Build_tinfo %s %s)' % (z(i), z(t['name']), b(t['nullary']))
                      for i, t in enumerate(case['types'])])
        protos = []
        for pr in trace['protos']:
            f = pr['facts']
            p = '(Build_proto %s %s %s %s %s)' % (
                lst([z(t) for t in f['types']]),
                lst(['(%s, %s)' % (z(t), z(g)) for t, g in f['methods']]),
                z(f['prefix']),
                lst(['(%s, %s)' % (z(q), lst(['(%s, %s)' % (z(n), z(g)) for n, g in tbl]))
                     for q, tbl in f['attrs']]),
                z(f['default']))
            its = lst(['(Build_iter_obs %s %s)' % (
                lst(['(Build_made %s %s %s %s %s)' % (z(m[0]), z(m[1]), z(m[2]), b(m[3]), b(m[4]))
                     for m in it['made']]), z(it['exn'])) for it in pr['iters']])
            protos.append('(%s, %s)' % (p, its))
        return '(CaseProto {| pc_types := %s; pc_protos := %s |})' % (tinfos, lst(protos))
    # upd
    listens = lst(['(%s, %s)' % (z(i), b(h['listens'])) for i, h in enumerate(case['handlers'])])
    items = []
    serial = 0
    for o, ob in zip(case['ops'], trace['obs']):
        if o[0] == 'addh':
            op = '(UAddH %s)' % z(o[1])
        elif o[0] == 'remh':
            op = '(URemH %s)' % z(o[1])
        elif o[0] == 'addoup':
            serial += 1
            op = '(UAddOUP %s)' % z(serial)
        elif o[0] == 'remoup':
            op = 'URemOUP'
        else:
            op = '(UProcess %s)' % z(o[1])
        calls = [['(%s, %s)' % (z(h), d8(dt)) for h, dt in ob['calls']]][0]
        if ob['exn']:
            calls = calls + ['(-1, -1)']
        items.append('(%s, %s)' % (op, lst(calls)))
    return '(CaseUpd {| uc_listens := %s; uc_trace := %s |})' % (listens, lst(items))


# ===================================================================== evidence
def nontrivial(case, trace):
    if case['kind'] == 'ctrl':
        return sum(1 for o in case['ops'] if unwrap(o)[1][0] == 'short') >= 3
    if case['kind'] == 'proto':
        for pr in trace.get('protos', []):
            f = pr['facts']
            m = {t for t, _ in f['methods']}
            named = {n for q, tbl in f['attrs'] if q == f['prefix'] for n, _ in tbl}
            for t in f['types']:
                if 0 <= t < len(case['types']):
                    srcs = (t in m) + (case['types'][t]['name'] in named) + \
                        bool(case['types'][t]['nullary'])
                    if srcs >= 2:
                        return True
        return False
    return any(o[0] == 'process' and len(ob['calls']) >= 2
               for o, ob in zip(case['ops'], trace.get('obs', [])))


def stats(cases, traces):
    kinds, shorts, combos = {}, {}, {}
    d = dict(short_on_pending_entity=0, short_while_disabled=0, nonexact_picks=0, reattached=0,
             repeated_reference_reads=0, cases_with_two_worlds=0,
             shorthand_after_change_of_world=0,
             proto_custom_prefix=0, proto_typeerror=0, upd_frames=0, upd_frames_2plus=0,
             upd_oup_ran_in_another_world_before=0, upd_oup_instance_readded=0,
             upd_oup_ran_in_another_world_after_removal=0)
    for c, t in zip(cases, traces):
        kinds[c['kind']] = kinds.get(c['kind'], 0) + 1
        if c['kind'] == 'ctrl' and 'obs' in t:
            enabled = True
            seen_c = set()
            reads = set()
            if any(o[0] == 'w2' for o in c['ops']):
                d['cases_with_two_worlds'] += 1
            cworld = {}
            for wrapped, ob in zip(c['ops'], t['obs']):
                jw, o = unwrap(wrapped)
                if o[0] == 'short':
                    if cworld.get(o[1], jw) != jw:
                        d['shorthand_after_change_of_world'] += 1
                    cworld[o[1]] = jw
                if o[0] == 'short' and o[3][0] in ('refget', 'prefget'):
                    key = (o[1], o[3][0], o[3][1])
                    if key in reads:
                        d['repeated_reference_reads'] += 1
                    reads.add(key)
                att = (o[2] if o[0] == 'create' else [o[2]] if o[0] == 'add' else
                       [o[3][-1]] if o[0] == 'short' and o[3][0] in ('sadd', 'refset') else [])
                for x in att:
                    if x in seen_c:
                        d['reattached'] += 1
                    seen_c.add(x)
                if o[0] == 'enable':
                    enabled = o[1]
                if o[0] == 'short':
                    shorts[o[3][0]] = shorts.get(o[3][0], 0) + 1
                    if not enabled:
                        d['short_while_disabled'] += 1
                    i = c['ents'].index(o[2])
                    if not ob['a']['snap']['exists'][i] and ob['a']['snap']['comps'][i]:
                        d['short_on_pending_entity'] += 1
                    if ob['pick'] is not None and o[3][0] in ('sget', 'refget', 'sremove',
                                                              'refdel'):
                        if 0 <= ob['pick'] < len(c['comps']) and tyid(c, ob['pick']) != o[3][1]:
                            d['nonexact_picks'] += 1
        elif c['kind'] == 'proto' and 'protos' in t:
            for pr in t['protos']:
                f = pr['facts']
                if f['prefix'] != 0:
                    d['proto_custom_prefix'] += 1
                if any(it['exn'] == 2 for it in pr['iters']):
                    d['proto_typeerror'] += 1
                m = {x for x, _ in f['methods']}
                named = {n for q, tbl in f['attrs'] if q == f['prefix'] for n, _ in tbl}
                for x in f['types']:
                    if 0 <= x < len(c['types']):
                        key = '%d%d%d' % (x in m, c['types'][x]['name'] in named,
                                          bool(c['types'][x]['nullary']))
                        combos[key] = combos.get(key, 0) + 1
        elif c['kind'] == 'upd' and 'obs' in t:
            for o, ob in zip(c['ops'], t['obs']):
                if o[0] == 'process':
                    d['upd_frames'] += 1
                    if len(ob['calls']) >= 2:
                        d['upd_frames_2plus'] += 1
                mv = ob.get('moved', 0)
                if mv:
                    d[{1: 'upd_oup_ran_in_another_world_before', 2: 'upd_oup_instance_readded',
                       3: 'upd_oup_ran_in_another_world_after_removal'}[mv]] += 1
    d.update(kinds=kinds, shorthands=shorts,
             proto_sources_methods_named_nullary=combos)
    return d


def shrink(case):
    from harness.core import default_shrink
    if case['kind'] in ('ctrl', 'upd'):
        yield from default_shrink(case)
    else:
        for i in range(len(case['protos'])):
            if len(case['protos']) > 1:
                c = dict(case)
                c['protos'] = case['protos'][:i] + case['protos'][i + 1:]
                yield c
        for k, cl in enumerate(case['classes']):
            if 'types' in cl and len(cl['types']) > 1:
                for i in range(len(cl['types'])):
                    c = dict(case)
                    c['classes'] = [dict(x) for x in case['classes']]
                    c['classes'][k]['types'] = cl['types'][:i] + cl['types'][i + 1:]
                    yield c
            for i in range(len(cl['named'])):
                c = dict(case)
                c['classes'] = [dict(x) for x in case['classes']]
                c['classes'][k]['named'] = cl['named'][:i] + cl['named'][i + 1:]
                yield c
        if case['iters'] > 1:
            c = dict(case)
            c['iters'] = 1
            yield c
