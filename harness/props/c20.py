"""C20 - Transform setters notify listeners with the value that was stored."""
from harness.core import z, b, lst, opt

ID = 'C20'
COQ_MODULE = 'Desper.Events.C20Model'
CASE_TYPE = 'C20_case'
VERDICT = 'C20_verdict'
PROPS_FILE = 'theories/Props/C20.v'
THEOREM = 'C20_setter_notifies_stored'
RULE = ('1-3 transforms (Transform2D / Transform3D, constructed with explicit or default position, '
        'rotation, scale) and 1-4 listeners whose classes handle a random subset of the three '
        'on_*_change events; 3-25 operations: listen / unlisten / assign position, rotation or '
        'scale; vectors as tuple, list or Vec2/Vec3 with components in eighths from [-10, 10]; 2D '
        'rotations are multiples of 1/8 in [-1000, 1000] (int or float; 70 % outside [0, 360)), for '
        'which binary64 % is exact; after every operation all properties of all transforms are '
        'read back; 25 % of the assignments repeat the current value (2D rotation: plus or minus '
        'full turns), 35 % of the 2D rotations are boundary values (multiples of 360 and one '
        'eighth on either side, also as constructor arguments); 40 % of the later transforms are '
        'constructed from the very argument objects of an earlier one; object identity is '
        'observed with `is` only: constructor-stored vectors must be new objects (not the '
        'argument, not shared between instances or with the defaults); whether a setter keeps '
        'the assigned object or stores an equal new vector is left open; each callback records listener, event, argument and whether the argument '
        'equals (value and type) what a read of the property returns both from inside the callback '
        'and right after the assignment; '
        'non-trivial = at least three assignments with at least two callbacks')
TRUSTED = [
    'Coq 8.16.1 kernel + vm_compute (evaluation of C20_verdict on the observed traces)',
    'hand-written model Events/C20Model.v tied to /repo by this correspondence run (sampled)',
    'harness doubles: listener classes decorated with desper.event_handler that only log',
    'binary64 arithmetic is exact on the dyadic values that are fed (never compared with a tolerance)',
]
ASSUMPTIONS = ['listeners only log (re-entrant listeners are the subject of C03/C04)',
               'for tiny negative non-dyadic rotations Python\'s float % rounds to 360.0: binary64 '
               'rounding is outside the exact model and not generated']

# True: "the argument is what a read of the property returns" is also observed from inside the
# callback (a setter that notifies before it stores is then a violation: the listener is told a
# new value while the property still reads the old one); False: only right after the assignment.
STRICT_ORDER = True

EVENTS = ['on_position_change', 'on_rotation_change', 'on_scale_change']
PROPS = ['position', 'rotation', 'scale']
BADNUM = 10 ** 9


def gen(rng, tier):
    n = {'quick': 400, 'thorough': 4000, 'search': 300}[tier]
    cases = []
    for _ in range(n):
        nl = rng.randint(1, 4)
        masks = [[rng.random() < 0.6 for _ in range(3)] for _ in range(nl)]
        nt = rng.randint(1, 3)
        dims = {}
        last = {}
        ops = []

        def vec(d, p, t=None):
            if t is not None and (t, p) in last and rng.random() < 0.25:
                v = list(last[(t, p)])            # the same value again / the same angle plus full turns
                if not d and p == 1:
                    v = [v[0] + 2880 * rng.randint(-2, 2)]
                return v
            if not d and p == 1:
                r = rng.random()
                if rng.random() < 0.35:
                    # boundaries: multiples of 360, and one eighth on either side
                    return [2880 * rng.choice([-2, -1, 0, 0, 1, 1, 1, 2, 3]) + rng.choice([-1, 0, 0, 1])]
                if r < 0.3:
                    k = rng.randint(0, 2879)
                elif r < 0.65:
                    k = rng.randint(2880, 8000)
                else:
                    k = rng.randint(-8000, -1)
                if rng.random() < 0.3:
                    k -= k % 8
                return [k]
            return [rng.randint(-80, 80) for _ in range(3 if d else 2)]

        def new(t):
            d = rng.random() < 0.4
            dims[t] = d
            args = [vec(d, p) if rng.random() < 0.55 else None for p in range(3)]
            if len(dims) > 1 and rng.random() < 0.4:
                # the same argument values (hence, through the harness cache, the same argument
                # objects) as an earlier transform of the same kind
                for o0 in ops:
                    if o0[0] == 'new' and o0[2] == d:
                        args = list(o0[3:6])
                        break
            for p in range(3):
                if args[p] is not None:
                    last[(t, p)] = args[p]
            ops.append(['new', t, d] + args + [[rng.choice(['tuple', 'vec', 'vec', 'list']) for _ in range(3)]])
            for _ in range(rng.randint(0, 3)):
                ops.append(['listen', t, rng.randint(1, nl)])
        new(1)
        for _ in range(rng.randint(3, 25)):
            r = rng.random()
            if r < 0.08 and len(dims) < nt:
                new(len(dims) + 1)
            elif r < 0.3:
                ops.append(['listen', rng.randint(1, len(dims)), rng.randint(1, nl)])
            elif r < 0.38:
                ops.append(['unlisten', rng.randint(1, len(dims)), rng.randint(1, nl)])
            else:
                t = rng.randint(1, len(dims))
                p = rng.randrange(3)
                v = vec(dims[t], p, t)
                last[(t, p)] = v
                ops.append(['set', t, p, v, rng.choice(['tuple', 'vec', 'list'])])
        cases.append(dict(masks=masks, ops=ops))
    return cases


def comps(v):
    try:
        xs = [v] if isinstance(v, (int, float)) else list(v)
        out = []
        for x in xs:
            y = x * 8
            out.append(int(y) if float(y).is_integer() and abs(y) < BADNUM else BADNUM)
        return out
    except Exception:
        return [BADNUM]


def run(case):
    import desper
    import desper.math as dmath
    calls = []
    listeners = []
    for i, mask in enumerate(case['masks']):
        names = [EVENTS[j] for j in range(3) if mask[j]]
        ns = {}
        for j in range(3):
            def f(self, *args, _j=j, **kwargs):
                inside = None
                if current and len(args) == 1:
                    try:
                        seen = getattr(current[0], PROPS[_j])
                        inside = type(seen) is type(args[0]) and seen == args[0]
                    except Exception:
                        inside = False
                calls.append((self.lid, _j, args, kwargs, inside))
            ns[EVENTS[j]] = f
        k = type('L%d' % i, (object,), ns)
        k = desper.event_handler(*names)(k)
        o = k()
        o.lid = i + 1
        listeners.append(o)
    ts = {}
    order = []
    out = []
    current = []                      # the transform being assigned

    cache = {}

    def mk(d, p, v, kind='tuple', reuse=False):
        if not d and p == 1:
            return v[0] // 8 if v[0] % 8 == 0 and kind != 'vec' else v[0] / 8
        key = (d, kind, tuple(v))
        if reuse and key in cache:
            return cache[key]         # the very same argument object as before
        xs = [c / 8 for c in v]
        if kind == 'vec':
            r = (dmath.Vec3 if d else dmath.Vec2)(*xs)
        else:
            r = tuple(xs) if kind == 'tuple' else list(xs)
        cache[key] = r
        return r

    def vectors(t):
        d3 = isinstance(ts[t], desper.Transform3D)
        return [getattr(ts[t], PROPS[p]) for p in range(3) if d3 or p != 1]
    for o in case['ops']:
        del calls[:]
        rec = []
        err = None
        ident = True
        try:
            if o[0] == 'new':
                t, d = o[1], o[2]
                kw = {}
                kinds = o[6] if len(o) > 6 else ['tuple'] * 3
                for p in range(3):
                    if o[3 + p] is not None:
                        kw[PROPS[p]] = mk(d, p, o[3 + p], kinds[p], reuse=True)
                others = [x for u in order for x in vectors(u)]
                ts[t] = (desper.Transform3D if d else desper.Transform2D)(**kw)
                order.append(t)
                mine = vectors(t)
                # identity only (never == or truthiness): new objects, shared with nobody
                ident = (not any(a is b_ for a in mine for b_ in list(kw.values()) + others)
                         and not any(mine[i] is mine[j] for i in range(len(mine)) for j in range(i)))
            elif o[0] == 'listen':
                if case['masks'][o[2] - 1] != [False] * 3:
                    ts[o[1]].add_handler(listeners[o[2] - 1])
            elif o[0] == 'unlisten':
                if case['masks'][o[2] - 1] != [False] * 3:
                    ts[o[1]].remove_handler(listeners[o[2] - 1])
            else:
                t, p = o[1], o[2]
                d = isinstance(ts[t], desper.Transform3D)
                current.append(ts[t])
                assigned = mk(d, p, o[3], o[4])
                try:
                    setattr(ts[t], PROPS[p], assigned)
                finally:
                    del current[:]
                back = getattr(ts[t], PROPS[p])
                for (lid, j, args, kwargs, inside) in calls:
                    if len(args) == 1 and not kwargs:
                        a = args[0]
                        same = type(a) is type(back) and a == back
                        if STRICT_ORDER:
                            same = same and bool(inside)
                        rec.append([lid, j, comps(a), bool(same)])
                    else:
                        rec.append([lid, j, [BADNUM], False])
        except Exception as ex:                  # an error of the implementation is an observation
            err = type(ex).__name__
        if o[0] != 'set':
            rec = [[lid, j, [BADNUM], False] for (lid, j, args, kwargs, inside) in calls]
        snap = []
        for t in order:
            try:
                snap.append([t, [comps(getattr(ts[t], PROPS[p])) for p in range(3)]])
            except Exception:
                snap.append([t, [[BADNUM]] * 3])
        if err:
            snap = [[-1, [[BADNUM]] * 3]]
        out.append({'calls': rec, 'snap': snap, 'id': bool(ident)})
    return {'obs': out}


PNAMES = ['PPos', 'PRot', 'PScale']


def zl(v):
    return lst([z(x) for x in v])


def enc_op(o):
    if o[0] == 'new':
        return '(ONew %s %s %s %s %s)' % (z(o[1]), b(o[2]), *[opt(None if v is None else zl(v))
                                                              for v in o[3:6]])
    if o[0] == 'listen':
        return '(OListen %s %s)' % (z(o[1]), z(o[2]))
    if o[0] == 'unlisten':
        return '(OUnlisten %s %s)' % (z(o[1]), z(o[2]))
    return '(OSet %s %s %s)' % (z(o[1]), PNAMES[o[2]], zl(o[3]))


def enc_obs(ob):
    calls = lst(['{| k_l := %s; k_p := %s; k_v := %s; k_same := %s |}' % (
        z(c[0]), PNAMES[c[1]], zl(c[2]), b(c[3])) for c in ob['calls']])
    snap = lst(['(%s, (%s, %s, %s))' % (z(t), zl(x[0]), zl(x[1]), zl(x[2])) for t, x in ob['snap']])
    return '{| o_calls := %s; o_snap := %s; o_id := %s |}' % (calls, snap, b(ob.get('id', True)))


def encode(case, trace):
    masks = lst(['(%s, (%s, %s, %s))' % (z(i + 1), b(m[0]), b(m[1]), b(m[2]))
                 for i, m in enumerate(case['masks'])])
    if 'obs' not in trace:
        items = ['(%s, {| o_calls := []; o_snap := [(-1, ([], [], []))]; o_id := true |})' % enc_op(o)
                 for o in case['ops']]
    else:
        items = ['(%s, %s)' % (enc_op(o), enc_obs(ob)) for o, ob in zip(case['ops'], trace['obs'])]
    return '{| c_masks := %s; c_trace := %s |}' % (masks, lst(items))


def nontrivial(case, trace):
    sets = sum(1 for o in case['ops'] if o[0] == 'set')
    calls = sum(len(ob['calls']) for ob in trace.get('obs', []))
    return sets >= 3 and calls >= 2


def stats(cases, traces):
    kinds, props, ncalls, outside = {}, {}, 0, 0
    for c, t in zip(cases, traces):
        for o in c['ops']:
            kinds[o[0]] = kinds.get(o[0], 0) + 1
            if o[0] == 'set':
                props[PROPS[o[2]]] = props.get(PROPS[o[2]], 0) + 1
                if len(o[3]) == 1 and not (0 <= o[3][0] < 2880):
                    outside += 1
        ncalls += sum(len(ob['calls']) for ob in t.get('obs', []))
    return dict(operations=kinds, assigned_properties=props, callbacks=ncalls,
                rotations_2d_outside_0_360=outside,
                transforms_3d=sum(1 for c in cases for o in c['ops'] if o[0] == 'new' and o[2]))
