"""C02 - component lifecycle callbacks fire exactly once per attach/detach."""
from harness import worldl_common as W

ID = 'C02'
COQ_MODULE = 'Desper.World.LC02'
CASE_TYPE = 'C02_case'
VERDICT = 'C02_verdict'
PROPS_FILE = 'theories/Props/C02.v'
THEOREM = 'C02_lifecycle_exactly_once'
RULE = ('the generator of C05 (random World histories, 1-25 ops, 2-5 unrelated component '
        'classes of 8 kinds: no __events__ / every non-empty subset of on_add, on_remove, '
        'probe; 3-10 instances that are detached and re-attached; explicit ids overlapping '
        'the automatic ones) with dispatch_enabled toggles (10 % of ops, about 40 % of all '
        'ops run while disabled), probe dispatches, clear() only while enabled; the callback '
        'log (callback, instance, entity argument, world-is-this-world) is recorded per op; '
        'in 30 % of the cases one or two instances raise a marker exception from on_add / '
        'on_remove when the release of postponed events delivers them (the enabling assignment '
        'raises, further enabling assignments follow) or execute dispatch_enabled = False there '
        'and then perform 1-2 more operations (the release stops; recorded as the next operations '
        'of the history; 8 % of the cases are built around such a halted release followed by newly '
        'postponed notifications); callbacks also query the world '
        '(get, get_component(s), has_component, entity_exists, entities) and must not raise; '
        'the known-finding patterns K1-K3 are never generated; non-trivial = at least 3 '
        'state-changing ops and one callback')
TRUSTED = [
    'Coq 8.16.1 kernel + vm_compute (evaluation of C02_verdict on the observed traces)',
    'hand-written model World/LModel.v tied to /repo by this correspondence run '
    '(sampled, not exhaustive; exact component types only, callbacks that only log)',
    'harness doubles (logging components and processor), object <-> number bijection, '
    'the harness keeps every instance alive (weak references never die)',
    'CPython dict / set semantics',
]
ASSUMPTIONS = ['component callbacks do not change the world (C05 covers re-entrant callbacks) and do '
               'toggle dispatching at most once per release (one nested disable by a marker instance; '
               'general nesting is C04); a callback raising inside an operation '
               'other than the release is not generated',
               'exact component types (subtype walks are C06)',
               'every component instance sits in at most one slot at a time and create_entity '
               'never overwrites a slot (otherwise known findings K2/K3)']

gen = W.gen
run = W.run
encode = W.encode
nontrivial = W.nontrivial
stats = W.stats
mutate = W.mutate
