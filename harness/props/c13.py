"""C13 - world switching delivers in/out events to the worlds that run."""
from harness.loop_common import (gen, run, shrink, mutate, nontrivial, stats)  # noqa: F401
from harness.loop_common import encode_r as encode  # noqa: F401

ID = 'C13'
COQ_MODULE = 'Desper.Loop.R13Model'
CASE_TYPE = 'C13_case'
VERDICT = 'C13_verdict'
PROPS_FILE = 'theories/Props/C13.v'
THEOREM = 'C13_switch_events'
RULE = ('one SimpleLoop, 1-4 WorldHandle doubles (real WorldHandle.load, a transform function '
        'adds 1-3 scripted processors, a CoroutineProcessor with 1-3 logging coroutines (any of which may be the acting one) and a listener component that logs '
        'on_world_load / on_switch_in / on_switch_out / on_quit / poke with the serial numbers '
        'of the worlds passed); 2-6 operations: loop.switch from outside (all clear flags) and '
        'start() calls of 0-12 frames: normal / switch(h, clear_current[, from_world]) to any '
        'handle incl. the current one, cached or not / bare SwitchWorld with every flag '
        'combination / Quit / quit_loop / another exception, issued at any processor position '
        'from the processor, an event callback or a coroutine; every frame may poke events at '
        'the worlds other handles hold (left worlds must hold them); the generator never '
        'produces the K5 pattern on purpose (its witness is in known_findings.json); '
        'every operation may carry 1-3 one-shot reactions of the listener callbacks '
        '(on_world_load / on_switch_in / on_switch_out / on_quit: Quit, quit_loop, another '
        'exception, switch() and bare SwitchWorld - also while the loop is entering a world), '
        'nested to any depth; frame action direct = the_loop.switch(h, cc, cn) called inside '
        'the frame; the time function returns floats (dyadic), ints, ints around 2**60 or '
        'Fractions (thirds), dt is compared exactly as a value; non-trivial = at least 3 frames and one switch')
TRUSTED = [
    'Coq 8.16.1 kernel + vm_compute (evaluation of C13_verdict on the observed logs)',
    'hand-written model Loop/Model.v tied to /repo by this correspondence run (sampled)',
    'harness doubles: WorldHandle subclasses, logging listener component and processors, '
    'scripted time function; world instances identified by load order (attribute set by the '
    'transform function)',
]
ASSUMPTIONS = ['the listener callbacks act only through the scripted one-shot reactions',
               'one listener component per world (delivery order among several listeners of '
               'one event is C03)',
               'poke callbacks only log']
CASE_TIMEOUT = 5
