"""C04 - disabled dispatchers defer events and release them once, in order."""
from harness import events_common as ec

ID = 'C04'
COQ_MODULE = 'Desper.Events.Spec'
CASE_TYPE = 'C04_case'
VERDICT = 'C04_verdict'
PROPS_FILE = 'theories/Props/C04.v'
THEOREM = 'C04_release_fifo_once'
CASE_TIMEOUT = 1
RULE = ('in 35 % of the cases the handler classes make their instances falsy (__bool__ False or '
        '__len__ 0; identity and default equality untouched); '
        'random programs over one EventDispatcher (30 %: a real desper.World used through its '
        'dispatcher API) with 2-5 scripted handlers of 1-5 decorated classes and 1-3 events: blocks of "disable; 1-5 dispatches (mixed with add/remove/'
        'dispatch of unheard names); enable (1-3 times)"; half of the handler methods carry a '
        'script of 1-3 actions (add/remove/dispatch/raise/disable/enable/clear) so that an '
        'exception, a nested disable or a nested enable hits every delivery position of the '
        'release; 15 % of the dispatches made while disabled have no listener (left open by '
        'the property); 13 argument shapes: none, positional only, keyword only (the token then '
        'travels as a keyword: zero positionals), both, values None/0/\'\'/tuples; a case that '
        'does not return within 1 s is a hang observation; '
        'non-trivial = at least two callbacks delivered by an enabling assignment and one '
        'action executed inside a release')
TRUSTED = [
    'Coq 8.16.1 kernel + vm_compute (evaluation of C04_verdict on the observed logs)',
    'hand-written model Events/Model.v tied to /repo by this correspondence run (sampled)',
    'harness doubles: handler classes built with type() and desper.event_handler, whose '
    'methods log (receiver, method, token, argument shape) and run their script',
    'the harness attributes callbacks to dispatches by the token passed as first argument',
]
ASSUMPTIONS = ['nothing below the top level catches exceptions (scripts never catch)',
               'handlers use identity equality (K4 belongs to C03)']
MODE = 4


def gen(rng, tier):
    n = {'quick': 400, 'thorough': 4000, 'search': 300}[tier]
    return ec.gen_cases(rng, MODE, n)


run = ec.run
encode = ec.encode
shrink = ec.shrink
mutate = ec.mutate
stats = ec.stats


def nontrivial(case, trace):
    ctx = trace.get('ctx', {})
    inside = sum(v for k, v in ctx.items() if k.endswith('_in_release'))
    calls = sum(1 for e in trace.get('log', []) if e[0] == 'call')
    return inside >= 1 and calls >= 2
