"""C12 - a handle loads its resource at most once between clears."""
from harness.core import z, b, lst

ID = 'C12'
COQ_MODULE = 'Desper.Tree.C12Model'
CASE_TYPE = 'C12_case'
VERDICT = 'C12_verdict'
PROPS_FILE = 'theories/Props/C12.v'
THEOREM = 'C12_load_at_most_once'
RULE = ('random operation sequences (1-40 ops) over 1-4 handles placed at depth 1-3 of a '
        'ResourceMap under identifier and non-identifier names, loaded values drawn from None/0/0.0/""/[]/{}/objects with '
        '__bool__ False, __eq__ always True, __eq__ always False / a World; 15% of the accesses '
        'are scripted to make load() raise if they trigger a load; each access '
        'goes through one of 6 paths (h(), m[path], static attribute, static item, '
        'm.get, static get; [] starts from a random enclosing map, static accesses use a random one of the snapshots built so far, new snapshots are built at random points) or is a SimpleLoop.switch with random clear_current/clear_next; distinct = different (case, trace); '
        'non-trivial = at least one clear and two loading accesses of the same handle')
TRUSTED = [
    'Coq 8.16.1 kernel + vm_compute (evaluation of C12_verdict on the observed traces)',
    'hand-written model Tree/C12Model.v tied to /repo by this correspondence run '
    '(sampled, not exhaustive)',
    'harness doubles (counting Handle subclass), identity observed with `is`',
    'CPython attribute lookup, __slots__/object.__getattribute__ mechanics',
]
ASSUMPTIONS = ['load() itself does not touch the handle (it is user code)']

PATHS = ['PCall', 'PItem', 'PSAttr', 'PSItem', 'PGet', 'PSGet']
KINDS = ['none', 'zero', 'fzero', 'empty', 'list', 'dict', 'falsy', 'eqtrue', 'eqfalse',
         'world']


def gen(rng, tier):
    n = {'quick': 300, 'thorough': 4000, 'search': 300}[tier]
    cases = []
    for _ in range(n):
        nh = rng.randint(1, 4)
        kinds = [rng.choice(KINDS) for _ in range(nh)]
        if rng.random() < 0.35:        # loop-heavy case: mostly world handles
            kinds = [k if rng.random() < 0.3 else 'world' for k in kinds]
        depth = [rng.randint(1, 3) for _ in range(nh)]
        names = [rng.randrange(25) if rng.random() < 0.6 else 0 for _ in range(nh)]
        ops = []
        for _ in range(rng.randint(1, 40)):
            h = rng.randrange(nh)
            r = rng.random()
            if r < 0.06:
                ops.append(['resnap', 0])          # build another static snapshot now
            elif r < 0.2:
                ops.append(['clear', h])
            elif r < 0.35:
                ops.append(['cached', h])
            elif r < 0.5 and kinds[h] == 'world':
                ops.append(['switch', h, rng.random() < 0.5, rng.random() < 0.4,
                            rng.random() < 0.15])
            else:
                # sel: which enclosing map / which snapshot the access starts from
                # last item: load() raises if this access triggers a load
                ops.append(['access', h, rng.choice(PATHS), rng.randrange(1000),
                            rng.random() < 0.15])
        cases.append(dict(kinds=kinds, depth=depth, names=names, ops=ops))
    return cases


def make_value(kind):
    import desper

    class Falsy:
        def __bool__(self):
            return False

    class EqTrue:
        def __eq__(self, other):
            return True
        __hash__ = object.__hash__

    class EqFalse:
        def __eq__(self, other):
            return False

        def __ne__(self, other):
            return False
        __hash__ = object.__hash__
    return {'none': lambda: None, 'zero': lambda: 0, 'fzero': lambda: 0.0,
            'empty': lambda: '', 'list': list, 'dict': dict, 'falsy': Falsy,
            'eqtrue': EqTrue, 'eqfalse': EqFalse, 'world': desper.World}[kind]()


def run(case):
    import desper

    class LoadError(Exception):
        pass

    class H(desper.Handle):
        def __init__(self, kind):
            self.kind = kind
            self.loaded = []        # one entry per load() attempt
            self.fail = False

        def load(self):
            if self.fail:
                self.loaded.append(LoadError)
                raise LoadError()
            v = make_value(self.kind)
            self.loaded.append(v)
            return v

    root = desper.ResourceMap()
    hs, keys = [], []
    for i, (kind, d) in enumerate(zip(case['kinds'], case['depth'])):
        h = H(kind)
        # name styles: identifiers, and names that are not identifiers
        # (extensions, dashes, leading digits, private-looking)
        style = case.get('names', [0] * len(case['kinds']))[i]
        leaf = ['h%d', 'h-%d.png', '%dd', '__h%d', 'tile set %d'][style % 5] % i
        dirs = ['d%d_%d', 'd-%d.%d', '%d_%d', '_d%d_%d', 'dir %d %d'][(style // 5) % 5]
        key = '/'.join([dirs % (i, j) for j in range(d - 1)] + [leaf])
        root[key] = h
        hs.append(h)
        keys.append(key)
    statics = [root.get_static_map()]
    loop = desper.SimpleLoop()
    out = []
    for o in case['ops']:
        if o[0] == 'resnap':
            statics.append(root.get_static_map())
            out.append(None)
            continue
        sel = o[3] if len(o) > 3 else 0
        static = statics[sel % len(statics)]
        h = hs[o[1]]
        key = keys[o[1]]
        parts = key.split('/')
        flag = False
        h.fail = bool(o[4]) if o[0] in ('access', 'switch') and len(o) > 4 else False
        try:
            if o[0] == 'clear':
                h.clear()
                flag = True
            elif o[0] == 'cached':
                flag = h.cached is True or (h.cached is not False and bool(h.cached))
            elif o[0] == 'switch':
                loop.switch(h, clear_current=o[2], clear_next=o[3])
                flag = bool(h.loaded) and loop.current_world is h.loaded[-1] \
                    and loop.current_world_handle is h
            else:
                p = o[2]
                if p == 'PCall':
                    res = h()
                elif p == 'PItem':
                    # [] on ANY enclosing map: start from a sub-map on the way
                    k = sel % len(parts)
                    start = root
                    for part in parts[:k]:
                        start = start.get(part)
                    res = start['/'.join(parts[k:])]
                elif p == 'PSAttr':
                    cur = static
                    for part in parts:
                        cur = getattr(cur, part)
                    res = cur
                elif p == 'PSItem':
                    cur = static
                    for part in parts:
                        cur = cur[part]
                    res = cur
                elif p == 'PGet':
                    res = root.get(key)
                elif p == 'PSGet':
                    cur = static
                    for part in parts[:-1]:
                        cur = cur.get(part)
                    res = cur.get(parts[-1])
                if p in ('PGet', 'PSGet'):
                    flag = res is h
                else:
                    flag = bool(h.loaded) and res is h.loaded[-1]
            out.append([len(h.loaded), flag, False])
        except LoadError:               # the scripted load error reached the caller
            out.append([len(h.loaded), True, True])
        except Exception as ex:         # nothing else may raise
            out.append([-1, False, False, type(ex).__name__])
    return {'obs': out}


def encode(case, trace):
    if 'obs' not in trace:              # hang / crash: an unacceptable trace
        return lst(['(OClear 0, {| o_loads := -1; o_flag := false; o_exc := false |})'])
    items = []
    for o, ob in zip(case['ops'], trace['obs']):
        if o[0] == 'resnap':
            continue
        if o[0] == 'clear':
            op = '(OClear %s)' % z(o[1])
        elif o[0] == 'cached':
            op = '(OCached %s)' % z(o[1])
        elif o[0] == 'switch':
            op = '(OSwitch %s %s %s %s)' % (z(o[1]), b(o[2]), b(o[3]), b(len(o) > 4 and o[4]))
        else:
            op = '(OAccess %s %s %s)' % (z(o[1]), o[2], b(len(o) > 4 and o[4]))
        items.append('(%s, {| o_loads := %s; o_flag := %s; o_exc := %s |})' % (
            op, z(ob[0]), b(ob[1]), b(len(ob) > 2 and ob[2])))
    return lst(items)


def nontrivial(case, trace):
    per = {}
    for o in case['ops']:
        d = per.setdefault(o[1], [0, 0])
        if o[0] == 'clear' or (o[0] == 'switch' and o[3]):
            d[0] += 1
        if o[0] == 'switch' or (o[0] == 'access' and o[2] not in ('PGet', 'PSGet')):
            d[1] += 1
    return any(c >= 1 and a >= 2 for c, a in per.values())


def stats(cases, traces):
    paths, kinds, nops = {}, {}, 0
    for c in cases:
        nops += len(c['ops'])
        for k in c['kinds']:
            kinds[k] = kinds.get(k, 0) + 1
        for o in c['ops']:
            name = o[2] if o[0] == 'access' else o[0]
            paths[name] = paths.get(name, 0) + 1
    return dict(operations=paths, value_kinds=kinds, total_ops=nops)
