"""C08 - coroutines advance one step per frame and wake exactly on time."""
from harness import coro_common as cc

ID = 'C08'
COQ_MODULE = 'Desper.Coro.Spec'
CASE_TYPE = 'C08_case'
VERDICT = 'C08_verdict'
PROPS_FILE = 'theories/Props/C08.v'
THEOREM = 'C08_wake_exactly_on_time'
RULE = ('30 % of the cases: 6-10 coroutines started together whose first waits are pushed in '
        'non-sorted order (ascending runs, small after big, duplicates), 8-30 small frames, '
        're-yields after waking (wait heap with interleaved pushes and pops); the others: '
        '1-5 coroutines given as scripts (per resumption: optional in-body start/kill/state '
        'actions, then yield of None/0/-1/a positive dyadic wait from 1/8 to 4, or return), '
        'started at frames 0-3, 5-20 process calls with dt from {0, 1/8, 1/2, 1, 2, 3} '
        '(half of the cases use the small alphabet dt {0, 1/2, 1} x waits {1/2, 1, 2} so that '
        'the accumulated dt meets deadlines exactly: about 45 % of all waits); 25 % of the '
        'cases add kill / restart traffic between frames and inside bodies; all times dyadic, '
        'no tolerance anywhere; in 65 % of the cases every yielded wait and every dt is fed '
        'as float, int, fractions.Fraction or bool (same dyadic value; Decimal is not fed: '
        'the real process() raises TypeError on Decimal + float); 12 % of the generators '
        'were advanced outside the processor before start; 40 % of the cases drive the '
        'processor through World.process between other processors (half of them start '
        'through a @desper.coroutine function with world=), 40 % kill / query through the '
        'CoroutinePromise; non-trivial = at least two positive waits ran out in the trace')
TRUSTED = [
    'Coq 8.16.1 kernel + vm_compute (evaluation of C08_verdict on the observed traces)',
    'hand-written model Coro/Model.v tied to /repo by this correspondence run '
    '(sampled, not exhaustive)',
    'harness doubles: scripted generator bodies that log (gid, step) before acting',
    'CPython: generator objects resume where they yielded; heapq is a priority queue; '
    'collections.deque; binary64 arithmetic is exact on the dyadic values fed',
]
# a case in which an exhausted generator is started again (possible only when the
# implementation misbehaves, cf. gen_case) is outside the domain and skipped
MALFORMED_OK = True
ASSUMPTIONS = ['dt >= 0 and all times exactly representable (multiples of 1/8 below 2^50)',
               'a generator that has returned is not started again (its resumption runs no '
               'code, so it cannot be observed)',
               'not covered: a coroutine killed before its turn in the very frame in which its '
               'wait ran out, restarted in that frame by a coroutine whose wait ran out with the '
               'same deadline, and then not run in that frame (heap tie that the log cannot show)']


def gen(rng, tier):
    n = {'quick': 420, 'thorough': 4200, 'search': 300}[tier]
    out = []
    for _ in range(n):
        if rng.random() < 0.3:
            out.append(cc.gen_many(rng))
        elif rng.random() < 0.25:
            out.append(cc.gen_case(rng, kills=0.35, nested=0.2))
        else:
            out.append(cc.gen_case(rng, kills=0.0, nested=0.0))
    return out


run = cc.run
encode = cc.encode
stats = cc.stats
shrink = cc.shrink


def nontrivial(case, trace):
    return cc.wake_stats(case, trace)['waits'] >= 2
