"""C16 - directory population mirrors the file tree under the rules."""
import os

from harness.core import z, b, lst, opt
from harness import tree_common as tc

ID = 'C16'
COQ_MODULE = 'Desper.Tree.C16Model'
CASE_TYPE = 'C16_case'
VERDICT = 'C16_verdict'
PROPS_FILE = 'theories/Props/C16.v'
THEOREM = 'C16_population_mirrors_tree'
RULE = ('1-3 populations of one ResourceMap from real temporary directory trees (depth <= 4, '
        'file names with 0-2 dots, directory names with and without a dot, empty '
        'directories; 25% of the directories hold a FIFO, a symbolic link to a file, to a '
        'directory or to nothing), each with 1-3 rules (rule directory existing, a FIFO / a '
        'link to a file (ValueError), a link to a directory (populated through the link), a '
        'broken link (skipped), nested in another '
        "rule's directory, missing 12%, a regular file 6%; extension filters 45% given as "
        'list / tuple / set / generator; one factory double shared by the rules of a populator; '
        'extra arguments per rule: none / positionals only / keywords only / both, values '
        "None, 0, '', tuples, sometimes the same extras for two rules), nest_on_conflict / "
        'trim_extensions drawn independently at '
        'construction and per call (None = fall back); the same root is populated again in '
        'half of the multi-call cases; in half of the cases there is a second directory tree '
        '(passed per call through root=) which in 70% is a copy of the first in which some '
        'names changed sides (25% of the cases are aimed at it: a name gets 1-3 handle layers by '
        'nested population, then becomes a directory; a file became a directory under its name or its name without '
        'extension, a directory became a file): the latest population wins; the path sequence given to the model is what '
        'glob.iglob returned in that run; non-trivial = some handle conflict (a key built '
        'twice) or a filter that rejects a file, and at least 3 files')
TRUSTED = [
    'Coq 8.16.1 kernel + vm_compute (evaluation of C16_verdict on the observed cases)',
    'hand-written model Tree/C16Model.v (on top of the C11 model of ResourceMap) tied to '
    '/repo by this correspondence run (sampled, not exhaustive)',
    'glob.iglob, os.path (join, exists, isdir, isfile, relpath, normpath) and the file '
    'system: the model takes the path sequence glob returned (checked in Coq to be a '
    'permutation of the non-hidden part of the tree the harness created) and the kind of '
    'each path as inputs; os.path.splitext is modelled',
    'harness: real directory trees under tempfile.mkdtemp(), a recording wrapper around '
    'glob.iglob, the handle factory double and its call log, the structural dump of the map',
]
ASSUMPTIONS = ['no file key equals a directory key after trimming; rule paths are proper '
               'relative names; names do not begin with "." (known finding K7 otherwise)']
CASE_TIMEOUT = 20

FILE_STEMS = ['a', 'b', 'c', 'img', 'x.y']
FILE_EXTS = ['.png', '.txt', '', '.png', '.wav']
DIR_NAMES = ['gfx', 'snd', 'sub', 'd.x', 'e.png', 'lvl']
FILTERS = [['.png'], ['.txt', '.wav'], ['.png', '.txt'], ['.y'], ['.x']]


# ------------------------------------------------------------------- generator
def gen_tree(rng, depth):
    t = {'d': {}, 'f': []}
    for _ in range(rng.choice([0, 1, 2, 2, 3, 4])):
        n = rng.choice(FILE_STEMS) + rng.choice(FILE_EXTS)
        if n not in t['f']:
            t['f'].append(n)
    if depth > 0:
        for _ in range(rng.choice([0, 1, 1, 2, 2])):
            n = rng.choice(DIR_NAMES)
            if n not in t['d']:
                t['d'][n] = gen_tree(rng, depth - 1)
    if rng.random() < 0.25:
        # an entry that is neither a plain file nor a plain directory
        kind = rng.choice(SPECIALS)
        t['o'] = [[SPECIAL_NAME[kind], kind]]
    return t


SPECIALS = ['fifo', 'fifo', 'lnf', 'lnd', 'lnx']
SPECIAL_NAME = {'fifo': 'ff', 'lnf': 'lf.png', 'lnd': 'ld', 'lnx': 'lx'}
LINK_TARGET = {'d': {}, 'f': ['t.png', 'u.txt']}     # what a link to a directory points to


def special_paths(t, prefix=()):
    out = [[prefix + (n,), k] for n, k in t.get('o', [])]
    for n, c in t['d'].items():
        out += special_paths(c, prefix + (n,))
    return out


def dir_paths(t, prefix=()):
    out = []
    for n, c in t['d'].items():
        out.append(prefix + (n,))
        out += dir_paths(c, prefix + (n,))
    return out


def file_paths(t, prefix=()):
    out = [prefix + (n,) for n in t['f']]
    for n, c in t['d'].items():
        out += file_paths(c, prefix + (n,))
    return out


def sanitize(t):
    """within one tree a name is a file or a directory (with and without
    its extension), never both"""
    t['f'] = [n for n in t['f'] if n not in t['d'] and os.path.splitext(n)[0] not in t['d']]
    for c in t['d'].values():
        sanitize(c)
    return t


def flip(rng, t, top=True):
    """another directory tree in which some names changed sides: a file became
    a directory (under its name or under its name without extension), a
    directory became a file"""
    out = {'d': {}, 'f': []}
    for n in t['f']:
        r = rng.random()
        if r < 0.35:
            dn = n if rng.random() < 0.4 else os.path.splitext(n)[0]
            if dn and dn not in out['d']:
                out['d'][dn] = {'d': {}, 'f': [rng.choice(['leaf', 'a.png', 'b.txt'])
                                              for _ in range(rng.randint(0, 2))]}
                out['d'][dn]['f'] = sorted(set(out['d'][dn]['f']))
                continue
        if r < 0.9:
            out['f'].append(n)
    for n, c in t['d'].items():
        if not top and rng.random() < 0.2:
            if n not in out['f']:
                out['f'].append(n)
        elif n not in out['d']:
            out['d'][n] = flip(rng, c, False)
    return out


POS_VALUES = ['A', 0, None, '', ['t', 1]]
KW_VALUES = [None, 0, '', ['t', 1], 'v', 7]
EXT_FORMS = ['list', 'tuple', 'set', 'gen']


def gen_extra(rng):
    """the rule's extra arguments: none / positionals only / keywords only / both"""
    shape = rng.choice(['none', 'pos', 'kw', 'kw', 'both'])
    args, kwargs = [], {}
    if shape in ('pos', 'both'):
        args = [rng.choice(POS_VALUES) for _ in range(rng.randint(1, 2))]
    if shape in ('kw', 'both'):
        for k in rng.sample(['k', 'opt'], rng.randint(1, 2)):
            kwargs[k] = rng.choice(KW_VALUES)
    return [args, kwargs]


def sig_of(table, extra):
    import json
    key = json.dumps(extra, sort_keys=True)
    if key not in table:
        table[key] = len(table) + 1
    return table[key]


def gen_case(rng):
    nroots = rng.choice([1, 2, 2])
    roots = []
    for i in range(nroots):
        if i == 1 and rng.random() < 0.7:
            roots.append(sanitize(flip(rng, roots[0])))
            continue
        t = gen_tree(rng, rng.choice([1, 2, 2, 3]))
        if not t['d']:
            t['d'][rng.choice(DIR_NAMES)] = gen_tree(rng, 1)
        roots.append(sanitize(t))
    calls = []
    sigtab = {}
    for ci in range(rng.choice([1, 2, 2, 3, 3])):
        ri = (rng.randrange(nroots) if (ci == 0 or rng.random() < 0.6) else calls[-1]['root'])
        if ci == 0 and nroots == 2 and rng.random() < 0.6:
            ri = 0
        t = roots[ri]
        dps = dir_paths(t)
        fps = file_paths(t)
        rules = []
        for _ in range(rng.choice([1, 1, 2, 3])):
            r = rng.random()
            sps = special_paths(t)
            if r < 0.16 and sps:
                path = list(rng.choice(sps)[0])
            elif r < 0.12:
                path = list(rng.choice(dps)) + ['nowhere'] if rng.random() < 0.5 else ['nowhere']
            elif r < 0.18 and fps:
                path = list(rng.choice(fps))
            else:
                path = list(rng.choice(dps))
            exts = rng.choice(FILTERS) if rng.random() < 0.45 else []
            extra = gen_extra(rng)
            if rules and rng.random() < 0.2:
                extra = rules[0]['extra']          # the same extras as another rule
            rules.append({'path': path, 'exts': exts, 'sig': sig_of(sigtab, extra),
                          'extra': extra, 'extform': rng.choice(EXT_FORMS)})
        calls.append({'root': ri, 'rules': rules,
                      'ctor': [rng.choice([None, True, True, False]),
                               rng.choice([None, True, False])],
                      'call': [rng.choice([None, None, True, False]),
                               rng.choice([None, None, True, False])]})
    return {'roots': roots, 'calls': calls}


def gen_layered_flip(rng):
    """a name gets 1-3 handle layers by repeated nested population, then the
    map is populated from a tree in which that name is a directory (or, the
    other way round, a populated directory becomes a file)"""
    d = rng.choice(DIR_NAMES)
    stem = rng.choice(['a', 'b', 'img'])
    ext = rng.choice(['.png', '.txt', ''])
    trim = rng.random() < 0.5
    t0 = {'d': {d: {'d': {}, 'f': sorted({stem + ext, rng.choice(['c.png', 'c.txt', 'x.y'])})}},
          'f': []}
    dn = stem if (trim or not ext) else stem + ext
    inner = {'d': {}, 'f': sorted({rng.choice(['leaf', 'a.png']), rng.choice(['leaf', 'b.txt'])})}
    if rng.random() < 0.3:
        inner = {'d': {'sub': inner}, 'f': []}
    t1 = {'d': {d: {'d': {dn: inner}, 'f': [f for f in t0['d'][d]['f'] if f != stem + ext and
                                           os.path.splitext(f)[0] != dn]}}, 'f': []}
    roots = [t0, t1]
    order = [0] * rng.randint(1, 3) + [1]
    if rng.random() < 0.3:
        order = [1] + [0] * rng.randint(1, 2)          # a directory becomes a file
    if rng.random() < 0.3:
        order.append(rng.choice([0, 1]))
    calls = []
    sigtab = {}
    for ri in order:
        extra = gen_extra(rng)
        calls.append({'root': ri,
                      'rules': [{'path': [d], 'exts': [], 'sig': sig_of(sigtab, extra),
                                 'extra': extra, 'extform': rng.choice(EXT_FORMS)}],
                      'ctor': [rng.choice([None, True, True]), trim],
                      'call': [rng.choice([None, None, True, False]), None]})
    return {'roots': roots, 'calls': calls}


def gen(rng, tier):
    n = {'quick': 320, 'thorough': 3000, 'search': 250}[tier]
    return [gen_layered_flip(rng) if rng.random() < 0.25 else gen_case(rng) for _ in range(n)]


# ---------------------------------------------------------------------- runner
def make_tree(path, t):
    os.makedirs(path, exist_ok=True)
    for n in t['f']:
        with open(os.path.join(path, n), 'w') as f:
            f.write('x')
    for n, c in t['d'].items():
        make_tree(os.path.join(path, n), c)
    for n, kind in t.get('o', []):
        p = os.path.join(path, n)
        if kind == 'fifo':
            os.mkfifo(p)
        elif kind == 'lnf':
            os.symlink(os.path.join(TARGETS[0], 'file.png'), p)
        elif kind == 'lnd':
            os.symlink(os.path.join(TARGETS[0], 'dir'), p)
        else:
            os.symlink(os.path.join(TARGETS[0], 'gone'), p)


TARGETS = [None]         # where the symbolic links of the current run point to


def truth_entries(base, t):
    """everything under the directory `base` (whose content is t), parents first"""
    out = [['D', base + '/']]

    def rec(p, node):
        for n in node['f']:
            out.append(['F', p + '/' + n])
        for n, c in node['d'].items():
            out.append(['D', p + '/' + n])
            rec(p + '/' + n, c)
        for n, kind in node.get('o', []):
            if kind == 'lnf':
                out.append(['F', p + '/' + n])
            elif kind == 'lnd':
                out.append(['D', p + '/' + n])
                rec(p + '/' + n, LINK_TARGET)
            else:
                out.append(['O', p + '/' + n])
    rec(base, t)
    out[0][1] = base
    return out


def lookup(t, path):
    """('dir', subtree) / ('file', None) / ('missing', None)"""
    cur = t
    for i, n in enumerate(path):
        if n in cur['d']:
            cur = cur['d'][n]
        elif n in cur['f'] and i == len(path) - 1:
            return 'file', None
        elif n in dict(cur.get('o', [])):
            kind = dict(cur['o'])[n]
            if kind == 'lnd':
                cur = LINK_TARGET
                continue
            if i == len(path) - 1 and kind in ('fifo', 'lnf'):
                return 'file', None         # exists and is not a directory
            return 'missing', None
        else:
            return 'missing', None
    return 'dir', cur


def otree(m, hid, names, depth=0):
    links = True
    layers = []
    for layer in m.handles.maps:
        row = []
        for k, v in layer.items():
            row.append([names(k), hid(v)])
            if getattr(v, 'parent', None) is not m or getattr(v, 'key', None) != k:
                links = False
        layers.append(row)
    subs = []
    for k, v in m.maps.items():
        if v.parent is not m or v.key != k:
            links = False
        subs.append([names(k), otree(v, hid, names, depth + 1) if depth < 12
                     else [[], [], False]])
    return [layers, subs, links]


def run(case):
    import glob
    import shutil
    import tempfile
    import desper
    from desper.model import DirectoryResourcePopulator

    Hd = tc.make_handle_class()
    base = tempfile.mkdtemp(prefix='c')
    real_iglob = glob.iglob
    recorded = []

    def rec_iglob(pattern, *a, **kw):
        res = list(real_iglob(pattern, *a, **kw))
        recorded.append([pattern, [[('F' if os.path.isfile(p) else 'D' if os.path.isdir(p)
                                     else 'O'), p] for p in res]])
        return iter(res)

    table = {}

    def names(s):
        if not isinstance(s, str):
            s = 'obj:%r' % (s,)
        if s not in table:
            table[s] = len(table)
        return table[s]

    handles = []
    log = []

    def hid(h):
        return getattr(h, 'hid', -1) if isinstance(h, Hd) else -1

    try:
        glob.iglob = rec_iglob
        tg = os.path.join(base, 'tg')
        make_tree(os.path.join(tg, 'dir'), LINK_TARGET)
        with open(os.path.join(tg, 'file.png'), 'w') as f:
            f.write('x')
        TARGETS[0] = tg
        roots = []
        for i, t in enumerate(case['roots']):
            rp = os.path.join(base, 'r%d' % i)
            make_tree(rp, t)
            roots.append(rp)
        m = desper.ResourceMap()
        out = []
        for c in case['calls']:
            root = roots[c['root']]
            t = case['roots'][c['root']]
            ckw = {}
            if c['ctor'][0] is not None:
                ckw['nest_on_conflict'] = c['ctor'][0]
            if c['ctor'][1] is not None:
                ckw['trim_extensions'] = c['ctor'][1]
            pop = DirectoryResourcePopulator(root, **ckw)
            sigs = {}

            def freeze(v):
                return tuple(freeze(x) for x in v) if isinstance(v, (list, tuple)) else v

            def ekey(a, kw):
                return (tuple((type(x).__name__, freeze(x)) for x in a),
                        tuple(sorted((k, type(v).__name__, freeze(v)) for k, v in kw.items())))

            # one factory shared by all the rules of this populator: which
            # rule's extras it was called with is read from args and kwargs
            def factory(filename, *a, **kw):
                h = Hd(len(handles), *a, **kw)
                handles.append(h)
                log.append([h.hid, filename, sigs.get(ekey(a, kw), -1)])
                return h
            for r in c['rules']:
                if 'extra' in r:
                    args = tuple(freeze(x) for x in r['extra'][0])
                    kwargs = {k: freeze(v) for k, v in r['extra'][1].items()}
                else:
                    args = ('A%d' % r['sig'],)
                    kwargs = {'k': r['sig']} if r['kw'] else {}
                sigs[ekey(args, kwargs)] = r['sig']
                form = r.get('extform', 'list')
                exts = {'list': list, 'tuple': tuple, 'set': set,
                        'gen': lambda l: (x for x in l)}[form](r['exts'])
                pop.add_rule('/'.join(r['path']), factory, *args, file_exts=exts, **kwargs)
            del recorded[:]
            n0 = len(log)
            kw = {}
            if c['call'][0] is not None:
                kw['nest_on_conflict'] = c['call'][0]
            if c['call'][1] is not None:
                kw['trim_extensions'] = c['call'][1]
            exc = 'none'
            try:
                pop(m, **kw)
            except ValueError:
                exc = 'value'
            except Exception as ex:
                exc = 'other:' + type(ex).__name__
            truth, seqs = [], []
            for r in c['rules']:
                st, sub = lookup(t, r['path'])
                full = os.path.join(root, '/'.join(r['path']))
                if st == 'dir':
                    tr = truth_entries(full, sub)
                    truth.append(['dir', tr])
                    got = [res for pat, res in recorded if pat == os.path.join(full, '**')]
                    if got:
                        seqs.append(got[0])
                    else:
                        # the enumeration was not done with glob: directories, then
                        # files in the order in which the factory saw them
                        vis = [e for e in tr if not any(
                            p.startswith('.') for p in e[1][len(root):].split('/'))]
                        seen = [e[1] for e in log[n0:] if e[2] == r['sig']]
                        files = [e for e in vis if e[0] == 'F']
                        files.sort(key=lambda e: seen.index(e[1]) if e[1] in seen else 10 ** 6)
                        ds = [list(e) for e in vis if e[0] == 'D']
                        if ds:
                            ds[0][1] += '/'        # as glob names the directory itself
                        seqs.append(ds + files + [e for e in vis if e[0] == 'O'])
                else:
                    truth.append([st])
                    seqs.append([])
            out.append({'root': root, 'exc': exc, 'log': log[n0:], 'truth': truth,
                        'seqs': seqs, 'tree': otree(m, hid, names)})
        # numbers for every name the model or the property may form
        for o in out:
            for tr in o['truth']:
                if tr[0] == 'dir':
                    for _, p in tr[1]:
                        for comp in p[len(o['root']):].split('/'):
                            if comp not in ('', '.'):
                                names(comp)
                                names(os.path.splitext(comp)[0])
        return {'calls': out, 'names': sorted(table.items(), key=lambda kv: kv[1])}
    finally:
        glob.iglob = real_iglob
        shutil.rmtree(base, ignore_errors=True)


# --------------------------------------------------------------------- encoder
def cs(s):
    assert all(32 <= ord(ch) < 127 for ch in s), s
    return '"%s"%%string' % s.replace('"', '""')


def comps(p):
    return lst([cs(x) for x in p.split('/')])


def enc_entry(e):
    return '(E %s %s)' % ({'F': 'KFile', 'D': 'KDir', 'O': 'KOther'}[e[0]], comps(e[1]))


def enc_otree(o):
    return '(ONode %s %s %s)' % (
        lst([tc.enc_dict(l) for l in o[0]]),
        lst(['(%s,%s)' % (z(k), enc_otree(c)) for k, c in o[1]]), b(o[2]))


BAD = 'CASE16 [] [CALL [] [] None None None None [] [] XOther [] (ONode [] [] false)]'


def encode(case, trace):
    if 'calls' not in trace:
        return BAD
    calls = []
    for c, o in zip(case['calls'], trace['calls']):
        rules = lst(['(R %s %s %s)' % (lst([cs(x) for x in r['path']]),
                                       lst([cs(x) for x in r['exts']]), z(r['sig']))
                     for r in c['rules']])
        truth = lst([{'missing': 'TMissing', 'file': 'TNotDir'}.get(t[0]) or
                     '(TDir %s)' % lst([enc_entry(e) for e in t[1]]) for t in o['truth']])
        seqs = lst([lst([enc_entry(e) for e in s]) for s in o['seqs']])
        exc = {'none': 'XNone', 'value': 'XValueError'}.get(o['exc'], 'XOther')
        log = lst(['(%s, (%s, %s))' % (z(h), comps(p), z(sg)) for h, p, sg in o['log']])
        calls.append('(CALL %s %s %s %s %s %s %s %s %s %s %s)' % (
            comps(o['root']), rules,
            opt(None if c['ctor'][0] is None else b(c['ctor'][0])),
            opt(None if c['ctor'][1] is None else b(c['ctor'][1])),
            opt(None if c['call'][0] is None else b(c['call'][0])),
            opt(None if c['call'][1] is None else b(c['call'][1])),
            truth, seqs, exc, log, enc_otree(o['tree'])))
    names = lst(['(%s,%s)' % (cs(s), z(n)) for s, n in trace['names']])
    return 'CASE16 %s %s' % (names, lst(calls))


def nontrivial(case, trace):
    if 'calls' not in trace:
        return False
    nfiles = sum(len(o['log']) for o in trace['calls'])
    layered = any(_layered(o['tree']) for o in trace['calls'])
    rejected = any(r['exts'] for c in case['calls'] for r in c['rules'])
    return nfiles >= 3 and (layered or rejected)


def _layered(o):
    return sum(1 for l in o[0] if l) > 1 or any(_layered(c) for _, c in o[1])


def shrink(case):
    cs_ = case['calls']
    for i in range(len(cs_) - 1, -1, -1):
        if len(cs_) > 1:
            yield dict(case, calls=cs_[:i] + cs_[i + 1:])
    for i, c in enumerate(cs_):
        for j in range(len(c['rules'])):
            if len(c['rules']) > 1:
                c2 = dict(c, rules=c['rules'][:j] + c['rules'][j + 1:])
                yield dict(case, calls=cs_[:i] + [c2] + cs_[i + 1:])

    def smaller(t):
        for i, n in enumerate(t['f']):
            yield {'d': t['d'], 'f': t['f'][:i] + t['f'][i + 1:]}
        for n, c in t['d'].items():
            used = any(n in r['path'] for cl in case['calls'] for r in cl['rules'])
            if not used:
                d2 = dict(t['d'])
                del d2[n]
                yield {'d': d2, 'f': t['f']}
            for c2 in smaller(c):
                d2 = dict(t['d'])
                d2[n] = c2
                yield {'d': d2, 'f': t['f']}
    for i, t in enumerate(case['roots']):
        for t2 in smaller(t):
            yield dict(case, roots=case['roots'][:i] + [t2] + case['roots'][i + 1:])


def stats(cases, traces):
    d = dict(cases=len(cases), calls=0, rules=0, rules_missing=0, rules_notdir=0,
             rules_filtered=0, files_built=0, value_errors=0, layered_maps=0,
             nest_on=0, trim_on=0, repeated_root=0, glob_entries=0, flags_per_call=0,
             special_entries_seen=0, rule_paths_special=0)
    for c, t in zip(cases, traces):
        prev = None
        for cl in c['calls']:
            d['calls'] += 1
            d['rules'] += len(cl['rules'])
            d['rules_filtered'] += sum(1 for r in cl['rules'] if r['exts'])
            d['rule_paths_special'] += sum(1 for r in cl['rules']
                                           if r['path'][-1] in SPECIAL_NAME.values())
            nest = cl['call'][0] if cl['call'][0] is not None else (
                cl['ctor'][0] if cl['ctor'][0] is not None else True)
            trim = cl['call'][1] if cl['call'][1] is not None else cl['ctor'][1]
            d['nest_on'] += bool(nest)
            d['trim_on'] += bool(trim)
            d['flags_per_call'] += cl['call'][0] is not None or cl['call'][1] is not None
            d['repeated_root'] += prev == cl['root']
            prev = cl['root']
        for o in t.get('calls', []):
            d['files_built'] += len(o['log'])
            d['value_errors'] += o['exc'] == 'value'
            d['rules_missing'] += sum(1 for x in o['truth'] if x[0] == 'missing')
            d['rules_notdir'] += sum(1 for x in o['truth'] if x[0] == 'file')
            d['layered_maps'] += _layered(o['tree'])
            d['glob_entries'] += sum(len(s) for s in o['seqs'])
            d['special_entries_seen'] += sum(1 for s in o['seqs'] for e in s if e[0] == 'O')
    return d
