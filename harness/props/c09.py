"""C09 - coroutine lifecycle: state, kill, restart and promise are coherent."""
from harness import coro_common as cc

ID = 'C09'
COQ_MODULE = 'Desper.Coro.Spec'
CASE_TYPE = 'C09_case'
VERDICT = 'C09_verdict'
PROPS_FILE = 'theories/Props/C09.v'
THEOREM = 'C09_lifecycle'
RULE = ('C08 cases plus start / kill / state / promise-value calls between frames and inside '
        'coroutine bodies (a body may target itself, also kill itself and return), kill '
        'immediately followed by start weighted up, 7 % of the targets are non-generators (None, int, str, list, list iterator, range, '
        'generator function, hand-written iterator, map, zip, async coroutine object, lambda); '
        'coroutines are long-lived (restartable at any time), medium (restartable while they '
        'cannot have finished, so that restart + return + promise value occur) or short; at '
        'the end the harness drops all its references and reports which generators are still '
        'alive (weakref); non-trivial = a successful kill followed later by a successful '
        'start of the same generator, or an in-body kill; number types (float / int / '
        'Fraction / bool), generators advanced outside the processor before start, '
        'World.process with other processors, CoroutinePromise.kill / .state and the '
        '@desper.coroutine decorator with world= as described for C08')
TRUSTED = [
    'Coq 8.16.1 kernel + vm_compute (evaluation of C09_verdict on the observed traces)',
    'hand-written model Coro/Model.v tied to /repo by this correspondence run '
    '(sampled, not exhaustive)',
    'harness doubles: scripted generator bodies that log (gid, step) and the outcome of '
    'every in-body call; weakref + gc.collect() as the observation of release',
    'CPython: generator objects resume where they yielded; reference counting frees an '
    'unreferenced generator; heapq; collections.deque; set; dict',
]
# a case in which an exhausted generator is started again (possible only when the
# implementation misbehaves, cf. gen_case) is outside the domain and skipped
MALFORMED_OK = True
ASSUMPTIONS = ['dt >= 0 and all times exactly representable',
               'a generator that has returned is not started again (its resumption runs no '
               'code, so it cannot be observed)',
               'coroutine bodies themselves do not raise',
               'not covered: a coroutine killed before its turn in the very frame in which its '
               'wait ran out, restarted in that frame by a coroutine whose wait ran out with the '
               'same deadline, and then not run in that frame (heap tie that the log cannot show)']


def gen(rng, tier):
    n = {'quick': 420, 'thorough': 4200, 'search': 300}[tier]
    out = []
    for _ in range(n):
        r = rng.random()
        if r < 0.08:
            out.append(cc.gen_many(rng))
        elif r < 0.15:
            out.append(cc.gen_case(rng, kills=0.0, nested=0.0))
        elif r < 0.55:
            out.append(cc.gen_case(rng, kills=0.5, nested=0.3))
        else:
            out.append(cc.gen_case(rng, kills=0.65, nested=0.6, nframes=rng.randint(3, 12)))
    return out


run = cc.run
encode = cc.encode
stats = cc.stats
shrink = cc.shrink


def nontrivial(case, trace):
    if 'obs' not in trace:
        return False
    killed = set()
    steps = {g: s for g, s in case['scripts']}
    for o, ob in zip(case['ops'], trace['obs']):
        if o[0] == 'kill' and ob == 'ok':
            killed.add(o[1])
        if o[0] == 'start' and ob == 'ok' and o[1] in killed:
            return True
        if o[0] == 'process':
            for g, k, outs in ob[0]:
                for (kind, tg), out in zip(steps[g][k][0], outs):
                    if kind == 'kill' and out == 'ok':
                        return True
    return False
