"""development module: C14 on the second-generation model (to be merged into c14.py)"""
from harness.props.c14 import *     # noqa
from harness.loop_common import gen, run, shrink, mutate, nontrivial, stats  # noqa
from harness.loop_common import encode_r as encode  # noqa
ID = 'C14'
COQ_MODULE = 'Desper.Loop.R14Model'
