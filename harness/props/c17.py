"""C17 - a static resource map is a faithful, immutable mirror."""
from harness.core import z, b, lst
from harness import tree_common as tc

ID = 'C17'
COQ_MODULE = 'Desper.Tree.C17Model'
CASE_TYPE = 'C17_case'
VERDICT = 'C17_verdict'
PROPS_FILE = 'theories/Props/C17.v'
THEOREM = 'C17_static_mirror'
RULE = ('a case is a SEQUENCE of 2-4 snapshots of one live ResourceMap: a random resource tree '
        '(depth <= 3, 0-3 handles in 1-3 ChainMap layers with shadowing, 0-3 sub-maps per map; '
        'names: identifiers 55%, non-identifiers such as "a.png", "1x", "", "with space" 25%, '
        'private __x 15%, dunder __foo__ 5%) is built through the public API; then repeatedly: '
        'get_static_map(), probes, 1-3 modifications of the live map (assignment through the '
        'root with a composed key 35%, assignment made directly on a sub-map 35%, clear() of a '
        'sub-map or of the root 15%, a new handle layer on a sub-map plus a shadowing handle '
        '15%); every snapshot is probed right away AND again after later modifications (40% '
        'of the probes of a later stage go to an older snapshot): 4-8 paths per stage walked '
        'part by part with attribute access, [] and get on the snapshot, compared with the '
        "map's answer at THAT snapshot's time, and 1-2 setattr/delattr attempts followed by a "
        'full structural dump; in 2 of 3 cases a third of the handles are Handle subclasses '
        'whose __call__ is overridden (post-processing the cached resource, a new object per '
        'call): their resource must be the result of the one call made by that access, on '
        'the snapshot as on the map; non-trivial = at least two snapshots with a modification below '
        'the root in between and an attempted mutation')
TRUSTED = [
    'Coq 8.16.1 kernel + vm_compute (evaluation of C17_verdict on the observed cases)',
    'hand-written model Tree/C17Model.v tied to /repo by this correspondence run '
    '(sampled, not exhaustive)',
    'harness: the structure of the snapshot is read with dir() and get(); the member list '
    'of the snapshot class (dir() of the snapshot of an empty map) is checked on every run '
    'against the list in C17Model.v',
    'CPython __slots__ / __dict__ / name mangling / object.__setattr__ mechanics',
]
ASSUMPTIONS = ['names of resources and of probed attributes are ASCII and are not members '
               'of the snapshot class itself (get, _handle_names, the dunder attributes of '
               'object); under one map a name is a handle or a sub-map (C11)']

MEMBERS = ["get", "_handle_names", "__class__", "__delattr__", "__dir__", "__doc__", "__eq__",
           "__format__", "__ge__", "__getattribute__", "__getitem__", "__getstate__", "__gt__",
           "__hash__", "__init__", "__init_subclass__", "__le__", "__lt__", "__module__",
           "__ne__", "__new__", "__reduce__", "__reduce_ex__", "__repr__", "__setattr__",
           "__sizeof__", "__slots__", "__str__", "__subclasshook__", "__dict__",
           "__weakref__", "__annotations__", "__firstlineno__", "__static_attributes__"]

IDENT = ['a', 'b', 'c', 'x1', '_p', 'Key', 'class']
NONIDENT = ['a.png', '1x', '', 'with space', 'a-b', 'b.tar.gz']
PRIVATE = ['__secret', '__x', '__a_']
DUNDER = ['__foo__', '__', '___']
MODES = ['MAttr', 'MItem', 'MGet']


def rand_name(rng):
    r = rng.random()
    if r < 0.55:
        return rng.choice(IDENT)
    if r < 0.80:
        return rng.choice(NONIDENT)
    if r < 0.95:
        return rng.choice(PRIVATE)
    return rng.choice(DUNDER)


def gen_tree(rng, depth, counter):
    nl = rng.choice([1, 1, 2, 3])
    hnames = []
    for _ in range(rng.randint(0, 3)):
        n = rand_name(rng)
        if n not in hnames:
            hnames.append(n)
    layers = []
    for li in range(nl):
        layer = []
        for n in hnames:
            if rng.random() < (0.8 if nl == 1 else 0.55):
                layer.append([n, counter[0]])
                counter[0] += 1
        layers.append(layer)
    visible = {n for l in layers for n, _ in l}
    subs = []
    if depth > 0:
        for _ in range(rng.choice([0, 1, 1, 2, 3])):
            n = rand_name(rng)
            if n in visible or n in [s[0] for s in subs]:
                continue
            subs.append([n, gen_tree(rng, depth - 1, counter)])
    return {'l': layers, 's': subs}


def all_paths(t, prefix=()):
    out = [list(prefix)]
    for layer in t['l']:
        for n, _ in layer:
            out.append(list(prefix) + [n])
    for n, c in t['s']:
        out += all_paths(c, prefix + (n,))
    return out


def node_paths(t, prefix=()):
    out = [list(prefix)]
    for n, c in t['s']:
        out += node_paths(c, prefix + (n,))
    return out


def sim_node(t, path):
    cur = t
    for n in path:
        nxt = [c for k, c in cur['s'] if k == n]
        if not nxt:
            return None
        cur = nxt[0]
    return cur


def sim_set(t, key, val):
    """what m[key] = value does to the spec tree (only used to aim probes)"""
    cur = t
    for n in key[:-1]:
        cur['l'] = [[e for e in l if e[0] != n] for l in cur['l']]
        nxt = [c for k, c in cur['s'] if k == n]
        if not nxt:
            nxt = [{'l': [[]], 's': []}]
            cur['s'].append([n, nxt[0]])
        cur = nxt[0]
    n = key[-1]
    if val == 'm':
        cur['l'] = [[e for e in l if e[0] != n] for l in cur['l']]
        cur['s'] = [e for e in cur['s'] if e[0] != n] + [[n, {'l': [[]], 's': []}]]
    else:
        cur['s'] = [e for e in cur['s'] if e[0] != n]
        if not cur['l']:
            cur['l'] = [[]]
        cur['l'][0] = [e for e in cur['l'][0] if e[0] != n] + [[n, -1]]


def gen_probes(rng, tree, npaths, nmut, on):
    paths = all_paths(tree)
    probes = []
    for _ in range(npaths):
        p = list(rng.choice(paths))
        r = rng.random()
        if r < 0.15 and p:
            p = p[:-1] + [rand_name(rng)]
        elif r < 0.3:
            p = p + [rand_name(rng)]
        elif r < 0.4 and len(p) > 1:
            p = p[:rng.randint(1, len(p) - 1)]
        probes.append(['path', rng.choice(MODES), p, on])
    nodes = node_paths(tree)
    for _ in range(nmut):
        p = rng.choice(nodes)
        r = rng.random()
        if r < 0.5:
            cands = [q[-1] for q in paths if q[:-1] == p and q]
            name = rng.choice(cands) if cands else rand_name(rng)
        elif r < 0.8:
            name = rand_name(rng) + 'z'
        else:
            name = rng.choice(['_handle_names', 'get', '__dict__', '__class__'])
        probes.insert(rng.randint(0, len(probes)), [rng.choice(['set', 'del']), p, name, on])
    return probes


def gen_mods(rng, tree):
    import copy
    mods = []
    for _ in range(rng.randint(1, 3)):
        nodes = node_paths(tree)
        deep = [p for p in nodes if p]
        r = rng.random()
        if r < 0.35:
            # through the root, composed key reaching below an existing sub-map
            base = list(rng.choice(deep)) if deep and rng.random() < 0.8 else []
            key = base + [rand_name(rng) for _ in range(rng.randint(1, 2))]
            val = 'h' if rng.random() < 0.7 else 'm'
            mods.append(['set', [], key, val])
            sim_set(tree, key, val)
        elif r < 0.7 and deep:
            path = list(rng.choice(deep))
            key = [rand_name(rng) for _ in range(rng.choice([1, 1, 2]))]
            val = 'h' if rng.random() < 0.7 else 'm'
            mods.append(['set', path, key, val])
            sim_set(sim_node(tree, path), key, val)
        elif r < 0.85:
            path = list(rng.choice(deep)) if deep and rng.random() < 0.75 else []
            mods.append(['clear', path])
            node = sim_node(tree, path)
            node['l'], node['s'] = [[]], []
        else:
            path = list(rng.choice(deep)) if deep else []
            node = sim_node(tree, path)
            names = [e[0] for l in node['l'] for e in l]
            name = rng.choice(names) if names and rng.random() < 0.7 else rand_name(rng)
            mods.append(['push', path, name])
            node['s'] = [e for e in node['s'] if e[0] != name]
            node['l'].insert(0, [[name, -1]])
    return mods


def gen_case(rng):
    import copy
    counter = [0]
    tree = gen_tree(rng, rng.choice([1, 2, 2, 3]), counter)
    if not tree['s']:
        tree['s'].append([rng.choice(IDENT), gen_tree(rng, 1, counter)])
    live = copy.deepcopy(tree)
    hist = []
    stages = []
    for j in range(rng.choice([2, 2, 3, 4])):
        mods = gen_mods(rng, live) if j > 0 else []
        hist.append(copy.deepcopy(live))
        probes = gen_probes(rng, live, rng.randint(3, 5), rng.randint(0, 1), j)
        if j > 0:
            # older snapshots must keep mirroring the old tree
            for _ in range(rng.randint(2, 4)):
                i = rng.randrange(j)
                probes += gen_probes(rng, hist[i], 1, 1 if rng.random() < 0.3 else 0, i)
        stages.append({'mods': mods, 'probes': probes})
    return dict(tree=tree, nh=counter[0], stages=stages,
                salt=rng.choice([None, 0, 1, 2, 0, 1]))


def gen(rng, tier):
    n = {'quick': 320, 'thorough': 3000, 'search': 250}[tier]
    return [gen_case(rng) for _ in range(n)]


# ---------------------------------------------------------------------- runner
CALLS = []          # every invocation of an overriding __call__, in order


class Wrapped:
    """what an overriding Handle.__call__ returns: a new object per call"""
    def __init__(self, owner, raw):
        self.owner = owner
        self.raw = raw


def make_hot_class(Hd):
    class Hot(Hd):
        """a Handle subclass whose __call__ post-processes the cached resource
        (hot reload / validation style): super().__call__() caches, the result
        of every call is a new object"""
        def __call__(self):
            w = Wrapped(self, super().__call__())
            CALLS.append(w)
            return w
    return Hot


def is_hot(case, i):
    salt = case.get('salt')
    return salt is not None and (i * 7 + salt) % 3 == 0


def build_map(t, handles, Hd):
    import desper
    m = desper.ResourceMap()
    layers = t['l']
    for li in range(len(layers) - 1, -1, -1):
        for n, i in layers[li]:
            h = Hd(i)
            handles[i] = h
            m[n] = h
        if li > 0:
            m.handles.maps.insert(0, {})
    for n, c in t['s']:
        m[n] = build_map(c, handles, Hd)
    return m


def read_map(m, hid):
    """observed structure of the real map: [layers, subs]"""
    return {'l': [[[k, hid(v)] for k, v in layer.items()] for layer in m.handles.maps],
            's': [[k, read_map(v, hid)] for k, v in m.maps.items()]}


def classify(r, hid, fresh=()):
    import desper
    if isinstance(r, Wrapped):
        # the resource of an overriding handle: it must be the result of the
        # one call of the handle made by this very access
        if len(fresh) == 1 and fresh[0] is r:
            return ['V', hid(r.owner)]
        return 'B'
    if isinstance(r, tc.Token):
        if hasattr(r.owner, '__call__') and type(r.owner).__name__ == 'Hot':
            return 'B'                   # the raw cache: __call__ was bypassed
        return ['V', hid(r.owner)]
    if isinstance(r, desper.Handle):
        return ['H', hid(r)]
    if isinstance(r, (desper.ResourceMap, desper.StaticResourceMap)):
        return 'S'
    return 'B'


def walk_map(m, mode, p, hid):
    import desper
    cur = m
    default = object()
    n0 = len(CALLS)
    for k in p:
        if not isinstance(cur, desper.ResourceMap):
            return 'X'
        try:
            if mode == 'MGet':
                cur = cur.get(k, default)
                if cur is default:
                    return 'A'
            else:
                cur = cur[k]
        except KeyError:
            return 'A'
        except Exception:
            return 'B'
    return classify(cur, hid, CALLS[n0:])


def walk_snap(s, mode, p, hid):
    import desper
    cur = s
    n0 = len(CALLS)
    for k in p:
        if not isinstance(cur, desper.StaticResourceMap):
            return 'X'
        try:
            if mode == 'MAttr':
                cur = getattr(cur, k)
            elif mode == 'MItem':
                cur = cur[k]
            else:
                cur = cur.get(k)
        except (AttributeError, KeyError):
            return 'A'
        except Exception:
            return 'B'
    return classify(cur, hid, CALLS[n0:])


def dump_snap(s, hid, depth=0):
    import desper
    sget = desper.StaticResourceMap.get       # the instance attribute may have been attacked
    hn = sorted(sget(s, '_handle_names'))
    ha, sa = [], []
    for n in sorted(dir(s)):
        if n in MEMBERS:
            continue
        try:
            v = sget(s, n)
        except AttributeError:
            continue                     # a slot that was never filled
        if isinstance(v, desper.Handle):
            ha.append([n, hid(v)])
        elif isinstance(v, desper.StaticResourceMap) and depth < 12:
            sa.append([n, dump_snap(v, hid, depth + 1)])
        else:
            ha.append([n, -1])           # a foreign value: matches nothing
    return [hn, ha, sa]


def find_map(m, path):
    import desper
    cur = m
    for k in path:
        cur = cur.maps.get(k)
        if not isinstance(cur, desper.ResourceMap):
            return None
    return cur


def apply_mod(m, mod, Hd, handles, ids):
    import desper
    target = find_map(m, mod[1])
    if target is None:
        return
    if mod[0] == 'clear':
        target.clear()
        return
    if mod[0] == 'push':
        target.handles.maps.insert(0, {})
        key, val = [mod[2]], 'h'
    else:
        key, val = mod[2], mod[3]
    if val == 'h':
        n = max(list(ids.values()) + [-1]) + 1
        h = Hd(n)
        ids[id(h)] = n
        handles.append(h)
        target['/'.join(key)] = h
    else:
        target['/'.join(key)] = desper.ResourceMap()


def run(case):
    import desper
    Hd0 = tc.make_handle_class()
    Hot = make_hot_class(Hd0)
    del CALLS[:]

    def Hd(i):
        return (Hot if is_hot(case, i) else Hd0)(i)
    built = {}
    m = build_map(case['tree'], built, Hd)
    handles = [built[i] for i in sorted(built)]
    ids = {id(built[i]): i for i in built}

    def hid(h):
        return ids.get(id(h), -1)

    members = set(dir(desper.ResourceMap().get_static_map()))
    if not members <= set(MEMBERS):
        raise RuntimeError('member list out of date: %r' % sorted(members - set(MEMBERS)))
    stages = case['stages']
    snaps = []          # python objects (or None)
    out = []            # one record per snapshot
    for j, st in enumerate(stages):
        for mod in st['mods']:
            apply_mod(m, mod, Hd, handles, ids)
        rec = {'tree': read_map(m, hid), 'obs': []}
        # the map's answers, now, to every probe that will ever be made on this snapshot
        mapans = {}
        for k in range(j, len(stages)):
            for x, pr in enumerate(stages[k]['probes']):
                if pr[-1] == j and pr[0] == 'path':
                    mapans[(k, x)] = walk_map(m, pr[1], pr[2], hid)
        rec['mapans'] = [[k, x, v] for (k, x), v in sorted(mapans.items())]
        try:
            snap = m.get_static_map()
            rec['built'] = True
            rec['dump'] = dump_snap(snap, hid)
        except Exception as ex:
            snap = None
            rec['built'] = False
            rec['exc'] = type(ex).__name__
        snaps.append(snap)
        out.append(rec)
        for x, pr in enumerate(st['probes']):
            i = pr[-1]
            if i > j or snaps[i] is None:
                continue
            target = snaps[i]
            if pr[0] == 'path':
                ans = dict(((k, y), v) for k, y, v in out[i]['mapans'])[(j, x)]
                out[i]['obs'].append(['path', pr[1], pr[2], walk_snap(target, pr[1], pr[2], hid), ans])
            else:
                node = target
                where = []
                for k in pr[1]:
                    try:
                        nxt = desper.StaticResourceMap.get(node, k)
                    except Exception:
                        break
                    if not isinstance(nxt, desper.StaticResourceMap):
                        break
                    node = nxt
                    where.append(k)
                raised = False
                try:
                    if pr[0] == 'set':
                        setattr(node, pr[2], object())
                    else:
                        delattr(node, pr[2])
                except Exception:
                    raised = True
                out[i]['obs'].append([pr[0], where, pr[2], raised, dump_snap(target, hid)])
    for rec in out:
        del rec['mapans']
    return {'snaps': out}


# --------------------------------------------------------------------- encoder
def cs(s):
    assert all(32 <= ord(ch) < 127 for ch in s), s
    return '"%s"%%string' % s.replace('"', '""')


def enc_tree(t):
    return '(Node %s %s)' % (
        lst([lst(['(%s,%s)' % (cs(k), z(h)) for k, h in layer]) for layer in t['l']]),
        lst(['(%s,%s)' % (cs(k), enc_tree(c)) for k, c in t['s']]))


def enc_snode(d):
    return '(SNode %s %s %s)' % (
        lst([cs(k) for k in d[0]]),
        lst(['(%s,%s)' % (cs(k), z(h)) for k, h in d[1]]),
        lst(['(%s,%s)' % (cs(k), enc_snode(c)) for k, c in d[2]]))


def enc_res(r):
    if isinstance(r, list):
        return '(%s %s)' % ({'V': 'RVal', 'H': 'RHandle'}[r[0]], z(r[1]))
    return {'S': 'RSub', 'A': 'RAbsent', 'X': 'RNotMap', 'B': 'RBad'}[r]


EMPTY = '(SNode [] [] [])'
BAD = '[CASE (Node [] []) false (SNode [] [] []) []]'


def encode(case, trace):
    if 'snaps' not in trace:
        return BAD
    snaps = []
    for rec in trace['snaps']:
        if not rec['built']:
            snaps.append('(CASE %s false %s [])' % (enc_tree(rec['tree']), EMPTY))
            continue
        items = []
        for ob in rec['obs']:
            if ob[0] == 'path':
                items.append('(PPath %s %s, OPath %s %s)' % (
                    ob[1], lst([cs(k) for k in ob[2]]), enc_res(ob[3]), enc_res(ob[4])))
            else:
                items.append('(%s %s %s, OMut %s %s)' % (
                    'PSet' if ob[0] == 'set' else 'PDel', lst([cs(k) for k in ob[1]]),
                    cs(ob[2]), b(ob[3]), enc_snode(ob[4])))
        snaps.append('(CASE %s true %s %s)' % (enc_tree(rec['tree']), enc_snode(rec['dump']),
                                               lst(items)))
    return lst(snaps)


def nontrivial(case, trace):
    st = case['stages']
    deep = any((mod[0] == 'set' and (mod[1] or len(mod[2]) > 1)) or
               (mod[0] in ('clear', 'push') and mod[1])
               for s_ in st[1:] for mod in s_['mods'])
    return len(st) >= 2 and deep and any(p[0] != 'path' for s_ in st for p in s_['probes'])


def shrink(case):
    st = case['stages']
    for k in range(len(st) - 1, 0, -1):
        yield dict(case, stages=st[:k])
    for j in range(len(st)):
        ps = st[j]['probes']
        if ps:
            yield dict(case, stages=st[:j] + [dict(st[j], probes=[])] + st[j + 1:])
        for i in range(len(ps)):
            yield dict(case, stages=st[:j] + [dict(st[j], probes=ps[:i] + ps[i + 1:])] + st[j + 1:])
        ms = st[j]['mods']
        for i in range(len(ms)):
            yield dict(case, stages=st[:j] + [dict(st[j], mods=ms[:i] + ms[i + 1:])] + st[j + 1:])

    def smaller(t):
        for i in range(len(t['s'])):
            yield {'l': t['l'], 's': t['s'][:i] + t['s'][i + 1:]}
            for c in smaller(t['s'][i][1]):
                yield {'l': t['l'], 's': t['s'][:i] + [[t['s'][i][0], c]] + t['s'][i + 1:]}
        for li in range(len(t['l'])):
            for j in range(len(t['l'][li])):
                yield {'l': t['l'][:li] + [t['l'][li][:j] + t['l'][li][j + 1:]] +
                       t['l'][li + 1:], 's': t['s']}

    def renumber(t):
        # handle ids must stay 0..n-1 in creation order of build_map
        return t
    for t in smaller(case['tree']):
        yield dict(case, tree=t)


def stats(cases, traces):
    d = dict(cases=len(cases), snapshots=0, nodes=0, handles=0, layered_nodes=0, nonident=0,
             private=0, dunder=0, path_probes=0, mutation_probes=0, probes_on_older_snapshot=0,
             mods_through_root_composed=0, mods_on_submap=0, clears=0, layer_pushes=0,
             absent_answers=0, value_answers=0, sub_answers=0, notmap_answers=0)

    def visit(t):
        d['nodes'] += 1
        d['layered_nodes'] += sum(1 for l in t['l'] if l) > 1
        names = [n for l in t['l'] for n, _ in l] + [n for n, _ in t['s']]
        d['handles'] += sum(len(l) for l in t['l'])
        for n in names:
            if n in NONIDENT:
                d['nonident'] += 1
            elif n in PRIVATE:
                d['private'] += 1
            elif n in DUNDER:
                d['dunder'] += 1
        for _, c in t['s']:
            visit(c)
    for c, t in zip(cases, traces):
        visit(c['tree'])
        for j, st in enumerate(c['stages']):
            d['snapshots'] += 1
            for mod in st['mods']:
                if mod[0] == 'set':
                    d['mods_on_submap' if mod[1] else 'mods_through_root_composed'] += 1
                elif mod[0] == 'clear':
                    d['clears'] += 1
                else:
                    d['layer_pushes'] += 1
            for p in st['probes']:
                d['path_probes' if p[0] == 'path' else 'mutation_probes'] += 1
                d['probes_on_older_snapshot'] += p[-1] < j
        for rec in t.get('snaps', []):
            for ob in rec['obs']:
                if ob[0] == 'path':
                    r = ob[3]
                    if r == 'A':
                        d['absent_answers'] += 1
                    elif r == 'S':
                        d['sub_answers'] += 1
                    elif r == 'X':
                        d['notmap_answers'] += 1
                    elif isinstance(r, list):
                        d['value_answers'] += 1
    return d
