"""C17 - a static resource map is a faithful, immutable mirror."""
from harness.core import z, b, lst
from harness import tree_common as tc

ID = 'C17'
COQ_MODULE = 'Desper.Tree.C17Model'
CASE_TYPE = 'C17_case'
VERDICT = 'C17_verdict'
PROPS_FILE = 'theories/Props/C17.v'
THEOREM = 'C17_static_mirror'
RULE = ('random resource trees (depth <= 3, 0-3 handles in 1-3 ChainMap layers with '
        'shadowing, 0-3 sub-maps per map) whose names are identifiers (55%), '
        'non-identifiers such as "a.png", "1x", "", "with space" (25%), private names '
        '__x (15%), dunder names __foo__ (5%); the map is built through the public API, '
        'its structure is read back, get_static_map() is taken, in 30% of the cases the '
        'map is then cleared or extended; 6-12 paths (existing, cut, extended, absent '
        'names) are walked part by part with attribute access, [] and get on the snapshot '
        'and on the map (before the snapshot), 1-3 setattr/delattr attempts on nodes of '
        'the snapshot are followed by a full structural dump; non-trivial = a tree with a '
        'sub-map, a non-slot name or a layered handle, and an attempted mutation')
TRUSTED = [
    'Coq 8.16.1 kernel + vm_compute (evaluation of C17_verdict on the observed cases)',
    'hand-written model Tree/C17Model.v tied to /repo by this correspondence run '
    '(sampled, not exhaustive)',
    'harness: the structure of the snapshot is read with dir() and get(); the member list '
    'of the snapshot class (dir() of the snapshot of an empty map) is checked on every run '
    'against the list in C17Model.v',
    'CPython __slots__ / __dict__ / name mangling / object.__setattr__ mechanics',
]
ASSUMPTIONS = ['names of resources and of probed attributes are ASCII and are not members '
               'of the snapshot class itself (get, _handle_names, the dunder attributes of '
               'object); under one map a name is a handle or a sub-map (C11)']

MEMBERS = ["get", "_handle_names", "__class__", "__delattr__", "__dir__", "__doc__", "__eq__",
           "__format__", "__ge__", "__getattribute__", "__getitem__", "__getstate__", "__gt__",
           "__hash__", "__init__", "__init_subclass__", "__le__", "__lt__", "__module__",
           "__ne__", "__new__", "__reduce__", "__reduce_ex__", "__repr__", "__setattr__",
           "__sizeof__", "__slots__", "__str__", "__subclasshook__", "__dict__",
           "__weakref__", "__annotations__", "__firstlineno__", "__static_attributes__"]

IDENT = ['a', 'b', 'c', 'x1', '_p', 'Key', 'class']
NONIDENT = ['a.png', '1x', '', 'with space', 'a-b', 'b.tar.gz']
PRIVATE = ['__secret', '__x', '__a_']
DUNDER = ['__foo__', '__', '___']
MODES = ['MAttr', 'MItem', 'MGet']


def rand_name(rng):
    r = rng.random()
    if r < 0.55:
        return rng.choice(IDENT)
    if r < 0.80:
        return rng.choice(NONIDENT)
    if r < 0.95:
        return rng.choice(PRIVATE)
    return rng.choice(DUNDER)


def gen_tree(rng, depth, counter):
    nl = rng.choice([1, 1, 2, 3])
    hnames = []
    for _ in range(rng.randint(0, 3)):
        n = rand_name(rng)
        if n not in hnames:
            hnames.append(n)
    layers = []
    for li in range(nl):
        layer = []
        for n in hnames:
            if rng.random() < (0.8 if nl == 1 else 0.55):
                layer.append([n, counter[0]])
                counter[0] += 1
        layers.append(layer)
    visible = {n for l in layers for n, _ in l}
    subs = []
    if depth > 0:
        for _ in range(rng.choice([0, 1, 1, 2, 3])):
            n = rand_name(rng)
            if n in visible or n in [s[0] for s in subs]:
                continue
            subs.append([n, gen_tree(rng, depth - 1, counter)])
    return {'l': layers, 's': subs}


def all_paths(t, prefix=()):
    out = [list(prefix)]
    for layer in t['l']:
        for n, _ in layer:
            out.append(list(prefix) + [n])
    for n, c in t['s']:
        out += all_paths(c, prefix + (n,))
    return out


def node_paths(t, prefix=()):
    out = [list(prefix)]
    for n, c in t['s']:
        out += node_paths(c, prefix + (n,))
    return out


def gen_case(rng):
    counter = [0]
    tree = gen_tree(rng, rng.choice([1, 2, 2, 3]), counter)
    paths = all_paths(tree)
    probes = []
    for _ in range(rng.randint(6, 12)):
        p = list(rng.choice(paths))
        r = rng.random()
        if r < 0.15 and p:
            p = p[:-1] + [rand_name(rng)]
        elif r < 0.3:
            p = p + [rand_name(rng)]
        elif r < 0.4 and len(p) > 1:
            p = p[:rng.randint(1, len(p) - 1)]
        probes.append(['path', rng.choice(MODES), p])
    nodes = node_paths(tree)
    for _ in range(rng.randint(1, 3)):
        p = rng.choice(nodes)
        r = rng.random()
        if r < 0.5:
            cands = [q[-1] for q in paths if q[:-1] == p and q]
            name = rng.choice(cands) if cands else rand_name(rng)
        elif r < 0.8:
            name = rand_name(rng) + 'z'
        else:
            name = rng.choice(['_handle_names', 'get', '__dict__', '__class__'])
        probes.insert(rng.randint(0, len(probes)),
                      [rng.choice(['set', 'del']), p, name])
    mutate = rng.choice(['none', 'none', 'none', 'none', 'none', 'none', 'none',
                         'clear', 'add', 'clear_handles'])
    return dict(tree=tree, nh=counter[0], probes=probes, mutate=mutate)


def gen(rng, tier):
    n = {'quick': 400, 'thorough': 4000, 'search': 300}[tier]
    return [gen_case(rng) for _ in range(n)]


# ---------------------------------------------------------------------- runner
def build_map(t, handles, Hd):
    import desper
    m = desper.ResourceMap()
    layers = t['l']
    for li in range(len(layers) - 1, -1, -1):
        for n, i in layers[li]:
            h = Hd(i)
            handles[i] = h
            m[n] = h
        if li > 0:
            m.handles.maps.insert(0, {})
    for n, c in t['s']:
        m[n] = build_map(c, handles, Hd)
    return m


def read_map(m, hid):
    """observed structure of the real map: [layers, subs]"""
    return {'l': [[[k, hid(v)] for k, v in layer.items()] for layer in m.handles.maps],
            's': [[k, read_map(v, hid)] for k, v in m.maps.items()]}


def classify(r, hid):
    import desper
    if isinstance(r, tc.Token):
        return ['V', hid(r.owner)]
    if isinstance(r, desper.Handle):
        return ['H', hid(r)]
    if isinstance(r, (desper.ResourceMap, desper.StaticResourceMap)):
        return 'S'
    return 'B'


def walk_map(m, mode, p, hid):
    import desper
    cur = m
    default = object()
    for k in p:
        if not isinstance(cur, desper.ResourceMap):
            return 'X'
        try:
            if mode == 'MGet':
                cur = cur.get(k, default)
                if cur is default:
                    return 'A'
            else:
                cur = cur[k]
        except KeyError:
            return 'A'
        except Exception:
            return 'B'
    return classify(cur, hid)


def walk_snap(s, mode, p, hid):
    import desper
    cur = s
    for k in p:
        if not isinstance(cur, desper.StaticResourceMap):
            return 'X'
        try:
            if mode == 'MAttr':
                cur = getattr(cur, k)
            elif mode == 'MItem':
                cur = cur[k]
            else:
                cur = cur.get(k)
        except (AttributeError, KeyError):
            return 'A'
        except Exception:
            return 'B'
    return classify(cur, hid)


def dump_snap(s, hid, depth=0):
    import desper
    sget = desper.StaticResourceMap.get       # the instance attribute may have been attacked
    hn = sorted(sget(s, '_handle_names'))
    ha, sa = [], []
    for n in sorted(dir(s)):
        if n in MEMBERS:
            continue
        try:
            v = sget(s, n)
        except AttributeError:
            continue                     # a slot that was never filled
        if isinstance(v, desper.Handle):
            ha.append([n, hid(v)])
        elif isinstance(v, desper.StaticResourceMap) and depth < 12:
            sa.append([n, dump_snap(v, hid, depth + 1)])
        else:
            ha.append([n, -1])           # a foreign value: matches nothing
    return [hn, ha, sa]


def run(case):
    import desper
    Hd = tc.make_handle_class()
    handles = {}
    m = build_map(case['tree'], handles, Hd)
    ids = {id(h): i for i, h in handles.items()}

    def hid(h):
        return ids.get(id(h), -1)

    members = set(dir(desper.ResourceMap().get_static_map()))
    if not members <= set(MEMBERS):
        raise RuntimeError('member list out of date: %r' % sorted(members - set(MEMBERS)))
    out = {'tree': read_map(m, hid)}
    out['map'] = [walk_map(m, pr[1], pr[2], hid) if pr[0] == 'path' else None
                  for pr in case['probes']]
    try:
        snap = m.get_static_map()
    except Exception as ex:
        out['built'] = False
        out['exc'] = type(ex).__name__
        return out
    out['built'] = True
    out['dump'] = dump_snap(snap, hid)
    if case['mutate'] == 'clear':
        m.clear()
    elif case['mutate'] == 'add':
        m['zz/new'] = Hd(10 ** 6)
        m['a'] = desper.ResourceMap()
    elif case['mutate'] == 'clear_handles':
        for h in handles.values():
            h.clear()
    obs = []
    for pr, mres in zip(case['probes'], out['map']):
        if pr[0] == 'path':
            obs.append(['path', walk_snap(snap, pr[1], pr[2], hid), mres])
        else:
            node = snap
            where = []
            for k in pr[1]:
                try:
                    nxt = desper.StaticResourceMap.get(node, k)
                except Exception:
                    break
                if not isinstance(nxt, desper.StaticResourceMap):
                    break
                node = nxt
                where.append(k)
            raised = False
            try:
                if pr[0] == 'set':
                    setattr(node, pr[2], object())
                else:
                    delattr(node, pr[2])
            except Exception:
                raised = True
            obs.append(['mut', raised, dump_snap(snap, hid), where])
    out['obs'] = obs
    return out


# --------------------------------------------------------------------- encoder
def cs(s):
    assert all(32 <= ord(ch) < 127 for ch in s), s
    return '"%s"%%string' % s.replace('"', '""')


def enc_tree(t):
    return '(Node %s %s)' % (
        lst([lst(['(%s,%s)' % (cs(k), z(h)) for k, h in layer]) for layer in t['l']]),
        lst(['(%s,%s)' % (cs(k), enc_tree(c)) for k, c in t['s']]))


def enc_snode(d):
    return '(SNode %s %s %s)' % (
        lst([cs(k) for k in d[0]]),
        lst(['(%s,%s)' % (cs(k), z(h)) for k, h in d[1]]),
        lst(['(%s,%s)' % (cs(k), enc_snode(c)) for k, c in d[2]]))


def enc_res(r):
    if isinstance(r, list):
        return '(%s %s)' % ({'V': 'RVal', 'H': 'RHandle'}[r[0]], z(r[1]))
    return {'S': 'RSub', 'A': 'RAbsent', 'X': 'RNotMap', 'B': 'RBad'}[r]


EMPTY = '(SNode [] [] [])'
BAD = 'CASE (Node [] []) false (SNode [] [] []) []'


def encode(case, trace):
    if 'tree' not in trace:
        return BAD
    if not trace['built']:
        return 'CASE %s false %s []' % (enc_tree(trace['tree']), EMPTY)
    items = []
    for pr, ob in zip(case['probes'], trace['obs']):
        if pr[0] == 'path':
            items.append('(PPath %s %s, OPath %s %s)' % (
                pr[1], lst([cs(k) for k in pr[2]]), enc_res(ob[1]), enc_res(ob[2])))
        else:
            items.append('(%s %s %s, OMut %s %s)' % (
                'PSet' if pr[0] == 'set' else 'PDel', lst([cs(k) for k in ob[3]]),
                cs(pr[2]), b(ob[1]), enc_snode(ob[2])))
    return 'CASE %s true %s %s' % (enc_tree(trace['tree']), enc_snode(trace['dump']),
                                   lst(items))


def _has(t, pred):
    return pred(t) or any(_has(c, pred) for _, c in t['s'])


def nontrivial(case, trace):
    t = case['tree']

    def odd(n):
        return (not n.isidentifier()) or (n.startswith('__') and not n.endswith('__'))
    interesting = (t['s'] and (
        _has(t, lambda x: any(odd(n) for l in x['l'] for n, _ in l) or
             any(odd(n) for n, _ in x['s'])) or
        _has(t, lambda x: sum(1 for l in x['l'] if l) > 1)))
    return bool(interesting) and any(p[0] != 'path' for p in case['probes'])


def shrink(case):
    ps = case['probes']
    for i in range(len(ps)):
        yield dict(case, probes=ps[:i] + ps[i + 1:])
    if case['mutate'] != 'none':
        yield dict(case, mutate='none')

    def smaller(t):
        for i in range(len(t['s'])):
            yield {'l': t['l'], 's': t['s'][:i] + t['s'][i + 1:]}
            for c in smaller(t['s'][i][1]):
                yield {'l': t['l'], 's': t['s'][:i] + [[t['s'][i][0], c]] + t['s'][i + 1:]}
        for li in range(len(t['l'])):
            if len(t['l']) > 1:
                yield {'l': t['l'][:li] + t['l'][li + 1:], 's': t['s']}
            for j in range(len(t['l'][li])):
                yield {'l': t['l'][:li] + [t['l'][li][:j] + t['l'][li][j + 1:]] +
                       t['l'][li + 1:], 's': t['s']}
    for t in smaller(case['tree']):
        yield dict(case, tree=t)


def stats(cases, traces):
    d = dict(cases=len(cases), nodes=0, handles=0, layered_nodes=0, nonident=0, private=0,
             dunder=0, path_probes=0, mutation_probes=0, post_mutated_maps=0,
             absent_answers=0, value_answers=0, sub_answers=0, notmap_answers=0)

    def visit(t):
        d['nodes'] += 1
        d['layered_nodes'] += sum(1 for l in t['l'] if l) > 1
        names = [n for l in t['l'] for n, _ in l] + [n for n, _ in t['s']]
        d['handles'] += sum(len(l) for l in t['l'])
        for n in names:
            if n in NONIDENT:
                d['nonident'] += 1
            elif n in PRIVATE:
                d['private'] += 1
            elif n in DUNDER:
                d['dunder'] += 1
        for _, c in t['s']:
            visit(c)
    for c, t in zip(cases, traces):
        visit(c['tree'])
        d['post_mutated_maps'] += c['mutate'] != 'none'
        for p in c['probes']:
            d['path_probes' if p[0] == 'path' else 'mutation_probes'] += 1
        for ob in t.get('obs', []):
            if ob[0] == 'path':
                r = ob[1]
                if r == 'A':
                    d['absent_answers'] += 1
                elif r == 'S':
                    d['sub_answers'] += 1
                elif r == 'X':
                    d['notmap_answers'] += 1
                elif isinstance(r, list):
                    d['value_answers'] += 1
    return d
