"""C03 - an enabled dispatcher delivers each event once to each listener."""
from harness import events_common as ec

ID = 'C03'
COQ_MODULE = 'Desper.Events.Spec'
CASE_TYPE = 'C03_case'
VERDICT = 'C03_verdict'
PROPS_FILE = 'theories/Props/C03.v'
THEOREM = 'C03_dispatch_exactly_registered'
CASE_TIMEOUT = 2
RULE = ('in 35 % of the cases the handler classes make their instances falsy (__bool__ False or '
        '__len__ 0; identity and default equality untouched); '
        'random programs (0-16 top level operations after registering most handlers) over one '
        'EventDispatcher (15 %: a World) with 2-5 scripted handlers of 1-5 classes built with type() '
        'and decorated with desper.event_handler: roots, chains, diamonds and other multiple '
        'inheritance (up to 3 bases, hierarchies Python\'s C3 rejects are re-drawn), decorated '
        'classes mixed with event_handler() without arguments (also on roots), inherited / '
        'overridden / renamed mappings, several events mapped to one method, subclasses redefining '
        'methods a base maps an event to (the function that ran is checked against Python\'s own '
        'resolution), 1-3 events plus dispatches of names nobody handles, thirteen argument '
        'shapes (0-2 positionals, 0-3 keywords, keyword-only calls, values None/0/\'\'/tuples); 35 % of the handler methods carry a script of 1-3 '
        'actions (add/remove/is_handler/re-entrant dispatch/clear/raise); dispatching stays '
        'enabled; after every class definition the MRO of the new class and __events__ of all '
        'classes are read back; '
        'non-trivial = at least three executed state-changing actions and two callbacks')
TRUSTED = [
    'Coq 8.16.1 kernel + vm_compute (evaluation of C03_verdict on the observed logs)',
    'hand-written model Events/Model.v tied to /repo by this correspondence run (sampled)',
    'harness doubles: handler classes built with type() and desper.event_handler, whose '
    'methods log (receiver, method, token, argument shape) and run their script',
    'the harness attributes callbacks to dispatches by the token passed as first argument',
]
ASSUMPTIONS = ['nothing below the top level catches exceptions (scripts never catch)',
               'handler objects use identity equality (otherwise: known finding K4)',
               'the MRO of a class is read from Python and checked to be a consistent linearisation '
               '(C3 itself is CPython\'s, not modelled)']
MODE = 3


def gen(rng, tier):
    n = {'quick': 400, 'thorough': 4000, 'search': 300}[tier]
    return ec.gen_cases(rng, MODE, n)


run = ec.run
encode = ec.encode
shrink = ec.shrink
mutate = ec.mutate
stats = ec.stats


def nontrivial(case, trace):
    log = trace.get('log', [])
    acts = sum(1 for e in log if e[0] == 'act' and e[1][0] in ('add', 'remove', 'dispatch', 'clear'))
    calls = sum(1 for e in log if e[0] == 'call')
    return acts >= 3 and calls >= 2
