"""C03 - an enabled dispatcher delivers each event once to each listener."""
from harness import events_common as ec

ID = 'C03'
COQ_MODULE = 'Desper.Events.Spec'
CASE_TYPE = 'C03_case'
VERDICT = 'C03_verdict'
PROPS_FILE = 'theories/Props/C03.v'
THEOREM = 'C03_dispatch_exactly_registered'
CASE_TIMEOUT = 2
RULE = ('random programs (0-16 top level operations after registering most handlers) over one '
        'EventDispatcher with 2-5 scripted handlers of 1-3 classes built with type() and decorated '
        'with desper.event_handler (chains of subclasses, inherited / overridden / renamed mappings, '
        'undecorated subclasses), 1-3 events plus dispatches of names nobody handles, six argument '
        'shapes (0-2 positionals, 0-2 keywords); 35 % of the handler methods carry a script of 1-3 '
        'actions (add/remove/is_handler/re-entrant dispatch/clear/raise); dispatching stays '
        'enabled; after every class definition __events__ of all classes is read back; '
        'non-trivial = at least three executed state-changing actions and two callbacks')
TRUSTED = [
    'Coq 8.16.1 kernel + vm_compute (evaluation of C03_verdict on the observed logs)',
    'hand-written model Events/Model.v tied to /repo by this correspondence run (sampled)',
    'harness doubles: handler classes built with type() and desper.event_handler, whose '
    'methods log (receiver, method, token, argument shape) and run their script',
    'the harness attributes callbacks to dispatches by the token passed as first argument',
]
ASSUMPTIONS = ['nothing below the top level catches exceptions (scripts never catch)',
               'handler objects use identity equality (otherwise: known finding K4)',
               'single inheritance between handler classes (with several bases Python attribute '
               'lookup hands the decorator the mapping of the first base in the MRO)']
MODE = 3


def gen(rng, tier):
    n = {'quick': 400, 'thorough': 4000, 'search': 300}[tier]
    return ec.gen_cases(rng, MODE, n)


run = ec.run
encode = ec.encode
shrink = ec.shrink
mutate = ec.mutate
stats = ec.stats


def nontrivial(case, trace):
    log = trace.get('log', [])
    acts = sum(1 for e in log if e[0] == 'act' and e[1][0] in ('add', 'remove', 'dispatch', 'clear'))
    calls = sum(1 for e in log if e[0] == 'call')
    return acts >= 3 and calls >= 2
