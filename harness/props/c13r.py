"""development module: C13 on the second-generation model (to be merged into c13.py)"""
from harness.props.c13 import *     # noqa
from harness.loop_common import gen, run, shrink, mutate, nontrivial, stats  # noqa
from harness.loop_common import encode_r as encode  # noqa
ID = 'C13'
COQ_MODULE = 'Desper.Loop.R13Model'
