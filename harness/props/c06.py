"""C06 - queries by type give the right answer over every class hierarchy."""
from harness import worldq_common as wq
from harness.worldq_common import (COQ_MODULE, CASE_TIMEOUT, TRUSTED, ASSUMPTIONS,   # noqa: F401
                                   run, encode, stats, mutate, shrink)

ID = 'C06'
CASE_TYPE = 'C06_case'
VERDICT = 'C06_verdict'
PROPS_FILE = 'theories/Props/C06.v'
THEOREM = 'C06_type_queries'
RULE = ('random histories of 3-25 World operations dominated by create_entity / '
        'add_component (entities holding several sibling subtypes), remove_component by an '
        'ancestor type, add_processor, remove_processor by an ancestor type (+ a few delete / '
        'process / clear) over 3-8 classes forming a random DAG accepted by Python, realised '
        'once as component classes under a fresh root and once as Processor subclasses; a '
        'diamond D(B,C), B(A), C(A) (two-base class for 3 classes) is embedded in 45 % of the '
        'cases; 1-4 entity ids; an operation outside the input domain at that point of the '
        'observed history is not executed; after every operation 6 seeded random queries out '
        'of the full snapshot (get / get_processor per class, entities, per id get_components, '
        'entity_exists, has_component / get_component per class), after the last one '
        '(thorough: after every one when <= 8 operations) the full snapshot; distinct = '
        'different (case, trace); non-trivial = at least 3 executed state-changing operations '
        'and a remove_component / remove_processor by a proper ancestor type that returned '
        'an object')

PARAMS = dict(
    counts={'quick': 350, 'thorough': 3500, 'search': 300},
    ncls=(3, 8), npool=(1, 4), pool_cap=5, nops=(3, 25), full_max_ops=8,
    p_force=0.45,
    kind_w=[50, 15, 12, 12, 11],
    w=dict(create=20, add=20, remove=25, delete=4, process=3, clear=2, enable=5, probe=3,
           addproc=12, rmproc=10),
    p_auto=0.25, p_future=0.10, create_sizes=[2, 30, 40, 28],
    p_replace=0.2, p_sibs=0.6, rm_modes=[25, 60, 15],
    p_after_future=0.25,
    p_follow=0.3, p_last=0.04,
)


def gen(rng, tier):
    return wq.gen_cases(rng, tier, PARAMS)


nontrivial = wq.nontrivial06
