"""C18 - vector and matrix operations compute their textbook definitions.

The model of desper/math.py is GENERATED: harness/pymath2coq.py translates the
source into coq/theories/Math/MathGen.v before every build (`prebuild`), the
theorems of Props/C18.v are about the generated names and are re-checked by
the build.  This module is
  * the validation of the translator: the real classes are run on exact
    rational inputs (fractions.Fraction) and Coq evaluates, over Q,
    accepts = "the generated definition computes the observed result" and
    holds_b = "the observed result is the textbook one" (Math/Spec.v);
  * the search for a failing input when a proof obligation breaks
    (`on_proof_failure`), by an independent Python oracle;
  * the exhaustive swizzle comparison and the float tests (`extra_checks`).
"""
import atexit
import fcntl
import glob
import json
import os
import re
import shutil
import subprocess
import tempfile
from concurrent.futures import ThreadPoolExecutor
from fractions import Fraction

from harness import core, pymath2coq
from harness.core import b, lst

ID = 'C18'
COQ_MODULE = 'Desper.Math.C18Model'
CASE_TYPE = 'C18_case'
VERDICT = 'C18_verdict'
PROPS_FILE = 'theories/Props/C18.v'
THEOREM = ('C18_* (the theorems of Props/C18.v: the definitions generated from math.py equal '
           'the textbook definitions of Math/Spec.v, for all reals)')
CASE_TIMEOUT = 10
RULE = ('case = (method, exact entries of the arguments, scripted-math flag); 113 translated '
        'methods drawn uniformly (each at least twice) with extra weight on @, ~, cross, lerp, '
        'limit, transpose, rotate, look_at, perspective; entries n/d with n in -9..9, d in '
        '{1,2,3,4,5,8}, 8% zeros; matrices random / near-identity / singular (a row a '
        'multiple of another) / small integers.  Runs on the unmodified module: sqrt methods '
        'on vectors of rational length (Pythagorean tuples scaled by dyadics; normalize/'
        'from_magnitude/long limit on vectors whose length is a power of two), '
        'orthogonal_projection on boxes with power-of-two sides, from_rotation and the Mat3 '
        'transforms (which multiply with float literals) on dyadic values and right angles, '
        'so that binary64 arithmetic is exact.  Runs with the scripted double of `math` '
        '(exact rational sqrt on squares; angles as tokens t = tan(angle/2), so that cos, sin, '
        'atan2 and angle addition are rational): all angle methods (from_polar, heading, '
        'from_heading, rotate, Mat4.rotate, Mat3.rotate, perspective_projection), look_at, '
        'and 45% of the sqrt cases (any Pythagorean vector, non-dyadic scales).  limit: short '
        '/ exactly on the boundary / long; __round__ on exact ties, thirds, sevenths, '
        'thousandths; non-trivial = at least two distinct non-zero input entries and a '
        'result that is not identically zero')
TRUSTED = [
    'Coq 8.16.1 kernel; vm_compute for the evaluation over Q',
    'the translator harness/pymath2coq.py and Python\'s ast module (fail closed: a construct '
    'outside its subset makes the generated file uncompilable); validated on every run by '
    'evaluating the generated definitions over Q against the real classes run on Fractions '
    '(sampled); the methods with angles are run with a scripted double of the `math` '
    'module (harness/math_shim.py: exact sqrt on squares, angle tokens t = tan(angle/2)) '
    'whose Coq counterpart is Math/QInst.v; perspective_projection with the default fov=60 '
    'is only tested over floats',
    'the reading of Python numbers as reals: binary64 rounding, overflow and the error of '
    'math.sqrt/cos/sin/atan2 are NOT modelled (float tests with relative tolerance 1e-9 are '
    'reported separately as tests)',
    'Math/Spec.v (textbook definitions) and Math/Swizzle.v (hand-written model of '
    '__getattr__, compared exhaustively with the classes on every run)',
    'CPython tuple/slice/zip/sum/max/min semantics as implemented by the translator',
    'hypothesis of C18_rotate only (a theorem parameter, not an axiom): atan2 y x is a polar '
    'angle of (x, y); C18_polar_satisfiable shows it holds for the usual atan2',
    'axioms of the Coq standard library printed by Print Assumptions (none declared here): '
    'ClassicalDedekindReals.sig_forall_dec, ClassicalDedekindReals.sig_not_dec, '
    'FunctionalExtensionality.functional_extensionality_dep for every theorem over R; '
    'additionally Classical_Prop.classic for C18_polar_satisfiable only (stdlib atan)',
    'Spec.spec_table (the boolean reading of the textbook definitions that holds_b evaluates '
    'over Q; sqrt-free formulations such as r >= 0 /\\ r*r = v.v for r = |v|)',
]
ASSUMPTIONS = [
    'exact real arithmetic (binary64 rounding not modelled): PARTIAL with respect to floats',
    'truediv: divisors non-zero; orthogonal_projection: left<>right, bottom<>top, near<>far; '
    'limit: max >= 0; from_magnitude of the zero vector is left open',
    'Mat4.rotate / from_rotation: axis entries in [-1, 1] (the assert of the code); '
    'perspective_projection: non-degenerate frustum, near <> 0, tan(fov/2) <> 0; look_at: '
    'target <> position, up not parallel to the direction; Mat3.scale: factors <> 0',
    'not covered: __repr__; Mat4.look_at_direction (it calls Vec3.cross_product, which does '
    'not exist: every call raises AttributeError - outside the statement of C18, reported '
    'to the integrator)',
]

MATH_DIR = os.path.join(core.COQ, 'theories', 'Math')
GEN_FILE = os.path.join(MATH_DIR, 'MathGen.v')
_STATE = {'refused': [], 'dev_log': '', 'lock': None}

WEIGHT = {'Mat4.__matmul__/m': 4, 'Mat3.__matmul__/m': 3, 'Mat4.__matmul__/v': 3,
          'Mat3.__matmul__/v': 2, 'Mat4.__invert__': 6, 'Vec3.cross': 3, 'Mat4.transpose': 2,
          'Vec2.lerp': 2, 'Vec3.lerp': 2, 'Vec4.lerp': 2, 'Vec2.limit': 3, 'Vec3.limit': 3,
          'Mat4.translate': 2, 'Mat4.orthogonal_projection': 2, 'Mat4.rotate': 4,
          'Mat4.look_at': 4, 'Mat4.perspective_projection': 3, 'Mat4.from_rotation': 2,
          'Vec2.rotate': 2, 'Mat4.scale': 2}


# --------------------------------------------------------------- contract
def _oracle():
    from harness import math_oracle
    return math_oracle


def gen(rng, tier):
    mo = _oracle()
    n = {'quick': 560, 'thorough': 5600, 'search': 300}[tier]
    keys = [k for k in mo.EXACT_KEYS for _ in range(WEIGHT.get(k, 1))]
    cases = []
    # every method at least twice, then weighted
    order = list(mo.EXACT_KEYS) * 2
    while len(order) < n:
        order.append(rng.choice(keys))
    for key in order[:max(n, 2 * len(mo.EXACT_KEYS))]:
        cases.append(mo.gen_case(key, rng))
    return cases


def run(case):
    mo = _oracle()
    xs = [mo.dec(p) for p in case['args']]
    return mo.observe(case['m'], xs, bool(case.get('shim')))


def _q(p):
    if p[0] in ('a', 'd'):              # angle tokens (Math/QInst.v)
        return '(%s %s %d)' % ('ang' if p[0] == 'a' else 'deg', core.z(int(p[1])), int(p[2]))
    n, d = int(p[0]), int(p[1])
    return '(q %s %d)' % (core.z(n), d)


def encode(case, trace):
    outs = trace.get('out') if isinstance(trace, dict) else None
    if outs is None:                       # exception / hang / crash: rejected by the model
        outs, warn = [], False
    else:
        warn = bool(trace.get('warn'))
    return '{| c_meth := "%s"%%string; c_in := %s; c_out := %s; c_warn := %s |}' % (
        case['m'], lst([_q(p) for p in case['args']]), lst([_q(p) for p in outs]), b(warn))


def nontrivial(case, trace):
    vals = {tuple(p) for p in case['args'] if p[-2] != 0}
    outs = trace.get('out') or []
    return len(vals) >= 2 and any(p[-2] != 0 for p in outs)


def key(case, trace):
    return json.dumps([case['m'], case['args'], bool(case.get('shim'))])


def stats(cases, traces):
    per, sing, lim, exc = {}, 0, {'short': 0, 'boundary': 0, 'long': 0}, 0
    for c, t in zip(cases, traces):
        per[c['m']] = per.get(c['m'], 0) + 1
        if 'exc' in t or 'out' not in t:
            exc += 1
            continue
        if c['m'] == 'Mat4.__invert__' and t.get('warn'):
            sing += 1
        if c['m'] in ('Vec2.limit', 'Vec3.limit'):
            xs = [Fraction(p[0], p[1]) for p in c['args']]
            s, m = sum(x * x for x in xs[:-1]), xs[-1]
            lim['short' if s < m * m else ('boundary' if s == m * m else 'long')] += 1
    shim = sum(1 for c in cases if c.get('shim'))
    return dict(methods=len(per), runs_with_scripted_math=shim,
                cases_per_method_min=min(per.values()),
                cases_per_method_max=max(per.values()), singular_inverse_cases=sing,
                limit_cases=lim, raised=exc, per_method=per)


def _in_domain(case):
    mo = _oracle()
    return mo.in_domain(case['m'], [mo.dec(p) for p in case['args']], bool(case.get('shim')))


def shrink(case):
    """simpler entries, staying inside the domain on which the real code
    computes exactly (otherwise rounding, not the code, would be reported)"""
    args = case['args']
    for i, p in enumerate(args):
        tag, (n, d) = p[:-2], p[-2:]
        for cand in ([0, 1], [1, 1], [-1, 1], [n // d if d else 0, 1], [n, 1]):
            cand = tag + cand
            if cand != p:
                c = dict(case)
                c['args'] = args[:i] + [cand] + args[i + 1:]
                if _in_domain(c):
                    yield c


def mutate(case, rng):
    args = case['args']
    if not args:
        return
    for _ in range(200):
        i = rng.randrange(len(args))
        c = dict(case)
        c['args'] = args[:i] + [args[i][:-2] + [rng.randint(-9, 9), rng.choice((1, 2, 4))]] \
            + args[i + 1:]
        if _in_domain(c):
            yield c


# --------------------------------------------------------------- the build
def _files():
    out = []
    for ln in open(os.path.join(MATH_DIR, 'FILES')):
        ln = ln.strip()
        if ln and not ln.startswith('#'):
            out.append(ln)
    return out


def _products():
    pats = [os.path.join(MATH_DIR, '*' + e) for e in ('.vo', '.vos', '.vok', '.glob')]
    pats += [os.path.join(MATH_DIR, '.*.aux'),
             os.path.join(core.COQ, 'theories', 'Props', 'C18.vo*'),
             os.path.join(core.COQ, 'theories', 'Props', 'C18.glob'),
             os.path.join(core.COQ, 'theories', 'Props', '.C18.aux')]
    return [p for pat in pats for p in glob.glob(pat)]


def _backup_for_scratch_run():
    """A run against a scratch copy of the repository must not leave a
    modified MathGen.v (or objects compiled from it) behind."""
    d = tempfile.mkdtemp(prefix='c18_backup_')
    saved = []
    for p in [GEN_FILE] + _products():
        if os.path.exists(p):
            q = os.path.join(d, str(len(saved)))
            shutil.copy2(p, q)
            saved.append((q, p))

    def restore():
        for p in _products():
            try:
                os.remove(p)
            except OSError:
                pass
        for q, p in saved:
            shutil.copy2(q, p)
        shutil.rmtree(d, ignore_errors=True)
    atexit.register(restore)


def prebuild(tier, seed):
    os.makedirs(os.path.join(core.COQ, 'gen'), exist_ok=True)
    lk = open(os.path.join(core.COQ, 'gen', '.c18.lock'), 'w')
    fcntl.flock(lk, fcntl.LOCK_EX)          # held until the process exits
    _STATE['lock'] = lk
    src = os.path.join(core.REPO, 'desper', 'math.py')
    text, info = pymath2coq.translate(src)
    _STATE['refused'] = info['refused']
    old = open(GEN_FILE).read() if os.path.exists(GEN_FILE) else None
    changed = old != text
    if changed and os.path.realpath(core.REPO) != os.path.realpath('/repo'):
        _backup_for_scratch_run()
    if changed:
        pymath2coq.write_if_changed(GEN_FILE, text)
    info = dict(translator='harness/pymath2coq.py', source=src, math_py_sha256=info['sha256'],
                methods_translated=info['translated'], methods_refused=info['refused'],
                definitions=info['definitions'], generated_text_changed=changed,
                generated_sha256=info['text_sha256'])
    if PROPS_FILE not in open(os.path.join(core.COQ, '_CoqProject')).read():
        info['dev_build'] = _dev_build()
    return info


def _deps(path):
    txt = core.strip_comments(open(os.path.join(core.COQ, path)).read())
    out = set()
    for m in re.finditer(r'From Desper Require Import([^.]*(?:\.[A-Za-z][^.]*)*)\.', txt):
        for w in m.group(1).split():
            out.add('theories/' + w.replace('.', '/') + '.v')
    return out


def _dev_build():
    """Only while Props/C18.v is not yet in _CoqProject (core skips make then):
    recompile what is out of date, in the order of Math/FILES."""
    files = _files()
    vo = lambda f: os.path.join(core.COQ, f[:-2] + '.vo')
    mt = lambda p: os.path.getmtime(p) if os.path.exists(p) else 0
    level, stale = {}, set()
    for f in files:
        ds = [d for d in _deps(f) if d in level]
        level[f] = 1 + max([level[d] for d in ds] or [0])
        src = os.path.join(core.COQ, f)
        if (mt(vo(f)) < mt(src) or any(d in stale for d in ds)
                or any(mt(vo(d)) > mt(vo(f)) for d in ds)):
            stale.add(f)
    log, failed = [], set()
    for lv in sorted(set(level.values())):
        todo = [f for f in files if level[f] == lv and f in stale]
        todo = [f for f in todo if not (_deps(f) & failed)]

        def one(f):
            if os.path.exists(vo(f)):
                os.remove(vo(f))
            try:
                rc, out, err = core.coqc(os.path.join(core.COQ, f), timeout=900)
            except subprocess.TimeoutExpired:
                rc, out, err = 1, '', 'File "./%s": timeout' % f
            return f, rc, (err or out)
        with ThreadPoolExecutor(4) as ex:
            for f, rc, msg in ex.map(one, todo):
                if rc != 0:
                    failed.add(f)
                    log.append(msg.replace(core.COQ, '.'))
    for f in files:                          # nothing may depend on a failed file
        if f in stale and (f in failed or (_deps(f) & failed)):
            failed.add(f)
            if os.path.exists(vo(f)):
                os.remove(vo(f))
    _STATE['dev_log'] = '\n'.join(log)
    return dict(recompiled=sorted(stale), failed=sorted(failed))


# ----------------------------------------------------- a broken obligation
def _failing_obligation(log):
    """name the first lemma / file that no longer checks"""
    if _STATE['refused']:
        k, why = _STATE['refused'][0]
        return 'translator refused %s: %s' % (k, why), [k]
    text = (_STATE['dev_log'] + '\n' + (log or ''))
    m = re.search(r'File "([^"]*theories/(?:Math|Props)/(\w+)\.v)", line (\d+)', text)
    if not m:
        return 'Coq build of the C18 development failed', []
    path, fn, line = m.group(1), m.group(2), int(m.group(3))
    full = os.path.join(core.COQ, 'theories', 'Math' if '/Math/' in path else 'Props', fn + '.v')
    name = None
    try:
        for i, ln in enumerate(open(full), 1):
            if i > line:
                break
            mm = re.match(r'\s*(?:Lemma|Theorem|Definition|Example)\s+([\w\']+)', ln)
            if mm:
                name = mm.group(1)
    except OSError:
        pass
    keys = []
    if name:
        mo = _oracle()
        for k in mo.SHAPES:
            cn = pymath2coq.coq_name(k)
            if name.startswith(cn + '_') or name == cn:
                keys.append(k)
        # Mat4_invert_right -> Mat4.__invert__ etc.
        stem = '_'.join(name.split('_')[:2])
        keys += [k for k in mo.SHAPES if pymath2coq.coq_name(k).startswith(stem)
                 and k not in keys]
    return '%s (theories/%s/%s.v, line %d)' % (name or fn, 'Math' if '/Math/' in path
                                                else 'Props', fn, line), keys


def _run_oracle(args, timeout):
    env = dict(os.environ)
    env.update(PYTHONPATH=core.REPO + os.pathsep + core.ROOT, PYTHONDONTWRITEBYTECODE='1')
    r = subprocess.run([core.PY, '-m', 'harness.math_oracle'] + [str(a) for a in args],
                       capture_output=True, text=True, env=env, cwd=core.ROOT, timeout=timeout)
    if r.returncode != 0:
        raise core.Internal('math_oracle %s failed: %s' % (args[0], r.stderr[-1500:]))
    return json.loads(r.stdout.strip().split('\n')[-1])


def on_proof_failure(log, rng, tier, seed):
    failing, keys = _failing_obligation(log)
    n = 40 if tier == 'quick' else 400
    sd = rng.randrange(1 << 30)
    res = {'tried': 0, 'case': None}
    try:
        if keys:                              # first the methods the lemma is about
            res = _run_oracle(['search', sd, n * 5] + keys, 600)
        if res.get('case') is None:
            more = _run_oracle(['search', sd + 1, n], 900)
            more['tried'] += res.get('tried', 0)
            res = more
    except (core.Internal, subprocess.TimeoutExpired) as ex:
        # the module may not even import: that is a finding about the source too
        return dict(failing=failing + ' [search could not run: %s]' % str(ex)[-300:],
                    case=None, trace=None, tried=res.get('tried', 0))
    return dict(failing=failing, case=res.get('case'), trace=res.get('trace'),
                tried=res.get('tried', 0))


def replay_obligation(data):
    """`./check replay` of a file that names a failed obligation: run the
    recorded input (if one was found) on the current tree against the
    Python oracle"""
    print('failing obligation: %s' % data.get('failing'))
    case = data.get('case')
    if not case:
        return 1
    res = _run_oracle(['replay', json.dumps(case)], 120)
    print(json.dumps(res)[:2000])
    if not res['ok']:
        print('VIOLATION property=%s replay=(this file): the result is not the textbook one' % ID)
        return 1
    return 0


# ------------------------------------------------------------ extra checks
def _write_replay(kind, failing, payload):
    import hashlib
    d = os.path.join(core.ROOT, 'replays')
    os.makedirs(d, exist_ok=True)
    h = hashlib.sha1(json.dumps(payload, sort_keys=True, default=str).encode()).hexdigest()[:10]
    path = os.path.join(d, '%s-%s-%s.json' % (ID, kind, h))
    json.dump(dict(property=ID, case=None, kind=kind, failing=failing, detail=payload,
                   found_input=True), open(path, 'w'), indent=1)
    return path


def extra_checks(sess, rng, tier, seed):
    lines, cov = [], {}
    # 1. swizzling: exhaustive, evaluated inside Coq
    obs = _run_oracle(['swizzle'], 300)
    os.makedirs(sess.workdir, exist_ok=True)
    path = os.path.join(sess.workdir, 'Swz_%d.v' % os.getpid())
    classes = (('Vec2', 'xy'), ('Vec3', 'xyz'), ('Vec4', 'xyzw'))
    with open(path, 'w') as f:
        f.write('From Coq Require Import NArith List String Ascii.\nImport ListNotations.\n'
                'Require Import Desper.Math.Swizzle.\nOpen Scope N_scope.\n')
        for c, letters in classes:
            f.write('Definition o%s : list N := %s.\n' % (c, lst([str(x) for x in obs[c]])))
        f.write('Eval vm_compute in (%s).\n' % ', '.join(
            '(swizzle_check "%s"%%string "q"%%char o%s, swizzle_mismatches "%s"%%string '
            '"q"%%char o%s)' % (l, c, l, c) for c, l in classes))
    rc, out, err = core.coqc(path)
    if rc != 0:
        raise core.Internal('swizzle comparison does not compile: %s' % (err or out)[-1500:])
    body = out[out.index('='):] if '=' in out else out
    oks = re.findall(r'\((true|false),\s*\[([^\]]*)\]', body)
    if len(oks) != 3:
        raise core.Internal('cannot parse swizzle result: %s' % out[-600:])
    import itertools
    total = 0
    for (c, letters), (ok, mism) in zip(classes, oks):
        total += len(obs[c])
        if ok != 'true':
            alpha = letters + 'q'
            strings = [''.join(t) for L in range(6) for t in itertools.product(alpha, repeat=L)]
            idx = [int(x.replace('%nat', '')) for x in mism.split(';') if x.strip()]
            bad = [dict(attr=strings[i], observed=obs[c][i]) for i in idx if i < len(strings)]
            p = _write_replay('swizzle', 'Math/Swizzle.v: the model of __getattr__ differs '
                              'from %s on attribute %r' % (c, bad[0]['attr'] if bad else '?'),
                              dict(cls=c, mismatches=bad))
            lines.append('VIOLATION property=%s replay=%s' % (ID, p))
    cov['swizzle'] = dict(exhaustive=True, strings_compared=total,
                          domain='all strings of length <= 5 over the component letters of the '
                                 'class plus the foreign character q, for Vec2, Vec3, Vec4',
                          evaluated_by='vm_compute of Swizzle.swizzle_check')
    for ext in ('.v', '.vo', '.vok', '.vos', '.glob'):
        if os.path.exists(path[:-2] + ext):
            os.remove(path[:-2] + ext)
    # 2. floats: a TEST (not a proof) of the operations with sqrt and angles
    n = 300 if tier == 'quick' else 5000
    fl = _run_oracle(['floats', rng.randrange(1 << 30), n], 900)
    cov['float_tests'] = dict(
        kind='TEST, not proof: random binary64 inputs in [-1e3, 1e3], the defining identity of '
             'each sqrt/trig operation up to relative tolerance 1e-9',
        per_method=fl['tested'], failures=len(fl['failures']))
    for fcase in fl['failures'][:3]:
        p = _write_replay('float-test', 'float test of %s (relative tolerance 1e-9)'
                          % fcase['m'], fcase)
        lines.append('VIOLATION property=%s replay=%s float-test' % (ID, p))
    return dict(lines=lines, coverage=cov)
