"""C01 - the queries of a World always agree on who owns which component."""
from harness import worldq_common as wq
from harness.worldq_common import (COQ_MODULE, CASE_TIMEOUT, TRUSTED, ASSUMPTIONS,   # noqa: F401
                                   run, encode, stats, mutate, shrink)

ID = 'C01'
CASE_TYPE = 'C01_case'
VERDICT = 'C01_verdict'
PROPS_FILE = 'theories/Props/C01.v'
THEOREM = 'C01_world_queries_agree'
RULE = ('random histories of 0-25 World operations (create_entity automatic / explicit id, '
        'add_component incl. replacement, remove_component by exact / ancestor / unrelated '
        'type, delete_entity immediate / deferred, process, clear, dispatch_enabled, '
        'add_processor / remove_processor) over 2-6 component classes forming a random DAG '
        '(diamond or two-base class forced in 30 %), 1-6 entity ids (ints overlapping the '
        'automatic range 1.., strings, tuples); explicit ids equal to a future automatic id in '
        '15 % of the creates; an operation outside the input domain at that point of the '
        'observed history is not executed; after every operation 6 seeded random queries out '
        'of the full snapshot (get / get_processor per class, entities, and per id of the '
        'pool plus two unused ids get_components, entity_exists, has_component and '
        'get_component per class), after the last one (thorough: after every one when <= 8 '
        'operations) the full snapshot; distinct = different (case, trace); non-trivial = '
        'at least 3 executed state-changing operations')

PARAMS = dict(
    counts={'quick': 400, 'thorough': 4000, 'search': 300},
    ncls=(2, 6), npool=(1, 6), pool_cap=8, nops=(0, 25), full_max_ops=8,
    p_force=0.30,               # diamond / two-base class embedded
    kind_w=[40, 20, 15, 15, 10],
    w=dict(create=22, add=25, remove=15, delete=13, process=8, clear=4, enable=8, probe=4,
           addproc=4, rmproc=3),
    p_auto=0.5, p_future=0.30, create_sizes=[5, 50, 30, 15],
    p_replace=0.35, p_sibs=0.3, rm_modes=[45, 35, 20],
    p_after_future=0.85,
    p_follow=0.6, p_last=0.08,
)


def gen(rng, tier):
    return wq.gen_cases(rng, tier, PARAMS)


nontrivial = wq.nontrivial01
