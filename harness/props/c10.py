"""C10 - handlers are held weakly and never called after they are gone."""
from harness import events_common as ec

ID = 'C10'
COQ_MODULE = 'Desper.Events.Spec'
CASE_TYPE = 'C10_case'
VERDICT = 'C10_verdict'
PROPS_FILE = 'theories/Props/C10.v'
THEOREM = 'C10_no_dead_receiver'
CASE_TIMEOUT = 1
RULE = ('in 35 % of the cases the handler classes make their instances falsy (__bool__ False or '
        '__len__ 0; identity and default equality untouched); '
        'as C10\'s sibling C04 (blocks of disable / dispatches / enable over scripted handlers) plus '
        'Drop actions at top level and inside callbacks, i.e. between two callbacks of one '
        'dispatch or release: the only strong reference to a handler is a harness variable, a '
        'component slot of a separate World, or - in the half of the cases whose dispatcher is a '
        'real desper.World (self-registration and on_single_dispatch relay in its tables) - a '
        'component slot of that World, dropped by world.remove_component, delete_entity(e, '
        'immediate=True) or delete_entity(e) followed by process(), all issued from top level '
        'and from inside callbacks; in 70 % of the World cases 1-4 Controller-like components '
        '(their class maps on_add) are created / added while dispatching is disabled, then '
        'removed, replaced or deleted and dropped before it is re-enabled, so that the '
        'postponed on_add relay is their only holder until it is delivered; 13 argument '
        'shapes incl. keyword-only calls (token by keyword) and None/0/\'\'/tuple values; '
        'after each drop a weak reference '
        'tells whether the object really died; receivers are logged by identity, None as -1; '
        'worker processes run under different PYTHONHASHSEEDs and the set order actually taken '
        'is the order of the ECall entries; non-trivial = a handler freed inside a callback and '
        'at least two callbacks')
TRUSTED = [
    'Coq 8.16.1 kernel + vm_compute (evaluation of C10_verdict on the observed logs)',
    'hand-written model Events/Model.v tied to /repo by this correspondence run (sampled)',
    'harness doubles: handler classes built with type() and desper.event_handler, whose '
    'methods log (receiver, method, token, argument shape) and run their script',
    'the harness attributes callbacks to dispatches by the token passed as first argument',
]
ASSUMPTIONS = ['CPython reference counting: an object without cycles dies, and its weak reference '
               'callbacks run, as soon as the last strong reference goes (assumed, observed by the '
               'harness through a weak reference after every drop)',
               'a Drop of a handler that is a receiver on the call stack is a no-op of the harness '
               '(the interpreter keeps such an object alive until its frame ends)',
               'nothing below the top level catches exceptions; identity equality of handlers']
MODE = 10


def gen(rng, tier):
    n = {'quick': 400, 'thorough': 4000, 'search': 300}[tier]
    return ec.gen_cases(rng, MODE, n)


run = ec.run
encode = ec.encode
shrink = ec.shrink
mutate = ec.mutate
stats = ec.stats


def nontrivial(case, trace):
    ctx = trace.get('ctx', {})
    inside = sum(v for k, v in ctx.items() if k.startswith('drop_in_'))
    calls = sum(1 for e in trace.get('log', []) if e[0] == 'call')
    return inside >= 1 and calls >= 2
