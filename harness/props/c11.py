"""C11 - resource paths, shadowing and back-links stay consistent."""
from harness.core import z, lst
from harness import tree_common as tc

ID = 'C11'
COQ_MODULE = 'Desper.Tree.C11Keys'
CASE_TYPE = 'C11_rcase'
VERDICT = 'C11_rverdict'
PROPS_FILE = 'theories/Props/C11.v'
THEOREM = 'C11_tree_consistent_keys'
RULE = ('2-12 operations (m[key]=value 65%, handles.maps.insert(0,{}) as the populator does, '
        'clear) on 1-3 root ResourceMaps and on sub-maps reached through them; keys of depth '
        '1-4 over the alphabet a,b,c,d and the empty part, half of them re-using / extending / '
        'cutting an earlier key; values are new handles, new maps, maps populated beforehand '
        '(also with 2-3 handle layers); every object is inserted at most once; after every '
        'operation the attributes (parent, key, maps, every handle layer) of every known '
        'object are dumped and 3-5 queries m[p], m[p1][p2].., get(p,D), get(p,D)(), get(p) '
        'are asked; in 70% of the cases the maps created by the harness have their own '
        'split_char (a ResourceMap subclass, or an instance attribute, with ".", ":" or "|"), '
        'keys are composed with the split_char of the map the operation is called on (maps '
        'created implicitly are plain ResourceMaps: "/"), 8% of the key parts are empty '
        '("a//b", leading / trailing separator); non-trivial = at least 3 assignments, one with a composed key')
TRUSTED = [
    'Coq 8.16.1 kernel + vm_compute (evaluation of C11_verdict on the observed traces)',
    'hand-written model Tree/C11Model.v tied to /repo by this correspondence run '
    '(sampled, not exhaustive)',
    'harness: numbering of objects in order of first appearance, structural dump through '
    'the public attributes parent/key/maps/handles.maps, handle double whose load() '
    'returns a token naming its handle',
    'CPython dict / collections.ChainMap / str.split semantics',
]
ASSUMPTIONS = ['a resource object (handle or map) is inserted at most once; values are '
               'objects created by the caller']

KINDS = ['QItem', 'QChain', 'QGet', 'QGetCall', 'QGetNone']
SEPCHARS = ['.', ':', '|']
SEPCODE = {'/': -1, '.': -2, ':': -3, '|': -4}


# ------------------------------------------------------------------ generator
def rand_key(rng, depth=None):
    d = depth or rng.choice([1, 1, 2, 2, 3, 3, 4])
    return [4 if rng.random() < 0.08 else rng.randrange(4 if rng.random() < 0.3 else 3)
            for _ in range(d)]


def gen_case(rng, nops):
    nroots = rng.randint(1, 3)
    nm = nroots           # maps created by the harness; grows when a map value is needed
    nh = 0
    container = {}        # map index -> index of the map object it was inserted through
    inserted = set()
    keys = {}             # harness map index -> keys assigned through it
    hkeys = {}            # ... keys under which a handle was stored
    ops = []

    def chain(i):
        out = [i]
        while out[-1] in container:
            out.append(container[out[-1]])
        return out

    def pick_target():
        cands = list(range(nm))
        i = rng.choice(cands[:nroots] if rng.random() < 0.75 else cands)
        ks = keys.get(i, [])
        if ks and rng.random() < 0.2:
            k = rng.choice(ks)
            cut = rng.randint(1, len(k))
            return ['p', i, k[:cut]]
        return ['o', i]

    def pick_key(i):
        ks = keys.get(i, [])
        r = rng.random()
        if ks and r < 0.35:
            return list(rng.choice(ks))
        if ks and r < 0.5:
            k = rng.choice(ks)
            return k[:rng.randint(1, len(k))]
        if ks and r < 0.65:
            return (list(rng.choice(ks)) + rand_key(rng, rng.randint(1, 2)))[:4]
        return rand_key(rng)

    def queries(t, key):
        qs = []
        for _ in range(rng.randint(3, 5)):
            r = rng.random()
            tt = t if r < 0.6 else pick_target()
            if tt[0] == 'p' and rng.random() < 0.5:
                tt = ['o', tt[1]]
            base = key if (key and rng.random() < 0.55) else pick_key(tt[1])
            if t[0] == 'p' and tt[0] == 'o' and tt[1] == t[1] and rng.random() < 0.6:
                base = (t[2] + base)[:5]
            r = rng.random()
            if r < 0.2 and len(base) > 1:
                base = base[:rng.randint(1, len(base) - 1)]
            elif r < 0.35:
                base = base + rand_key(rng, 1)
            qs.append([tt, rng.choice(KINDS), base])
        return qs

    def remember(t, key, is_handle):
        i = t[1]
        full = (t[2] if t[0] == 'p' else []) + key
        keys.setdefault(i, []).append(full)
        if is_handle:
            hkeys.setdefault(i, []).append(full)

    while len(ops) < nops:
        r = rng.random()
        t = pick_target()
        i = t[1]
        if r < 0.10:
            ops.append({'o': 'clear', 't': t, 'q': queries(t, None)})
            continue
        if r < 0.20:
            ops.append({'o': 'push', 't': t, 'q': queries(t, None)})
            continue
        if r < 0.35 and hkeys.get(i):
            # the populator's conflict: new layer under the parent of an
            # existing handle, then a new handle under the same name
            full = rng.choice(hkeys[i])
            t = ['p', i, full[:-1]] if len(full) > 1 else ['o', i]
            key = [full[-1]]
            ops.append({'o': 'push', 't': t, 'q': []})
            ops.append({'o': 'set', 't': t, 'k': key, 'v': ['h', nh],
                        'q': queries(t, key)})
            nh += 1
            remember(t, key, True)
            r2 = rng.random()
            if r2 < 0.3:
                ops.append({'o': 'clear', 't': t, 'q': queries(t, key)})
            elif r2 < 0.5:
                j = nm
                nm += 1
                inserted.add(j)
                container[j] = i
                ops.append({'o': 'set', 't': t, 'k': key, 'v': ['m', j],
                            'q': queries(t, key)})
                remember(t, key, False)
            elif r2 < 0.65:
                k2 = key + rand_key(rng, 1)
                ops.append({'o': 'set', 't': t, 'k': k2, 'v': ['h', nh],
                            'q': queries(t, key)})
                nh += 1
                remember(t, k2, True)
            continue
        key = pick_key(i)
        rv = rng.random()
        if rv < 0.6:
            v = ['h', nh]
            nh += 1
        else:
            # a map: one created earlier and never inserted (possibly
            # populated, possibly layered), else a new one
            anc = set(chain(i))
            cands = [j for j in range(nm) if j not in inserted and j not in anc]
            if cands and rng.random() < 0.6:
                j = rng.choice(cands)
            else:
                j = nm
                nm += 1
            inserted.add(j)
            container[j] = i
            v = ['m', j]
        ops.append({'o': 'set', 't': t, 'k': key, 'v': v, 'q': queries(t, key)})
        remember(t, key, v[0] == 'h')
    # a few spare maps so that populated-before-insertion values exist
    seps = []
    custom = rng.random() < 0.7
    for _ in range(nm + 1):
        r = rng.random()
        if not custom or r < 0.35:
            seps.append(None)
        elif r < 0.7:
            seps.append(['sub', rng.choice(SEPCHARS)])
        else:
            seps.append(['inst', rng.choice(SEPCHARS)])
    return dict(nm=nm + 1, nh=nh, ops=ops, seps=seps)


def gen(rng, tier):
    n = {'quick': 420, 'thorough': 4500, 'search': 300}[tier]
    return [gen_case(rng, rng.randint(2, 12)) for _ in range(n)]


# --------------------------------------------------------------------- runner
def resolve(maps, t):
    cur = maps[t[1]]
    if t[0] == 'p':
        for n in t[2]:
            nxt = cur.maps.get(tc.LETTERS[n]) if tc.is_map(cur) else None
            if nxt is None or not tc.is_map(nxt):
                return maps[t[1]]
            cur = nxt
    return cur


def ask(reg, m, kind, parts):
    import desper
    key = m.split_char.join(parts)
    default = object()
    try:
        if kind == 'QItem':
            return tc.classify(reg, m[key])
        if kind == 'QChain':
            cur = m
            for p in parts:
                if not tc.is_map(cur):
                    return 'X'
                cur = cur[p]
            return tc.classify(reg, cur)
        if kind == 'QGet':
            return tc.classify(reg, m.get(key, default), default)
        if kind == 'QGetCall':
            r = m.get(key, default)
            if isinstance(r, desper.Handle):
                r = r()
            return tc.classify(reg, r, default)
        if kind == 'QGetNone':
            return tc.classify(reg, m.get(key))
    except KeyError:
        return 'K'
    except Exception:
        return 'B'
    return 'B'


def run(case):
    import desper
    Hd = tc.make_handle_class()
    names = tc.Names()
    reg = tc.Registry()
    maps = []
    seps = case.get('seps') or [None] * case['nm']
    for i in range(case['nm']):
        sp = seps[i] if i < len(seps) else None
        if sp is None:
            m = desper.ResourceMap()
        elif sp[0] == 'sub':
            m = type('Map%d' % i, (desper.ResourceMap,), {'split_char': sp[1]})()
        else:
            m = desper.ResourceMap()
            m.split_char = sp[1]
        maps.append(m)
    for i, m in enumerate(maps):
        reg.add_map(m, i)
    handles = {}
    out = []
    for o in case['ops']:
        t = resolve(maps, o['t'])
        rec = {'t': reg.mid(t)}
        rec['sep'] = t.split_char
        path = None
        try:
            if o['o'] == 'set':
                parts = [tc.LETTERS[n] for n in o['k']]
                if o['v'][0] == 'h':
                    v = Hd(o['v'][1])
                    handles[o['v'][1]] = v
                    reg.add_handle(v, o['v'][1])
                else:
                    v = maps[o['v'][1]]
                path = (t, parts[:-1])
                t[t.split_char.join(parts)] = v
            elif o['o'] == 'clear':
                t.clear()
            else:
                t.handles.maps.insert(0, {})
        except Exception as ex:
            rec['exc'] = type(ex).__name__
        if path:
            tc.discover(reg, path[0], path[1])
        else:
            tc.discover(reg)
        rec['maps'], rec['handles'] = tc.dump(reg, names)
        qs = []
        for (qt, kind, qk) in o['q']:
            qm = resolve(maps, qt)
            qs.append([reg.mid(qm), ask(reg, qm, kind, [tc.LETTERS[n] for n in qk]),
                       qm.split_char])
        rec['q'] = qs
        out.append(rec)
    return {'obs': out, 'seps': [m.split_char for m in maps]}


# -------------------------------------------------------------------- encoder
BAD = 'RCASE [] [(ROClear 0, ROBS [] [] [(RQ 0 QItem [0], RBad)])]'


def raw_key(parts, sepchar):
    """the key as the list of its characters: names (>= 0) and separators (< 0);
    the empty name (code 4) contributes no character"""
    out = []
    for i, n in enumerate(parts):
        if i:
            out.append(SEPCODE.get(sepchar, -9))
        if n != 4:
            out.append(n)
    return tc.enc_names(out)


def encode(case, trace):
    if 'obs' not in trace:
        return BAD
    items = []
    for o, ob in zip(case['ops'], trace['obs']):
        if 'exc' in ob:
            return BAD
        if o['o'] == 'set':
            v = '(%s %s)' % ('RH' if o['v'][0] == 'h' else 'RM', z(o['v'][1]))
            op = '(ROSet %s %s %s)' % (z(ob['t']), raw_key(o['k'], ob['sep']), v)
        elif o['o'] == 'clear':
            op = '(ROClear %s)' % z(ob['t'])
        else:
            op = '(ROPush %s)' % z(ob['t'])
        qs = []
        for (qt, kind, qk), (qm, res, qsep) in zip(o['q'], ob['q']):
            qs.append('(RQ %s %s %s, %s)' % (z(qm), kind, raw_key(qk, qsep), tc.enc_qres(res)))
        items.append('(%s, ROBS %s %s %s)' % (
            op, lst([tc.enc_mrec(r) for r in ob['maps']]),
            lst([tc.enc_hrec(r) for r in ob['handles']]), lst(qs)))
    seps = lst(['(%s,%s)' % (z(i), z(SEPCODE.get(ch, -9))) for i, ch in enumerate(trace['seps'])])
    return 'RCASE %s %s' % (seps, lst(items))


def nontrivial(case, trace):
    sets = [o for o in case['ops'] if o['o'] == 'set']
    return len(sets) >= 3 and any(len(o['k']) > 1 for o in sets)


def stats(cases, traces):
    d = dict(ops=0, set_handle=0, set_map=0, clear=0, push=0, composed_keys=0,
             path_targets=0, queries=0, implicit_maps=0, layered_states=0,
             keyerror_answers=0, found_answers=0, maps_with_own_split_char=0,
             ops_on_custom_separator=0, empty_key_parts=0)
    for c, t in zip(cases, traces):
        d['maps_with_own_split_char'] += sum(1 for x in (c.get('seps') or []) if x)
        for o in c['ops']:
            d['ops'] += 1
            d['empty_key_parts'] += sum(1 for n in o.get('k', []) if n == 4)
            if o['o'] == 'set':
                d['set_handle' if o['v'][0] == 'h' else 'set_map'] += 1
                d['composed_keys'] += len(o['k']) > 1
            else:
                d[o['o']] += 1
            d['path_targets'] += o['t'][0] == 'p'
            d['queries'] += len(o['q'])
        if 'obs' in t and t['obs']:
            last = t['obs'][-1]
            d['implicit_maps'] += sum(1 for r in last['maps'] if r[0] < 0)
            for ob in t['obs']:
                d['ops_on_custom_separator'] += ob.get('sep', '/') != '/'
                d['layered_states'] += any(
                    sum(1 for l in r[4] if l) > 1 for r in ob['maps'])
                for _, res, _s in ob['q']:
                    if res in ('K', 'D', 'N'):
                        d['keyerror_answers'] += 1
                    elif isinstance(res, list):
                        d['found_answers'] += 1
    return d


def shrink(case):
    """drop operations (tail first), then queries"""
    ops = case['ops']
    n = len(ops)
    for k in range(1, n):
        yield dict(case, ops=ops[:k])
    for i in range(n):
        yield dict(case, ops=ops[:i] + ops[i + 1:])
    for i in range(n):
        if ops[i]['q']:
            yield dict(case, ops=ops[:i] + [dict(ops[i], q=[])] + ops[i + 1:])
    for i in range(n):
        for j in range(len(ops[i]['q'])):
            q = ops[i]['q']
            yield dict(case, ops=ops[:i] + [dict(ops[i], q=q[:j] + q[j + 1:])] + ops[i + 1:])
