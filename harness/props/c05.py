"""C05 - deferred entity deletion is applied at the next process(), safely."""
from harness import worldl_common as W

ID = 'C05'
COQ_MODULE = 'Desper.World.LC05'
CASE_TYPE = 'C05_case'
VERDICT = 'C05_verdict'
PROPS_FILE = 'theories/Props/C05.v'
THEOREM = 'C05_deferred_delete'
RULE = ('random World histories (1-25 ops) over 2-5 unrelated component classes of 8 kinds '
        '(no __events__ / every non-empty subset of on_add, on_remove, probe), 3-10 instances, '
        'entity ids from a pool of 6 (ints overlapping the automatic ids, a string, a tuple) '
        'plus never-used ids; ops create (auto/explicit) / add_component (45 % replacements) / '
        'remove_component / delete_entity (30 % immediate, 8 % error path on ids that may '
        'never have existed) / process / clear / dispatch_enabled toggles / probe dispatch / '
        'add_processor; after a deferred delete the following ops aim at the same entity '
        'with probability 0.6; one logging processor; after every op 6 sampled queries '
        '(entity_exists, entities, get_components, is_handler), full snapshot after the last; '
        'non-trivial = at least 3 state-changing ops and one callback')
TRUSTED = [
    'Coq 8.16.1 kernel + vm_compute (evaluation of C05_verdict on the observed traces)',
    'hand-written model World/LModel.v tied to /repo by this correspondence run '
    '(sampled, not exhaustive; exact component types only, callbacks that only log)',
    'harness doubles (logging components and processor), object <-> number bijection',
    'CPython dict / set semantics',
]
ASSUMPTIONS = ['component callbacks and processors do not call back into the world '
               '(re-entrancy is covered by C03/C04)',
               'exact component types (subtype walks are C06)']

gen = W.gen
run = W.run
encode = W.encode
nontrivial = W.nontrivial
stats = W.stats
mutate = W.mutate
