"""C05 - deferred entity deletion is applied at the next process(), safely.

Two streams of cases: the atomic stream of harness/worldl_common.py (callbacks
that only log; also the format of the corpus) and the re-entrant stream of
harness/worldlr_common.py (on_add / on_remove run scripts of World
operations).  A case of the second stream carries the key 'scr'."""
from harness import worldl_common as W
from harness import worldlr_common as R

ID = 'C05'
COQ_MODULE = 'Desper.World.LR05'
CASE_TYPE = 'C05x_case'
VERDICT = 'C05x_verdict'
PROPS_FILE = 'theories/Props/C05.v'
THEOREM = 'C05_deferred_delete'
RULE = ('stream A (half): random World histories (1-25 ops) over 2-5 unrelated component classes '
        'of 8 kinds (no __events__ / every non-empty subset of on_add, on_remove, probe), 3-10 '
        'instances, entity ids from a pool of 6 (ints overlapping the automatic ids, a string, a '
        'tuple) plus never-used ids; ops create / add_component (45 % replacements) / '
        'remove_component / delete_entity (30 % immediate, 8 % error path) / process / clear / '
        'dispatch_enabled toggles / probe / add_processor; after a deferred delete the next ops '
        'aim at the same entity with probability 0.6. '
        'Stream B (half): re-entrant callbacks - every class declares on_remove (40 % also '
        'on_add) and its callbacks run scripts of 0-2 World operations (delete_entity immediate '
        '40 % / deferred, remove_component, add_component, create_entity) on a pool of 4 entities, '
        'nested callbacks run their scripts down to depth 3 and for the first 40 callbacks of an '
        'operation; 2-14 top-level ops incl. process (16 %) and toggles; 40 % of stream B is '
        'focused: 2-4 entities created, most of them marked, on_remove scripts that delete / '
        'strip / re-mark the other marked entities, then process (30 % of those with the frame '
        'run while disabled and the notifications released afterwards). The log records every '
        'scripted action before it is performed, its outcome, callback entry/exit and processor '
        'calls. One logging processor; after every op 6 sampled queries, full snapshot after the '
        'last. Non-trivial = (A) >= 3 state-changing ops and one callback, (B) >= 1 scripted action')
TRUSTED = [
    'Coq 8.16.1 kernel + vm_compute (evaluation of C05x_verdict on the observed traces)',
    'hand-written models World/LModel.v (atomic operations) and World/LRModel.v (stack machine '
    'for re-entrant callbacks) tied to /repo by this correspondence run (sampled, not '
    'exhaustive; exact component types only)',
    'harness doubles (logging / scripted components, processor), object <-> number bijection',
    'CPython dict / set semantics',
]
ASSUMPTIONS = ['exact component types (subtype walks are C06)',
               'stream B: no clear() / probe; every class declares on_remove (so that the set '
               'order in which process() drains the marks is visible in the log); scripted '
               'callbacks catch the exception of a scripted action; scripts stop running below '
               'callback depth 3 / after 40 callbacks per operation (a script that re-creates and '
               're-marks its own entity would otherwise keep process() draining for ever)']
CASE_TIMEOUT = 8


def gen(rng, tier):
    n = {'quick': 350, 'thorough': 3500, 'search': 150}[tier]
    return [W.gen_case(rng) for _ in range(n)] + R.gen_r(rng, n)


run = R.run
encode = R.encode


def nontrivial(case, trace):
    return R.nontrivial_r(case, trace) if 'scr' in case else W.nontrivial(case, trace)


def stats(cases, traces):
    a = [(c, t) for c, t in zip(cases, traces) if 'scr' not in c]
    bb = [(c, t) for c, t in zip(cases, traces) if 'scr' in c]
    return dict(atomic=W.stats([c for c, _ in a], [t for _, t in a]),
                reentrant=R.stats_r([c for c, _ in bb], [t for _, t in bb]))


def mutate(case, rng):
    if 'scr' in case:
        for _ in range(100):
            c = dict(case)
            c['ops'] = list(case['ops'])
            k = rng.randrange(len(c['ops']) + 1)
            c['ops'].insert(k, rng.choice([['process'], ['delete', rng.choice(R.RPOOL), False],
                                           ['delete', rng.choice(R.RPOOL), True]]))
            yield c
    else:
        yield from W.mutate(case, rng)
