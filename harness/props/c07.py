"""C07 - processors run once per frame in priority order, one per exact type."""
from harness.core import z, b, lst, opt

ID = 'C07'
COQ_MODULE = 'Desper.Logic.C07Model'
CASE_TYPE = 'C07_case'
VERDICT = 'C07_verdict'
PROPS_FILE = 'theories/Props/C07.v'
THEOREM = 'C07_processors'
RULE = ('random top-level sequences (1-28 ops) of add_processor / remove_processor / '
        'get_processor / process(dt) / dispatch_enabled toggles on one World, over 2-7 processor '
        'classes forming a random DAG under a fresh root (diamonds and multi-base classes '
        'included), 1-9 processor instances (several per class, so replacements are frequent), '
        'priorities from {-2..2} given as class attribute (own or inherited), instance attribute '
        'or explicit argument (0 and negatives included, ties likely), in half of the cases 1-3 '
        'processor bodies run scripts of 1-3 add_processor / remove_processor / get_processor '
        'actions on their world during every frame, handler kinds '
        'none / on_add / on_remove / both / unrelated event with renamed callbacks, ~30% of the '
        'classes with a hostile __eq__ (always True / always False / equal by class, identity '
        'hash) and ~30% falsy (__bool__ False / __len__ 0), every callback '
        '(on_add, on_remove, process) re-entrantly reads world.processors and get_processor of '
        'every class (read-only), dt dyadic; '
        'after every op world.processors is read; distinct = different (case, trace); '
        'non-trivial = at least 3 add/remove ops and a process() that ran >= 2 processors')
TRUSTED = [
    'Coq 8.16.1 kernel + vm_compute (evaluation of C07_verdict on the observed traces)',
    'hand-written model Logic/C07Model.v + Logic/Bisect.v tied to /repo by this '
    'correspondence run (sampled, not exhaustive)',
    'harness doubles (logging Processor subclasses built with type()), object identity -> '
    'serial numbers, exception -> small enum',
    'CPython attribute lookup (p.priority at class / instance level, inherited __events__), '
    'issubclass / __subclasses__',
]
ASSUMPTIONS = [
    'processor bodies may add / remove / query processors; world.process() is not re-entered '
    'from inside a processor; on_add / on_remove callbacks only read',
    'nobody but add_processor assigns p.priority while p is registered; one World per trace',
    'World.clear() is not part of the traces (its interaction with postponed callbacks is the '
    'known finding K1 of C02)',
]

PRIOS = [-2, -1, 0, 1, 2]
DTS = [0, 1, 4, 8, 16, 24]          # eighths
DECLS = [None, None, None, ['add'], ['rm'], ['add', 'rm'], ['add', 'rm'], ['other'],
         ['add', 'other'], ['rm', 'other']]


def _mro_ok(bases_list):
    """Would Python accept this hierarchy? (pure Python, no desper needed)"""
    cls = []
    try:
        for i, bs in enumerate(bases_list):
            cls.append(type('K%d' % i, tuple(cls[j] for j in bs) or (object,), {}))
    except TypeError:
        return False
    return True


def gen_case(rng, big=False):
    while True:
        nc = rng.randint(1, 6)
        bases = [[]]                              # class 0 = the fresh root
        for i in range(1, nc + 1):
            r = rng.random()
            if r < 0.35:
                bs = [0]
            elif r < 0.75:
                bs = [rng.randrange(i)]
            else:
                k = min(i, rng.choice([2, 2, 3]))
                bs = sorted(rng.sample(range(i), k), reverse=rng.random() < 0.5)
                # a direct base must not be an ancestor of another direct base placed later
            bases.append(bs)
        if _mro_ok(bases):
            break
    classes = []
    for i, bs in enumerate(bases):
        decl = rng.choice(DECLS)
        classes.append(dict(
            bases=bs,
            prio=rng.choice(PRIOS) if rng.random() < 0.5 else None,
            decl=decl,
            rename=bool(decl) and rng.random() < 0.4,
            # processors hostile to == (the world must go by identity / exact type) and falsy
            eq=rng.choice([None, None, None, None, None, None, None, 'true', 'false', 'class']),
            falsy=rng.choice([None, None, None, None, None, 'bool', 'len'])))
    ni = rng.randint(1, 9)
    insts = []
    for _ in range(ni):
        insts.append(dict(cls=rng.randrange(len(classes)),
                          iprio=rng.choice(PRIOS) if rng.random() < 0.3 else None))
    # processor bodies that change the processor tables while the frame runs
    if rng.random() < 0.5:
        for d in rng.sample(insts, min(len(insts), rng.randint(1, 3))):
            sc = []
            for _ in range(rng.randint(1, 3)):
                r = rng.random()
                if r < 0.55:
                    sc.append(['add', rng.randrange(ni),
                               rng.choice(PRIOS) if rng.random() < 0.75 else None])
                elif r < 0.85:
                    sc.append(['remove', rng.randrange(len(classes))])
                else:
                    sc.append(['get', rng.randrange(len(classes))])
            d['script'] = sc
    ops = []
    nops = rng.randint(1, 60 if big else 28)
    burst = rng.choice([0, 0, 2, 3, 4])
    for _ in range(nops):
        r = rng.random()
        if r < 0.50 or len(ops) < burst:
            ops.append(['add', rng.randrange(ni),
                        rng.choice(PRIOS) if rng.random() < 0.6 else None])
        elif r < 0.61:
            ops.append(['remove', rng.randrange(len(classes))])
        elif r < 0.68:
            ops.append(['get', rng.randrange(len(classes))])
        elif r < 0.88:
            ops.append(['process', rng.choice(DTS)])
        else:
            ops.append(['enable', rng.random() < 0.6])
    return dict(classes=classes, insts=insts, ops=ops)


def gen(rng, tier):
    n = {'quick': 420, 'thorough': 4500, 'search': 300}[tier]
    return [gen_case(rng, big=(tier == 'thorough' and i % 10 == 0)) for i in range(n)]


# ------------------------------------------------------------ implementation
def hostile_ns(eq, falsy):
    """class attributes of a processor that is hostile to == and to truth tests"""
    ns = {}
    if eq == 'true':
        ns['__eq__'] = lambda self, other: True
        ns['__ne__'] = lambda self, other: False
    elif eq == 'false':
        ns['__eq__'] = lambda self, other: False
        ns['__ne__'] = lambda self, other: False
    elif eq == 'class':
        ns['__eq__'] = lambda self, other: type(self) is type(other)
    if eq:
        ns['__hash__'] = object.__hash__
    if falsy == 'bool':
        ns['__bool__'] = lambda self: False
    elif falsy == 'len':
        ns['__len__'] = lambda self: 0
    return ns


def build(case, desper, log, ctx=None):
    """The processor classes and instances of a case, as real Python objects.

    Every callback first performs re-entrant read-only queries on the world
    (processors, get_processor of every class of the case); the results are
    discarded, an exception raised by one of them is logged as an entry the
    model rejects."""
    ctx = ctx if ctx is not None else {}

    def look(self):
        w = ctx.get('world')
        if w is None:
            return
        try:
            tuple(w.processors)
            for cls in ctx.get('classes', ()):
                w.get_processor(cls)
        except Exception:
            log.append(['bad', self.serial])

    def process(self, dt=1):
        look(self)
        body = dict(pid=self.serial, dt=dt, acts=[])
        ctx.setdefault('frame', []).append(body)
        for a in self.script:
            body['acts'].append(ctx['perform'](a))
        look(self)

    def cb(kind):
        def f(self, *args):
            look(self)
            log.append([kind, self.serial] + (['args'] if args else []))
        return f

    root_base = desper.Processor
    classes = []
    for i, c in enumerate(case['classes']):
        ns = {'process': process, 'serial': -1,
              'on_add': cb('add'), 'on_remove': cb('rm'), 'on_other': cb('other'),
              'added': cb('add'), 'removed': cb('rm'), 'othered': cb('other')}
        if c['prio'] is not None:
            ns['priority'] = c['prio']
        ns.update(hostile_ns(c.get('eq'), c.get('falsy')))
        bases = tuple(classes[j] for j in c['bases']) or (root_base,)
        cls = type('P%d' % i, bases, ns)
        if c['decl']:
            names = {'add': ('on_add', 'added'), 'rm': ('on_remove', 'removed'),
                     'other': ('on_other', 'othered')}
            if c['rename']:
                cls = desper.event_handler(**{names[d][0]: names[d][1] for d in c['decl']})(cls)
            else:
                cls = desper.event_handler(*[names[d][0] for d in c['decl']])(cls)
        classes.append(cls)
    insts = []
    for k, d in enumerate(case['insts']):
        p = classes[d['cls']]()
        p.serial = k
        p.script = d.get('script', [])
        if d['iprio'] is not None:
            p.priority = d['iprio']
        insts.append(p)
    return classes, insts


def exn_code(ex):
    if isinstance(ex, KeyError):
        return 1
    if isinstance(ex, AssertionError):
        return 2
    return 3


def run(case):
    import desper
    log = []
    ctx = {}
    classes, insts = build(case, desper, log, ctx)
    ctx['classes'] = classes
    ident = {id(p): k for k, p in enumerate(insts)}
    # input facts, as Python reports them (inheritance is the language's)
    facts = []
    for p in insts:
        evs = getattr(p, '__events__', None)
        facts.append([hasattr(p, '__events__'), bool(evs) and 'on_add' in evs,
                      bool(evs) and 'on_remove' in evs])
    hier = [[j for j, cj in enumerate(classes) if issubclass(ci, cj)] for ci in classes]
    w = desper.World()
    ctx['world'] = w

    def perform(o):
        """one add / remove / get / enable, at top level or from inside a processor body"""
        n0 = len(log)
        exn, ret, flag, cur = 0, None, True, 0
        try:
            if o[0] == 'add':
                p = insts[o[1]]
                cur = p.priority
                if o[2] is None:
                    w.add_processor(p)
                else:
                    w.add_processor(p, o[2])
                flag = p.world is w
            elif o[0] == 'remove':
                r = w.remove_processor(classes[o[1]])
                ret = None if r is None else ident.get(id(r), -1)
            elif o[0] == 'get':
                r = w.get_processor(classes[o[1]])
                ret = None if r is None else ident.get(id(r), -1)
            elif o[0] == 'enable':
                w.dispatch_enabled = o[1]
        except Exception as ex:
            exn = exn_code(ex)
        procs = [ident.get(id(p), -1) for p in w.processors]
        mine = [list(e) for e in log[n0:]]
        del log[n0:]
        return dict(op=list(o), exn=exn, ret=ret, log=mine, procs=procs, flag=bool(flag), cur=cur)
    ctx['perform'] = perform

    out = []
    for o in case['ops']:
        del log[:]
        if o[0] == 'process':
            ctx['frame'] = []
            exn = 0
            try:
                w.process(o[1] / 8)
            except Exception as ex:
                exn = exn_code(ex)
            procs = [ident.get(id(p), -1) for p in w.processors]
            out.append(dict(exn=exn, ret=None, log=[list(e) for e in log], procs=procs,
                            flag=True, cur=0, bodies=ctx['frame']))
        else:
            ob = perform(o)
            del ob['op']
            out.append(ob)
    return dict(obs=out, facts=facts, hier=hier)


# ------------------------------------------------------------------ encoding
def enc_ev(e):
    if e[0] == 'add' and len(e) == 2:
        return '(EAdd %s)' % z(e[1])
    if e[0] == 'rm' and len(e) == 2:
        return '(ERemove %s)' % z(e[1])
    if e[0] == 'run':
        d8 = e[2] * 8
        try:
            ok = d8 == int(d8)
        except (TypeError, ValueError, OverflowError):
            ok = False
        return '(ERun %s %s)' % (z(e[1]), z(int(d8)) if ok else '(-7777)')
    return '(ERun (-1) (-1))'         # a callback nobody should have called / wrong arguments


BAD = ('{| c_hier := []; c_insts := []; c_trace := '
       '[Step (OEnable true) (Build_obs 9 None [] [] false)] |}')


def d8(dt):
    v = dt * 8
    try:
        return z(int(v)) if v == int(v) else '(-7777)'
    except (TypeError, ValueError, OverflowError):
        return '(-7777)'


def enc_op(o, cur):
    if o[0] == 'add':
        if not isinstance(cur, int) or isinstance(cur, bool):
            cur = -7777
        return '(OAdd %s %s %s)' % (z(o[1]), opt(None if o[2] is None else z(o[2])), z(cur))
    if o[0] == 'remove':
        return '(ORemove %s)' % z(o[1])
    if o[0] == 'get':
        return '(OGet %s)' % z(o[1])
    return '(OEnable %s)' % b(o[1])


def enc_obs(ob):
    return '(Build_obs %s %s %s %s %s)' % (
        z(ob['exn']), opt(None if ob['ret'] is None else z(ob['ret'])),
        lst([enc_ev(e) for e in ob['log']]), lst([z(p) for p in ob['procs']]), b(ob['flag']))


def encode(case, trace):
    if 'obs' not in trace:              # hang / crash: an unacceptable trace
        return BAD
    hier = lst(['(%s, %s)' % (z(i), lst([z(j) for j in anc]))
                for i, anc in enumerate(trace['hier'])])
    insts = lst(['(%s, Build_inst %s %s %s %s)' % (z(k), z(d['cls']), b(f[0]), b(f[1]), b(f[2]))
                 for k, (d, f) in enumerate(zip(case['insts'], trace['facts']))])
    items = []
    for o, ob in zip(case['ops'], trace['obs']):
        if o[0] == 'process':
            bodies = lst(['(Build_body %s %s %s)' % (
                z(bd['pid']), d8(bd['dt']),
                lst(['(%s, %s)' % (enc_op(a['op'], a['cur']), enc_obs(a)) for a in bd['acts']]))
                for bd in ob.get('bodies', [])])
            items.append('(Frame %s %s %s)' % (z(o[1]), bodies, enc_obs(ob)))
        else:
            items.append('(Step %s %s)' % (enc_op(o, ob['cur']), enc_obs(ob)))
    return '{| c_hier := %s; c_insts := %s; c_trace := %s |}' % (hier, insts, lst(items))


# ------------------------------------------------------------------ evidence
def nontrivial(case, trace):
    if 'obs' not in trace:
        return False
    changes = sum(1 for o in case['ops'] if o[0] in ('add', 'remove'))
    ran = max([len(ob.get('bodies', [])) for o, ob in zip(case['ops'], trace['obs'])
               if o[0] == 'process'] or [0])
    return changes >= 3 and ran >= 2


def stats(cases, traces):
    ops, d = {}, dict(explicit_zero=0, explicit_negative=0, explicit_none=0, replaced=0,
                      ties_in_a_frame=0, frames_with_2plus=0, add_while_disabled=0,
                      remove_while_disabled=0, nonexact_answers=0, none_answers=0,
                      releases_with_callbacks=0, instance_level_priority=0,
                      class_level_priority=0, diamonds=0, frames_with_mutating_bodies=0,
                      frames_where_a_processor_lost_its_turn=0,
                      frames_where_a_processor_joined=0)
    for c, t in zip(cases, traces):
        if 'obs' not in t:
            continue
        if any(len(k['bases']) > 1 for k in c['classes']):
            d['diamonds'] += 1
        enabled = True
        prio = {}
        before = None
        for o, ob in zip(c['ops'], t['obs']):
            ops[o[0]] = ops.get(o[0], 0) + 1
            start, before = before, ob['procs']
            if o[0] == 'add':
                if o[2] is None:
                    d['explicit_none'] += 1
                    ins = c['insts'][o[1]]
                    if ins['iprio'] is not None:
                        d['instance_level_priority'] += 1
                    elif c['classes'][ins['cls']]['prio'] is not None:
                        d['class_level_priority'] += 1
                elif o[2] == 0:
                    d['explicit_zero'] += 1
                elif o[2] < 0:
                    d['explicit_negative'] += 1
                prio[o[1]] = ob['cur'] if o[2] is None else o[2]
                if any(e[0] == 'rm' for e in ob['log']):
                    d['replaced'] += 1
                if not enabled:
                    d['add_while_disabled'] += 1
            elif o[0] in ('remove', 'get'):
                if ob['ret'] is None:
                    d['none_answers'] += 1
                elif c['insts'][ob['ret']]['cls'] != o[1]:
                    d['nonexact_answers'] += 1
                if o[0] == 'remove' and not enabled:
                    d['remove_while_disabled'] += 1
            elif o[0] == 'process':
                bodies = ob.get('bodies', [])
                if any(bd['acts'] for bd in bodies):
                    d['frames_with_mutating_bodies'] += 1
                    ran = [bd['pid'] for bd in bodies]
                    if start is not None and len(ran) < len(start):
                        d['frames_where_a_processor_lost_its_turn'] += 1
                    if any(a['op'][0] == 'add' and a['op'][1] not in (start or [])
                           for bd in bodies for a in bd['acts']):
                        d['frames_where_a_processor_joined'] += 1
                    for bd in bodies:
                        for a in bd['acts']:
                            if a['op'][0] == 'add':
                                prio[a['op'][1]] = a['cur'] if a['op'][2] is None else a['op'][2]
                ps = [prio.get(p) for p in ob['procs']]
                if len(ps) >= 2:
                    d['frames_with_2plus'] += 1
                if len(set(ps)) < len(ps):
                    d['ties_in_a_frame'] += 1
            elif o[0] == 'enable':
                if o[1] and ob['log']:
                    d['releases_with_callbacks'] += 1
                enabled = o[1]
    d['operations'] = ops
    return d


def mutate(case, rng):
    """Neighbourhood of a rejected case: change one priority / insert a frame."""
    for _ in range(200):
        c = dict(case)
        ops = [list(o) for o in case['ops']]
        if not ops:
            break
        i = rng.randrange(len(ops))
        r = rng.random()
        if r < 0.4 and ops[i][0] == 'add':
            ops[i][2] = rng.choice(PRIOS + [None])
        elif r < 0.7:
            ops.insert(i, ['process', rng.choice(DTS)])
        else:
            ops.insert(i, ['add', rng.randrange(len(case['insts'])), rng.choice(PRIOS)])
        c['ops'] = ops
        yield c


def shrink(case):
    """Smaller cases: fewer ops first, then unused instances and classes."""
    from harness.core import default_shrink
    yield from default_shrink(case)
    ops, insts, classes = case['ops'], case['insts'], case['classes']
    used = {o[1] for o in ops if o[0] == 'add'}
    for k in range(len(insts) - 1, -1, -1):
        if k not in used and len(insts) > 1:
            c = dict(case)
            c['insts'] = insts[:k] + insts[k + 1:]
            c['ops'] = [[o[0], o[1] - 1, o[2]] if o[0] == 'add' and o[1] > k else o for o in ops]
            yield c
    last = len(classes) - 1
    if last > 0 and not any(i['cls'] == last for i in insts) \
            and not any(o[0] in ('remove', 'get') and o[1] == last for o in ops):
        c = dict(case)
        c['classes'] = classes[:-1]
        yield c
    for o in ops:                      # plain values
        if o[0] == 'add' and o[2] not in (None, 0):
            c = dict(case)
            c['ops'] = [[p[0], p[1], 0] if p is o else p for p in ops]
            yield c
