"""C14 - SimpleLoop feeds exact time deltas and stops cleanly on Quit."""
from harness.loop_common import (gen, run, shrink, mutate, nontrivial, stats)  # noqa: F401
from harness.loop_common import encode_r as encode  # noqa: F401

ID = 'C14'
COQ_MODULE = 'Desper.Loop.R14Model'
CASE_TYPE = 'C14_case'
VERDICT = 'C14_verdict'
PROPS_FILE = 'theories/Props/C14.v'
THEOREM = 'C14_exact_dt'
RULE = ('one SimpleLoop with a scripted time function (dyadic readings, eighths), 1-4 '
        'WorldHandle doubles with 1-3 scripted processors and 1-3 coroutines each; 2-6 operations: '
        'loop.switch from outside and start() calls of 0-12 frames whose scripts are '
        'normal / Quit / quit_loop(default|current) / switch() / bare SwitchWorld / another '
        'exception, issued by any processor position from the processor, an event callback '
        'or a coroutine, plus events poked at other worlds; the start ends by the frame '
        'script or by the time function raising Quit / another exception; restarts of the '
        'same loop; non-trivial = at least 3 frames and one switch')
TRUSTED = [
    'Coq 8.16.1 kernel + vm_compute (evaluation of C14_verdict on the observed logs)',
    'hand-written model Loop/Model.v tied to /repo by this correspondence run (sampled)',
    'harness doubles: scripted time function, WorldHandle subclasses, logging listener '
    'component and processors; world instances identified by load order',
    'binary64 subtraction of the dyadic readings fed is exact (dt*8 is checked integral)',
]
ASSUMPTIONS = ['the listener callbacks act only through the scripted one-shot reactions',
               'poke callbacks only log']
CASE_TIMEOUT = 5
