import os
import sys
import traceback

from harness import core


def main(argv):
    if len(argv) >= 2 and argv[0] == 'replay':
        return core.replay(argv[1], int(os.environ.get('VERIF_SEED', '0') or 0))
    if len(argv) < 1:
        print('usage: check <Cxx> [quick|thorough] | check replay <file>')
        return 2
    pid = argv[0].upper()
    tier = argv[1] if len(argv) > 1 else os.environ.get('VERIF_TIER', 'quick')
    if tier not in ('quick', 'thorough'):
        tier = 'quick'
    seed = int(os.environ.get('VERIF_SEED', '0') or 0)
    try:
        return core.check(pid, tier, seed)
    except core.Internal as ex:
        print('INTERNAL-ERROR (machinery, not a violation): %s' % ex, file=sys.stderr)
        return 2
    except Exception:
        traceback.print_exc()
        return 2


if __name__ == '__main__':
    sys.exit(main(sys.argv[1:]))
